#!/usr/bin/env python3
"""Regenerate MANIFEST.json from lib/claims.json (one entry per claimed property)."""
import json, os, subprocess
ROOT = os.path.dirname(os.path.dirname(os.path.abspath(__file__)))
props = [json.loads(l) for l in open(os.path.join(ROOT, 'properties.jsonl'))]
claims = json.load(open(os.path.join(ROOT, 'lib', 'claims.json')))
hooks = subprocess.run(['git', '-C', '/repo', 'log', '--format=%h %s'], capture_output=True, text=True).stdout.splitlines()
hook_commits = [l.split(' ')[0] for l in hooks if l.split(' ', 1)[1].startswith('verif-hooks')]
ids = [p['id'] for p in props]
claimed = [i for i in ids if i in claims['checks']]
m = {
    "version": 1,
    "setup_cmd": "./setup.sh",
    "hooks": {
        "guard": "cargo feature verif-hooks (saphyr-parser/verif-hooks, saphyr/verif-hooks)",
        "enable": "the harness crate /verif/harness depends on /repo/parser and /repo/saphyr by path with features=[\"verif-hooks\"]; cargo rebuilds it from /repo's working tree on every check",
        "baseline_off_cmd": "cd /repo && cargo test --workspace --no-fail-fast --offline",
        "source_commits": hook_commits,
        "add_only": True,
    },
    "engines": [
        {"name": "lean-model", "path": "lean", "serves_properties": claimed,
         "kind_free_text": "Lean 4 lake project: executable model of scanner/parser/loader/resolver/emitter, specifications, theorems (SaphyrModel/Props), line-protocol driver saphyr_model"},
        {"name": "harness", "path": "harness", "serves_properties": claimed,
         "kind_free_text": "Rust binary impl_run executing the real saphyr code (hooks on) for the same line protocol"},
        {"name": "orchestrator", "path": "check", "serves_properties": claimed,
         "kind_free_text": "Python: proof audit (#print axioms), input generation, model-vs-implementation diff, oracle evaluation, verdict, evidence"},
    ],
    "checks": [],
    "not_applicable": [],
    "notes": claims.get('notes', ''),
}
for i in ids:
    if i in claims['checks']:
        c = claims['checks'][i]
        m['checks'].append({
            "property_id": i,
            "quick_cmd": f"./check {i} --tier quick",
            "thorough_cmd": f"./check {i} --tier thorough",
            "evidence_file": f"evidence/{i}.json",
            "replay_cmd_template": f"./check {i} --replay {{path}}",
            "engine": "lean-model",
            "level_claimed": {"category": "proof", "text": c['text'], "design_ref": c.get('design_ref', 'DESIGN.md §7')},
            "level_note": c['note'],
            "technique": c['technique'],
        })
    else:
        m['not_applicable'].append({"property_id": i, "reason": claims.get('unclaimed', {}).get(i, "no check registered yet: the model for this property is still under construction in this session")})
json.dump(m, open(os.path.join(ROOT, 'MANIFEST.json'), 'w'), indent=1)
print('claimed', claimed)
