#!/usr/bin/env python3
"""Apply a seeded change to /repo, run checks against it, undo it.
usage: lib/seedtest.py <seeded/ID dir or patch file> [tier] [Cxx ...]   (default: the property in meta.json, else all)"""
import json, os, subprocess, sys
ROOT = os.path.dirname(os.path.dirname(os.path.abspath(__file__)))
arg = sys.argv[1]
patch = arg if arg.endswith('.diff') else os.path.join(arg, 'patch.diff')
tier = sys.argv[2] if len(sys.argv) > 2 and sys.argv[2] in ('quick', 'thorough') else 'quick'
props = [a for a in sys.argv[2:] if a.startswith('C')]
if not props:
    meta = os.path.join(os.path.dirname(patch), 'meta.json')
    props = [json.load(open(meta))['property']] if os.path.exists(meta) else [f'C{i:02d}' for i in range(1, 21)]
st = subprocess.run(['git', '-C', '/repo', 'status', '--porcelain'], capture_output=True, text=True).stdout.strip()
if st:
    print('refusing: /repo has uncommitted changes:\n' + st); sys.exit(2)
r = subprocess.run(['git', '-C', '/repo', 'apply', os.path.abspath(patch)], capture_output=True, text=True)
if r.returncode != 0:
    print('patch does not apply:', r.stderr); sys.exit(2)
results = {}
try:
    for p in props:
        q = subprocess.run([os.path.join(ROOT, 'check'), p, '--tier', tier], capture_output=True, text=True, cwd=ROOT)
        lines = [l for l in q.stdout.splitlines() if l.startswith('VIOLATION') or l.startswith(p + ' tier')]
        results[p] = (q.returncode, lines)
        print(p, 'rc', q.returncode, ' | '.join(l[:160] for l in lines[:2] + lines[-1:]))
finally:
    subprocess.run(['git', '-C', '/repo', 'checkout', '--', '.'])
    # rebuild the harness on the clean tree so later runs start from the unchanged code
    subprocess.run(['cargo', 'build', '--release', '--offline'], cwd=os.path.join(ROOT, 'harness'), capture_output=True, env=dict(os.environ, CARGO_NET_OFFLINE='true'))
caught = [p for p, (rc, _) in results.items() if rc != 0]
print('CAUGHT BY:', caught if caught else 'nothing')
