#!/usr/bin/env python3
"""Generate the relational (C10) lemmas for the scanner model functions: lean/SaphyrModel/Proofs/Rel/Gen*.lean.
One lemma per function, proved by `unfold f; rel` (loops: double induction on the two fuels)."""
import re, sys, os
ROOT = os.path.dirname(os.path.dirname(os.path.dirname(os.path.abspath(__file__))))
SC = os.path.join(ROOT, 'lean', 'SaphyrModel', 'Sc')
SKIP = {'mkSc', 'liftI', 'err', 'getMark', 'advance', 'pushTok', 'lookahead', 'peek', 'peekNth', 'lookCh', 'bufmaxlen', 'bufIsEmpty',
        'skipBlank', 'skipNonBlank', 'skipNNonBlank', 'skipNl', 'skipLinebreak', 'skipBreak', 'allowSimpleKey', 'disallowSimpleKey',
        'SkipTabs.foundTabs', 'SkipTabs.hasValidYamlWs', 'namedEscape', 'scanAll', 'blockEmptyContents', 'hexLoop', 'insertToken', 'tokenPos', 'isWithinBlock',
        # back-end specific fast paths: bespoke proofs (Rel/Bespoke.lean)
        'skipBlockScalarIndentSpaces', 'skipBlockScalarIndentBig', 'skipBlockScalarIndent', 'contentLineBuffered', 'contentLineRaw',
        'scanBlockScalarContentLine', 'plainChunk', 'plainChunks'}
PURE = {'dropNonBlockTop', 'clearPossibleKeys', 'pushImplState', 'popExplicitMapping', 'markExplicitKey'}
RAW = set()     # written as `fun s => …`, no input access


def parse(path):
    src = open(path).read()
    out = []
    for m in re.finditer(r'^def ([A-Za-z0-9_.]+)((?: \([^)]*\))*) : ([^\n]*?)(?: :=.*)?$', src, re.M):
        name, params, ty = m.group(1), m.group(2), m.group(3).strip()
        ps = re.findall(r'\(([^:()]+) : ([^)]+)\)', params)
        plist = []
        for names, t in ps:
            for n in names.split():
                plist.append((n, t.strip()))
        out.append((name, plist, ty))
    return out


def binder(ps):
    return ' '.join(f'({n} : {t})' for n, t in ps)


def gen(files):
    lines = []
    for f in files:
        for name, ps, ty in parse(os.path.join(SC, f)):
            if name in SKIP:
                continue
            args = ' '.join(n for n, _ in ps)
            us = ' '.join('_' for _ in ps)
            if name in PURE:
                lines.append(f"theorem {name}_inp {binder([p for p in ps if p[1] != 'Sc'])} (s : Sc) (j : In) :\n"
                             f"    {name} {' '.join(n if t != 'Sc' else '{ s with inp := j }' for n, t in ps)} = {{ {name} {' '.join(n if t != 'Sc' else 's' for n, t in ps)} with inp := j }} := by\n"
                             f"  unfold {name}; cases s; first | rfl | (dsimp only; (repeat' split) <;> rfl)")
                k = len([p for p in ps if p[1] != 'Sc'])
                lines.append(f"macro_rules | `(tactic| rel_close) => `(tactic| exact RelS.modS _ ({name}_inp {' '.join('_' for _ in range(k))}))")
                continue
            if name in RAW:
                lines.append(f"theorem RelS.{name} {binder(ps)} : RelS ({name} {args}) ({name} {args}) := by\n"
                             f"  apply RelS.noInp\n  · intro s j; unfold Sc.{name}; dsimp only; (repeat' split) <;> first | rfl | simp_all\n"
                             f"  · intro s a s' h; unfold Sc.{name} at h; (repeat' split at h) <;> first | (cases h; rfl) | (simp at h)")
                lines.append(f"macro_rules | `(tactic| rel_close) => `(tactic| exact RelS.{name} {us})")
                continue
            scparam = [p for p in ps if p[1] == 'Sc']
            if ty.startswith('Nat →'):
                # fuel loop: remaining arrow arguments
                rest = [x.strip() for x in ty.split('→')]
                posts = rest[1:-1]
                pnames = [f'x{i}' for i in range(len(posts))]
                pb = ' '.join(f'({n} : {t})' for n, t in zip(pnames, posts))
                pa = ' '.join(pnames)
                allb = f'∀ (f1 f2 : Nat) {pb}, ' if posts else '∀ (f1 f2 : Nat), '
                intro_post = ' '.join(pnames)
                lines.append(f"set_option maxHeartbeats 4000000 in\ntheorem RelS.{name} {binder(ps)} : {allb}RelS ({name} {args} f1 {pa}) ({name} {args} f2 {pa}) := by\n"
                             f"  intro f1\n  induction f1 with\n"
                             f"  | zero => intro f2 {intro_post}; unfold Sc.{name}; exact RelS.panicL _ _\n"
                             f"  | succ n1 ih =>\n    intro f2 {intro_post}\n    cases f2 with\n"
                             f"    | zero => unfold Sc.{name}; exact RelS.panicR _ _\n"
                             f"    | succ n2 => unfold Sc.{name}; rel")
                lines.append(f"macro_rules | `(tactic| rel_close) => `(tactic| exact RelS.{name} {us} _ _ {' '.join('_' for _ in posts)})")
                continue
            if scparam:
                oth = [p for p in ps if p[1] != 'Sc']
                a1 = ' '.join(n if t != 'Sc' else 's' for n, t in ps)
                a2 = ' '.join(n if t != 'Sc' else '{ s with inp := j }' for n, t in ps)
                lines.append(f"theorem RelS.{name} {binder(oth)} (s : Sc) (j : In) : RelS ({name} {a1}) ({name} {a2}) := by\n"
                             f"  unfold Sc.{name}; dsimp only; rel")
                lines.append(f"macro_rules | `(tactic| rel_close) => `(tactic| exact RelS.{name} {' '.join('_' for _ in oth)} _ _)")
                continue
            lines.append(f"set_option maxHeartbeats 4000000 in\ntheorem RelS.{name} {binder(ps)} : RelS ({name} {args}) ({name} {args}) := by\n  unfold Sc.{name}; rel")
            lines.append(f"macro_rules | `(tactic| rel_close) => `(tactic| exact RelS.{name} {us})")
    return lines


if __name__ == '__main__':
    which = sys.argv[1]
    files = {'State': ['State.lean'], 'Scan1': ['Scan1.lean'], 'Scan2': ['Scan2.lean'], 'Scan3': ['Scan3.lean']}[which]
    print('\n'.join(gen(files)))
