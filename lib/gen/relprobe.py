#!/usr/bin/env python3
"""Compile the generated relational lemmas of one model file one by one (each with a time limit), keep the ones
that check, print the ones that do not. usage: relprobe.py <State|Scan1|Scan2|Scan3> <out.lean> [import …]"""
import subprocess, re, os, sys, time
sys.path.insert(0, os.path.dirname(os.path.abspath(__file__)))
import relgen
which, outp = sys.argv[1], sys.argv[2]
imports = sys.argv[3:] or ['SaphyrModel.Proofs.Rel.Prims']
files = {'State': ['State.lean'], 'Scan1': ['Scan1.lean'], 'Scan2': ['Scan2.lean'], 'Scan3': ['Scan3.lean']}[which]
lines = relgen.gen(files)
hdr = ''.join(f'import {i}\n' for i in imports) + """set_option linter.unusedSimpArgs false
set_option linter.unusedVariables false
namespace SaphyrModel.C10
open SaphyrModel SaphyrModel.Sc

"""
extra = os.environ.get('REL_EXTRA', '')
if extra:
    hdr += open(extra).read() + '\n'
items = []
i = 0
while i < len(lines):
    if i + 1 < len(lines) and lines[i + 1].startswith('macro_rules'):
        items.append(lines[i] + '\n' + lines[i + 1]); i += 2
    else:
        items.append(lines[i]); i += 1
good, bad = [], []
for it in items:
    name = re.search(r'theorem (\S+)', it).group(1)
    src = hdr + '\n'.join(good) + '\n' + it + '\nend SaphyrModel.C10\n'
    open('/tmp/relprobe_%s.lean' % which, 'w').write(src)
    t0 = time.time()
    try:
        p = subprocess.run(['lake', 'env', 'lean', '/tmp/relprobe_%s.lean' % which], capture_output=True, text=True, timeout=int(os.environ.get('REL_TIMEOUT', '90')))
        out = p.stdout + p.stderr
        st = 'OK' if 'error' not in out else 'ERR'
    except subprocess.TimeoutExpired:
        st, out = 'TIMEOUT', ''
    print(name, st, round(time.time() - t0, 1), flush=True)
    if st == 'OK':
        good.append(it)
    else:
        bad.append((name, it, out))
        print('\n'.join(out.splitlines()[:25]))
open(outp, 'w').write(hdr + '\n'.join(good) + '\n\nend SaphyrModel.C10\n')
print('kept', len(good), 'failed', [b[0] for b in bad])
