"""Shared machinery of the /verif checks: transport, PRNG, runners, generators."""
import hashlib, json, os, subprocess, sys, time, itertools
from concurrent.futures import ThreadPoolExecutor

ROOT = os.path.dirname(os.path.dirname(os.path.abspath(__file__)))
IMPL = os.path.join(ROOT, 'harness', 'target', 'release', 'impl_run')
MODEL = os.path.join(ROOT, 'lean', '.lake', 'build', 'bin', 'saphyr_model')
NPROC = int(os.environ.get('VERIF_JOBS', '16'))


def hx(s):
    return ''.join('%06x' % ord(c) for c in s)


def unhx(h):
    return ''.join(chr(int(h[i:i + 6], 16)) for i in range(0, len(h), 6))


def hxb(b):
    return ''.join('%02x' % x for x in b)


class Rng:
    """SplitMix64; every random choice of a check derives from one state seeded by VERIF_SEED."""
    M = (1 << 64) - 1

    def __init__(self, seed):
        self.s = seed & self.M

    def next(self):
        self.s = (self.s + 0x9E3779B97F4A7C15) & self.M
        z = self.s
        z = ((z ^ (z >> 30)) * 0xBF58476D1CE4E5B9) & self.M
        z = ((z ^ (z >> 27)) * 0x94D049BB133111EB) & self.M
        return z ^ (z >> 31)

    def below(self, n):
        return self.next() % n

    def choice(self, xs):
        return xs[self.below(len(xs))]

    def randint(self, a, b):
        return a + self.below(b - a + 1)

    def chance(self, num, den):
        return self.below(den) < num

    def fork(self, tag):
        h = int.from_bytes(hashlib.sha256(f'{self.s}:{tag}'.encode()).digest()[:8], 'big')
        return Rng(h)


def _run_once(exe, lines):
    """one process over `lines`: (answers so far, status) where status is None when all were answered"""
    data = ('\n'.join(lines) + '\n').encode()
    # a runaway implementation must not take the machine down: address space and wall clock are bounded
    # (a killed or aborted process is reported as CRASH and is itself a finding for C01)
    def limits():
        import resource
        resource.setrlimit(resource.RLIMIT_AS, (3 << 30, 3 << 30))
    try:
        p = subprocess.run([exe], input=data, capture_output=True, preexec_fn=limits if exe == IMPL else None,
                           timeout=(20 if len(lines) == 1 else 45 + len(lines) // 40))
        stdout, rc = p.stdout, p.returncode
    except subprocess.TimeoutExpired as e:
        stdout, rc = e.stdout or b'', 'timeout'
    text = stdout.decode('utf8', 'replace')
    out = text.split('\n')
    if out and out[-1] == '':
        out.pop()
    elif out:
        out.pop()           # a partial last line
    if len(out) >= len(lines):
        return out[:len(lines)], None
    return out, rc


def _run_shard(exe, lines):
    """answers for `lines`, in order. The executables answer line by line (flushed), so when a process dies or is
    stopped for taking too long the first unanswered request is the one that did it: it is marked CRASH and the rest
    of the shard goes to a fresh process."""
    res = []
    rest = list(lines)
    crashes = 0
    while rest:
        out, rc = _run_once(exe, rest)
        res.extend(out)
        if rc is None:
            break
        res.append(f'CRASH rc={rc}')
        rest = rest[len(out) + 1:]
        crashes += 1
        if crashes > 12:
            res.extend(['UNANSWERED'] * len(rest))
            break
    return res


def run_exe(exe, lines, shards=NPROC):
    """Run a line-protocol executable over `lines`, sharded over processes; order is preserved."""
    n = len(lines)
    if n == 0:
        return []
    k = max(1, min(shards, (n + 199) // 200))
    chunks = [lines[i * n // k:(i + 1) * n // k] for i in range(k)]
    with ThreadPoolExecutor(max_workers=k) as ex:
        outs = list(ex.map(lambda c: _run_shard(exe, c), chunks))
    res = []
    for c, o in zip(chunks, outs):
        res.extend(o)
    return res


def run_impl(lines):
    return run_exe(IMPL, lines)


def run_model(lines):
    return run_exe(MODEL, lines)


# ---------------------------------------------------------------------------------------------
# corpus and generators

def load_suite():
    out = []
    with open(os.path.join(ROOT, 'corpus', 'suite.jsonl'), encoding='utf8') as f:
        for ln in f:
            out.append(json.loads(ln))
    return out


def load_regressions():
    p = os.path.join(ROOT, 'corpus', 'regressions.jsonl')
    out = []
    if os.path.exists(p):
        with open(p, encoding='utf8') as f:
            for ln in f:
                ln = ln.strip()
                if ln:
                    out.append(json.loads(ln))
    return out


ALPHA24 = ['a', '0', ' ', '\n', ':', '-', '?', '[', ']', '{', '}', ',', '#', '&', '*', '!', '|', '>', "'", '"',
           '\\', '\t', '%', '.']

SOUP = ["a", "b", " ", " ", "\n", "\n", ":", "-", "?", "[", "]", "{", "}", ",", "#", "&x", "*x", "!", "|", ">",
        "'", "\"", "\\", "\t", "%", "...", "---", "é", "0", "+", "~", "@", "`", "\u2028", "!!str", "&", "*",
        ": ", "- ", "  ", "\n  ", "|\n", ">-\n", "\"a\"", "'b'", "\\n", "\\x41", "<", "%TAG ! x\n",
        "%YAML 1.2\n", "\r\n", "\r", "\0", "\U0001D11E", "? ", "\n- ", "\n  - ", "k: v\n", "[a, b]", "{a: b}",
        "|2\n", ">+\n", "   ", "\n\n", "# c\n", "!<x>", "!e!t", "%TAG !e! x\n", "!<%41>", "!a%C3%A9",
        "\\u00e9", "\\U0001D11E", "''", "\\\n", "                   ", "\ufeff", "&a ", "*a ", "? a\n: b\n",
        "- - a\n", "k:\n  - v\n", "\"\\\n", "'\n'", "|+\n\n", "\n...\n", "\n--- ", "%FOO bar\n",
        " # é\U0001D11E\n", "\"q\" # \U0001F600 x\n", "| # \U0001D11E\n", "[ # é\n", ", # \U0001D11E\n", "- # \U0001F600\n", ": # 中\n", "... # \U0001D11E\n",
        "'s' #\U0001D11E\n", "] # é\U0001F600\n"]


def alias_docs(rng, n):
    """documents rich in anchors and aliases: self-references inside an open node, reuse after
    completion, re-definition of an anchor name, aliases as keys, across 1-2 documents"""
    out = []
    for _ in range(n):
        names = ['a', 'b']

        def node(d):
            x = rng.below(10)
            pre = ('&' + rng.choice(names) + ' ') if rng.chance(2, 5) else ''
            if d <= 0 or x < 3:
                if rng.chance(1, 2):
                    return '*' + rng.choice(names)
                return pre + rng.choice(['x', '1', '~', '"s"', 'true'])
            if x < 7:
                return pre + '[' + ', '.join(node(d - 1) for _ in range(rng.randint(0, 3))) + ']'
            items = []
            for _ in range(rng.randint(0, 3)):
                k = rng.choice(['k', 'j', '1', '*a ', '*b ', '? [x] ', '"q"', '&a kk', '&b 2'])
                items.append(f'{k}: {node(d - 1)}')
            return pre + '{' + ', '.join(items) + '}'
        docs = []
        for _ in range(rng.choice([1, 1, 2])):
            shape = rng.below(3)
            if shape == 0:
                docs.append('\n'.join('- ' + node(rng.randint(0, 3)) for _ in range(rng.randint(1, 4))) + '\n')
            elif shape == 1:
                docs.append('\n'.join(f'k{i}: ' + node(rng.randint(0, 3)) for i in range(rng.randint(1, 4))) + '\n')
            else:
                docs.append(node(rng.randint(1, 3)) + '\n')
        out.append('--- \n'.join(docs) if len(docs) > 1 and rng.chance(1, 2) else '...\n'.join(docs))
    return out


def exhaustive(alpha, maxlen):
    for n in range(0, maxlen + 1):
        for t in itertools.product(alpha, repeat=n):
            yield ''.join(t)


def soups(rng, n, maxfrag=12, vocab=SOUP):
    out = []
    for _ in range(n):
        k = rng.randint(1, maxfrag)
        out.append(''.join(rng.choice(vocab) for _ in range(k)))
    return out


LINE_FRAGS = ["a", "k: v", "k:", "- a", "-", "- k: v", "? a", ": b", "[a, b]", "{a: b}", "[", "]", "{", "}", "a,",
              "\"q\"", "'s'", "\"q", "|", ">", "|-", ">2", "&x a", "*x", "!t a", "!!int 1", "# c", "---", "...",
              "--- a", "text more", "k: [a,", "b]", "k: {a:", "b}", "\ttab", "a:\tb", "é: ü", "%YAML 1.2",
              "%TAG !e! tag:e,", "!e!x y", "? - a", "- ? a", "k: |", "k: >-", "- |", "a # c", "a: 'b", "c'", "",
              "\"q\" # \U0001D11E", "k: | # \U0001F600é", "- [a, # \U0001D11E", "'s': v # 中\U0001D11E", "... # \U0001F600", "- # \U0001D11E c", "%YAML 1.2 # \U0001D11E"]


def line_soups(rng, n, maxlines=8):
    out = []
    for _ in range(n):
        k = rng.randint(1, maxlines)
        lines = []
        for _ in range(k):
            ind = rng.choice([0, 0, 0, 1, 2, 2, 3, 4, 6])
            lines.append(' ' * ind + rng.choice(LINE_FRAGS))
        term = rng.choice(['\n', '\n', '\n', ''])
        out.append('\n'.join(lines) + term)
    return out


def boundary_inputs():
    """Inputs whose relevant length runs through every numeric threshold of the source ± 3."""
    out = []
    for n in range(1019, 1031):      # 1024-character simple-key limit
        out.append('a' * n + ': b\n')
        out.append('"' + 'a' * n + '": b\n')
        out.append('- ' + 'k' * n + ': v\n')
        out.append('[' + 'a' * n + ': b]\n')
    for ind in list(range(10, 20)) + list(range(122, 132)):   # bufmaxlen − 2 dispatch, both back-ends
        out.append('k: |\n' + ' ' * ind + 'x\n' + ' ' * ind + 'y\n')
        out.append('k: |' + str(min(ind, 9)) + '\n' + ' ' * (ind + 1) + 'x\n')
        out.append('- >\n' + ' ' * ind + 'x\n\n' + ' ' * (ind + 2) + 'y\n' + ' ' * ind + 'z\n')
        out.append('a' * ind + ' b' * 3 + '\n')
        out.append(' ' * ind + 'a: b\n')
    # deeply indented block scalars (the chunked path of skip_block_scalar_indent: indent >= bufmaxlen − 2 for
    # capacities 8, 16, 32, 64, 128) crossed with blank / short / over-long lines of every critical width
    for I in list(range(5, 11)) + list(range(13, 19)) + list(range(29, 35)) + list(range(61, 67)) + list(range(125, 131)):
        widths = sorted({0, 1, I - 2, I - 1, I, I + 1, I + 2} | {w for w in (6, 7, 8, 14, 15, 16, 17, 30, 31, 32, 62, 63, 64, 126, 127, 128) if w <= I + 2})
        for w in widths:
            for hdr in ('key: |\n', '- >\n', 'k: |+\n'):
                out.append(hdr + ' ' * I + 'a\n' + ' ' * w + '\n' + ' ' * I + 'b\n')
            out.append('key: |\n' + ' ' * I + 'a\n' + ' ' * w + '\n' + ' ' * w + '\n' + ' ' * I + 'é\n')
            out.append('key: >\n' + ' ' * w + '\n' + ' ' * I + 'a\n' + ' ' * (I + 2) + 'b\n' + ' ' * w + 'c\n')
    for n in list(range(12, 20)) + list(range(124, 132)):     # plain-scalar chunks of bufmaxlen − 1
        out.append('x' * n + '\n')
        out.append('x' * n + ': y\n')
        out.append('- ' + 'é' * n + ' z\n')
    # words straddling the look-ahead sizes with each special character at the boundary (plain, in block and flow)
    for n in (8, 16, 32, 64, 128, 256):
        for d in (-1, 0, 1):
            for c in "#:-,?!&*'\"%|>[]{}é":
                w = 'x' * (n + d) + c + 'yz'
                out.append('k: ' + w + '\n')
                out.append('[' + w + ', b]\n')
                out.append('w ' + w + ' # c\n')
    for n in range(251, 260):        # 255 flow levels
        out.append('[' * n + ']' * n)
        out.append('{a: ' * n + 'b' + '}' * n)
    for c in "0abtnvfre \"/\\N_LPxuU\tq1-":   # every escape letter
        out.append('"\\' + c + '"')
        out.append('"\\' + c + '41"')
        out.append('"\\' + c + '0041"')
        out.append('"\\' + c + '00000041"')
    for n in range(7, 13):            # 9-digit version numbers
        out.append('%YAML ' + '1' * n + '.2\n---\n')
        out.append('%YAML 1.' + '2' * n + '\n---\n')
    for h in ['41', '4', 'zz', 'D800', '110000', '0010FFFF', '00110000', 'FFFFFFFF', 'e9', '00e9']:
        out.append('"\\x' + h + '"')
        out.append('"\\u' + h + '"')
        out.append('"\\U' + h + '"')
    return out


def mutate(rng, s):
    """One random mutation of a document (byte flip, splice, indentation shift, deletion)."""
    if not s:
        return rng.choice(SOUP)
    k = rng.below(6)
    i = rng.below(len(s))
    if k == 0:
        return s[:i] + rng.choice(ALPHA24) + s[i + 1:]
    if k == 1:
        return s[:i] + rng.choice(SOUP) + s[i:]
    if k == 2:
        return s[:i] + s[i + 1:]
    if k == 3:
        lines = s.split('\n')
        j = rng.below(len(lines))
        lines[j] = ' ' * rng.randint(1, 3) + lines[j]
        return '\n'.join(lines)
    if k == 4:
        lines = s.split('\n')
        j = rng.below(len(lines))
        lines[j] = lines[j][1:] if lines[j].startswith(' ') else lines[j]
        return '\n'.join(lines)
    j = rng.below(len(s))
    a, b = min(i, j), max(i, j)
    return s[:a] + s[b:] + s[a:b]


def split_line(line):
    """`body ; tail` -> (items, tail words)."""
    if ' ; ' in line:
        body, tail = line.rsplit(' ; ', 1)
    elif line.startswith('; '):
        body, tail = '', line[2:]
    else:
        body, tail = '', line
    return (body.split(' ') if body else []), tail.split(' ')


def parse_item(it):
    """`KIND:...@i,l,c-i,l,c` -> (kindstr, (start, end)) with marks as int triples."""
    k, _, sp = it.rpartition('@')
    a, _, b = sp.partition('-')
    f = lambda m: tuple(int(x) for x in m.split(','))
    try:
        return k, (f(a), f(b))
    except ValueError:
        return it, None
