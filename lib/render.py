"""Spec-derived renderers used as generators *and* oracles: the generating abstract tree is the
expectation. Independent of the parser: written from the YAML 1.2 productions they use.

 - render_stream : random document trees under random legal layout choices            (C03, C06, C15)
 - present_scalar: a target string presented as plain / single- / double-quoted text  (C04)
 - block_cases   : block scalars (literal/folded, chomping, indentation, contexts)    (C05)
 - json_cases    : JSON values and serialisations                                      (C13)
 - damage        : damage operators that make a well-formed stream ill-formed         (C06)
"""
import itertools, json as _json

WORDS = ['a', 'b', 'key', 'v1', 'x y', 'foo', '1', '2.5', 'true', 'null', '~', '-1', 'a-b', 'q:r', 's#t', 'http://x', '1 - 2', 'a?b',
         'c*d', 'e!f', 'g&h', '[x', '}y', '"z', "it's", ' lead', 'trail ', '', 'a\nb', 'tab\there', 'é', '# no', ': c', '- d', '? e',
         'multi word text', '|', '>', '%p', '@q', '`r', ',s', ']t', '\U0001D11E', 'a: b', 'x #y', '- ', '--- x', '... y', '!t', '&a', '*a']


def plain_ok(s, flow):
    if s == '' or s != s.strip() or '\n' in s or '\t' in s:
        return False
    if s[0] in '-?:' and (len(s) == 1 or s[1] in ' \t'):
        return False
    if s[0] in ',[]{}#&*!|>\'"%@`':
        return False
    if ': ' in s or ' #' in s or s.endswith(':'):
        return False
    if s.startswith('---') or s.startswith('...'):
        return False
    if flow and any(c in s for c in ',[]{}'):
        return False
    if flow and ':' in s:
        return False
    return True


class Gen:
    def __init__(self, r):
        self.r = r
        self.anchors = []       # names of anchors already completed in the current document
        self.nanchor = 0
        self.allow_omit = True  # nodes the syntax leaves out (expected as the null scalar `~`)

    # ---- abstract trees: ('S', text) | ('Q', [..]) | ('M', [(k, v)..]) | ('A', name); props: dict(anchor=, tag=)
    def gen(self, depth):
        r = self.r
        x = r.below(100)
        if self.anchors and x < 6:
            return {'k': 'A', 'name': r.choice(self.anchors)}
        if self.allow_omit and x >= 90:
            n = {'k': 'N', 'anchor': None, 'tag': None}
            if r.chance(2, 5):
                # a node with properties but no content: still a (null) node of its own
                self.props(n)
                if not n['anchor'] and not n['tag']:
                    self.nanchor += 1
                    n['anchor'] = f'a{self.nanchor}'
                self.finish(n)
            return n
        if depth <= 0 or x < 40:
            n = {'k': 'S', 'text': r.choice(WORDS)}
        elif x < 70:
            n = {'k': 'Q', 'items': []}
            self.props(n)
            for _ in range(r.randint(0, 3)):
                n['items'].append(self.gen(depth - 1))
            self.finish(n)
            return n
        else:
            n = {'k': 'M', 'pairs': []}
            self.props(n)
            for _ in range(r.randint(0, 3)):
                k = self.gen(depth - 1) if r.chance(1, 5) else self.gen(0)
                v = self.gen(depth - 1)
                n['pairs'].append((k, v))
            self.finish(n)
            return n
        self.props(n)
        self.finish(n)
        return n

    def props(self, n):
        r = self.r
        n['anchor'] = None
        n['tag'] = None
        if r.chance(1, 8):
            self.nanchor += 1
            n['anchor'] = f'a{self.nanchor}'
        if r.chance(1, 8):
            n['tag'] = r.choice([('!', 'local'), ('tag:yaml.org,2002:', 'str'), ('!', 'x-y'), ('tag:yaml.org,2002:', 'map' if n['k'] == 'M' else 'seq' if n['k'] == 'Q' else 'str')])

    def finish(self, n):
        if n.get('anchor'):
            self.anchors.append(n['anchor'])

    # ---- presentation decisions
    def decide(self, n, flow):
        r = self.r
        if n['k'] in ('A', 'N'):
            return n
        if n['k'] == 'S':
            s = n['text']
            styles = ['D']
            if plain_ok(s, flow) and not (s == '' and False):
                styles += ['P', 'P']
            if '\n' not in s:
                styles.append('S')
            n['style'] = r.choice(styles)
            if s == '' and n['style'] == 'P':
                n['style'] = 'D'
            return n
        fl = flow or r.chance(3, 10)
        n['flow'] = fl
        if n['k'] == 'Q':
            for x in n['items']:
                self.decide(x, fl)
                if fl and x['k'] == 'M' and len(x['pairs']) == 1 and not x.get('anchor') and not x.get('tag') and self.r.chance(3, 4):
                    x['single'] = True
        else:
            for k, v in n['pairs']:
                self.decide(k, fl)
                self.decide(v, fl)
        return n

    def sp(self):
        return ' ' * self.r.choice([0, 0, 1, 1, 2])

    def propstr(self, n):
        parts = []
        if n.get('anchor'):
            parts.append('&' + n['anchor'])
        if n.get('tag'):
            h, s = n['tag']
            parts.append(('!!' + s) if h == 'tag:yaml.org,2002:' else ('!' + s))
        if len(parts) == 2 and self.r.chance(1, 2):
            parts.reverse()
        return ' '.join(parts)

    def scal(self, n):
        s, st = n['text'], n['style']
        if st == 'P':
            return s
        if st == 'S':
            return "'" + s.replace("'", "''") + "'"
        esc = {'"': '\\"', '\\': '\\\\', '\n': '\\n', '\t': '\\t'}
        return '"' + ''.join(esc.get(c, c) for c in s) + '"'

    def flow_text(self, n):
        if n['k'] == 'A':
            return '*' + n['name']
        if n['k'] == 'N':
            return self.propstr(n)
        if n['k'] == 'Q' and n.get('flow'):
            return self.flow_seq_text(n)
        p = self.propstr(n)
        pre = (p + ' ') if p else ''
        if n['k'] == 'S':
            return pre + self.scal(n)
        if n['k'] == 'Q':
            return self.flow_seq_text(n)
        items = [self.flow_pair(k, v) for k, v in n['pairs']]
        tc = ',' if items and self.r.chance(1, 5) else ''
        return pre + '{' + self.sp() + (',' + self.sp() + ' ').join(items) + tc + self.sp() + '}'

    def flow_pair(self, k, v):
        """one `key : value` entry of a flow mapping (or a single-pair mapping in a flow sequence)"""
        kt = self.flow_text(k)
        vt = self.flow_text(v)
        explicit = k['k'] not in ('S', 'N') or len(kt) > 60 or '\n' in kt or k.get('anchor') or k.get('tag') or self.r.chance(1, 8)
        if k['k'] == 'N' and kt:
            # a key that is only properties: always explicit
            return '? ' + kt + (' : ' + vt if vt or self.r.chance(1, 2) else ' ')
        if k['k'] == 'N':
            # empty key: `: v`, `? : v`, or (with an empty value too) a lone `?`
            if v['k'] == 'N' and not vt:
                return '? '             # the indicator needs its separation space (`?,` is not an indicator)
            return ('? ' if self.r.chance(1, 2) else '') + ': ' + vt
        if explicit:
            kt = '? ' + kt
        if v['k'] == 'N' and not vt:
            return kt + (' :' if self.r.chance(1, 2) else '') if explicit else kt + ' :'
        return kt + ' : ' + vt

    def flow_seq_text(self, n):
        p = self.propstr(n)
        pre = (p + ' ') if p else ''
        items = []
        for x in n['items']:
            if x['k'] == 'M' and x.get('single'):
                k, v = x['pairs'][0]
                items.append(self.flow_pair(k, v))
            elif x['k'] == 'N':
                # an entry cannot be left out of a flow sequence; `~` is the null scalar
                items.append(self.propstr(x) or '~')
            else:
                items.append(self.flow_text(x))
        tc = ',' if items and self.r.chance(1, 5) else ''
        return pre + '[' + self.sp() + (',' + self.sp() + ' ').join(items) + tc + self.sp() + ']'

    def is_flow(self, n):
        return n['k'] in ('S', 'A', 'N') or n['flow']

    def comment_lines(self, ind):
        x = self.r.below(100)
        if x < 10:
            return [' ' * ind + '# comment']
        if x < 20:
            return ['']
        if x < 25:
            return ['   ', '# c at col 0']
        return []

    def block(self, n, ind):
        """lines of node n rendered at indentation ind (first line starts at column ind)"""
        r = self.r
        if self.is_flow(n):
            return [' ' * ind + self.flow_text(n)]
        p = self.propstr(n)
        lines = []
        if n['k'] == 'Q':
            if not n['items']:
                return [' ' * ind + (p + ' ' if p else '') + '[]']
            body = self.block_seq(n, ind)
        else:
            if not n['pairs']:
                return [' ' * ind + (p + ' ' if p else '') + '{}']
            body = self.block_map(n, ind)
        if p:
            # properties of a block collection go on their own line before it
            return [' ' * ind + p] + body
        return body

    def block_seq(self, n, ind):
        r = self.r
        lines = []
        for x in n['items']:
            lines += self.comment_lines(ind)
            if x['k'] == 'N':
                px = self.propstr(x)
                lines.append(' ' * ind + '-' + (' ' + px if px else '') + (' # c' if r.chance(1, 10) else ''))
            elif self.is_flow(x):
                lines.append(' ' * ind + '- ' + self.flow_text(x) + (' # c' if r.chance(1, 10) else ''))
            elif r.chance(1, 2) and not self.propstr(x) and (x.get('items') or x.get('pairs')):
                sub = self.block(x, ind + 2)
                lines.append(' ' * ind + '- ' + sub[0][ind + 2:])
                lines += sub[1:]
            else:
                k = r.choice([1, 2, 2, 3, 4])
                lines.append(' ' * ind + '-' + (' #c' if r.chance(1, 10) else ''))
                lines += self.block(x, ind + k)
        return lines

    def block_map(self, n, ind):
        r = self.r
        lines = []
        open_key = False     # the previous entry was a `?` key whose `:` line was left out
        for k, v in n['pairs']:
            lines += self.comment_lines(ind)
            kt = self.flow_text(k) if self.is_flow(k) else None
            simple = kt is not None and len(kt) < 200 and '\n' not in kt and not (k['k'] not in ('S', 'A') and r.chance(1, 2)) and k['k'] != 'N'
            pk = self.propstr(k) if k['k'] == 'N' else ''
            pv = self.propstr(v) if v['k'] == 'N' else ''
            if k['k'] == 'N' or (v['k'] == 'N' and not simple):
                # explicit entries with a left-out key and/or value
                if k['k'] == 'N':
                    if pk:
                        lines.append(' ' * ind + '? ' + pk)
                    elif r.chance(1, 2) or (v['k'] == 'N' and not pv) or open_key:
                        # (a bare `: value` line would otherwise complete the previous `?` entry)
                        lines.append(' ' * ind + '?')
                elif self.is_flow(k):
                    lines.append(' ' * ind + '? ' + self.flow_text(k))
                else:
                    lines.append(' ' * ind + '?')
                    lines += self.block(k, ind + r.choice([1, 2, 3]))
                open_key = False
                if v['k'] == 'N':
                    if pv:
                        lines.append(' ' * ind + ': ' + pv)
                    elif r.chance(1, 2):
                        lines.append(' ' * ind + ':')
                    else:
                        open_key = True
                elif self.is_flow(v):
                    lines.append(' ' * ind + ': ' + self.flow_text(v))
                else:
                    lines.append(' ' * ind + ':')
                    lines += self.block(v, ind + r.choice([1, 2, 3]))
                continue
            open_key = False
            if simple and v['k'] == 'N':
                sep = ' :' if k['k'] == 'A' else ':'
                lines.append(' ' * ind + kt + sep + (' ' + pv if pv else '') + (' # c' if r.chance(1, 10) else ''))
                continue
            if simple:
                sep = ' :' if kt.startswith('*') or k['k'] == 'A' else (self.sp() + ':' if k['k'] == 'S' and k.get('style') != 'P' else ':')
                if self.is_flow(v):
                    lines.append(' ' * ind + kt + sep + ' ' + self.flow_text(v))
                else:
                    pv = self.propstr(v)
                    lines.append(' ' * ind + kt + sep + (' ' + pv if pv else '') + (' # c' if r.chance(1, 10) else ''))
                    vb = dict(v)
                    vb['anchor'] = None
                    vb['tag'] = None
                    if v['k'] == 'Q' and v['items'] and r.chance(2, 5):
                        lines += self.block_seq(vb, ind)          # sequence at the indentation of its key
                    else:
                        lines += self.block(vb, ind + r.choice([1, 2, 2, 4]))
            else:
                if self.is_flow(k):
                    lines.append(' ' * ind + '? ' + self.flow_text(k))
                elif r.chance(1, 2) and not self.propstr(k) and (k.get('items') or k.get('pairs')):
                    sub = self.block(k, ind + 2)
                    lines.append(' ' * ind + '? ' + sub[0][ind + 2:])
                    lines += sub[1:]
                else:
                    lines.append(' ' * ind + '?')
                    lines += self.block(k, ind + r.choice([1, 2, 3]))
                if self.is_flow(v):
                    lines.append(' ' * ind + ': ' + self.flow_text(v))
                elif r.chance(1, 2) and not self.propstr(v) and (v.get('items') or v.get('pairs')):
                    sub = self.block(v, ind + 2)
                    lines.append(' ' * ind + ': ' + sub[0][ind + 2:])
                    lines += sub[1:]
                else:
                    lines.append(' ' * ind + ':')
                    lines += self.block(v, ind + r.choice([1, 2, 3]))
        return lines


def flatten(n, out, ids):
    """expected events (kind, anchor id, tag, style, text)"""
    if n['k'] == 'A':
        out.append(('AL', ids[n['name']]))
        return
    if n['k'] == 'N':
        if n.get('anchor') or n.get('tag'):
            # a node that is only properties: the empty plain scalar carrying them
            if n.get('anchor') and n['anchor'] not in ids:
                ids[n['anchor']] = len(ids) + 1
            out.append(('SC', ids[n['anchor']] if n.get('anchor') else 0, (n['tag'][0] + n['tag'][1]) if n.get('tag') else None, 'P', ''))
        else:
            out.append(('SC', 0, None, 'P', '~'))
        return

    def aid():
        if n.get('anchor'):
            ids[n['anchor']] = len(ids) + 1 if n['anchor'] not in ids else ids[n['anchor']]
            return ids[n['anchor']]
        return 0
    tag = (n['tag'][0] + n['tag'][1]) if n.get('tag') else None
    if n['k'] == 'S':
        out.append(('SC', aid(), tag, n['style'], n['text']))
    elif n['k'] == 'Q':
        out.append(('SQ', aid(), tag))
        for x in n['items']:
            flatten(x, out, ids)
        out.append(('SQE',))
    else:
        out.append(('MP', aid(), tag))
        for k, v in n['pairs']:
            flatten(k, out, ids)
            flatten(v, out, ids)
        out.append(('MPE',))


def render_stream(r):
    """(text, expected events). Documents: 1-2, optional markers, comments, blank lines."""
    g = Gen(r)
    ndocs = r.choice([1, 1, 1, 2])
    text = ''
    exp = [('SS',)]
    ids = {}
    for i in range(ndocs):
        g.anchors = []
        d = g.decide(g.gen(r.randint(0, 4)), False)
        explicit = i > 0 or r.chance(3, 10) or d['k'] == 'N'      # a left-out (or properties-only) root node needs its `---`
        if r.chance(1, 12) and (i == 0 or text.endswith('...\n')):
            text += '%YAML 1.2\n'
            explicit = True
        if explicit:
            root_inline = g.is_flow(d) and r.chance(1, 2) and not (d['k'] == 'S' and d.get('style') == 'P' and d['text'].startswith(('---', '...')))
            text += '---' + (' ' if root_inline else '\n')
        body = g.block(d, 0)
        # a plain multi-word root scalar starting in column 0 must not look like a marker: plain_ok guarantees
        text += '\n'.join(body) + '\n'
        if r.chance(1, 5):
            text += '...\n'
        exp.append(('DS', explicit))
        flatten(d, exp, ids)
        exp.append(('DE',))
    exp.append(('SE',))
    return text, exp


def end_of_input_cases():
    """every indicator as the very last character of the input (no line break after it): (text, expected events)"""
    N = ('SC', 0, None, 'P', '~')
    def S(t):
        return ('SC', 0, None, 'P', t)
    def doc(body, explicit=False):
        return [('SS',), ('DS', explicit)] + body + [('DE',), ('SE',)]
    MP, MPE, SQ, SQE = ('MP', 0, None), ('MPE',), ('SQ', 0, None), ('SQE',)
    cases = [
        ('?', doc([MP, N, N, MPE])),
        ('---\n?', doc([MP, N, N, MPE], True)),
        ('- ?', doc([SQ, MP, N, N, MPE, SQE])),
        ('a:\n  ?', doc([MP, S('a'), MP, N, N, MPE, MPE])),
        ('? a\n?', doc([MP, S('a'), N, N, N, MPE])),
        ('? a\n:', doc([MP, S('a'), N, MPE])),
        ('-', doc([SQ, N, SQE])),
        ('- a\n-', doc([SQ, S('a'), N, SQE])),
        ('a:', doc([MP, S('a'), N, MPE])),
        ('a: b\nc:', doc([MP, S('a'), S('b'), S('c'), N, MPE])),
        (':', doc([MP, N, N, MPE])),
        ('- - ?', doc([SQ, SQ, MP, N, N, MPE, SQE, SQE])),
        ('k:\n-', doc([MP, S('k'), SQ, N, SQE, MPE])),
        ('? - a\n: -', doc([MP, SQ, S('a'), SQE, SQ, N, SQE, MPE])),
        ('[a, b]', doc([SQ, S('a'), S('b'), SQE])),
        ('{a: }', doc([MP, S('a'), N, MPE])),
        ('"q"', doc([('SC', 0, None, 'D', 'q')])),
        ("'s'", doc([('SC', 0, None, 'S', 's')])),
        ('&x', doc([('SC', 1, None, 'P', '')])),
        ('!t', doc([('SC', 0, '!t', 'P', '')])),
        ('- &x', doc([SQ, ('SC', 1, None, 'P', ''), SQE])),
        ('a: !t', doc([MP, S('a'), ('SC', 0, '!t', 'P', ''), MPE])),
        ('--- a\n...', doc([S('a')], True)),
        ('a\n---', [('SS',), ('DS', False), S('a'), ('DE',), ('DS', True), N, ('DE',), ('SE',)]),
    ]
    # keys of flow mappings are not limited to 1024 characters, and may be separated from their ':' by anything
    for n in (1020, 1023, 1024, 1025, 1026, 1030, 1100, 2048, 5000):
        k = 'k' * n
        cases.append(('{ "' + k + '": v, a: b }\n', doc([MP, ('SC', 0, None, 'D', k), S('v'), S('a'), S('b'), MPE])))
        cases.append(('{' + k + ': v}\n', doc([MP, S(k), S('v'), MPE])))
        cases.append(("- {'" + k + "' : [x]}\n", doc([SQ, MP, ('SC', 0, None, 'S', k), SQ, S('x'), SQE, MPE, SQE])))
        cases.append(('top:\n  {\n    key\n    # ' + 'c' * n + '\n    : value,\n    other: x\n  }\n',
                      doc([MP, S('top'), MP, S('key'), S('value'), S('other'), S('x'), MPE, MPE])))
        cases.append(('{ key' + ' ' * n + ': v }\n', doc([MP, S('key'), S('v'), MPE])))
    return cases


def nested_layout_cases():
    """systematic layouts of a block collection nested on the next line under each kind of parent, at
    every small indentation step, with every kind of first key / first item: (text, expected events)"""
    def S(t, st='P'):
        return {'k': 'S', 'style': st, 'text': t}
    def Q(items):
        return {'k': 'Q', 'items': items}
    def M(pairs):
        return {'k': 'M', 'pairs': pairs}
    keys = [('a', S('a')), ('"q"', S('q', 'D')), ("'s'", S('s', 'S')), ('[]', Q([])), ('{}', M([])), ('["a", "b"]', Q([S('a', 'D'), S('b', 'D')])),
            ('[a, b]', Q([S('a'), S('b')])), ('{"a": \'b\'}', M([(S('a', 'D'), S('b', 'S'))])), ('{a: b}', M([(S('a'), S('b'))])), ('[[]]', Q([Q([])])),
            ('["a"]', Q([S('a', 'D')])), ('&x a', dict(S('a'), anchor='x')), ('&x []', dict(Q([]), anchor='x')), ('!t "q"', dict(S('q', 'D'), tag=('!', 't'))),
            ('? a', None)]
    out = []
    for d in (1, 2, 3):
        for ktext, knode in keys:
            for second in (False, True):
                for parent in ('map', 'seq', 'qkey', 'qval', 'deep', 'seqmap'):
                    pad = ' ' * d
                    if knode is None:
                        child_lines = [pad + '? a', pad + ': c']
                        child = M([(S('a'), S('c'))])
                    else:
                        child_lines = [pad + ktext + ': c']
                        child = M([(knode, S('c'))])
                    if second:
                        child_lines.append(pad + 'z: 1')
                        child = M(child['pairs'] + [(S('z'), S('1'))])
                    if parent == 'map':
                        text, root = 'k:\n' + '\n'.join(child_lines) + '\n', M([(S('k'), child)])
                    elif parent == 'seq':
                        text, root = '-\n' + '\n'.join(child_lines) + '\n- y\n', Q([child, S('y')])
                    elif parent == 'qkey':
                        text, root = '?\n' + '\n'.join(child_lines) + '\n: v\n', M([(child, S('v'))])
                    elif parent == 'qval':
                        text, root = '? x\n:\n' + '\n'.join(child_lines) + '\n', M([(S('x'), child)])
                    elif parent == 'deep':
                        text = 'o:\n  k:\n' + '\n'.join('  ' + l for l in child_lines) + '\n  m: n\n'
                        root = M([(S('o'), M([(S('k'), child), (S('m'), S('n'))]))])
                    else:
                        text = '- k:\n' + '\n'.join('  ' + l for l in child_lines) + '\n'
                        root = Q([M([(S('k'), child)])])
                    exp = [('SS',), ('DS', False)]
                    flatten(root, exp, {})
                    exp += [('DE',), ('SE',)]
                    out.append((text, exp))
        # the same with a nested block sequence whose first item is each kind of node
        for ktext, knode in keys:
            if knode is None:
                continue
            for parent in ('map', 'seq', 'qval'):
                pad = ' ' * d
                child_lines = [pad + '- ' + ktext, pad + '- z']
                child = Q([knode, S('z')])
                if parent == 'map':
                    text, root = 'k:\n' + '\n'.join(child_lines) + '\n', M([(S('k'), child)])
                elif parent == 'seq':
                    text, root = '-\n' + '\n'.join(child_lines) + '\n- y\n', Q([child, S('y')])
                else:
                    text, root = '? x\n:\n' + '\n'.join(child_lines) + '\n', M([(S('x'), child)])
                exp = [('SS',), ('DS', False)]
                flatten(root, exp, {})
                exp += [('DE',), ('SE',)]
                out.append((text, exp))
    return out


def parse_events(line):
    """impl evt line -> comparable events + tail"""
    from vlib import unhx, split_line
    items, tail = split_line(line)
    evs = []
    for e in items:
        k = e.rpartition('@')[0].split(':')

        def tg(x):
            if x == '-':
                return None
            h, _, s = x.partition('!')
            return unhx(h) + unhx(s)
        if k[0] == 'SC':
            evs.append(('SC', int(k[2]), tg(k[3]), k[1], unhx(k[4])))
        elif k[0] == 'DS':
            evs.append(('DS', k[1] == 'true'))
        elif k[0] in ('SQ', 'MP'):
            evs.append((k[0], int(k[1]), tg(k[2])))
        elif k[0] == 'AL':
            evs.append(('AL', int(k[1])))
        else:
            evs.append((k[0],))
    return evs, tail


# -------------------------------------------------------------------------------------------------
# C04: presentations of a target string

ESC = {'\0': '0', '\x07': 'a', '\x08': 'b', '\t': 't', '\n': 'n', '\x0b': 'v', '\x0c': 'f', '\r': 'r', '\x1b': 'e', '"': '"', '/': '/', '\\': '\\',
       '\x85': 'N', '\xa0': '_', '\u2028': 'L', '\u2029': 'P'}
TRICKY = ['a', 'b', ' ', ' ', '\n', ':', '#', '-', '"', "'", '\\', 'é', '\U0001D11E', ',', '[', '}', '\t', 'x', '\xa0', '\x07', '/', '&', '*', '!', '|', '%', '?', '\u2028', '0']


INDIC = set('-?:#&*!|>\'"%@`,[]{}')


def fold_family(style, cont_indent):
    """systematic multi-line presentations of four words: every combination of joins
    (literal blank run | fold to a space | fold to 1-2 line feeds) x trailing blanks before the
    break x blank-line contents. Yields (presentation, target)."""
    words = ['a', 'b', 'c', 'd']
    ind = ' ' * cont_indent
    joins = [(' ', ' '), ('  ', '  ')]
    for trail in ('', ' ', '\t'):
        joins.append((trail + '\n' + ind, ' '))
        for blank in ('', ind):
            joins.append((trail + '\n' + blank + '\n' + ind, '\n'))
        joins.append((trail + '\n\n' + ind + '\n' + ind, '\n\n'))
    if style == 'D':
        # an escaped break joins the lines without a space; blanks before the backslash are content; empty lines
        # after it are line feeds of their own
        for trail in ('', ' ', '\t'):
            joins.append((trail + '\\\n' + ind, trail))
            joins.append((trail + '\\\n\n' + ind, trail + '\n'))
            joins.append((trail + '\\\n' + ind + '\n\n' + ind, trail + '\n\n'))
    q = {'P': '', 'S': "'", 'D': '"'}[style]
    for j1 in joins:
        for j2 in joins:
            for j3 in joins:
                pres = q + words[0] + j1[0] + words[1] + j2[0] + words[2] + j3[0] + words[3] + q
                yield pres, words[0] + j1[1] + words[1] + j2[1] + words[2] + j3[1] + words[3]


def present_scalar(r, target, style, cont_indent, multiline=True):
    """Present `target` in `style` ('D' double-quoted, 'S' single-quoted, 'P' plain).
    Returns the presentation or None when this style cannot express the target here.

    YAML 1.2 flow-scalar folding: between two non-blank characters a single space may be written as
    blanks* break blanks*; a run of k >= 1 line feeds is written as k+1 breaks (the lines between
    them empty or blank); blanks around a break are dropped. In double quotes a break may be escaped
    (joins lines without a space) and every character may be written as an escape.
    `cont_indent`: indentation given to continuation lines. `multiline=False`: implicit keys."""
    n = len(target)
    if style == 'P':
        if target == '' or target[0] in ' \t\n' or target[-1] in ' \t\n':
            return None
        if any(ord(c) < 0x20 and c != '\n' or c in '\x7f\x85\xa0\u2028\u2029\ufeff' for c in target):
            return None
    if style == 'S' and any((ord(c) < 0x20 and c not in '\t\n') or c in '\x7f\ufeff' for c in target):
        return None
    if not multiline and '\n' in target and style != 'D':
        return None
    out = ''
    i = 0
    nonblank = lambda c: c not in ' \t\n'

    def cont():
        return ' ' * (cont_indent + r.choice([0, 0, 1, 3]))

    def trail():
        # blanks before a break are not content in any flow style (plain scalars included)
        return r.choice(['', '', ' ', '  ', '\t'])
    while i < n:
        c = target[i]
        if c == '\n':
            k = 0
            while i < n and target[i] == '\n':
                k += 1
                i += 1
            before_ok = out != '' and nonblank(target[i - k - 1])
            after_ok = i < n and nonblank(target[i])
            foldable = multiline and before_ok and after_ok
            if style == 'P' and foldable and target[i] in INDIC:
                return None
            if style == 'D' and (not foldable or r.chance(1, 3)):
                out += '\\n' * k
            elif not foldable:
                return None
            else:
                out += trail() + '\n' + ''.join(' ' * r.choice([0, 0, cont_indent]) + '\n' for _ in range(k)) + cont()
            continue
        if (c == ' ' and multiline and 0 < i < n - 1 and nonblank(target[i - 1]) and nonblank(target[i + 1])
                and not (style == 'P' and target[i + 1] in INDIC) and r.chance(1, 4)):
            out += trail() + '\n' + cont()
            i += 1
            continue
        if style == 'D':
            o = ord(c)
            must = c in '"\\' or (o < 0x20 and c != '\t') or c in '\x7f\x85\u2028\u2029\ufeff'
            if c in ESC and (must or r.chance(1, 6)) and not (c == ' ' and False):
                out += '\\' + ESC[c]
            elif must or r.chance(1, 12):
                out += ('\\x%02x' % o) if o < 0x100 and r.chance(1, 2) else ('\\u%04x' % o) if o < 0x10000 and r.chance(2, 3) else ('\\U%08x' % o)
            elif multiline and 0 < i and nonblank(c) and nonblank(target[i - 1]) and r.chance(1, 25):
                out += '\\\n' + cont() + c          # an escaped break joins lines without a space
            else:
                out += c
        elif style == 'S':
            out += "''" if c == "'" else c
        else:
            out += c
        i += 1
    if style == 'D':
        return '"' + out + '"'
    if style == 'S':
        return "'" + out + "'"
    return out


def plain_allowed(target, flow, key):
    """can `target` be a plain scalar in this context (conservative, from the YAML 1.2 productions)"""
    if not plain_ok(target.replace('\n', ' '), flow):
        return False
    if any(l.startswith(('---', '...')) or l.strip() == '' for l in target.split('\n')) and '\n' in target:
        pass
    for part in target.replace('\n', ' ').split(' '):
        if part.startswith('#'):
            return False
    if any(c in target for c in '\ufeff'):
        return False
    if key and '\n' in target:
        return False
    return True


CONTEXTS = ['top', 'value', 'item', 'key', 'flowitem', 'flowkey', 'flowvalue']


def long_word_family(full):
    """Scalars whose words straddle the look-ahead sizes of the inputs (8, 16, 32, 64, 128 characters and
    their multiples): every indicator / special character placed at every offset around each boundary of a
    long run of non-blank characters, alone or after a short first word. Yields (target, style, context)."""
    bounds = [8, 16, 17, 32, 48, 64, 128, 129, 256, 384] if full else [16, 32, 128, 256]
    offs = (-2, -1, 0, 1) if full else (-1, 0, 1)
    specials = "#:-,?!&*'\"%@`|>[]{}=~\\é\U0001D11E"
    for n in bounds:
        for d in offs:
            k = n + d
            for c in specials:
                for pre in ('', 'w '):
                    t = pre + 'x' * k + c + 'yz'
                    for style in 'PDS':
                        for ctx in ('top', 'value', 'flowitem') + (('item', 'flowvalue') if full else ()):
                            flow = ctx.startswith('flow')
                            if style == 'P' and not plain_allowed(t, flow, False):
                                continue
                            yield t, style, ctx


def present_simple(target, style):
    """single-line presentation without escapes beyond the quotes themselves"""
    if style == 'P':
        return target
    if style == 'S':
        return "'" + target.replace("'", "''") + "'"
    return '"' + target.replace('\\', '\\\\').replace('"', '\\"') + '"'


def in_context(ctx, text):
    """embed a presented scalar; returns (document text, index of the scalar among scalar events)"""
    if ctx == 'top':
        return text + '\n', 0
    if ctx == 'value':
        return 'k: ' + text + '\n', 1
    if ctx == 'item':
        return '- ' + text + '\n', 0
    if ctx == 'key':
        return text + ': v\n', 0
    if ctx == 'flowitem':
        return '[ ' + text + ' , z ]\n', 0
    if ctx == 'flowkey':
        return '{ ' + text + ' : v }\n', 0
    return '{ k: ' + text + ' }\n', 1


# -------------------------------------------------------------------------------------------------
# C05: block scalars

def block_ref_text(style, chomp, lines):
    """YAML 1.2 §8.1 value of a block scalar from its content lines (kinds: t text, m more-indented, e empty)"""
    L = list(lines)
    trail = 0
    while L and L[-1][0] == 'e':
        L.pop()
        trail += 1
    if not L:
        return {'strip': '', 'clip': '', 'keep': '\n' * trail}[chomp]
    if style == '|':
        body = '\n'.join(('' if k == 'e' else p) for k, p in L)
    else:
        out = ''
        prev = None
        pending = 0
        for k, p in L:
            if k == 'e':
                pending += 1
                continue
            if prev is None:
                out += '\n' * pending + p
            elif prev == 't' and k == 't':
                out += (' ' if pending == 0 else '\n' * pending) + p
            else:
                out += '\n' * (pending + 1) + p
            prev = k
            pending = 0
        body = out
    tail = {'strip': '', 'clip': '\n', 'keep': '\n' * (trail + 1)}[chomp]
    return body + tail


BLOCK_KINDS = [('t', 'a'), ('t', 'b c'), ('t', '# x'), ('t', '- y'), ('m', ' d'), ('m', '\te'), ('e', 0), ('e', 1), ('t', 'k: v'), ('t', 'é\U0001D11E')]


def block_render(ctx, style, chomp, lines, final_nl, explicit, comment):
    head, ci = {'top': ('', 1), 'doc0': ('--- ', 0), 'seq': ('- ', 1), 'map': ('k: ', 1), 'nest': ('a:\n  - ', 3), 'deep': ('a:\n  b:\n    c: ', 6)}[ctx]
    parent = {'top': 0, 'doc0': 0, 'seq': 0, 'map': 0, 'nest': 2, 'deep': 4}[ctx]
    m = ci - parent
    hdr = style + {'strip': '-', 'clip': '', 'keep': '+'}[chomp] + (str(m) if explicit else '')
    if explicit and comment == 2:
        hdr = style + str(m) + {'strip': '-', 'clip': '', 'keep': '+'}[chomp]
    out = head + hdr + ('  # header comment' if comment else '') + '\n'
    body = []
    for k, p in lines:
        body.append(' ' * min(p, ci) if k == 'e' else ' ' * ci + p)
    out += '\n'.join(body)
    if lines and final_nl:
        out += '\n'
    return out


def block_cases(maxlines, kinds=BLOCK_KINDS):
    for n in range(0, maxlines + 1):
        for combo in itertools.product(kinds, repeat=n):
            for style in '|>':
                for chomp in ('strip', 'clip', 'keep'):
                    for ctx in ('top', 'doc0', 'seq', 'map', 'nest', 'deep'):
                        for final_nl in (True, False):
                            for explicit in (False, True):
                                if ctx == 'doc0' and (explicit or any(k == 'm' for k, _ in combo) or any(k == 'e' and p > 0 for k, p in combo)):
                                    continue      # content at column 0: auto-detected indentation only, no more-indented lines
                                if not explicit:
                                    first = [c for c in combo if c[0] != 'e']
                                    if first and first[0][0] == 'm':
                                        continue
                                if (not final_nl) and combo and combo[-1][0] == 'e':
                                    continue
                                for comment in (0, 1):
                                    yield (ctx, style, chomp, combo, final_nl, explicit, comment)


# -------------------------------------------------------------------------------------------------
# C13: JSON

JSTR = ['', 'a', 'key', 'x y', 'é', '\U0001D11E', 'q"r', 'b\\s', 'a/b', 'l\nf', 't\tb', '\b\f\r', '\x01', ': ', '#', '- a', '[', '{}', 'null', 'true', '1',
        ' lead', 'trail ', "it's", '\u2028', '\x7f', 'k: v', '%', '@', '`', '&a', '*a', '!t', '|', '>', '---', '...', '\ufeff']
JNUM = ['0', '-0', '1', '-1', '42', '9223372036854775807', '-9223372036854775808', '9223372036854775808', '1.5', '-2.5e3', '1e3', '1E3', '1e+3', '1e-3', '0.1', '1.0',
        '123456789012345678901234567890', '0.000001', '2.5E-5', '-0.0', '1e400', '0e0']


def gen_json(r, depth):
    x = r.below(100)
    if depth <= 0 or x < 45:
        y = r.below(10)
        if y < 4:
            return ('s', r.choice(JSTR) if r.chance(2, 3) else ''.join(r.choice(['a', ' ', '"', '\\', '\n', 'é', ':', ',', '[', '\U0001D11E', '\t', '/']) for _ in range(r.randint(0, 8))))
        if y < 7:
            return ('n', r.choice(JNUM))
        return ('l', r.choice(['true', 'false', 'null']))
    if x < 72:
        return ('a', [gen_json(r, depth - 1) for _ in range(r.randint(0, 4))])
    keys = []
    pairs = []
    for _ in range(r.randint(0, 4)):
        k = r.choice(JSTR) if r.chance(2, 3) else ''.join(r.choice('abc "\\:') for _ in range(r.randint(0, 5)))
        if k in keys:
            continue
        keys.append(k)
        pairs.append((k, gen_json(r, depth - 1)))
    return ('o', pairs)


def jstr(r, s, spicy=True):
    out = '"'
    for c in s:
        o = ord(c)
        if c == '"':
            out += '\\"'
        elif c == '\\':
            out += '\\\\'
        elif c == '/' and spicy and r.chance(1, 2):
            out += '\\/'
        elif c in '\b\f\n\r\t' and (not spicy or r.chance(3, 4)):
            out += {'\b': '\\b', '\f': '\\f', '\n': '\\n', '\r': '\\r', '\t': '\\t'}[c]
        elif o < 0x20 or (spicy and r.chance(1, 10)):
            if o >= 0x10000:
                o2 = o - 0x10000
                # RFC 8259 writes astral characters as a surrogate pair; the property excludes surrogate halves,
                # so astral characters are always written literally
                out += c
            else:
                out += '\\u%04x' % o
        else:
            out += c
    return out + '"'


def jser(r, v, mode, ind=0):
    """mode: 'compact' | 'pretty' | 'random' (insignificant spaces, tabs and newlines around tokens)"""
    def ws():
        if mode == 'random':
            return ''.join(r.choice([' ', ' ', '\n', '\t', '']) for _ in range(r.randint(0, 2)))
        return ''
    k = v[0]
    if k == 's':
        return jstr(r, v[1])
    if k in ('n', 'l'):
        return v[1]
    if k == 'a':
        if not v[1]:
            return '[' + ws() + ']'
        if mode == 'pretty':
            return '[\n' + ',\n'.join(' ' * (ind + 2) + jser(r, x, mode, ind + 2) for x in v[1]) + '\n' + ' ' * ind + ']'
        return '[' + ','.join(ws() + jser(r, x, mode) + ws() for x in v[1]) + ']'
    if not v[1]:
        return '{' + ws() + '}'
    if mode == 'pretty':
        return '{\n' + ',\n'.join(' ' * (ind + 2) + jstr(r, a, False) + ': ' + jser(r, b, mode, ind + 2) for a, b in v[1]) + '\n' + ' ' * ind + '}'
    return '{' + ','.join(ws() + jstr(r, a) + ws() + ':' + ws() + jser(r, b, mode) + ws() for a, b in v[1]) + '}'


def json_expect(v):
    """expected dump tokens of the loaded tree (floats as ('D', decimal text))"""
    from vlib import hx
    k = v[0]
    if k == 's':
        return ['S:' + hx(v[1])]
    if k == 'l':
        return [{'true': 'T', 'false': 'F', 'null': 'N'}[v[1]]]
    if k == 'n':
        t = v[1]
        if all(c in '-0123456789' for c in t) and -(1 << 63) <= int(t) <= (1 << 63) - 1:
            return [f'I:{int(t)}']
        return ['D:' + t]
    if k == 'a':
        out = [f'Q:{len(v[1])}']
        for x in v[1]:
            out += json_expect(x)
        return out
    out = [f'M:{len(v[1])}']
    for a, b in v[1]:
        out += ['S:' + hx(a)] + json_expect(b)
    return out


# -------------------------------------------------------------------------------------------------
# C06: damage operators. Each returns an ill-formed text or None when it does not apply.

def damage(r, text, which):
    lines = text.split('\n')
    if which == 'open-dquote':
        return text.rstrip('\n') + '\nz: "never closed\n' if text.strip() and not text.lstrip().startswith(('[', '{', '"', "'", '-', '?', '|', '>', '!', '&', '*', '%')) and False else '- "never closed\n'
    if which == 'open-squote':
        return "k: 'never closed\n"
    if which == 'open-flow-seq':
        return 'k: [a, b\n'
    if which == 'open-flow-map':
        return '{a: b, c: d\n'
    if which == 'mismatch':
        return r.choice(['[a, b}\n', '{a: b]\n', 'k: [a, {b: c]]\n', '- {a: [b}\n'])
    if which == 'tab-indent':
        return 'a:\n\tb: c\n'
    if which == 'bad-entry-indent':
        return r.choice(['a:\n    - b\n  - c\n', 'a:\n   b: 1\n  c: 2\n', 'k:\n  - a\n - b\n'])
    if which == 'flow-not-deeper':
        # a flow collection in a block context whose continuation line starts at (or left of) the parent's column;
        # the bracket may follow node properties, and the continuation may start with any kind of token
        pos, ind = r.choice([('- ', 0), ('k: ', 0), ('? ', 0), ('top:\n  - ', 2), ('top:\n  k: ', 2)])
        pre = r.choice(['', '', '&x ', '!t ', '&x !t '])
        op, cl = r.choice([('[', ']'), ('{', '}')])
        first = r.choice(['a', '"a"', 'CLOSE', '[b]', '!t a', "'s'", '\ta', '&y a'])
        if first == 'CLOSE':
            body, tail = cl, ''
        else:
            body = first if op == '[' else ('? [b]: 1' if first == '[b]' else first + ': 1')
            tail = cl
        col = r.choice(sorted({0, ind}))
        return pos + pre + op + '\n' + ' ' * col + body + tail + '\n'
    if which == 'quoted-key-multiline':
        return r.choice(['"a\nb": c\n', "'a\n b': c\n", '{ "a\n  b": c }\n' if False else '"k\n  l": v\n'])
    if which == 'long-key':
        return 'x' * r.randint(1025, 1100) + ': v\n'
    if which == 'second-root':
        return r.choice(['a\n- b\n' if False else '[a]\n[b]\n', '{a: b}\nc\n', '"a"\n"b"\n', 'a: b\n- c\n', "--- 'x'\ny\n"])
    if which == 'bad-escape':
        return r.choice(['"\\q"\n', '"\\x4"\n', '"\\u12"\n', '"\\U0001"\n', 'k: "\\."\n', '- "\\xZZ"\n', '"\\'])
    if which == 'alias-no-anchor':
        # (anchors are per document: an anchor of an earlier document does not count)
        return r.choice(['*nope\n', 'a: *b\n', '- &a x\n- *b\n', '[*z]\n', '--- &a x\n--- *a\n', '&a x\n...\n*a\n', '- &a x\n...\n- *a\n', '--- &a [x]\n...\n--- {k: *a}\n'])
    if which == 'undeclared-handle':
        # (a %TAG directive is in force for its own document only: bare or explicit later documents
        # do not inherit the handle)
        return r.choice(['!e!x y\n', '--- !m!t\na: b\n', '%TAG !a! tag:a,\n--- !b!c d\n',
                         '%TAG !e! tag:e,\n--- !e!a 1\n...\n!e!b 2\n', '%TAG !e! tag:e,\n--- !e!a 1\n--- !e!b 2\n',
                         '%TAG !e! tag:e,\n--- !e!a 1\n...\n--- !e!b 2\n', '%TAG !e! tag:e,\n--- x\n...\n- !e!b 2\n',
                         '%TAG !e! tag:e,\n--- !e!a [1]\n...\nk: !e!b 2\n', '%TAG !e! tag:e,\n---\n...\n%YAML 1.2\n--- !e!b\n'])
    if which == 'dup-yaml':
        return '%YAML 1.2\n%YAML 1.2\n---\na\n'
    if which == 'directive-no-docstart':
        return r.choice(['%YAML 1.2\na: b\n', '%TAG !e! tag:e,\n- x\n', '%YAML 1.2\n'])
    if which == 'content-after-docend':
        return r.choice(['a\n... b\n', '--- x\n... y\n', 'k: v\n... # ok comment\n... z\n' if False else 'k: v\n... z\n'])
    return None


# ---- structural damage on generated flow collections (the closers are known, so the damaged text is
# ill-formed whatever else it contains)

def rand_flow_pieces(r, depth, kind=None):
    """a random flow collection as a list of pieces; closers are ('C', ch) tuples, everything else strings"""
    kind = kind or r.choice('[{')
    cl = ']' if kind == '[' else '}'
    sep = r.choice([', ', ', ', ',', ' , ', ',\n    '])
    n = r.choice([0, 1, 1, 2, 2, 3])
    out = [kind, r.choice(['', ' ', '\n    '])]

    def scalar():
        return r.choice(['a', 'b c', '"q"', "'s'", '1', 'x-y', '"k}"', "']'", 'é'])

    def node(d):
        x = r.below(10)
        pre = r.choice(['', '', '', '&n ', '!t ', '&m !t '])
        if d > 0 and x < 4:
            return [pre] + rand_flow_pieces(r, d - 1)
        return [pre + scalar()]
    for i in range(n):
        if i:
            out.append(sep)
        if kind == '[':
            x = r.below(10)
            if x < 5:
                out += node(depth)
            elif x < 7:
                out += [scalar() + ': '] + node(depth)          # single pair
            elif x < 8:
                out += ['? '] + node(depth) + [' : '] + node(depth)
            elif x < 9:
                out += [': '] + node(depth)                        # empty key
            else:
                out += [scalar() + ': ']                           # empty value
        else:
            x = r.below(10)
            if x < 6:
                out += [scalar() + ': '] + node(depth)
            elif x < 7:
                out += [scalar()]                                  # key only
            elif x < 8:
                out += ['? '] + node(depth) + [' : '] + node(depth)
            elif x < 9:
                out += ['"k' + str(i) + '":'] + node(depth)       # JSON-like adjacent value
            else:
                out += [scalar() + ': ']
    if n and r.chance(1, 6):
        out.append(',')
    out.append(r.choice(['', ' ', '\n  ']))
    out.append(('C', cl))
    return out


def join_pieces(pieces):
    return ''.join(p[1] if isinstance(p, tuple) else p for p in pieces)


def damage_flow(r):
    """(operator, text): a generated flow collection with one closing bracket wrong"""
    pieces = rand_flow_pieces(r, 2)
    closers = [i for i, p in enumerate(pieces) if isinstance(p, tuple)]
    other = {']': '}', '}': ']'}
    op = r.choice(['swap', 'swap', 'stray-before-closer', 'stray-before-closer', 'stray-after-entry', 'drop-closer', 'extra-closer'])
    P = list(pieces)
    if op == 'swap':
        i = r.choice(closers)
        P[i] = ('C', other[P[i][1]])
    elif op == 'stray-before-closer':
        i = r.choice(closers)
        P.insert(i, other[P[i][1]])
    elif op == 'stray-after-entry':
        # a closer of the wrong kind right after some piece inside a collection
        i = r.choice(closers)
        # the collection closed by P[i] starts at the matching opener: walk back
        depth, j = 0, i - 1
        while j >= 0:
            if isinstance(P[j], tuple):
                depth += 1
            elif P[j] in ('[', '{'):
                if depth == 0:
                    break
                depth -= 1
            j -= 1
        inside = [k for k in range(j + 1, i + 1)]
        k = r.choice(inside)
        P.insert(k, other[P[i][1]])
    elif op == 'drop-closer':
        i = r.choice(closers)
        del P[i]
    else:
        P.append(r.choice([']', '}']))
    body = join_pieces(P)
    ctx = r.choice(['top', 'top', 'value', 'item', 'nested'])
    if ctx == 'top':
        text = body + '\n'
    elif ctx == 'value':
        text = 'k: ' + body + '\n'
    elif ctx == 'item':
        text = '- ' + body + '\n'
    else:
        text = 'top:\n  - k: ' + body + '\n'
    return 'flow-bracket:' + op, text


def damage_quote(r):
    """(operator, text): a quoted scalar that is still open at the end of the input, in a random context"""
    q = r.choice('"\'')
    words = ['a', 'b c', 'x: y', '- z', '# no comment', '[', '{k: v}', 'é', "it''s" if q == "'" else 'say \\"hi\\"', '...', '---x']
    body = r.choice(['', ' ', '\n', '\n  ', ' \n\n  ']).join(r.choice(words) for _ in range(r.randint(1, 4)))
    if q == '"' and body.endswith('\\'):
        body += 'n'
    pre = r.choice(['', '- ', 'k: ', '? ', '[', '[a, ', '{k: ', '- - ', 'a:\n  b: ', '- &x ', 'k: !t '])
    return 'open-quote', pre + q + body + r.choice(['', '\n', '\n# end\n'])


def damage_tab(r):
    """(operator, text): a tab used as block indentation in front of a nested node"""
    inner = r.choice(['b: c', '- c', 'b', '? b', '"q": 1', '[x]', '&a b: c'])
    shape = r.choice([('a:\n', 0), ('- a:\n', 2), ('top:\n  a:\n', 2), ('a:\n  x: 1\n', 0), ('- - a:\n', 4)])
    head, ind = shape
    lead = r.choice(['\t', '\t' + ' ' * (ind + 1), '\t\t']) if ind else r.choice(['\t', '\t ', '\t\t'])
    if head.endswith('x: 1\n'):
        # the tab-indented line continues the nested mapping
        return 'tab-indent', head + '\t' + 'y: 2\n'
    return 'tab-indent', head + lead + inner + '\n'


def damage_longkey(r):
    n = r.choice([1025, 1026, 1030, 1100, 2048, 5000])
    style = r.choice(['plain', 'plain', 'dq', 'sq', 'spaced'])
    if style == 'plain':
        key = 'x' * n
    elif style == 'dq':
        key = '"' + 'q' * n + '"'
    elif style == 'sq':
        key = "'" + 'q' * n + "'"
    else:
        key = ('ab ' * (n // 3 + 1))[:n].rstrip() + 'z'
    pre = r.choice(['', 'first: 1\n', '- ', 'top:\n  ', '# c\n\n', 'a: 1\nb: 2\n', '- x\n- ', 'top:\n  k: v\n  '])
    return 'long-key', pre + key + ': v\n'


def damage_second_root(r):
    first = r.choice(['[a]', '{a: b}', '"a"', "'a'", 'a: b', '- a', '&x a', '!t a', '|\n  lit', '[a,\n b]'])
    second = r.choice(['[b]', '{c: d}', '"b"', "'b'", '- c', 'c: d', '*x' if first.startswith('&x') else 'z: 1', '!u v'])
    if first in ('a: b',) and second in ('c: d', 'z: 1'):
        second = '- c'           # a further pair would continue the mapping
    if first == '- a' and second == '- c':
        second = 'c: d'
    if first.startswith('|'):
        second = '[b]' if second in ('- c', 'c: d', 'z: 1') else second
        return 'second-root', '--- ' + first + '\n' + second + '\n'
    if first in ('"a"', "'a'", '&x a', '!t a') and second in ('c: d', 'z: 1'):
        return None             # `"a"\nc: d` is not two roots in every reading; skip
    if first in ('&x a', '!t a'):
        return None             # a plain scalar may continue on the next line
    head = r.choice(['', '--- ', '---\n'])
    return 'second-root', head + first + '\n' + second + '\n'


STRUCT_DAMAGES = [damage_flow, damage_flow, damage_flow, damage_quote, damage_tab, damage_longkey, damage_second_root]


DAMAGES = ['open-dquote', 'open-squote', 'open-flow-seq', 'open-flow-map', 'mismatch', 'tab-indent', 'bad-entry-indent', 'flow-not-deeper', 'quoted-key-multiline',
           'long-key', 'second-root', 'bad-escape', 'alias-no-anchor', 'undeclared-handle', 'dup-yaml', 'directive-no-docstart', 'content-after-docend']


def damage_stream(r, text, which):
    """apply a damage operator to a well-formed rendered stream `text` (the result is ill-formed by the
    specification whatever the surrounding text): returns the damaged stream or None"""
    good = text if text.endswith('\n') else text + '\n'
    frag = damage(r, good, which)
    if frag is None:
        return None
    # damaged fragment as its own document after the well-formed stream (and sometimes before it)
    if which in ('dup-yaml', 'directive-no-docstart', 'undeclared-handle') and frag.startswith('%'):
        return good + '...\n' + frag
    if r.chance(1, 2):
        return good + '--- \n' + frag if not frag.startswith('---') else good + frag
    return frag + ('' if frag.endswith('\n') else '\n')
