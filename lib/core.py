"""Check driver: proof audit, harness rebuild, verdict logic, evidence, replay files."""
import fcntl, hashlib, json, os, re, subprocess, sys, time
from vlib import ROOT, IMPL, MODEL, run_impl, run_model, hx, unhx

LEAN = os.path.join(ROOT, 'lean')
ACCEPTED_AXIOMS = {'propext', 'Classical.choice', 'Quot.sound'}
REGISTRY = json.load(open(os.path.join(ROOT, 'lib', 'registry.json')))
TRUSTED_BASE = [
    "Lean 4.33.0 kernel; axioms propext, Classical.choice, Quot.sound only (audited per theorem with #print axioms)",
    "the model is tied to /repo only by the correspondence check (differential testing of impl_run vs saphyr_model on this run's inputs)",
    "harness (impl_run), cargo feature verif-hooks, hex line protocol, Python orchestrator, Lean driver I/O glue",
    "modelled, not verified: core's integer/float parsers and f64 Display, hashlink insert, derive(Hash/Eq), encoding_rs, ArrayDeque",
]


class Lock:
    def __init__(self, name):
        self.path = os.path.join(ROOT, '.lock-' + name)

    def __enter__(self):
        self.f = open(self.path, 'w')
        fcntl.flock(self.f, fcntl.LOCK_EX)

    def __exit__(self, *a):
        fcntl.flock(self.f, fcntl.LOCK_UN)
        self.f.close()


def sh(cmd, cwd=None, timeout=None, env=None):
    e = dict(os.environ)
    if env:
        e.update(env)
    p = subprocess.run(cmd, cwd=cwd, shell=isinstance(cmd, str), capture_output=True, text=True, timeout=timeout, env=e)
    return p.returncode, p.stdout + p.stderr


def source_fingerprints():
    out = {}
    for rel in ['parser/src/scanner.rs', 'parser/src/parser.rs', 'parser/src/input.rs', 'parser/src/input/str.rs',
                'parser/src/input/buffered.rs', 'parser/src/char_traits.rs', 'saphyr/src/loader.rs',
                'saphyr/src/scalar.rs', 'saphyr/src/emitter.rs', 'saphyr/src/encoding.rs', 'saphyr/src/macros.rs',
                'saphyr/src/yaml.rs']:
        p = os.path.join('/repo', rel)
        try:
            out[rel] = hashlib.sha256(open(p, 'rb').read()).hexdigest()[:16]
        except OSError:
            out[rel] = 'missing'
    return out


def source_constants():
    """Constants the theorems are parametric in, read from the current source."""
    c = {}
    try:
        s = open('/repo/parser/src/input/buffered.rs').read()
        m = re.search(r'const BUFFER_LEN: usize = (\d+);', s)
        c['buffered_BUFFER_LEN'] = int(m.group(1)) if m else None
        s = open('/repo/parser/src/input/str.rs').read()
        m = re.search(r'const BUFFER_LEN: usize = (\d+);', s)
        c['str_BUFFER_LEN'] = int(m.group(1)) if m else None
    except OSError:
        pass
    return c


def build_harness():
    """Rebuild impl_run from /repo's current working tree (cargo fingerprints see edited sources)."""
    with Lock('cargo'):
        t0 = time.time()
        rc, out = sh(['cargo', 'build', '--release', '--offline'], cwd=os.path.join(ROOT, 'harness'),
                     env={'CARGO_NET_OFFLINE': 'true'}, timeout=1800)
        return rc == 0, out[-4000:], time.time() - t0


def build_harness_debug():
    """An unoptimised build of impl_run (target/debug): stack use per nesting level is measured on it (C11), because an
    optimised build may turn a self-call in tail position into a loop and hide recursion that a debug build has."""
    with Lock('cargo'):
        rc, out = sh(['cargo', 'build', '--offline'], cwd=os.path.join(ROOT, 'harness'),
                     env={'CARGO_NET_OFFLINE': 'true'}, timeout=1800)
        return rc == 0, out[-4000:]


def build_model(targets):
    with Lock('lake'):
        rc, out = sh(['lake', 'build'] + targets, cwd=LEAN, timeout=3600)
        return rc == 0, out[-6000:]


FORBIDDEN = re.compile(r'\bsorry\b|\badmit\b|^axiom |native_decide|bv_decide|implemented_by|\bunsafe |maxHeartbeats 0\b', re.M)


def strip_comments(src):
    src = re.sub(r'/-.*?-/', '', src, flags=re.S)
    src = re.sub(r'--.*', '', src)
    return src


def grep_forbidden():
    hits = []
    for dp, dn, fn in os.walk(LEAN):
        if '.lake' in dp:
            continue
        for f in fn:
            if f.endswith('.lean'):
                p = os.path.join(dp, f)
                src = strip_comments(open(p, encoding='utf8').read())
                for m in FORBIDDEN.finditer(src):
                    hits.append(f'{os.path.relpath(p, LEAN)}: {m.group(0).strip()}')
    return hits


def audit(prop, thorough=False):
    """Build the property's theorem module(s) and audit the axioms of every registered theorem.
    Returns (obligations, discharged, details, checker_cmd)."""
    reg = REGISTRY.get(prop, {'modules': [], 'theorems': []})
    mods, thms = reg['modules'], reg['theorems']
    details = []
    if not thms:
        return 0, 0, ['no theorem registered'], ''
    ok, out = build_model(mods + ['saphyr_model'])
    if not ok:
        details.append('lake build failed: ' + out[-1500:])
        return len(thms), 0, details, 'lake build ' + ' '.join(mods)
    os.makedirs(os.path.join(LEAN, '.audit'), exist_ok=True)
    af = os.path.join(LEAN, '.audit', f'{prop}.lean')
    with open(af, 'w') as f:
        for m in mods:
            f.write(f'import {m}\n')
        for t in thms:
            f.write(f'#print axioms {t}\n')
    with Lock('lake'):
        rc, out = sh(['lake', 'env', 'lean', af], cwd=LEAN, timeout=1800)
    discharged = 0
    for t in thms:
        m = re.search(r"'" + re.escape(t) + r"' depends on axioms: \[([^\]]*)\]", out.replace('\n', ' '))
        m0 = re.search(r"'" + re.escape(t) + r"' does not depend on any axioms", out)
        if m0:
            discharged += 1
        elif m:
            ax = {a.strip() for a in m.group(1).split(',') if a.strip()}
            if ax <= ACCEPTED_AXIOMS:
                discharged += 1
            else:
                details.append(f'{t}: unaccepted axioms {sorted(ax - ACCEPTED_AXIOMS)}')
        else:
            details.append(f'{t}: not found in the built environment')
    hits = grep_forbidden()
    if hits:
        details.append('forbidden constructs: ' + '; '.join(hits[:10]))
        discharged = 0
    if thorough:
        for m in mods:
            with Lock('lake'):
                rc, o = sh(['lake', 'env', 'leanchecker', m], cwd=LEAN, timeout=3600)
            if rc != 0:
                details.append(f'leanchecker {m} failed: {o[-500:]}')
                discharged = 0
    cmd = f"cd lean && lake build {' '.join(mods)} && lake env lean .audit/{prop}.lean  # #print axioms of {len(thms)} theorems"
    return len(thms), discharged, details, cmd


def load_known():
    p = os.path.join(ROOT, 'KNOWN_FINDINGS.json')
    if not os.path.exists(p):
        return []
    return json.load(open(p)).get('findings', [])


class Result:
    """What a property's exploration reports back to the driver."""

    def __init__(self):
        self.evaluations = 0
        self.nontrivial = set()         # hashes of distinct non-trivial cases
        self.samples = []
        self.rule = ''
        self.model_diffs = []           # correspondence failures: dicts {req, impl, model, what}
        self.oracle_failures = []       # property failures on the implementation: dicts {sig, what, reqs, detail}
        self.distribution = {}
        self.exhaustive = False
        self.extra = {}
        self.corr_ops = []

    def count(self, key, n=1):
        self.distribution[key] = self.distribution.get(key, 0) + n

    def nt(self, case):
        self.nontrivial.add(hashlib.sha1(case.encode('utf8', 'replace')).digest()[:8])


def write_replay(prop, payload):
    d = os.path.join(ROOT, 'evidence', 'replays')
    os.makedirs(d, exist_ok=True)
    blob = json.dumps(payload, sort_keys=True, ensure_ascii=True)
    h = hashlib.sha1(blob.encode()).hexdigest()[:12]
    p = os.path.join(d, f'{prop}-{h}.json')
    with open(p, 'w') as f:
        json.dump(payload, f, indent=1, ensure_ascii=True)
    return os.path.relpath(p, ROOT)


def replay(prop, path):
    payload = json.load(open(path if os.path.isabs(path) else os.path.join(ROOT, path)))
    ok, out, _ = build_harness()
    if not ok:
        print('harness build failed'); print(out); return 1
    build_model(['saphyr_model'])
    print(f"replay of {payload.get('kind')} for {prop}: {payload.get('what', '')}")
    reqs = payload.get('requests', [])
    a = run_impl(reqs)
    b = run_model(reqs)
    for r, x, y in zip(reqs, a, b):
        print('request:', r[:300])
        print('  implementation:', x[:2000])
        print('  model         :', y[:2000])
    for k in ('theorem', 'correspondence', 'input', 'detail'):
        if k in payload:
            print(f'{k}: {payload[k]}')
    return 0


def finish(prop, tier, seed, t0, res, audit_info, level_note):
    """Verdict + evidence. Returns the exit code."""
    obligations, discharged, adetails, checker_cmd = audit_info
    known = [k for k in load_known() if k['property'] == prop and k.get('status', 'open') == 'open']
    violations = []
    known_hit = {}
    for f in res.oracle_failures:
        k = next((k for k in known if k['sig'] == f['sig']), None)
        if k:
            known_hit.setdefault(k['sig'], (k, f))
        else:
            violations.append(f)
    rc = 0
    lines = []
    for sig, (k, f) in sorted(known_hit.items()):
        lines.append(f"KNOWN-FINDING: property={prop} {k['what']} [{sig}]")
    # distinct unlisted oracle failures, one VIOLATION line per signature
    seen = set()
    for f in violations:
        if f['sig'] in seen:
            continue
        if len(seen) >= 5:
            # further distinct failing inputs are counted in the evidence, not printed
            seen.add(f['sig'])
            continue
        seen.add(f['sig'])
        p = write_replay(prop, {'kind': 'oracle-failure', 'property': prop, 'what': f['what'], 'sig': f['sig'],
                                'requests': f.get('reqs', []), 'detail': f.get('detail', ''), 'input': f.get('input', '')})
        lines.append(f'VIOLATION property={prop} replay={p}')
        rc = 1
    proof_broken = obligations > 0 and discharged < obligations
    corr_broken = len(res.model_diffs) > 0
    if (proof_broken or corr_broken) and rc == 0:
        # a proof obligation or the correspondence no longer checks and the search found no failing input
        payload = {'kind': 'broken-tie', 'property': prop, 'requests': [], 'what': ''}
        if proof_broken:
            payload['theorem'] = '; '.join(adetails)[:3000]
            payload['what'] = 'a registered theorem no longer checks'
        if corr_broken:
            d = res.model_diffs[0]
            payload['correspondence'] = f"op {d['req'].split(' ')[0]}: model and implementation disagree on {len(res.model_diffs)} of {res.evaluations} cases ({d.get('what', '')})"
            payload['requests'] = [d['req'] for d in res.model_diffs[:5]]
            payload['detail'] = {'impl': d['impl'][:2000], 'model': d['model'][:2000]}
            payload['what'] = (payload['what'] + '; ' if payload['what'] else '') + 'model/implementation correspondence broken'
        p = write_replay(prop, payload)
        lines.append(f'VIOLATION property={prop} replay={p} no-failing-input-found')
        rc = 1
    wall = time.time() - t0
    cov = {
        'obligations': obligations, 'discharged': discharged, 'checker_cmd': checker_cmd or 'n/a',
        'trusted_base': TRUSTED_BASE,
        'theorems': REGISTRY.get(prop, {}).get('theorems', []),
        'audit_details': adetails,
        'evaluations': res.evaluations, 'distinct_nontrivial': len(res.nontrivial), 'rule': res.rule,
        'samples': res.samples[:8], 'exhaustive': res.exhaustive,
        'model_vs_implementation_disagreements': len(res.model_diffs),
        'implementation_vs_oracle_failures': len(res.oracle_failures),
        'known_findings_hit': sorted(known_hit.keys()),
        'distribution': dict(sorted(res.distribution.items())),
        'correspondence_ops': res.corr_ops,
        'source_fingerprints': source_fingerprints(), 'source_constants': source_constants(),
    }
    cov.update(res.extra)
    ev = {'property_id': prop, 'tier': tier, 'seed': seed, 'level': 'proof', 'coverage': cov,
          'assumptions': level_note, 'wall_s': round(wall, 2), 'violations': len(seen) + (1 if rc and not seen else 0)}
    os.makedirs(os.path.join(ROOT, 'evidence'), exist_ok=True)
    with open(os.path.join(ROOT, 'evidence', f'{prop}.json'), 'w') as f:
        json.dump(ev, f, indent=1, ensure_ascii=True)
    for l in lines:
        print(l)
    print(f"{prop} tier={tier} seed={seed}: obligations {discharged}/{obligations}, evaluations {res.evaluations}, "
          f"non-trivial {len(res.nontrivial)}, model-diffs {len(res.model_diffs)}, oracle-failures {len(res.oracle_failures)} "
          f"(known {len(known_hit)}), {wall:.0f}s -> {'FAIL' if rc else 'ok'}")
    return rc
