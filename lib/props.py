"""Per-property exploration: correspondence (model vs implementation) and oracle (property predicate
evaluated on the implementation's outputs)."""
import hashlib, os, sys
from vlib import *
from core import Result

PROPS = {}
NOTES = {}


def prop(pid, notes):
    def deco(fn):
        PROPS[pid] = fn
        NOTES[pid] = notes
        return fn
    return deco


# ---------------------------------------------------------------------------------------------
# the shared input space of C01 (also used by C02, C10, C12, C14, C17, C07, C19)

def c01_space(tier, rng, scale=1.0):
    texts = []
    for r in load_regressions():
        if 'text' in r:
            texts.append(r['text'])
    suite = [r['yaml'] for r in load_suite()]
    texts += suite
    L = 3 if tier == 'quick' else 4
    texts += list(exhaustive(ALPHA24, L))
    n = int((6000 if tier == 'quick' else 150000) * scale)
    texts += soups(rng.fork('soup'), n, 14)
    texts += soups(rng.fork('soup-long'), n // 6, 40)
    texts += line_soups(rng.fork('lines'), int(n * 0.7))
    texts += boundary_inputs()
    texts += alias_docs(rng.fork('alias'), int((1500 if tier == 'quick' else 40000) * scale))
    # structured, mostly valid documents from the spec-derived renderer (and mutations of them)
    import render as _R
    rr = rng.fork('render')
    rendered = [_R.render_stream(rr)[0] for _ in range(int((4000 if tier == 'quick' else 100000) * scale))]
    texts += rendered
    for t in rendered[::4]:
        texts.append(mutate(rr, t))
    mr = rng.fork('mut')
    for _ in range(int((2000 if tier == 'quick' else 40000) * scale)):
        t = mr.choice(suite)
        for _ in range(mr.randint(1, 3)):
            t = mutate(mr, t)
        texts.append(t)
    # de-duplicate, keep order
    seen = set()
    out = []
    for t in texts:
        if t not in seen:
            seen.add(t)
            out.append(t)
    return out


def ev_kind(item):
    """event item -> kind with anchor id, without text/tag/span"""
    k = item.rpartition('@')[0]
    f = k.split(':')
    if f[0] == 'SC':
        return f'SC:{f[2]}'
    if f[0] in ('SQ', 'MP'):
        return f'{f[0]}:{f[1]}'
    if f[0] == 'DS':
        return 'DS'
    return k


def proj_kinds(line):
    items, tail = split_line(line)
    return [ev_kind(i) for i in items if i != '/'], tail[0]


def is_nontrivial_tok(line):
    items, tail = split_line(line)
    return len(items) > 2 or tail[0] == 'ERR'


def note_dist(res, line, pfx):
    items, tail = split_line(line)
    res.count(f'{pfx}:{tail[0]}')
    if tail[0] == 'ERR' and len(tail) >= 3:
        res.count('err:' + unhx(tail[2])[:60])
    n = len(items)
    res.count(f'{pfx}:len<={1 if n<=2 else 8 if n<=8 else 32 if n<=32 else 999}')


def diff(res, req, a, b, what):
    res.model_diffs.append({'req': req, 'impl': a, 'model': b, 'what': what})


# ---------------------------------------------------------------------------------------------

@prop('C02', ["theorem C02_grammar quantifies over all token lists; the scanner is not involved",
              "anchor-id discipline is checked by the oracle (gram) and the par/evt correspondence, not yet by a theorem",
              "fuel sufficiency of the iterator loop is not part of C02_grammar (fuel is universally quantified; a fuel panic is excluded from the no-panic clause)"])
def c02(tier, rng):
    res = Result()
    res.rule = ("C01 input space (regressions, yaml-test-suite, exhaustive strings over the 24-symbol indicator alphabet, "
                "token soups, line soups, boundary family, mutated suite); non-trivial = the real scanner delivers a token "
                "besides StreamStart/StreamEnd or reports an error; distinct by text")
    res.corr_ops = ['par (model parser on the real scanner tokens) vs evt', 'evt', 'psh', 'api histories (oracle only)']
    texts = c01_space(tier, rng)
    reqs = []
    for t in texts:
        h = hx(t)
        reqs += [f'tok str 128 {h}', f'evt str 128 0 {h}', f'evt buf 16 1 {h}', f'psh str 1 {h}']
    impl = run_impl(reqs)
    # model: evt + psh directly, par on the real tokens
    mreqs = []
    for i in range(0, len(reqs), 4):
        mreqs += [f'par 0 {impl[i]}', reqs[i + 1], reqs[i + 2], reqs[i + 3]]
    model = run_model(mreqs)
    # oracle: grammar automaton + anchor discipline on the implementation's events
    oreqs = []
    for i in range(0, len(reqs), 4):
        for j in (1, 2, 3):
            body = impl[i + j].rsplit(' ; ', 1)[0] if ' ; ' in impl[i + j] else ''
            oreqs.append('gram ' + ' '.join(x for x in body.split(' ') if x != '/'))
    orac = run_model(oreqs)
    for n, t in enumerate(texts):
        i = 4 * n
        res.evaluations += 1
        if is_nontrivial_tok(impl[i]):
            res.nt(t)
        note_dist(res, impl[i + 1], 'evt')
        for j, what in ((0, 'par'), (1, 'evt str'), (2, 'evt buf'), (3, 'psh')):
            a = impl[i + 1] if j == 0 else impl[i + j]
            b = model[i + j]
            if 'PANIC' in a or 'CRASH' in a:
                res.oracle_failures.append({'sig': 'unclassified:' + hashlib.sha1(t.encode()).hexdigest()[:10],
                                            'what': f'implementation panicked ({what})', 'reqs': [reqs[i + max(j, 1)]], 'input': repr(t)})
                continue
            pa, pb = proj_kinds(a), proj_kinds(b)
            if j == 3 and pa[1] == 'ERR':
                # on an error path the push model does not expose the events delivered before the error
                if pb[1] != 'ERR':
                    diff(res, mreqs[i + j], a, b, what)
                continue
            if pa != pb:
                diff(res, mreqs[i + j], a, b, what + ': event kinds / anchor ids / outcome differ')
        for j in (1, 2, 3):
            o = orac[3 * n + j - 1]
            tail = split_line(impl[i + j])[1][0]
            good = o.startswith('ok') and (tail != 'DONE' or o == 'ok 2 0')
            if not good and 'PANIC' not in impl[i + j]:
                res.oracle_failures.append({
                    'sig': 'unclassified:' + hashlib.sha1(t.encode()).hexdigest()[:10],
                    'what': f'events are not a grammatical prefix/sentence: oracle says {o!r}',
                    'reqs': [reqs[i + j]], 'input': repr(t), 'detail': impl[i + j][:1500]})
        if n % 4001 == 0:
            res.samples.append({'text': t[:80], 'events': impl[i + 1][:200]})
    # the same sentence must come out of every way of pulling: consumers that look ahead with peek before each
    # next, that peek only now and then, and that keep calling after the end
    ar = rng.fork('api')
    acases = []
    for n, t in enumerate(texts):
        if n % 4 and n > 600:
            continue
        nev = len(split_line(impl[4 * n + 1])[0])
        if nev > 60 or 'PANIC' in impl[4 * n + 1]:
            continue
        hs = ['pn' * (nev + 3), 'n' * max(nev - 1, 0) + 'pnnpn', ''.join(ar.choice('pnn') for _ in range(2 * nev + 6))]
        acases.append((t, hs[n % 3]))
        if n % 7 == 0:
            acases.append((t, hs[(n + 1) % 3]))
    areqs = [f'api {hx(t)} {h}' for t, h in acases]
    aimpl = run_impl(areqs)
    greqs = []
    for (t, h), line in zip(acases, aimpl):
        outs = line.split(' ')
        got = [o[2:] for c, o in zip(h, outs) if c == 'n' and o[2:] != '-' and not o[2:].startswith('E:')]
        greqs.append('gram ' + ' '.join(got))
    gor = run_model(greqs)
    for (t, h), line, o, rq in zip(acases, aimpl, gor, areqs):
        res.evaluations += 1
        if 'PANIC' in line:
            continue
        outs = line.split(' ')
        nexts = [o2[2:] for c, o2 in zip(h, outs) if c == 'n']
        errd = any(x.startswith('E:') for x in (o2[2:] for o2 in outs))
        why = None
        if not o.startswith('ok'):
            why = f'events returned by next() are not a grammatical prefix: oracle says {o!r}'
        else:
            # nothing after StreamEnd
            ended = False
            for x in nexts:
                if ended and x != '-':
                    why = 'next() returned something after StreamEnd'
                    break
                if x.startswith('SE@'):
                    ended = True
            if why is None and not errd and len(outs) == len(h) and nexts and nexts[-1] == '-' and o != 'ok 2 0':
                why = f'iteration ended without an error but the events are not a whole sentence: {o!r}'
        if why:
            res.oracle_failures.append({'sig': usig(t + h), 'what': why + f' (history {h[:40]})', 'reqs': [rq], 'input': repr(t[:200])})
    return res


# ---------------------------------------------------------------------------------------------
KINDS = [('str', 128), ('buf', 16), ('ring8', 8), ('ring16', 16), ('ring64', 64), ('ring128', 128)]


def usig(t):
    return 'unclassified:' + hashlib.sha1(t.encode('utf8', 'replace')).hexdigest()[:10]


def long_inputs():
    """a few long inputs of each shape, to make a super-linear work blow-up visible"""
    out = []
    for n in (2000, 8000):
        out += ['- a\n' * n, 'k: v\n' * n, 'a' * n + '\n', '"' + 'a ' * n + '"\n', '# c\n' * n, '[' + 'a, ' * n + ']\n',
                'k: |\n' + '  text\n' * n, ' ' * n + 'a\n', '\n' * n, 'a: b\n' + 'x ' * n + '\n', '? a\n: b\n' * (n // 2),
                '- ' * (n // 8) + 'a\n', '{' + 'a: b, ' * n + '}\n', "'" + "it''s " * n + "'\n", 'a &x b *x ' * (n // 4) + '\n']
    return out


def bomb(n):
    s = 'a0: &a0 [x]\n'
    for i in range(1, n + 1):
        s += f'a{i}: &a{i} [' + ', '.join([f'*a{i-1}'] * 10) + ']\n'
    return s


def count_nodes(dump):
    return len(dump.split(' ')) if dump else 0


WORK_A, WORK_B = 48, 400       # trait-call bound  A·n + B  (n = number of chars)


@prop('C01', ["no panic/abort of the implementation is observed directly (catch_unwind per request; a dead process is reported as CRASH)",
              "the linear work bound is measured on the implementation with a counting Input wrapper (supporting evidence, not a theorem)",
              "theorems registered for C01 are component theorems (panic-freedom of the parser for all token lists; structural invariant of the scanner functions); the assembly over fetch_next_token is not complete"])
def c01(tier, rng):
    res = Result()
    res.rule = ("C01 input space x {StrInput, BufferedInput, RingInput 8/16/64/128} x {iterator, push, peek/next history, 4 loaders}; "
                "plus every string of length <= 3 over 12 type-steering characters as a plain scalar in 4 positions x 4 loaders; non-trivial = token stream beyond StreamStart/StreamEnd or an error; distinct by text")
    res.corr_ops = ['tok (str, buf, ring8)', 'evt', 'psh', 'lod']
    texts = c01_space(tier, rng) + long_inputs() + [bomb(3), bomb(5)]
    hr = rng.fork('hist')
    per = []
    reqs = []
    for t in texts:
        h = hx(t)
        calls = ''.join(hr.choice('pn') for _ in range(hr.randint(1, 24)))
        rs = [f'tok {k} {c} {h}' for k, c in KINDS[:3]] + [f'evt {k} {c} 0 {h}' for k, c in KINDS] + \
             [f'psh buf 1 {h}', f'psh str 0 {h}', f'api {h} {calls}'] + \
             [f'lod {nk} e {h}' for nk in ('y', 'yo', 'm', 'mo')] + [f'lod y r {h}', f'cnt str {h}', f'cnt buf {h}']
        per.append((len(reqs), len(rs)))
        reqs += rs
    impl = run_impl(reqs)
    # correspondence on the ops the model implements (not cnt), sampled for the long tail of kinds
    midx = [i for i, r in enumerate(reqs) if r.split(' ')[0] in ('tok', 'psh', 'lod') or r.startswith('evt str') or r.startswith('evt buf')]
    if tier == 'quick':
        midx = [i for i in midx if len(reqs[i]) < 6 * 3000]
    model = dict(zip(midx, run_model([reqs[i] for i in midx])))
    worst = 0.0
    for n, t in enumerate(texts):
        o, k = per[n]
        res.evaluations += 1
        if is_nontrivial_tok(impl[o]):
            res.nt(t)
        note_dist(res, impl[o + 3], 'evt')
        for j in range(k):
            a = impl[o + j]
            r = reqs[o + j]
            op = r.split(' ')[0]
            if a.startswith('PANIC') or 'CRASH' in a or 'RUNAWAY' in a or a == 'UNANSWERED' or ' PANIC' in a:
                res.oracle_failures.append({'sig': usig(t), 'what': f'{op}: implementation panicked / aborted / did not end ({a[:40]})',
                                            'reqs': [r], 'input': repr(t[:200])})
                continue
            if op in ('tok', 'evt', 'psh'):
                tail = split_line(a)[1][0]
                if tail not in ('DONE', 'ERR'):
                    res.oracle_failures.append({'sig': usig(t), 'what': f'{op}: stream ends in neither StreamEnd nor an error', 'reqs': [r], 'input': repr(t[:200])})
            if op == 'cnt':
                ticks, nchar, _ = (int(x) for x in a.split(' '))
                worst = max(worst, (ticks - WORK_B) / max(nchar, 1))
                if ticks > WORK_A * nchar + WORK_B:
                    res.oracle_failures.append({'sig': usig(t), 'what': f'work {ticks} trait calls for {nchar} chars exceeds {WORK_A}*n+{WORK_B}', 'reqs': [r], 'input': repr(t[:200])})
            if op == 'lod' and a.startswith('OK'):
                nodes = count_nodes(a[3:])
                if nodes > 200 * len(t) + 200:
                    res.oracle_failures.append({'sig': 'C01:loader-alias-fanout' if '*a' in t and '&a' in t else usig(t),
                                                'what': f'loader built {nodes} nodes from {len(t)} characters (alias fan-out)', 'reqs': [r], 'input': repr(t[:200])})
            if (o + j) in model:
                b = model[o + j]
                if op == 'lod':
                    a, b = canon_tree_line(a), canon_tree_line(b)
                if op == 'psh' and ' ; ERR' in a:
                    a, b = a.rsplit(' ; ', 1)[1], b.rsplit(' ; ', 1)[-1].lstrip('; ')
                if a != b and not (a.startswith('PANIC') and b.startswith('PANIC')):
                    diff(res, r, a, b, op)
        if n % 4001 == 0:
            res.samples.append({'text': t[:80], 'tok': impl[o][:160]})
    res.extra['work_bound'] = {'A': WORK_A, 'B': WORK_B, 'worst_observed_slope': round(worst, 2)}
    # the scalar resolver runs inside every loader: every string of length <= 3 over the characters that steer type
    # resolution (radix prefixes, signs, dot, exponent, digit, underscore, null/bool letters), in four positions, four loaders
    import itertools as _it
    alpha = '0xo+-.e1_~nN'
    edge = [''.join(c) for k in (1, 2, 3) for c in _it.product(alpha, repeat=k)] + ['0x', '0o', '0X', '0O', '0b', '+0x', '-0o', '0x_', '0o_', '.e', '+.', '-.', '0x+1', '0o-1', '.inf.', '.nan1', '1e', '1e+', '-', '+', '.', '~', 'e', '_']
    ereqs, emeta = [], []
    for w in edge:
        for shape in ('{0}\n', 'k: {0}\n', '- {0}\n- z\n', '[{0}, {{{0}: {0}}}]\n'):
            t = shape.format(w)
            for nk in ('y', 'yo', 'm', 'mo'):
                ereqs.append(f'lod {nk} e {hx(t)}')
                emeta.append(t)
    eimpl = run_impl(ereqs)
    esel = [i for i in range(0, len(ereqs), 4)]
    emodel = dict(zip(esel, run_model([ereqs[i] for i in esel])))
    for i, (r, a, t) in enumerate(zip(ereqs, eimpl, emeta)):
        res.evaluations += 1
        if i % 4 == 0:
            res.nt(t)
        if a.startswith('PANIC') or 'CRASH' in a or 'RUNAWAY' in a or a == 'UNANSWERED' or ' PANIC' in a:
            res.oracle_failures.append({'sig': usig(t), 'what': f'lod: a loader panicked / aborted on a short type-like scalar ({a[:40]})', 'reqs': [r], 'input': repr(t)})
        elif i in emodel and canon_tree_line(a) != canon_tree_line(emodel[i]):
            diff(res, r, a, emodel[i], 'lod')
    # loader work on nested complex keys: each level re-hashes its whole (nested) key
    import subprocess, time as _t
    t0 = _t.time()
    try:
        subprocess.run([IMPL, '--deep', 'loaddrop', 'key', '12000'], capture_output=True, timeout=120)
    except subprocess.TimeoutExpired:
        pass
    dt = _t.time() - t0
    t0 = _t.time()
    subprocess.run([IMPL, '--deep', 'load', 'key', '12000'], capture_output=True, timeout=120)
    dt_parse = _t.time() - t0
    res.extra['nested_key_load_seconds'] = {'load_from_str': round(dt, 2), 'events_only': round(dt_parse, 2)}
    res.evaluations += 1
    if dt > 1.5 and dt > 20 * dt_parse:
        res.oracle_failures.append({'sig': 'C01:loader-quadratic-nested-keys', 'what': f'load_from_str of 12000 nested explicit keys (24 kB) took {dt:.1f}s while the event interface took {dt_parse:.2f}s',
                                    'reqs': ['--deep loaddrop key 12000'], 'input': "'? ' x 12000 + 'a'"})
    return res


def canon_float(tok):
    """model prints floats as decimal denotations; canonicalise to binary64 bits (correct rounding)"""
    import struct
    if not tok.startswith('D:'):
        return tok
    body, at, span = tok.partition('@')
    v = body[2:]
    if len(v) == 16 and all(c in '0123456789abcdef' for c in v):
        return tok
    try:
        f = float(v)
    except ValueError:
        return tok
    if f != f:
        bits = 0x7ff8000000000000
    else:
        bits = struct.unpack('>Q', struct.pack('>d', f))[0]
    return f'D:{bits:016x}{at}{span}'


def canon_tree_line(line):
    return ' '.join(canon_float(x) for x in line.split(' '))


@prop('C10', ["implementation-vs-implementation comparison across six input back-ends is exact (events, spans, error text and position)",
              "theorems registered are per-operation equalities between the byte-level StrInput model and the buffered model; the whole-scanner relational theorem is not complete"])
def c10(tier, rng):
    res = Result()
    res.rule = "C01 input space; each text parsed with StrInput, BufferedInput and RingInput<8|16|64|128>; non-trivial as C01"
    res.corr_ops = ['tok str', 'tok buf 16', 'tok ring8 (model: buffered kind, capacity 8)']
    texts = c01_space(tier, rng) + long_inputs()[:15]
    reqs = []
    for t in texts:
        h = hx(t)
        reqs += [f'evt {k} {c} 0 {h}' for k, c in KINDS] + [f'tok {k} {c} {h}' for k, c in KINDS[:3]]
    impl = run_impl(reqs)
    W = len(KINDS) + 3
    midx = [i for i in range(len(reqs)) if i % W >= len(KINDS) and len(reqs[i]) < 6 * 4000]
    model = dict(zip(midx, run_model([reqs[i] for i in midx])))
    for n, t in enumerate(texts):
        o = n * W
        res.evaluations += 1
        if is_nontrivial_tok(impl[o + len(KINDS)]):
            res.nt(t)
        note_dist(res, impl[o], 'evt')
        ref = impl[o]
        for j in range(1, len(KINDS)):
            if impl[o + j] != ref:
                res.oracle_failures.append({'sig': usig(t), 'what': f'{KINDS[j][0]} differs from StrInput', 'reqs': [reqs[o], reqs[o + j]],
                                            'input': repr(t[:200]), 'detail': {'str': ref[:800], KINDS[j][0]: impl[o + j][:800]}})
                break
        for j in range(len(KINDS), W):
            if (o + j) in model and model[o + j] != impl[o + j] and not impl[o + j].startswith('PANIC'):
                diff(res, reqs[o + j], impl[o + j], model[o + j], 'tok')
        if n % 4001 == 0:
            res.samples.append({'text': t[:80], 'events': ref[:160]})
    return res


def span_checks(text, line):
    """structural span checks of C12 on one evt line; returns a failure description or None"""
    items, tail = split_line(line)
    stack = []
    for it in items:
        k, sp = parse_item(it)
        if sp is None:
            continue
        (si, sl, sc), (ei, el, ec) = sp
        if si > ei:
            return f'span starts after it ends: {it}'
        f = k.split(':')
        if stack and f[0] not in ('SQE', 'MPE', 'DE', 'SE'):
            if si < stack[-1][0]:
                return f'nested node starts before its parent: {it}'
        if f[0] in ('SQ', 'MP', 'DS'):
            stack.append((si, it))
        elif f[0] in ('SQE', 'MPE', 'DE'):
            if stack:
                ps, pit = stack.pop()
                if ei < ps:
                    return f'collection ends before it starts: {pit} .. {it}'
    return None


def scalar_span_checks(text, line):
    """C12 on scanner tokens: a non-empty single-line plain scalar's span is exactly its text; a
    quoted scalar's span starts at the opening quote and contains the closing quote. (Checked on
    tokens: the events of *omitted* nodes are synthesized `~` scalars that borrow another token's
    span and are not scalars of the input.)"""
    items, tail = split_line(line)
    for it in items:
        k, sp = parse_item(it)
        if sp is None:
            continue
        f = k.split(':')
        if f[0] != 'SC':
            continue
        (si, sl, sc), (ei, el, ec) = sp
        val = unhx(f[2]) if len(f) > 2 else ''
        if f[1] == 'P' and val and sl == el:
            if text[si:ei] != val:
                return f'plain scalar span {text[si:ei]!r} is not its text {val!r}'
        if f[1] in ('S', 'D'):
            q = "'" if f[1] == 'S' else '"'
            if not (si < len(text) and text[si] == q and q in text[si + 1:ei]):
                return f'quoted scalar span does not run from the opening quote over the closing quote: {text[si:ei]!r}'
    return None


@prop('C12', ["lineCol (Spec/Positions.lean) is evaluated by the Lean driver on every mark the implementation reports",
              "positions at the end of the input are exempt, as the property states",
              "theorems registered: per-primitive preservation of the position invariant; the whole-scanner invariant is not complete"])
def c12(tier, rng):
    res = Result()
    res.rule = "C01 input space (incl. CRLF, CR, NUL, astral); every token span, event span, error and final mark of both back-ends; marked nodes; non-trivial as C01"
    res.corr_ops = ['tok str', 'tok buf', 'fld m (loader model on the real events) vs lod m']
    texts = c01_space(tier, rng)
    reqs = []
    for t in texts:
        h = hx(t)
        reqs += [f'tok str 128 {h}', f'tok buf 16 {h}', f'evt str 128 0 {h}', f'evt buf 16 0 {h}', f'erd {h}', f'lod m e {h}', f'lod mo e {h}']
    impl = run_impl(reqs)
    W = 7
    oreqs, mreqs = [], []
    for n, t in enumerate(texts):
        o = n * W
        h = hx(t)
        oreqs += [f'pos {h} {impl[o + j]}' for j in (0, 1, 2, 3)]
        mreqs += [reqs[o], reqs[o + 1], f'fld m e {impl[o + 3]}']
    orac = run_model(oreqs)
    model = run_model(mreqs)
    for n, t in enumerate(texts):
        o = n * W
        res.evaluations += 1
        if is_nontrivial_tok(impl[o]):
            res.nt(t)
        note_dist(res, impl[o + 2], 'evt')
        nul = t.find('\0')
        for j in (0, 1, 2, 3):
            v = orac[4 * n + j]
            if v != 'ok' and 'PANIC' not in impl[o + j]:
                sig = usig(t)
                if nul >= 0 and nul_forced_newline(t, impl[o + j], nul):
                    sig = 'C12:nul-forced-newline'
                res.oracle_failures.append({'sig': sig, 'what': f'a reported position is not the true position ({v})',
                                            'reqs': [reqs[o + j]], 'input': repr(t[:200]), 'detail': impl[o + j][:1200]})
        for j in (0, 1, 2, 3):
            if 'PANIC' in impl[o + j]:
                continue
            why = span_checks(t, impl[o + j]) if j >= 2 else scalar_span_checks(t, impl[o + j])
            if why:
                res.oracle_failures.append({'sig': usig(t), 'what': why, 'reqs': [reqs[o + j]], 'input': repr(t[:200])})
        e = impl[o + 4]
        if e != 'none' and not e.startswith('PANIC'):
            d, m, info = e.split(' ')
            mi, ml, mc = (int(x) for x in m.split(','))
            want = f'{unhx(info)} at byte {mi} line {ml} column {mc + 1}'
            if unhx(d) != want:
                res.oracle_failures.append({'sig': usig(t), 'what': f'error Display {unhx(d)!r} is not {want!r}', 'reqs': [reqs[o + 4]], 'input': repr(t[:200])})
        # correspondence
        for j, mj in ((0, 0), (1, 1)):
            if model[3 * n + mj] != impl[o + j] and not impl[o + j].startswith('PANIC'):
                diff(res, reqs[o + j], impl[o + j], model[3 * n + mj], 'tok spans')
        if impl[o + 5].startswith('OK') and ' ; DONE' in impl[o + 3]:
            a, b = canon_tree_line(impl[o + 5]), canon_tree_line(model[3 * n + 2])
            if a != b:
                diff(res, mreqs[3 * n + 2], a, b, 'marked node spans (loader model on the real events)')
            if strip_spans(impl[o + 6]) != strip_spans(impl[o + 5]) or impl[o + 6] != impl[o + 5]:
                res.oracle_failures.append({'sig': usig(t), 'what': 'MarkedYaml and MarkedYamlOwned differ', 'reqs': [reqs[o + 5], reqs[o + 6]], 'input': repr(t[:200])})
        if n % 4001 == 0:
            res.samples.append({'text': t[:80], 'events': impl[o + 2][:200]})
    return res


def strip_spans(line):
    return ' '.join(x.partition('@')[0] for x in line.split(' '))


def nul_forced_newline(t, line, nul):
    """narrow signature of D13: the only untrue marks sit at the index of the first NUL and report
    (true line + 1, column 0) — the forced new line of fetch_stream_end"""
    items, tail = split_line(line)
    marks = []
    for it in items:
        k, sp = parse_item(it)
        if sp:
            marks += [sp[0], sp[1]]
    if tail[0] in ('ERR', 'DONE') and len(tail) > 1:
        try:
            marks.append(tuple(int(x) for x in tail[1].split(',')))
        except ValueError:
            pass
    ok = False
    for (i, l, c) in marks:
        tl, tc = true_linecol(t, i)
        if i >= len(t) or (l, c) == (tl, tc):
            continue
        if i == nul and c == 0 and l == tl + 1:
            ok = True
            continue
        return False
    return ok


def true_linecol(t, idx):
    l, c = 1, 0
    i = 0
    while i < idx and i < len(t):
        ch = t[i]
        if ch == '\n':
            l, c = l + 1, 0
        elif ch == '\r':
            if i + 1 < len(t) and t[i + 1] == '\n':
                c += 1
            else:
                l, c = l + 1, 0
        else:
            c += 1
        i += 1
    return l, c


def drop_index(line):
    """events with text, tags, anchors and line/col of every span, without character indices"""
    items, tail = split_line(line)
    out = []
    for it in items:
        k, sp = parse_item(it)
        if sp is None:
            out.append(it)
        else:
            out.append((k, sp[0][1:], sp[1][1:]))
    tl = tail[:]
    if tl[0] == 'ERR':
        m = tl[1].split(',')
        tl = ['ERR', ','.join(m[1:]), tl[2]]
    return out, tl


@prop('C14', ["implementation-vs-implementation comparison under LF -> CR LF and LF -> CR; equality of events, scalar text, line/col of every span, error message and its line/col",
              "theorems registered: break primitives agree on LF / CR LF / CR; character tests are break-blind; the whole-scanner relational theorem is not attempted"])
def c14(tier, rng):
    res = Result()
    res.rule = "every CR-free text of the C01 input space plus multi-line flow keys of 1000..1100 characters (the simple-key limit counts characters, CR LF adds one per line), under the two substitutions; non-trivial = contains a line feed and the scanner delivers more than StreamStart/StreamEnd or an error"
    res.corr_ops = ['evt str on the CRLF variant']
    texts = [t for t in c01_space(tier, rng) if '\r' not in t]
    # keys that span lines, of lengths around the 1024-character simple-key limit: the limit counts characters, and a
    # CR LF text has one more per line — flow keys (no limit applies) and quoted/plain block keys (the limit applies:
    # LF and CR LF may legitimately differ only by the index, so only flow forms are generated here)
    for lines in (2, 5, 10, 20):
        for total in (1000, 1015, 1017, 1020, 1023, 1024, 1025, 1030, 1100):
            w = max(1, (total - 3 * (lines - 1)) // lines)
            body = '\n  '.join(['a' * w] * lines)
            texts += ['{ ' + body + ': v }\n', '[ ' + body + ': v ]\n', '{ "' + body + '": v }\n', '{ ? ' + body + '\n  : v }\n']
    reqs = []
    for t in texts:
        reqs += [f'evt str 128 0 {hx(t)}', f'evt str 128 0 {hx(t.replace(chr(10), chr(13) + chr(10)))}',
                 f'evt str 128 0 {hx(t.replace(chr(10), chr(13)))}', f'evt buf 16 0 {hx(t.replace(chr(10), chr(13) + chr(10)))}']
    impl = run_impl(reqs)
    sample = [i for i in range(1, len(reqs), 4) if '\n' in texts[i // 4]][:20000 if tier == 'quick' else 400000]
    model = dict(zip(sample, run_model([reqs[i] for i in sample])))
    for n, t in enumerate(texts):
        o = 4 * n
        res.evaluations += 1
        if '\n' in t and (len(split_line(impl[o])[0]) > 4 or ' ; ERR' in impl[o]):
            res.nt(t)
        res.count('has-lf' if '\n' in t else 'no-lf')
        note_dist(res, impl[o], 'evt')
        ref = drop_index(impl[o])
        for j, name in ((1, 'CRLF'), (2, 'CR'), (3, 'CRLF/buffered')):
            if 'PANIC' in impl[o + j]:
                res.oracle_failures.append({'sig': usig(t), 'what': f'panic on the {name} variant', 'reqs': [reqs[o + j]], 'input': repr(t[:200])})
            elif drop_index(impl[o + j]) != ref:
                res.oracle_failures.append({'sig': usig(t), 'what': f'the {name} variant parses differently', 'reqs': [reqs[o], reqs[o + j]],
                                            'input': repr(t[:200]), 'detail': {'lf': impl[o][:800], name: impl[o + j][:800]}})
                break
        if (o + 1) in model and model[o + 1] != impl[o + 1] and 'PANIC' not in impl[o + 1]:
            diff(res, reqs[o + 1], impl[o + 1], model[o + 1], 'evt on CRLF text')
        if n % 4001 == 0:
            res.samples.append({'text': t[:80]})
    return res


def renumber(kinds, off):
    out = []
    for k in kinds:
        f = k.split(':')
        if f[0] == 'AL':
            out.append(f'AL:{int(f[1]) + off}')
        elif f[0] == 'SC' and int(f[2]) > 0:
            f[2] = str(int(f[2]) + off)
            out.append(':'.join(f))
        elif f[0] in ('SQ', 'MP') and int(f[1]) > 0:
            f[1] = str(int(f[1]) + off)
            out.append(':'.join(f))
        else:
            out.append(k)
    return out


def ev_full(line):
    items, tail = split_line(line)
    return [i.rpartition('@')[0] for i in items if i != '/'], tail


def n_anchors(kinds):
    n = 0
    for k in kinds:
        f = k.split(':')
        if f[0] == 'SC':
            n = max(n, int(f[2]))
        elif f[0] in ('SQ', 'MP'):
            n = max(n, int(f[1]))
    return n


@prop('C15', ["expected stream = events(A) ++ events(B) with B's anchor ids shifted; compared on the implementation through the iterator and the push interface",
              "theorems registered: tags are cleared at document end, load clears anchors per document; the scanner-state reset theorem is not proved"])
def c15(tier, rng):
    res = Result()
    res.rule = "pairs (A, B) of accepted streams from the suite, line soups, soups and rendered streams, A ending in a line break; 3- and 4-tuples; state-leak probes: 2500 nested flow collections with explicit/empty keys at every position x 20 state-sensitive documents; non-trivial = both streams contain a document; distinct by (A, B)"
    res.corr_ops = ['evt str on A ++ "...\\n" ++ B']
    pool_src = [r['yaml'] for r in load_suite() if not r['fail']] + line_soups(rng.fork('l'), 3000 if tier == 'quick' else 30000) + soups(rng.fork('s'), 3000 if tier == 'quick' else 30000, 10)
    import render as _R
    _rr = rng.fork('render')
    pool_src += [_R.render_stream(_rr)[0] for _ in range(3000 if tier == 'quick' else 40000)]
    pool_src += ['{ ? a : b }\n', '[ ? a ]\n', '[ : y ]\n', '- [ ? a, : y ]\n', '|\n', '- |\n', 'a: |+\n\n', '- >\n', '--- |\n', 'k: |\n  x\n', '&a x\n', '- &b y\n- *b\n', '%TAG !e! tag:e,\n--- !e!x 1\n', '%YAML 1.2\n---\na\n']
    impl0 = run_impl([f'evt str 128 0 {hx(t)}' for t in pool_src])
    # a NUL is the Input contract's end-of-input signal: a text with an embedded NUL is not a stream that can be continued
    pool = [(t, ev_full(l)[0]) for t, l in zip(pool_src, impl0) if l.endswith(' ; DONE') and '\0' not in t]
    enders = [p for p in pool if p[0].endswith('\n') and '\r' not in p[0][-2:]]
    # state-leak probes: A's that drive the scanner's flow / key / indentation state through unusual
    # transitions (explicit and empty keys at every position of nested flow collections, compact block
    # forms), each followed by every B of a fixed set of documents that are sensitive to left-over state
    lr = rng.fork('leak')
    def fnode(d):
        x = lr.below(10)
        if d <= 0 or x < 3:
            return lr.choice(['a', '"q"', 'b c', '&x a', '*x' if False else 'a'])
        def entry():
            y = lr.below(9)
            n1, n2 = fnode(d - 1), fnode(d - 1)
            return [n1, '? ' + n1, '? ' + n1 + ': ' + n2, n1 + ': ' + n2, ': ' + n2, '?', n1 + ':', '? ' + n1 + ':', n1][y]
        k = lr.randint(0, 3)
        body = ', '.join(entry() for _ in range(k)) + (',' if k and lr.chance(1, 6) else '')
        return ('[' + body + ']') if x < 7 else ('{' + body + '}')
    leakA = []
    for _ in range(2500 if tier == 'quick' else 6000):
        t = fnode(3)
        pre = lr.choice(['', '', '- ', 'k: ', '? ', '- - ', 'k:\n  - ', '--- '])
        leakA.append(pre + t + '\n')
    leakA += ['[[? a], b]\n', '[[c, ? a: 1], b]\n', '{a: [? b], c: d}\n', '[? [? a], b]\n', '- [[?], a]\n', '[[a: b, ? c], [d]]\n']
    probesB = ['k: v\n', 'a: 1\nb: 2\n', '- a\n- b\n', '? a\n: b\n', '[a: 1]\n', '[ : x ]\n', '{a: 1}\n', '[a, b]\n', 'a\n', '"q": 1\n', '- k: v\n', 'k:\n  - v\n',
               '|\n x\n', '&a x\n', '!t x\n', 'a: [b: c]\n', '[? a, : y]\n', '- - a\n', 'a:\n- b\n', "'s'\n"]
    la = run_impl([f'evt str 128 0 {hx(t)}' for t in leakA + probesB])
    leak_pool = [(t, ev_full(l)[0]) for t, l in zip(leakA + probesB, la) if l.endswith(' ; DONE')]
    leak_a = [p for p in leak_pool[:len(leakA)] if p[0] in set(leakA)]
    leak_b = [p for p in leak_pool if p[0] in set(probesB)]
    pr = rng.fork('pairs')
    cases = [[a, b] for a in leak_a for b in leak_b]
    if tier == 'quick':
        # every probe against every A would be ~50k pairs: keep all A's, rotate through the probes
        cases = [[a, leak_b[(i + j) % len(leak_b)]] for i, a in enumerate(leak_a) for j in range(6)]
    N = 20000 if tier == 'quick' else 80000      # (memory: every case is kept with its events; 1.2 M cases needed 65 GB)
    for _ in range(N):
        k = 2 if pr.chance(8, 10) else pr.randint(3, 4)
        parts = [pr.choice(enders) for _ in range(k - 1)] + [pr.choice(pool)]
        cases.append(parts)
    # three documents: a leak must survive an insensitive document in between
    for i, a in enumerate(leak_a[:1500]):
        cases.append([a, next(p for p in leak_b if p[0] == 'a\n'), leak_b[i % len(leak_b)]])
    reqs = []
    for parts in cases:
        text = '...\n'.join(p[0] for p in parts)
        reqs += [f'evt str 128 0 {hx(text)}', f'psh buf 1 {hx(text)}']
    impl = run_impl(reqs)
    sample = list(range(0, len(reqs), 2))[:8000 if tier == 'quick' else 100000]
    model = dict(zip(sample, run_model([reqs[i] for i in sample])))
    for n, parts in enumerate(cases):
        res.evaluations += 1
        text = '...\n'.join(p[0] for p in parts)
        if all(len(p[1]) > 2 for p in parts):
            res.nt(text)
        # expected: SS, documents of each part (anchors shifted), SE
        exp = ['SS']
        off = 0
        for t, k in parts:
            body = k[1:-1]
            exp += renumber(body, off)
            off += n_anchors(body)
        exp.append('SE')
        res.count(f'parts:{len(parts)}')
        a, tail = ev_full(impl[2 * n])
        if tail[0] != 'DONE' or a != exp:
            sig = usig(text)
            if is_d12(parts, a, exp, tail):
                sig = 'C15:contentless-block-scalar-at-end'
            elif is_d12b(text, tail):
                sig = 'C15:contentless-block-scalar-then-marker-error'
            res.oracle_failures.append({'sig': sig, 'what': 'A ++ "...\\n" ++ B does not parse to the documents of A followed by those of B (iterator)',
                                        'reqs': [reqs[2 * n]], 'input': repr(text[:300]), 'detail': {'got': ' '.join(a)[:800] + ' ; ' + ' '.join(tail)[:200], 'expected': ' '.join(exp)[:800]}})
        else:
            # loading interface: anchors are per document, so ids restart; compare modulo anchor ids via kinds
            b, tail2 = ev_full(impl[2 * n + 1])
            if tail2[0] != 'DONE' or [x for x in b] != exp:
                res.oracle_failures.append({'sig': usig(text), 'what': 'push interface differs on A ++ "...\\n" ++ B', 'reqs': [reqs[2 * n + 1]], 'input': repr(text[:300])})
        if (2 * n) in model and model[2 * n] != impl[2 * n] and 'PANIC' not in impl[2 * n]:
            diff(res, reqs[2 * n], impl[2 * n], model[2 * n], 'evt')
        if n % 5003 == 0:
            res.samples.append({'A': parts[0][0][:60], 'B': parts[-1][0][:60]})
    return res


def is_d12(parts, got, exp, tail):
    """narrow signature of D12: the only difference is a content-less clip/keep block scalar that was
    the last thing in a part: alone it reads one line break, before `...` it reads the empty string"""
    if tail[0] != 'DONE' or len(got) != len(exp):
        return False
    ok = False
    for g, e in zip(got, exp):
        if g == e:
            continue
        fg, fe = g.split(':'), e.split(':')
        if fg[0] == 'SC' and fe[0] == 'SC' and fg[1] in ('L', 'F') and fg[:4] == fe[:4] and unhx(fe[4]) == '\n' and unhx(fg[4]) == '':
            ok = True
            continue
        return False
    return ok


def is_d12b(text, tail):
    """narrow signature: error 'wrongly indented line in block scalar' raised at a document marker in
    column 0 that directly follows a block-scalar header whose lines so far are all blank"""
    import re
    if tail[0] != 'ERR' or unhx(tail[2]) != 'wrongly indented line in block scalar':
        return False
    idx, line, col = (int(x) for x in tail[1].split(','))
    if col != 0 or text[idx:idx + 3] not in ('...', '---'):
        return False
    before = text[:idx].split('\n')[:-1]
    while before and before[-1].strip(' ') == '':
        before.pop()
    return bool(before) and re.search(r'[|>][0-9+-]{0,2}[ \t]*(#.*)?$', before[-1]) is not None


@prop('C17', ["histories are cut at the first call that returns an error (DESIGN §7 C17: peek does not cache errors)",
              "theorems registered: peek/next laws on the Api model by induction over histories"])
def c17(tier, rng):
    res = Result()
    res.rule = "inputs of the C01 space with at most 10 events: all peek/next histories up to a length bound; longer inputs: random histories; push multi on/off vs iterator (also on nests 100..1000 deep around 2^8 open collections: block sequences, explicit keys, block around flow, block mappings); non-trivial = stream with a document or an error; distinct by (text, history)"
    res.corr_ops = ['api', 'psh 1', 'psh 0']
    texts = c01_space(tier, rng, 0.5)
    ev = run_impl([f'evt str 128 0 {hx(t)}' for t in texts])
    hr = rng.fork('h')
    small = [(t, l) for t, l in zip(texts, ev) if len(split_line(l)[0]) <= 10 and 'PANIC' not in l]
    big = [(t, l) for t, l in zip(texts, ev) if len(split_line(l)[0]) > 10 and 'PANIC' not in l]
    hr2 = rng.fork('pick')
    nsmall = 150 if tier == 'quick' else 3000
    L = 8 if tier == 'quick' else 10
    picked = [hr2.choice(small) for _ in range(nsmall)] + [(r['text'], None) for r in load_regressions() if r.get('prop') == 'C17']
    picked += [('--- &a x\n--- *a\n', None), ('*unknown', None), ('&a [*a]', None), ('a: b\n--- c\n...\n', None)]
    cases = []
    import itertools
    hists = [''.join(h) for n in range(1, L + 1) for h in itertools.product('pn', repeat=n)]
    for t, _ in picked:
        for h in hists:
            cases.append((t, h))
    for t, l in big[:3000 if tier == 'quick' else 60000]:
        n = len(split_line(l)[0])
        cases.append((t, ''.join(hr.choice('pnn') for _ in range(hr.randint(n, 2 * n + 6)))))
    reqs = [f'api {hx(t)} {h}' for t, h in cases]
    impl = run_impl(reqs)
    evmap = {}
    need = sorted({t for t, _ in cases})
    for t, l in zip(need, run_impl([f'evt str 128 0 {hx(t)}' for t in need])):
        evmap[t] = l
    msample = list(range(0, len(reqs), 7 if tier == 'quick' else 3))
    model = dict(zip(msample, run_model([reqs[i] for i in msample])))
    for n, (t, h) in enumerate(cases):
        res.evaluations += 1
        items, tail = split_line(evmap[t])
        if len(items) > 2 or tail[0] == 'ERR':
            res.nt(t + '\x00' + h)
        out = impl[n].split(' ')
        why = check_history(h, out, items, tail)
        if why:
            res.oracle_failures.append({'sig': usig(t + h), 'what': why, 'reqs': [reqs[n], f'evt str 128 0 {hx(t)}'], 'input': repr(t[:200]) + ' history ' + h})
        if n in model and model[n] != impl[n] and 'PANIC' not in impl[n]:
            diff(res, reqs[n], impl[n], model[n], 'api history')
        if n % 20011 == 0:
            res.samples.append({'text': t[:60], 'history': h, 'results': impl[n][:200]})
    # push vs pull
    extra = ['--- &a x\n--- *a\n', '&a x\n---\n*a\n', '- &a x\n...\n- *a\n', '&a [1]\n--- &b [*a]\n--- [*b, *a]\n']
    # nesting around the widths of small counters (2^8, 2^16 open collections): block, explicit keys, block around flow,
    # growing-indentation block mappings, also in a second document
    for d in (100, 254, 255, 256, 257, 300, 1000) + ((65535, 65536, 65537) if tier == 'thorough' else ()):
        extra += ['- ' * d + 'x\n', '? ' * d + 'x\n', '- ? ' * (d // 2 + 1) + 'x\n', 'a\n--- \n' + '- ' * d + 'x\n... \n- y\n']
        if d <= 1000:
            extra += ['- ' * (d - 100) + '[' * 100 + 'x' + ']' * 100 + '\n' if d > 100 else '- ' * d + '[x]\n',
                      ''.join(' ' * i + 'k:\n' for i in range(d)) + ' ' * d + 'v\n']
    ev = ev + run_impl([f'evt str 128 0 {hx(t)}' for t in extra])
    texts = texts + extra
    preqs = []
    for t in texts:
        preqs += [f'psh str 1 {hx(t)}', f'psh str 0 {hx(t)}']
    pimpl = run_impl(preqs)
    pmodel = run_model(preqs[:6000 if tier == 'quick' else 200000])
    for n, t in enumerate(texts):
        res.evaluations += 1
        e = ev[n]
        if 'PANIC' in e:
            continue
        for j, name in ((0, 'load(multi=true)'), (1, 'repeated load(multi=false)')):
            p = pimpl[2 * n + j]
            pj = ' '.join(x for x in p.split(' ') if x != '/')
            if pj != e:
                sig = usig(t)
                if cross_doc_alias(t, e, pj):
                    sig = 'C17:cross-document-alias'
                res.oracle_failures.append({'sig': sig, 'what': f'{name} does not deliver the iterator\'s events/spans/error', 'reqs': [preqs[2 * n + j], f'evt str 128 0 {hx(t)}'],
                                            'input': repr(t[:200]), 'detail': {'iterator': e[:600], 'push': p[:600]}})
                break
            if j == 1 and ' ; DONE' in p:
                # one document per call
                calls = p.rsplit(' ; ', 1)[0].split(' / ')
                for c in calls[:-1]:
                    if sum(1 for x in c.split(' ') if x.startswith('DE@')) != 1:
                        res.oracle_failures.append({'sig': usig(t), 'what': 'a load(multi=false) call did not deliver exactly one document', 'reqs': [preqs[2 * n + 1]], 'input': repr(t[:200])})
                        break
        for j in (0, 1):
            k = 2 * n + j
            if k < len(pmodel):
                a, b = pimpl[k], pmodel[k]
                if ' ; ERR' in a:
                    a, b = a.rsplit(' ; ', 1)[1], b.rsplit(' ; ', 1)[-1].lstrip('; ')
                if a != b and 'PANIC' not in a:
                    diff(res, preqs[k], a, b, 'psh')
    return res


def check_history(h, out, items, tail):
    """results of a peek/next history against plain iteration `items ; tail`"""
    pos = 0            # number of events consumed by next
    ended = False
    for i, (c, r) in enumerate(zip(h, out)):
        body = r[2:]
        if pos < len(items):
            want = items[pos]
        elif tail[0] == 'ERR':
            want = f'E:{tail[1]}:{tail[2]}'
        else:
            want = '-'
        if ended:
            want = '-'
        if body != want:
            return f'call {i} ({"peek" if c == "p" else "next"}) returned {body[:80]} where iteration gives {want[:80]}'
        if want.startswith('E:'):
            if i != len(out) - 1:
                return 'history continued after an error'
            return None
        if c == 'n' and want != '-':
            if items[pos].startswith('SE@'):
                ended = True
            pos += 1
    if len(out) != len(h) and not (out and out[-1][2:].startswith('E:')):
        return 'history was cut short'
    return None


def cross_doc_alias(t, e, p):
    """narrow signature of D9: the iterator resolves an alias to an anchor of an earlier document,
    the push interface reports 'unknown anchor' at that alias"""
    if ' ; ERR' not in p or ' ; DONE' not in e and ' ; ERR' not in e:
        return False
    pt = p.rsplit(' ; ', 1)[1].split(' ')
    if unhx(pt[2]) != 'while parsing node, found unknown anchor':
        return False
    pitems = split_line(p)[0]
    eitems = split_line(e)[0]
    k = len(pitems)
    return eitems[:k] == pitems and k < len(eitems) and eitems[k].startswith('AL:')


# ---------------------------------------------------------------------------------------------
# C07 / C19: loader

def parse_tree_tokens(tokens, i=0):
    """prefix-notation dump -> nested python value (with spans dropped); returns (node, next index)"""
    t = tokens[i].partition('@')[0]
    if t.startswith('Q:'):
        n = int(t[2:]); items = []; i += 1
        for _ in range(n):
            x, i = parse_tree_tokens(tokens, i); items.append(x)
        return ('Q', items), i
    if t.startswith('M:'):
        n = int(t[2:]); items = []; i += 1
        for _ in range(n):
            k, i = parse_tree_tokens(tokens, i)
            v, i = parse_tree_tokens(tokens, i)
            items.append((k, v))
        return ('M', items), i
    return t, i + 1


def docs_of(line):
    """`OK d / d / d` -> list of token lists"""
    if not line.startswith('OK'):
        return None
    body = line[3:]
    return [d.split(' ') for d in body.split(' / ')] if body else []


def denote_events(items, resolve):
    """Independent denotation (Spec of C07, mirrored by Spec/Denote.lean): events -> list of documents.
    Anchors are bound when the node is complete; an alias to an unbound anchor is BadValue ('B');
    a later pair with an equal key replaces the value, keeps the old key object and moves to the back."""
    docs = []
    stack = []          # frames: ['Q', items, aid] | ['M', pairs, aid, pending_key | NOKEY]
    anchors = {}
    NOKEY = object()

    def complete(node, aid):
        if aid:
            anchors[aid] = node
        if not stack:
            docs.append(node)
            return
        fr = stack[-1]
        if fr[0] == 'Q':
            fr[1].append(node)
        else:
            if fr[3] is NOKEY:
                fr[3] = node
            else:
                k = fr[3]
                fr[3] = NOKEY
                for idx, (k0, _) in enumerate(fr[1]):
                    if k0 == k:
                        fr[1].pop(idx)
                        fr[1].append((k0, node))
                        break
                else:
                    fr[1].append((k, node))
    cur_doc_open = False
    for it in items:
        k = it.rpartition('@')[0]
        f = k.split(':')
        if f[0] == 'DS':
            cur_doc_open = True
            ndocs = len(docs)
        elif f[0] == 'DE':
            if len(docs) == ndocs:
                docs.append('B')
            cur_doc_open = False
        elif f[0] == 'SC':
            complete(resolve(unhx(f[4]), f[1], f[3]), int(f[2]))
        elif f[0] == 'AL':
            complete(anchors.get(int(f[1]), 'B'), 0)
        elif f[0] == 'SQ':
            stack.append(['Q', [], int(f[1])])
        elif f[0] == 'MP':
            stack.append(['M', [], int(f[1]), NOKEY])
        elif f[0] in ('SQE', 'MPE'):
            fr = stack.pop()
            complete((fr[0], list(fr[1])), fr[2])
    return docs


def freeze(n):
    if isinstance(n, tuple):
        if n[0] == 'Q':
            return ('Q', tuple(freeze(x) for x in n[1]))
        return ('M', tuple((freeze(k), freeze(v)) for k, v in n[1]))
    return n


@prop('C07', ["the oracle denotes the implementation's own events (pull) into documents independently of the loader and compares with what the loader returned; scalar resolution is taken from the implementation's resolver (res), which C08 checks separately",
              "float keys are compared through their binary64 bits",
              "theorem fold_tree is proved for the loader with an explicit no-key marker; see Props/C07.lean for the hypothesis that separates it from the pinned source"])
def c07(tier, rng):
    res = Result()
    res.rule = "every accepted input of the C01 space + alias/duplicate-key/tagged-key seeds; non-trivial = at least one collection or alias; distinct by text"
    res.corr_ops = ['fld y e (loader model on the real events) vs lod y e', 'lod y e (whole model pipeline)']
    seeds = ['!!int x: 1\na: b\n', '{!!null no: 1, c: d}\n', 'a: 1\nb: 2\na: 3\n', '&a [1, 2]: x\n*a : y\n', '- &a [*a]\n', '&a {k: *a}\n',
             '? [a, b]\n: 1\n? [a, b]\n: 2\n', '1: a\n0x1: b\n', '1.0: a\n1: b\n', '~: a\nnull: b\n', '&x a: *x\n*x : &x b\n', 'a: &a b\n*a : c\n--- *a\n',
             '!!str 1: a\n"1": b\n', '!!float 1: a\n1.0: b\n', '- !!bool yes\n- x\n', '? !!int q\n: v\nw: z\n', '{a: 1, a: 2, b: 3, a: 4}\n', '[&a x, *a, &a y, *a]\n']
    texts = seeds + typed_scalar_docs() + alias_docs(rng.fork('alias'), 6000 if tier == 'quick' else 200000) + c01_space(tier, rng)
    # the loaders consume the push interface (Parser::load), so that is "the parser" here
    ev = run_impl([f'psh buf 1 {hx(t)}' for t in texts])
    keep = [(t, e) for t, e in zip(texts, ev) if 'PANIC' not in e]
    reqs = []
    for t, e in keep:
        reqs += [f'lod y e {hx(t)}']
    impl = run_impl(reqs)
    # resolver answers for all scalars that occur (style/tag/text), from the implementation
    scal = {}
    for t, e in keep:
        for it in split_line(e)[0]:
            f = it.rpartition('@')[0].split(':')
            if f[0] == 'SC':
                scal[(f[1], f[3], f[4])] = None
    keys = sorted(scal)
    for k, r in zip(keys, run_impl([f'res {k[0]} {k[1]} {k[2]}' for k in keys])):
        scal[k] = r.split(' ')[0]
    def resolve(text, style, tag):
        r = scal[(style, tag, hx(text))]
        if r == 'BAD':
            return 'B'
        if r.startswith('B:'):
            return 'T' if r == 'B:true' else 'F'
        return r
    mreqs = []
    for (t, e), a in zip(keep, impl):
        mreqs += [f'fld y e {e}', f'lod y e {hx(t)}']
    model = run_model(mreqs)
    for n, ((t, e), a) in enumerate(zip(keep, impl)):
        res.evaluations += 1
        items, tail = split_line(e)
        if any(i.startswith(('SQ:', 'MP:', 'AL:')) for i in items):
            res.nt(t)
        res.count('accepted' if tail[0] == 'DONE' else 'rejected')
        if 'PANIC' in a or 'CRASH' in a:
            res.oracle_failures.append({'sig': usig(t), 'what': 'loader panicked', 'reqs': [reqs[n]], 'input': repr(t[:200])})
            continue
        # a load fails exactly when the parser reports an error (same error)
        if (tail[0] == 'ERR') != a.startswith('ERR'):
            res.oracle_failures.append({'sig': usig(t), 'what': 'load fails although the parser reports no error, or vice versa', 'reqs': [reqs[n]], 'input': repr(t[:200])})
            continue
        if tail[0] == 'ERR':
            if a != 'ERR ' + ' '.join(tail[1:]):
                res.oracle_failures.append({'sig': usig(t), 'what': 'load error differs from the parser error', 'reqs': [reqs[n]], 'input': repr(t[:200])})
            continue
        docs = docs_of(a)
        got = [freeze(parse_tree_tokens(d)[0]) for d in docs] if docs else []
        want = [freeze(d) for d in denote_events(items, resolve)]
        if got != want:
            sig = usig(t)
            if bad_key_shift(items, resolve):
                sig = 'C07:badvalue-key-shifts-pairs'
            res.oracle_failures.append({'sig': sig, 'what': 'loaded documents are not the denotation of the event stream', 'reqs': [reqs[n]],
                                        'input': repr(t[:200]), 'detail': {'loaded': a[:600], 'denoted': str(want)[:600]}})
        ma, mb = canon_tree_line(model[2 * n]), canon_tree_line(model[2 * n + 1])
        if ma != a:
            diff(res, mreqs[2 * n], a, ma, 'fld: loader model on the real events')
        if mb != a:
            diff(res, mreqs[2 * n + 1], a, mb, 'lod: model pipeline')
        if n % 4001 == 0:
            res.samples.append({'text': t[:80], 'loaded': a[:200]})
    return res


def bad_key_shift(items, resolve):
    """narrow signature of D15: some mapping key of the stream denotes BadValue (type/tag mismatch
    or alias to a still-open anchor)"""
    # a key denotes BadValue iff, replaying the stream, a node completed in key position is 'B'
    stack = []
    anchors = {}
    hit = False

    def complete(node, aid):
        nonlocal hit
        if aid:
            anchors[aid] = node
        if stack and stack[-1][0] == 'M':
            if stack[-1][1] == 0 and node == 'B':
                hit = True
            stack[-1][1] ^= 1
    for it in items:
        f = it.rpartition('@')[0].split(':')
        if f[0] == 'SC':
            complete(resolve(unhx(f[4]), f[1], f[3]), int(f[2]))
        elif f[0] == 'AL':
            complete(anchors.get(int(f[1]), 'B'), 0)
        elif f[0] == 'SQ':
            stack.append(['Q', 0, int(f[1])])
        elif f[0] == 'MP':
            stack.append(['M', 0, int(f[1])])
        elif f[0] in ('SQE', 'MPE'):
            fr = stack.pop()
            complete('X', fr[2])
    return hit


def typed_scalar_docs():
    """every scalar style x chomping x tag around type-like contents, in four positions: the
    resolution of a scalar must depend on (text, style, tag) in the same way for every node type and mode"""
    contents = ['12', '-3', '0x1F', '0o17', '1.5', '1e3', '.inf', '-.inf', '.nan', 'true', 'False', 'null', '~', 'Null', '', 'x', '012', '+7', '9223372036854775808']
    out = []
    for c in contents:
        pres = [c, f"'{c}'", f'"{c}"']
        for hd in ('|', '>', '|-', '>-', '|+', '>+', '|2-'):
            pres.append(f'{hd}\n    {c}\n' if c else f'{hd}\n')
            pres.append(f'{hd}\n    {c}' if c else f'{hd}')       # no final line break
        for tg in ('!!str', '!!int', '!!float', '!!bool', '!!null', '!foo', '!'):
            pres.append(f'{tg} {c}')
            pres.append(f'{tg} "{c}"')
            pres.append(f'{tg} |-\n    {c}\n' if c else f'{tg} |-\n')
        for q in pres:
            out.append(q if q.endswith('\n') else q + '\n')
            out.append('- ' + q + ('' if q.endswith('\n') else '\n') + '- z\n')
            out.append('k: ' + q + ('' if q.endswith('\n') else '\n'))
            if '\n' not in q:
                out.append(q + ': v\n')
                out.append('[' + q + ', {' + q + ': ' + q + '}]\n')
            else:
                out.append('? ' + q + ('' if q.endswith('\n') else '\n') + ': v\n')
            if not q.endswith('\n'):
                out.append('- ' + q)                                  # scalar ends the input without a break
    return out


@prop('C19', ["the four node types are compared on the implementation directly (structure, scalar values, error); marked kinds with spans stripped",
              "lazy load + parse_representation_recursive is compared with the eager load on the implementation",
              "equality/hash of marked nodes ignoring spans is exercised through mappings keyed by marked nodes (C20 covers the hash stream)"])
def c19(tier, rng):
    res = Result()
    res.rule = "every scalar style x chomping x tag around type-like contents in four positions; accepted and rejected inputs of the C01 space; 4 node kinds x {eager, lazy, lazy+resolve}; pairs of documents with the same layout and different data (and the same data in a different layout): every node of one against every node of the other, equal-pair counts compared across node types; non-trivial = a document with a collection; distinct by text"
    res.corr_ops = ['lod <kind> <mode> for all 4 kinds and 3 modes']
    seeds = ['a: [1, x]\n', '- 1\n- 0x2\n', '[~, true, 1.5, "s"]\n', '!!int x\n', '{1: a, 0x1: b}\n', '- - - 1\n', '&a [1]\n', 'k: !!float 1\n', "- '1'\n- \"2\"\n- |\n 3\n"]
    texts = seeds + typed_scalar_docs() + alias_docs(rng.fork('alias'), 3000 if tier == 'quick' else 100000) + c01_space(tier, rng, 0.6)
    reqs = []
    for t in texts:
        h = hx(t)
        reqs += [f'lod {nk} {m} {h}' for nk in ('y', 'yo', 'm', 'mo') for m in ('e', 'l', 'r')]
    impl = run_impl(reqs)
    msample = [i for i in range(len(reqs))][:60000 if tier == 'quick' else 10**9]
    model = dict(zip(msample, run_model([reqs[i] for i in msample])))
    # equality across loads: documents with the same layout (so that corresponding nodes have the same spans) but
    # different data, and the other way round — marked nodes must compare exactly as bare nodes do
    er = rng.fork('eqx')
    words = ['80', '81', 'ab', 'cd', 'x1', '~~', 'no', 'on', '1.', '.5', "'a'", '"a"', 'abc', 'abd', 'nul', 'tru']
    shapes = ['{0}\n', 'k: {0}\n', '- {0}\n- {1}\n', 'port: {0}\nhosts: [{1}, {2}]\n', '{{{0}: {1}, {2}: [{3}]}}\n', '? {0}\n: {1}\n', '- - {0}\n  - {1}\n- {2}\n', '&a {0}\n', '- !t {0}\n- {1}\n']
    xcases = []
    for _ in range(400 if tier == 'quick' else 20000):
        sh = er.choice(shapes)
        n_ = sh.count('{') - 2 * sh.count('{{')
        wl = er.choice([2, 2, 3])
        pool = [w for w in words if len(w) == wl]
        a = sh.format(*[er.choice(pool) for _ in range(4)])
        b = sh.format(*[er.choice(pool) for _ in range(4)]) if er.chance(4, 5) else ' ' + a.replace('\n', '\n ').rstrip(' ')
        xcases.append((a, b, er.choice('el')))
    xreqs = []
    for a, b, m in xcases:
        xreqs += [f'heq {nk} {m} {hx(a)} {hx(b)}' for nk in ('y', 'yo', 'm')]
    ximpl = run_impl(xreqs)
    for n, (a, b, m) in enumerate(xcases):
        res.evaluations += 1
        row = ximpl[3 * n:3 * n + 3]
        if row[0] != 'ok 0':
            res.nt(a + '\x00' + b)
        if len(set(row)) != 1 and not any('PANIC' in x for x in row):
            res.oracle_failures.append({'sig': usig(a + b), 'what': f'nodes of two loads compare differently depending on the node type (equal pairs: Yaml {row[0]}, YamlOwned {row[1]}, MarkedYaml {row[2]}): marked equality must ignore spans and look at the data',
                                        'reqs': xreqs[3 * n:3 * n + 3], 'input': repr(a) + ' vs ' + repr(b)})
    W = 12
    for n, t in enumerate(texts):
        o = n * W
        res.evaluations += 1
        row = impl[o:o + W]
        if any('PANIC' in x or 'CRASH' in x for x in row):
            res.oracle_failures.append({'sig': usig(t), 'what': 'a loader panicked', 'reqs': reqs[o:o + W], 'input': repr(t[:200])})
            continue
        if row[0].startswith('OK') and ('Q:' in row[0] or 'M:' in row[0]):
            res.nt(t)
        res.count('accepted' if row[0].startswith('OK') else 'rejected')
        # kinds agree per mode
        for mi, m in enumerate(('e', 'l', 'r')):
            ref = row[mi]
            for ki, nk in enumerate(('y', 'yo', 'm', 'mo')):
                x = row[3 * ki + mi]
                if strip_spans(x) != ref:
                    res.oracle_failures.append({'sig': usig(t), 'what': f'node kind {nk} differs from Yaml in mode {m}', 'reqs': [reqs[o + mi], reqs[o + 3 * ki + mi]], 'input': repr(t[:200])})
            if row[6 + mi] != row[9 + mi]:
                res.oracle_failures.append({'sig': usig(t), 'what': f'MarkedYaml and MarkedYamlOwned differ (spans) in mode {m}', 'reqs': [reqs[o + 6 + mi], reqs[o + 9 + mi]], 'input': repr(t[:200])})
        # lazy + resolve == eager
        if row[0].startswith('OK') and row[2] != row[0]:
            sig = usig(t)
            if take_not_restored(row[1], row[2], row[0]):
                sig = 'C19:parse-representation-drops-nodes'
            res.oracle_failures.append({'sig': sig, 'what': 'lazy load followed by parse_representation_recursive differs from the eager load', 'reqs': [reqs[o], reqs[o + 2]],
                                        'input': repr(t[:200]), 'detail': {'eager': row[0][:500], 'lazy+resolve': row[2][:500]}})
        for j in range(W):
            if (o + j) in model:
                a, b = row[j], canon_tree_line(model[o + j])
                if a != b:
                    diff(res, reqs[o + j], a, b, 'lod')
        if n % 4001 == 0:
            res.samples.append({'text': t[:80], 'eager': row[0][:160]})
    return res


def take_not_restored(lazy, resolved, eager):
    """narrow signature of D1: the resolved tree equals the eager one except that sequences (at any
    level) and the nodes below them have become BadValue, or a non-mapping root has become BadValue"""
    ld, rd, ed = docs_of(lazy), docs_of(resolved), docs_of(eager)
    if ld is None or rd is None or ed is None or len(rd) != len(ed):
        return False

    def ok(r, e):
        if r == 'B':
            return True            # a sequence / already-resolved node was dropped
        if isinstance(r, tuple) and isinstance(e, tuple) and r[0] == e[0] == 'M' and len(r[1]) <= len(e[1]):
            # keys that were sequences collapse to B and may merge; accept when every surviving pair matches some eager pair
            return all(any(ok(rk, ek) and ok(rv, evv) for ek, evv in e[1]) for rk, rv in r[1])
        return r == e
    return all(ok(parse_tree_tokens(r)[0], parse_tree_tokens(e)[0]) for r, e in zip(rd, ed))


# ---------------------------------------------------------------------------------------------
# C08: scalar resolution

ALPHA32 = list("01789+-.eExoafAF_nulNULtrsiI~T")
CORE = hx('tag:yaml.org,2002:')


def f64bits(den):
    import struct
    if den == 'nan':
        return 0x7ff8000000000000
    try:
        f = float(den)
    except (ValueError, OverflowError):
        return None
    return struct.unpack('>Q', struct.pack('>d', f))[0]


def core_check(text, r, c):
    """untagged plain scalar: implementation result `r` against the core-schema reading `c`"""
    I64 = (-(1 << 63), (1 << 63) - 1)
    cf = c.split(' ')
    cint = next((int(x[4:]) for x in cf if x.startswith('int:')), None)
    cflt = next((x[6:] for x in cf if x.startswith('float:')), None)
    if r == 'BAD':
        return 'BadValue for an untagged scalar'
    if r == 'N':
        return None if c == 'null' else 'null for a text that is not a core-schema null'
    if r.startswith('B:'):
        return None if c == 'bool:' + r[2:] else 'boolean for a text that is not that core-schema boolean'
    if r.startswith('I:'):
        return None if cint is not None and cint == int(r[2:]) else f'integer {r[2:]} but the core schema reads {c}'
    if r.startswith('D:'):
        if cflt is None:
            return f'float for a text the core schema reads as {c}'
        if cint is not None and I64[0] <= cint <= I64[1]:
            return 'an integer literal within 64 bits was read as a float'
        return None if f64bits(cflt) == int(r[2:], 16) else f'float bits {r[2:]} differ from the value of {cflt}'
    if r.startswith('S:'):
        if unhx(r[2:]) != text:
            return 'string content differs from the text'
        # completeness for the spellings the property lists
        if text in ('null', '~', 'true', 'false'):
            return 'a JSON literal / ~ was left a string'
        if cint is not None and I64[0] <= cint <= I64[1]:
            return 'an integer literal within 64 bits was left a string'
        if cint is None and cflt is not None:
            return 'a float literal was left a string'
        return None
    return 'unparsable answer ' + r


def tagged_check(text, tag, r, c, untagged):
    I64 = (-(1 << 63), (1 << 63) - 1)
    cf = c.split(' ')
    cint = next((int(x[4:]) for x in cf if x.startswith('int:')), None)
    cflt = next((x[6:] for x in cf if x.startswith('float:')), None)
    dec = text.lstrip('+-').isdigit() and text.isascii() and cint is not None and not text.startswith(('0x', '0o'))
    if tag == 'int':
        if r.startswith('I:'):
            return None if cint == int(r[2:]) else 'under !!int: value disagrees with the untagged reading'
        if r == 'BAD':
            return 'under !!int: a decimal integer within 64 bits was rejected' if dec and I64[0] <= cint <= I64[1] else None
        return 'under !!int: result is neither an integer nor BadValue'
    if tag == 'float':
        if r.startswith('D:'):
            if cflt is None:
                return 'under !!float: value for a text that is not a core-schema number'
            return None if f64bits(cflt) == int(r[2:], 16) else 'under !!float: value disagrees with the text'
        if r == 'BAD':
            isdecfloat = cflt is not None and cflt not in ('inf', '-inf', 'nan') and not text.startswith(('0x', '0o'))
            return 'under !!float: a decimal number was rejected' if isdecfloat else None
        return 'under !!float: result is neither a float nor BadValue'
    if tag == 'bool':
        if r.startswith('B:'):
            return None if c == 'bool:' + r[2:] else 'under !!bool: value disagrees with the untagged reading'
        if r == 'BAD':
            return 'under !!bool: true/false was rejected' if text in ('true', 'false') else None
        return 'under !!bool: result is neither a boolean nor BadValue'
    if tag == 'null':
        if r == 'N':
            return None if c == 'null' else 'under !!null: null for a text that is not a null spelling'
        if r == 'BAD':
            return 'under !!null: null/~ was rejected' if text in ('null', '~') else None
        return 'under !!null: result is neither null nor BadValue'
    return None


def d5_sig(text, why):
    """narrow signatures of D5: std parsers accept spellings the core schema does not"""
    import re
    t = text
    if re.fullmatch(r'0[xo][+-][0-9a-fA-F]+', t) or re.fullmatch(r'\+[+-][0-9]+', t):
        return 'C08:double-sign-integer'
    if re.fullmatch(r'[+-]?(inf|infinity|nan)', t, re.I):
        return 'C08:inf-nan-words'
    return None


@prop('C08', ["the core-schema recognisers of Spec/CoreSchema.lean are evaluated by the Lean driver on every text; float values are compared as binary64 bits of the correctly rounded decimal (Python's float) — correct rounding of f64::from_str is trusted to core",
              "theorems registered: see Props/C08.lean"])
def c08(tier, rng):
    res = Result()
    L = 4 if tier == 'quick' else 5
    res.rule = f"every string of length <= {L} over a 30-symbol core-schema alphabet as untagged plain scalar; every string of length <= {L-1} x 5 styles x 7 tags; boundary integers around +-2^63; random longer strings; non-trivial = the core schema or the resolver reads the text as something other than a string; distinct by (text, style, tag)"
    res.corr_ops = ['res (all styles and tags)']
    res.exhaustive = True
    texts = list(exhaustive(ALPHA32, L))
    b = 1 << 63
    bound = [str(x) for d in range(-3, 4) for x in (b + d, -b + d, (1 << 64) + d)] + ['+' + str(b - 1), '+' + str(b), '0x' + '%x' % (b - 1), '0x' + '%x' % b,
             '0x' + 'f' * 16, '0o' + '7' * 21, '0o1' + '0' * 21, '0o' + '7' * 22, '-0x1', '0x-1', '0x+1', '0o-7', '0o+7', '+-5', '++5', '-+5', '--5', '1e400', '-1e400', '1e-400',
             '1.7976931348623157e308', '1.7976931348623159e308', '4.9e-324', '2.5e-324', '0.1', '.5', '5.', '+.5', '-.5e-3', '1_000', '0b101', '1e', 'e1', '.e1', '1.e1', '0.0', '-0', '-0.0', '+0',
             'inf', '-inf', '+inf', 'Inf', 'INF', 'infinity', 'Infinity', '-Infinity', 'nan', 'NaN', 'NAN', '-nan', '.inf', '-.inf', '+.inf', '.Inf', '.INF', '.nan', '.NaN', '.NAN', '.Nan', '.iNF',
             'null', 'Null', 'NULL', 'nULL', '~', 'true', 'True', 'TRUE', 'false', 'False', 'FALSE', 'yes', 'no', 'on', 'off', '', ' 1', '1 ', '0x', '0o', '0x1G', '0o8', '0X1F', '0O17', '١٢٣', '１２']
    # decorated literal words: every case pattern of the schema's words behind every sign/dot/radix
    # prefix and before a few suffixes (signed nan, '+.Inf', '-Null', '0xtrue', '.inf.', ...)
    def cases(w):
        out = ['']
        for ch in w:
            out = [o + c for o in out for c in ({ch.lower(), ch.upper()})]
        return out
    words = [v for w in ('inf', 'nan', 'null', 'true', 'false') for v in cases(w)] + ['~', '0', '1', '17', '1.5', '1e3', 'infinity', 'Infinity', 'INFINITY']
    pre = ['', '+', '-', '.', '+.', '-.', '0x', '0o', '++', '--', '+-', '-+', ' ', '0', '..']
    suf = ['', '.', '0', 'e', ' ', 'e1', '_', '.0']
    deco = sorted({a + w + z for a in pre for w in words for z in suf})
    bound += sorted({a + w for a in ('', '+', '-', '.', '+.', '-.') for w in ('inf', 'Inf', 'INF', 'iNf', 'nan', 'NaN', 'NAN', 'Nan', 'nAN', 'null', 'Null', 'true', 'True', 'FALSE')} - set(bound))
    rr = rng.fork('r')
    rand = [''.join(rr.choice(ALPHA32 + list('23456bcdBCDE')) for _ in range(rr.randint(6, 24))) for _ in range(20000 if tier == 'quick' else 400000)]
    plain = texts + bound + deco + rand
    reqs = [f'res P - {hx(t)}' for t in plain]
    # styles x tags on the shorter strings
    tags = ['-', CORE + '!' + hx('int'), CORE + '!' + hx('float'), CORE + '!' + hx('bool'), CORE + '!' + hx('null'), CORE + '!' + hx('str'), hx('!') + '!' + hx('foo')]
    tnames = ['-', 'int', 'float', 'bool', 'null', 'str', 'foreign']
    short = list(exhaustive(ALPHA32, L - 1)) + bound
    combos = []
    for t in short:
        for st in 'PSDLF':
            for ti, tg_ in enumerate(tags):
                if st == 'P' and ti == 0:
                    continue
                if st != 'P' and (len(t) > 2 and t not in bound):
                    continue
                combos.append((t, st, ti))
    reqs += [f'res {st} {tags[ti]} {hx(t)}' for t, st, ti in combos]
    impl = run_impl(reqs)
    model = run_model(reqs)
    alltexts = sorted(set(plain) | {t for t, _, _ in combos})
    core = dict(zip(alltexts, run_model([f'core {hx(t)}' for t in alltexts])))
    for n, r in enumerate(reqs):
        res.evaluations += 1
        a = impl[n]
        f = a.split(' ')
        if n < len(plain):
            t, st, ti = plain[n], 'P', 0
        else:
            t, st, ti = combos[n - len(plain)]
        c = core[t]
        if c != 'str' or not f[0].startswith('S:'):
            res.nt(f'{t}\x00{st}{ti}')
        res.count(f'{st}/{tnames[ti]}:{f[0].split(":")[0]}')
        why = None
        if 'PANIC' in a:
            why = 'resolver panicked'
        elif len(f) > 1:
            why = 'borrowed and owned scalars resolve differently: ' + ' '.join(f[1:])
        elif st != 'P' or tnames[ti] in ('str', 'foreign'):
            if not (f[0].startswith('S:') and unhx(f[0][2:]) == t):
                why = f'style {st} / tag {tnames[ti]}: not a string with identical content'
        elif ti == 0:
            why = core_check(t, f[0], c)
        else:
            why = tagged_check(t, tnames[ti], f[0], c, None)
        if why:
            res.oracle_failures.append({'sig': d5_sig(t, why) or usig(f'{t}{st}{ti}'), 'what': why, 'reqs': [r], 'input': repr(t) + f' style {st} tag {tnames[ti]}',
                                        'detail': {'implementation': a, 'core_schema': c}})
        b = model[n]
        if b.startswith('D:'):
            bb = f64bits(b[2:])
            b = f'D:{bb:016x}' if bb is not None else b
        if b != f[0] and 'PANIC' not in a:
            diff(res, r, a, model[n], 'res')
        if n % 150001 == 0:
            res.samples.append({'text': t, 'style': st, 'tag': tnames[ti], 'result': a, 'core_schema': c})
    return res


# ---------------------------------------------------------------------------------------------
# C09: emit then load

ALPHA20 = ['a', '0', ' ', '\n', ':', '-', '#', "'", '"', '\\', '[', '{', ',', '?', '!', '&', '*', '|', '~', '.']
WORDS = ['true', 'false', 'null', '~', '1', '-1', '1.5', '0x1F', '0o17', '+.inf', '.inf', '.nan', 'yes', 'no', '1e3', '---', '...', '- a', 'a: b', '? a', '%TAG', 'é', '\U0001D11E', '﻿', '\x07', '\x7f', '\u0085', ' ', '\t', '\r', ' a', 'a ', 'a\n', '\na', 'a\n\n', 'a\nb', '+1', 'inf', 'nan', '=', '<<', '@a', '`a', '0', '00', '1_0', '0b1', 'Null', 'TRUE']


def tree_tokens(y):
    k = y[0]
    if k in ('N', 'T', 'F'):
        return [k]
    if k == 'I':
        return [f'I:{y[1]}']
    if k == 'D':
        return [f'D:{y[1]:016x}']
    if k == 'S':
        return ['S:' + hx(y[1])]
    if k == 'Q':
        out = [f'Q:{len(y[1])}']
        for x in y[1]:
            out += tree_tokens(x)
        return out
    out = [f'M:{len(y[1])}']
    for a, b in y[1]:
        out += tree_tokens(a) + tree_tokens(b)
    return out


def rand_scalar(r):
    import struct
    k = r.below(12)
    if k == 0:
        return ('N',)
    if k == 1:
        return ('T',) if r.chance(1, 2) else ('F',)
    if k == 2:
        return ('I', r.choice([0, 1, -1, 42, (1 << 63) - 1, -(1 << 63), r.randint(-1000, 1000), r.next() - (1 << 63)]))
    if k == 3:
        f = r.choice([0.0, 1.0, -1.0, 1.5, 0.1, 1e300, 1e-300, 5e-324, float('inf'), float('-inf'), float('nan'), -0.0, 123456789.0, 1e21, 1e15, 2.5e-5, float(r.randint(-100, 100)), r.randint(-10**6, 10**6) / 1000.0])
        b = struct.unpack('>Q', struct.pack('>d', f))[0]
        if f != f:
            b = 0x7ff8000000000000
        return ('D', b)
    if k <= 6:
        return ('S', r.choice(WORDS))
    n = r.randint(0, 6)
    return ('S', ''.join(r.choice(ALPHA20 + ['b', 'é', 'x']) for _ in range(n)))


def rand_tree(r, depth):
    if depth <= 0 or r.chance(2, 5):
        return rand_scalar(r)
    if r.chance(1, 2):
        return ('Q', [rand_tree(r, depth - 1) for _ in range(r.randint(0, 3))])
    pairs = []
    seen = set()
    for _ in range(r.randint(0, 3)):
        k = rand_tree(r, depth - 1) if r.chance(1, 4) else rand_scalar(r)
        key = repr(k)
        if key in seen:
            continue
        seen.add(key)
        pairs.append((k, rand_tree(r, depth - 1)))
    return ('M', dedup_pairs(pairs))


def dedup_pairs(pairs):
    """keys must be pairwise different as *values* (NaN = NaN, 0.0 = -0.0, 1 vs 1.0 differ)"""
    out, seen = [], set()
    for k, v in pairs:
        kk = repr(k)
        if k[0] == 'D' and k[1] in (0x8000000000000000, 0):
            kk = 'D0'
        if kk in seen:
            continue
        seen.add(kk)
        out.append((k, v))
    return out


def has_str(y, pred):
    if y[0] == 'S':
        return pred(y[1])
    if y[0] == 'Q':
        return any(has_str(x, pred) for x in y[1])
    if y[0] == 'M':
        return any(has_str(a, pred) or has_str(b, pred) for a, b in y[1])
    return False


def has_kind(y, kind):
    if y[0] == kind:
        return True
    if y[0] == 'Q':
        return any(has_kind(x, kind) for x in y[1])
    if y[0] == 'M':
        return any(has_kind(a, kind) or has_kind(b, kind) for a, b in y[1])
    return False


def key_strs(y):
    out = []
    if y[0] == 'Q':
        for x in y[1]:
            out += key_strs(x)
    if y[0] == 'M':
        for a, b in y[1]:
            if a[0] == 'S':
                out.append(a[1])
            out += key_strs(a) + key_strs(b)
    return out


def c09_sig(y, multiline, back):
    """narrow signatures of the recorded C09 findings"""
    if multiline and has_str(y, lambda s: '\n' in s):
        return 'C09:multiline-strings-literal-block'
    if any(len(k) > 1000 for k in key_strs(y)):
        return 'C09:long-string-key'
    return None


@prop('C09', ["load(emit t) = [t] and emit idempotence are evaluated on the implementation for every explored tree; the emitted text is compared byte for byte with the emitter model",
              "Display for f64 is an external dependency: the harness supplies the text to the model (fdisp)",
              "theorems registered: see Props/C09.lean"])
def c09(tier, rng):
    res = Result()
    L = 3 if tier == 'quick' else 4
    res.rule = f"strings: every string of length <= {L} over the 20-symbol alphabet plus type-like words in four positions (root, item, key, value) x compact x multiline_strings; random trees to depth 5 with boundary numbers, floats, complex and empty keys; non-trivial = the tree contains a string that needs quoting, a number, or a collection; distinct by (tree, settings)"
    res.corr_ops = ['emt (emitted text, byte for byte)', 'nq', 'esc', 'lit']
    # document-marker-like lines inside strings, followed by every kind of blank / break / text
    markers = [pre + m + fol + post for m in ('...', '---') for fol in ('', ' ', '\t', 'x', '\n', '\r', ' x', '\tx', '.', '-')
               for pre in ('', 'a\n', '\n', 'to do\n') for post in ('', '\nb', 'later')]
    strs = list(exhaustive(ALPHA20, L)) + WORDS + markers + ['a' * 1020, 'a' * 1024, 'a' * 1025, 'k' * 1100, 'é' * 600, '"' * 400,
            'a\tb', '\ta', 'a\t', 'a\n\tb', '\t\n', 'x\n \ty', 'a\rb', 'a\r\nb', '\r', 'a\n\rb']
    trees = []
    for s in strs:
        S = ('S', s)
        trees += [S, ('Q', [S]), ('M', [(S, ('S', 'v'))]), ('M', [(('S', 'k'), S)])]
    rr = rng.fork('trees')
    for _ in range(20000 if tier == 'quick' else 500000):
        trees.append(rand_tree(rr, rr.randint(1, 5)))
    import struct
    for f in [1.0, 0.0, -0.0, 1e300, float('inf'), float('-inf'), 2.0 ** 53, 0.1 + 0.2, 1e16, 1e-7]:
        trees.append(('D', struct.unpack('>Q', struct.pack('>d', f))[0]))
    trees.append(('D', 0x7ff8000000000000))
    for i in [0, -1, (1 << 63) - 1, -(1 << 63)]:
        trees += [('I', i), ('M', [(('I', i), ('I', i))])]
    # float display texts for the model
    bits = sorted({b for t in trees for b in float_bits_of(t)})
    disp = dict(zip(bits, run_impl([f'fdisp {b:016x}' for b in bits])))
    reqs, mreqs, meta = [], [], []
    for y in trees:
        toks = tree_tokens(y)
        mtoks = [t + ':' + disp[int(t[2:], 16)] if t.startswith('D:') else t for t in toks]
        for c in '10':
            for m in '01':
                if tier == 'quick' and len(toks) > 3 and (c, m) not in (('1', '0'), ('0', '1')) and len(reqs) % 3:
                    continue
                reqs.append(f'emt {c} {m} ' + ' '.join(toks))
                mreqs.append(f'emt {c} {m} ' + ' '.join(mtoks))
                meta.append((y, c, m))
    impl = run_impl(reqs)
    model = run_model(mreqs)
    # supporting function-level correspondences
    sreqs = [f'{op} {hx(s)}' for s in strs[:60000] for op in ('nq', 'esc', 'lit')]
    for r, a, b in zip(sreqs, run_impl(sreqs), run_model(sreqs)):
        res.evaluations += 1
        if a != b:
            diff(res, r, a, b, r.split(' ')[0])
    for n, (y, c, m) in enumerate(meta):
        res.evaluations += 1
        a = impl[n]
        if y[0] != 'S' or True:
            res.nt(reqs[n])
        f = a.split(' ')
        res.count(f'c{c}m{m}:' + (f[1].split(':')[0] if len(f) > 1 else f[0]))
        if 'PANIC' in a or len(f) < 2:
            res.oracle_failures.append({'sig': usig(reqs[n]), 'what': 'emitter or loader panicked / failed: ' + a[:60], 'reqs': [reqs[n]], 'input': str(y)[:200]})
            continue
        if f[1] != 'RT':
            why = {'LOADERR': 'the emitted text does not load', 'NE': 'the emitted text loads to a different tree', 'NIDEM': 'emitting the reloaded tree gives a different text'}.get(f[1].split(':')[0], f[1][:20])
            sig = c09_sig(y, m == '1', f[1]) or c09_sig2(y) or usig(reqs[n])
            res.oracle_failures.append({'sig': sig, 'what': why, 'reqs': [reqs[n]], 'input': str(y)[:300] + f' compact={c} multiline={m}',
                                        'detail': {'emitted': unhx(f[0])[:400], 'reload': f[1][:400]}})
        if model[n] != f[0]:
            diff(res, mreqs[n], f[0], model[n], 'emitted text')
        if n % 40009 == 0:
            res.samples.append({'tree': str(y)[:120], 'compact': c, 'multiline': m, 'emitted': unhx(f[0])[:120]})
    return res


def c09_sig2(y):
    if has_kind(y, 'D'):
        return None
    return None


def float_bits_of(y):
    if y[0] == 'D':
        return [y[1]]
    if y[0] == 'Q':
        return [b for x in y[1] for b in float_bits_of(x)]
    if y[0] == 'M':
        return [b for a, c in y[1] for b in float_bits_of(a) + float_bits_of(c)]
    return []


# ---------------------------------------------------------------------------------------------
# C16: tags and directives

def pct(s, everything=False):
    out = ''
    for ch in s:
        if everything or not (ch.isascii() and (ch.isalnum() or ch in "-._~")):
            out += ''.join('%%%02X' % b for b in ch.encode('utf8'))
        else:
            out += ch
    return out


HANDLES = ['!', '!!', '!e!', '!m!', '!a-b!']
PREFIXES = ['tag:example.com,2000:', '!local-', 'tag:yaml.org,2002:', 'x:y/', 'p%C3%A9:', '!']
SUFFIXES = ['str', 'int', 'a', 'a-b_c', 'é', '€uro', '\U0001D11E', 'a b', 'a!b', 'x,y', 'q[r]', '%', 'A%B']


def c16_doc(r, table, default_pp=True):
    """one document body with tagged nodes; returns (text, expected tags in event order or None for error)"""
    nodes = []
    exp = []
    err = False
    for _ in range(r.randint(1, 3)):
        k = r.below(8)
        sfx = r.choice(SUFFIXES)
        if k == 0:
            sp, full = '!', '!'
            if '!' in table and False:
                pass
        elif k == 1:
            body = r.choice(['tag:yaml.org,2002:str', '!bar', 'x:y', 'tag:e,2000:' + pct(sfx, True)])
            sp = '!<' + body + '>'
            full = pct_decode(body)
        elif k == 2:
            sp = '!!' + pct(sfx)
            full = table.get('!!', 'tag:yaml.org,2002:') + sfx
        elif k == 3:
            sp = '!' + pct(sfx)
            full = table.get('!', '!') + sfx if True else None
        else:
            h = r.choice(HANDLES[2:])
            sp = h + pct(sfx, everything=r.chance(1, 3))
            if h in table:
                full = table[h] + sfx
            else:
                full = None
                err = True
        nodes.append((sp, full))
    shape = r.below(4)
    if shape == 0:
        text = '\n'.join(f'- {sp} v{i}' for i, (sp, _) in enumerate(nodes)) + '\n'
        exp = [f for _, f in nodes]
    elif shape == 1:
        text = '\n'.join(f'k{i}: {sp} v' for i, (sp, _) in enumerate(nodes)) + '\n'
        exp = [f for _, f in nodes]
    elif shape == 2:
        sp0, f0 = nodes[0]
        text = f'{sp0}\n' + '\n'.join(f'- {sp} v' for sp, _ in nodes[1:]) + ('\n' if len(nodes) > 1 else '- x\n')
        exp = [f for _, f in nodes]
    else:
        text = '[' + ', '.join(f'{sp} v' for sp, _ in nodes) + ']\n'
        exp = [f for _, f in nodes]
    return text, (None if err else exp)


def pct_decode(s):
    b = bytearray()
    i = 0
    while i < len(s):
        if s[i] == '%' and i + 2 < len(s) + 0 and all(c in '0123456789abcdefABCDEF' for c in s[i + 1:i + 3]) and len(s[i + 1:i + 3]) == 2:
            b.append(int(s[i + 1:i + 3], 16)); i += 3
        else:
            b += s[i].encode('utf8'); i += 1
    return b.decode('utf8', 'replace')


def c16_case(r, keep):
    """a stream of 1-3 documents; returns (text, expected tag list or None when an error is expected, meta)"""
    text = ''
    exp = []
    persistent = {}
    error = False
    ndocs = r.randint(1, 3)
    kinds = []
    for d in range(ndocs):
        table = dict(persistent) if keep else {}
        lines = []
        nt = r.below(4)
        declared = []
        yaml_lines = r.choice([0, 0, 1, 1, 2]) if r.chance(1, 2) else 0
        for i in range(nt):
            h = r.choice(HANDLES)
            if i > 0 and r.chance(1, 6):
                h = declared[0]
            p = r.choice(PREFIXES)
            lines.append(f'%TAG {h} {p}')
            if h in declared:
                error = True
                kinds.append('dup-handle')
            declared.append(h)
            table[h] = pct_decode(p)
        for _ in range(yaml_lines):
            lines.insert(r.below(len(lines) + 1), '%YAML 1.2')
        if yaml_lines >= 2:
            error = True
            kinds.append('dup-yaml')
        if r.chance(1, 8):
            lines.insert(r.below(len(lines) + 1), '%FOO bar baz')
        kinds.append(f'tags{nt}yaml{yaml_lines}')
        body, e = c16_doc(r, table)
        if lines or (d > 0 and r.chance(1, 2)) or (d == 0 and r.chance(1, 2)):
            head = '\n'.join(lines) + ('\n' if lines else '') + '---\n'
            if d > 0 and (lines or r.chance(1, 2)):
                head = '...\n' + head
        elif d > 0:
            head = '...\n'          # a bare document (no '---') after an explicit document end
        else:
            head = ''
        text += head + body
        if e is None:
            error = True
            kinds.append('undeclared')
        else:
            exp += e
        if keep:
            persistent = table
        if error:
            break
    return text, (None if error else exp), kinds


@prop('C16', ["the expectation comes from the generator's abstract data (handle -> prefix table per document, suffix before percent-encoding), independently of the parser",
              "theorems registered: see Props/C16.lean"])
def c16(tier, rng):
    res = Result()
    res.rule = "directive sets (0-3 %TAG over 5 handles x 6 prefixes, 0-2 %YAML, reserved directives) x tag spellings (!!, !name, !h!, !<verbatim>, lone !, percent-encoded suffixes incl. 2/3/4-byte UTF-8) on scalars and collections x 1-3 documents x keep_tags; non-trivial = at least one tagged node; distinct by (text, keep)"
    res.corr_ops = ['evt (tags field)', 'par (parser model on the real tokens)']
    r = rng.fork('c16')
    cases = []
    for _ in range(12000 if tier == 'quick' else 300000):
        keep = r.chance(1, 2)
        t, e, kinds = c16_case(r, keep)
        cases.append((t, e, keep, kinds))
    # percent-encoding of single code points, exhaustively over a stride of the code space
    step = 97 if tier == 'quick' else 7
    cps = [c for c in range(0x21, 0x110000, step) if not (0xD800 <= c <= 0xDFFF)] + [0x7f, 0x80, 0x7ff, 0x800, 0xffff, 0x10000, 0x10ffff, 0xe9, 0x20ac]
    for c in cps:
        ch = chr(c)
        cases.append((f'--- !e{pct(ch, True)}z v\n', ['!e' + ch + 'z'], False, ['pct-suffix']))
    reqs = []
    for t, e, keep, _ in cases:
        reqs += [f'evt str 128 {1 if keep else 0} {hx(t)}', f'tok str 128 {hx(t)}']
    impl = run_impl(reqs)
    mreqs = []
    for n, (t, e, keep, _) in enumerate(cases):
        mreqs += [reqs[2 * n], f'par {1 if keep else 0} {impl[2 * n + 1]}']
    model = run_model(mreqs)
    for n, (t, e, keep, kinds) in enumerate(cases):
        res.evaluations += 1
        a = impl[2 * n]
        res.nt(t + str(keep))
        for k in kinds:
            res.count(k)
        items, tail = split_line(a)
        got = []
        for it in items:
            f = it.rpartition('@')[0].split(':')
            tg_ = f[3] if f[0] == 'SC' else f[2] if f[0] in ('SQ', 'MP') else '-'
            if tg_ != '-':
                h, _, s = tg_.partition('!')
                got.append(unhx(h) + unhx(s))
        why = None
        if 'PANIC' in a:
            why = 'panic'
        elif e is None:
            if tail[0] != 'ERR':
                why = 'an undeclared handle / repeated directive was accepted'
        else:
            if tail[0] == 'ERR':
                why = f'rejected: {unhx(tail[2])}'
            elif got != e:
                why = f'tags {got} where {e} are denoted'
        if why:
            res.oracle_failures.append({'sig': c16_sig(t, e, kinds, why) or usig(t + str(keep)), 'what': why, 'reqs': [reqs[2 * n]], 'input': repr(t[:300]) + f' keep_tags={keep}'})
        for j, what in ((0, 'evt'), (1, 'par')):
            b = model[2 * n + j]
            if b != a and 'PANIC' not in a:
                diff(res, mreqs[2 * n + j], a, b, what)
        if n % 3001 == 0:
            res.samples.append({'text': t[:150], 'keep_tags': keep, 'expected': e})
    return res


def c16_sig(t, e, kinds, why):
    if 'pct-suffix' in kinds:
        return 'C16:uri-escape-multibyte'
    ntag = sum(1 for l in t.split('\n') if l.startswith('%TAG'))
    return None


# ---------------------------------------------------------------------------------------------
# C18: byte input

def encodings_of(text):
    """the six encodings of C18 (text without a BOM of its own)"""
    u8 = text.encode('utf8')
    le = text.encode('utf-16-le')
    be = text.encode('utf-16-be')
    return [('utf8', u8), ('utf8+bom', b'\xef\xbb\xbf' + u8), ('utf16le', le), ('utf16le+bom', b'\xff\xfe' + le),
            ('utf16be', be), ('utf16be+bom', b'\xfe\xff' + be)]


def iters_of(a):
    try:
        return int(a.split(' ; iters=')[1].split(' ')[0])
    except (IndexError, ValueError):
        return 0


@prop('C18', ["documents decoded from each encoding are compared with the documents loaded from the text directly (implementation vs implementation)",
              "termination is observed through the verif-hooks iteration cap of decode_loop (a hang becomes the outcome HANG) — the hook records (bytes read, output length, capacity) per iteration",
              "theorems registered: see Props/C18.lean (encoding detection; termination of the decode loop over an abstract decoder contract)"])
def c18(tier, rng):
    res = Result()
    L = 4 if tier == 'quick' else 6
    res.rule = f"texts (ASCII, Latin, CJK, astral; lengths 0..4k, mostly short) x 6 encodings x 4 traps; every byte string of length <= {L} over the ten bytes of the property x 4 traps; random and truncated byte strings (UTF-8 ones: the strict error's offset and bytes, and the documents under a callback that records the bytes it is shown, against Python's UTF-8 decoder); non-trivial = a non-empty byte string; distinct by (bytes, trap)"
    res.corr_ops = ['snf (detect_utf16_endianness vs Encoding.detectUtf16: every byte string of the run and all one- and two-byte prefixes)']
    r = rng.fork('c18')
    pools = ['ab:- [],\n', 'aé ü\n', 'a中文字-\n', 'a\U0001D11E\U0001F600 \n', 'k: v\n- a\n']
    texts = ['\0a', 'a\0: b', 'a\0b', '', 'a', '-', '- a', 'a: b', 'a: é', '- 中', '-中中中', '-中中中中', '-中中中中中', '- \U0001D11E', '[1, 2]', 'a\n', 'é', ' a']
    for _ in range(1500 if tier == 'quick' else 60000):
        n = r.choice([0, 1, 2, 3, 4, 5, 6, 7, 8, 9, 10, 11, 12, 15, 20, 40, 100, 400] + ([4000] if r.chance(1, 30) else []))
        pool = r.choice(pools)
        first = r.choice('a-k[ "')
        t = (first + ''.join(r.choice(pool) for _ in range(max(n - 1, 0)))) if n else ''
        texts.append(t)
    # every ASCII character in first position (the sniffing rules look at the first code unit), before
    # ASCII, Latin, CJK and astral continuations
    for cp in range(1, 128):
        for tail in ('', 'a: 1\n', '\n- é\n', ' 中\n', '\r\n- \U0001F600\n'):
            texts.append(chr(cp) + tail)
    # texts whose own first character is U+FEFF: a byte stream that starts with a byte-order mark is the
    # BOM-carrying encoding of what follows the mark, so these are compared in their encodings *with* BOM only
    bomtexts = ['\ufeff' + t for t in ['a: 1\n', '- é\n', '', 'k', '\ufeffx', '[1, 中]\n', '# c\nv\n']]
    texts += bomtexts
    reqs, meta = [], []
    ref = run_impl([f'lod y e {hx(t)}' for t in texts])
    for t, rf in zip(texts, ref):
        for name, b in encodings_of(t):
            if t.startswith('\ufeff') and not name.endswith('+bom'):
                continue
            for trap in ('s', 'i', 'r', 'c') if len(t) < 12 else ('s',):
                reqs.append(f'dec {trap} {hxb(b)}')
                meta.append(('text', t, name, trap, rf))
    ALPH = [0x00, 0x0A, 0x20, 0x2D, 0x41, 0x80, 0xC3, 0xE4, 0xFE, 0xFF]
    import itertools
    for n in range(0, L + 1):
        for bs in itertools.product(ALPH, repeat=n):
            for trap in ('s', 'i', 'r', 'c') if n <= 3 else ('s', 'r'):
                reqs.append(f'dec {trap} {hxb(bytes(bs))}')
                meta.append(('bytes', bytes(bs), None, trap, None))
    for _ in range(3000 if tier == 'quick' else 100000):
        t = r.choice(texts)
        name, b = r.choice(encodings_of(t))
        b = bytearray(b)
        k = r.below(4)
        if k == 0 and b:
            b = b[:r.below(len(b))]
        elif k == 1 and b:
            b[r.below(len(b))] = r.below(256)
        elif k == 2:
            b += bytes([r.below(256) for _ in range(r.randint(1, 3))])
        else:
            b = bytes([r.below(256) for _ in range(r.randint(1, 24))])
        trap = r.choice('sirc')
        reqs.append(f'dec {trap} {hxb(bytes(b))}')
        meta.append(('bytes', bytes(b), None, trap, None))
    # a byte-order mark followed by anything (another mark, text in another encoding, noise), strict trap:
    # the mark alone decides the encoding, and an independent decoder (Python's codecs) says whether the rest is
    # well-formed in it and what text it is
    BOMS = [(b'\xef\xbb\xbf', 'utf-8'), (b'\xff\xfe', 'utf-16-le'), (b'\xfe\xff', 'utf-16-be')]
    bomcases = []
    payload_texts = ['a: 1\n', 'é', '- 中\n', 'x', '']
    for bom, enc in BOMS:
        for bom2, enc2 in BOMS + [(b'', enc)]:
            for pt in payload_texts:
                for penc in {enc, enc2}:
                    bomcases.append((bom, enc, bom2 + pt.encode(penc)))
            for _ in range(6 if tier == 'quick' else 200):
                bomcases.append((bom, enc, bom2 + bytes([r.below(256) for _ in range(r.randint(0, 6))])))
    bomexp = []
    for bom, enc, rest in bomcases:
        try:
            bomexp.append(rest.decode(enc, 'strict'))
        except UnicodeDecodeError:
            bomexp.append(None)
    bomref = run_impl([f'lod y e {hx(t)}' if t is not None else 'cls 0' for t in bomexp])
    for (bom, enc, rest), t, rf in zip(bomcases, bomexp, bomref):
        reqs.append(f'dec s {hxb(bom + rest)}')
        meta.append(('bom', bom + rest, enc, 's', (t, rf)))
    impl = run_impl(reqs)
    # independent expectation for byte strings that are sniffed as UTF-8 without a byte-order mark (first byte ASCII,
    # no NUL in second position): Python's UTF-8 decoder names the malformed sequences (maximal subparts, as WHATWG)
    import codecs
    def _rec(e):
        return ('<' + e.object[e.start:e.end].hex() + '>', e.end)
    codecs.register_error('vp-record', _rec)
    utf8_expect = {}
    want_reqs, want_idx = [], []
    for n, (kind, x, name, trap, rf) in enumerate(meta):
        if kind != 'bytes' or trap not in ('s', 'c') or not x or not (0 < x[0] < 0x80) or (len(x) > 1 and x[1] == 0):
            continue
        if trap == 's':
            try:
                x.decode('utf-8', 'strict')
            except UnicodeDecodeError as e:
                utf8_expect[n] = ('err', f'Invalid character sequence at {e.start}: {list(x[e.start:e.end])}')
        else:
            want_reqs.append(f'lod y e {hx(x.decode("utf-8", "vp-record"))}')
            want_idx.append(n)
    for n, w in zip(want_idx, run_impl(want_reqs)):
        utf8_expect[n] = ('docs', w)
    # correspondence of the sniffing model (Encoding.detectUtf16): every byte string of the run, plus
    # every two-byte prefix
    import itertools as _it
    sn = sorted({q.split(' ')[2] if len(q.split(' ')) > 2 else '' for q in reqs} | {'%02x%02x' % (a, b) for a in range(256) for b in range(256)} | {'%02x' % a for a in range(256)})
    sreq = [f'snf {h}'.rstrip() for h in sn]
    si, sm = run_impl(sreq), run_model(sreq)
    for q, a, b in zip(sreq, si, sm):
        res.evaluations += 1
        if a.split(' ')[0] != b.split(' ')[0]:
            diff(res, q, a, b, 'snf')
    for n, (kind, x, name, trap, rf) in enumerate(meta):
        res.evaluations += 1
        a = impl[n]
        if len(x) > 0:
            res.nt(reqs[n])
        body = a.split(' ; ')[0]
        res.count(f'{kind}:{trap}:{body.split(" ")[0]}')
        why, sig = None, None
        if body == 'HANG' or a.startswith('CRASH') or a == 'UNANSWERED':
            why, sig = 'decoding does not terminate', 'C18:decode-loop-spins' if body == 'HANG' else None
        elif 'PANIC' in a:
            why = 'decoder panicked'
        elif iters_of(a) > len(x if kind in ('bytes', 'bom') else dict(encodings_of(x))[name]) + 8:
            why = f'decode loop took {iters_of(a)} iterations'
        elif kind == 'bom':
            t, want = rf
            if t is None:
                if not body.startswith('DECERR'):
                    why = f'strict trap: the bytes after the byte-order mark are not well-formed {name}, yet decoding did not fail'
            elif '\0' not in t and body != want:
                why = f'byte-order mark + {name} bytes: decoded documents differ from loading the decoded text directly'
        elif kind == 'text':
            want = rf if rf.startswith('OK') else rf
            if body != want:
                why = f'{name}: decoded documents differ from loading the text directly'
                if '\0' in x[:2]:
                    sig = 'C18:nul-sniffed-as-utf16'
        else:
            if trap == 's' and not (body.startswith('OK') or body.startswith('DECERR') or body.startswith('ERR')):
                why = 'strict trap: neither documents nor an error'
            exp = utf8_expect.get(n)
            if not why and exp is not None:
                kindexp, val = exp
                if kindexp == 'err':
                    # strict trap: the error names the first malformed sequence (offset and bytes), per an independent decoder
                    msg = unhx(body.split(' ')[1]) if body.startswith('DECERR') and len(body.split(' ')) > 1 else body
                    if msg != val:
                        why = f'strict trap on UTF-8 bytes: the decode error should be {val!r}, got {msg[:80]!r}'
                elif body != val:
                    why = 'callback trap on UTF-8 bytes: the callback is shown the wrong bytes, or decoding does not continue after it (documents differ from loading the independently decoded text with the recorded sequences)'
        if why:
            res.oracle_failures.append({'sig': sig or usig(reqs[n]), 'what': why, 'reqs': [reqs[n]], 'input': (repr(x[:60]) + f' encoding={name} trap={trap}'),
                                        'detail': {'decoded': a[:300], 'direct': (rf or '')[:300]}})
        if n % 30011 == 0:
            res.samples.append({'kind': kind, 'input': repr(x[:40]), 'encoding': name, 'trap': trap, 'result': a[:100]})
    return res


# ---------------------------------------------------------------------------------------------
# C20: lookups, equality, hashing

KEYS20 = ['a', 'b', 'key', '1', '01', '1.0', '1.5', 'true', 'false', 'null', '~', '"1"', "'true'", '"a"', '!!str 1', '!!str true', '!!int 1', '[a]', '{a: b}', '[]', '""', "''",
          'é', '"\\n"', 'a b', '0x1', '.inf', '!!float 1', '!foo a', '&x a', '? ', '-1', '+1', '2', '0', '3', '-2', '-3',
          '-9223372036854775808', '9223372036854775807', '-9223372036854775807', '7', '-7']
PROBES20 = ['a', 'b', 'key', '1', '01', '1.0', '1.5', 'true', 'false', 'null', '~', '', 'é', '\n', 'a b', '0x1', '.inf', 'absent', 'A', ' a', '[a]', '{a: b}', '-1', '+1', '2', '0']


def top_pairs(tokens):
    """(key node, value node) pairs of a top-level mapping dump (token list), nodes as token lists"""
    if not tokens or not tokens[0].partition('@')[0].startswith('M:'):
        return None
    n = int(tokens[0].partition('@')[0][2:])
    i = 1
    out = []

    def take(i):
        _, j = parse_tree_tokens(tokens, i)
        return tokens[i:j], j
    for _ in range(n):
        k, i = take(i)
        v, i = take(i)
        out.append((k, v))
    return out


@prop('C20', ["the expected answer is computed from the loaded document's own dump: an entry is found exactly when some key is the resolved string k",
              "hash-stream equality (a recording Hasher) is checked by the harness for every pair of equal keys and for borrowed vs owned copies",
              "theorems registered: see Props/C20.lean (lookup model: the four ways agree; found iff a string key equals k)"])
def c20(tier, rng):
    res = Result()
    res.rule = "random flow mappings over a pool of 36 key spellings (strings, numbers, null, booleans, quoted, tagged, anchored, collection and empty keys) x probes drawn from the keys' texts and absent strings x 4 node kinds x {eager, lazy}; integer indexing of sequences and mappings; long keys (255..4096 characters or bytes, ASCII and multi-byte; flow, explicit and implicit block keys) probed with themselves and near misses; non-trivial = mapping with at least two keys; distinct by (text, probe, kind, mode)"
    res.corr_ops = ['get (the four string lookups and integer indexing: Lookup.lean vs the four node types)', 'lod (the loaded mapping)']
    r = rng.fork('c20')
    cases = []
    for _ in range(6000 if tier == 'quick' else 250000):
        if r.chance(1, 6):
            items = [r.choice(['a', '1', 'true', '[x]', '~']) for _ in range(r.randint(0, 4))]
            text = '[' + ', '.join(items) + ']\n'
        else:
            ks = []
            for _ in range(r.randint(0, 5)):
                k = r.choice(KEYS20)
                if k not in ks:
                    ks.append(k)
            text = '{' + ', '.join(f'{k}: v{i}' for i, k in enumerate(ks)) + '}\n'
        probe = r.choice(PROBES20)
        idx = r.choice(['-', '0', '1', '2', '3', '7', '9223372036854775807', '9223372036854775808', '9223372036854775809', '18446744073709551615', '18446744073709551614', '18446744073709551613', '18446744073709551609'])
        nk = r.choice(['y', 'yo', 'm', 'mo'])
        mode = 'e' if r.chance(4, 5) else 'l'
        cases.append((text, probe, idx, nk, mode))
    # long keys, around the byte and character counts where length-based shortcuts and small counters would bite
    # (255/256, 1023/1024/1025 — the simple-key limit, in characters and in bytes —, 4096, 8192), in a flow
    # mapping, as an explicit block key and as an implicit block key; ASCII, two- and three-byte characters
    longs = []
    # (thorough: up to 8192 — the Lean model's list-based keys make 64k-character keys take minutes per request, which the
    # runner reports as a crash of the model: a false alarm of the machinery, removed)
    for n in (255, 256, 257, 1023, 1024, 1025, 2000, 4096) + ((8191, 8192) if tier == 'thorough' else ()):
        longs += ['k' * n, 'é' * (n // 2 + 1), '中' * (n // 3 + 1)]
    for K in longs:
        shapes = [f'{{a: 1, {K}: v, b: 2}}\n', f'a: 1\n? {K}\n: v\nb: 2\n']
        if len(K) <= 1024:
            shapes.append(f'a: 1\n{K}: v\nb: 2\n')
        for text in shapes:
            for probe in (K, K[:-1], K + 'x', 'a'):
                for nk in ('y', 'yo', 'm', 'mo'):
                    cases.append((text, probe, '-', nk, 'e' if r.chance(3, 4) else 'l'))
    reqs = []
    for text, probe, idx, nk, mode in cases:
        reqs += [f'get {nk} {mode} {hx(probe)} {idx} {hx(text)}', f'lod y {mode} {hx(text)}']
    impl = run_impl(reqs)
    model = run_model([reqs[i] for i in range(1, len(reqs), 2)])
    gmodel = run_model([reqs[i] for i in range(0, len(reqs), 2)])
    def canon_get(line):
        # the five lookup answers, floats canonicalised like tree dumps
        out = []
        for fld in line.split(' '):
            k, _, v = fld.partition('=')
            if k in ('get', 'contains', 'index', 'explicit', 'int'):
                v = '|'.join(canon_tree_line('OK ' + part.replace(';', ' '))[3:].replace(' ', ';') if part not in ('-', 'PANIC', 'true', 'false') else part for part in v.split('|'))
                out.append(k + '=' + v)
        return ' '.join(out)
    # equality vs hashing across documents: the same values under different spellings (radix, sign, case, quoting,
    # float notation, the same tag reached through different %TAG splits), eagerly and lazily loaded: every node of
    # A against every node of B — equal nodes must hash equally, and a mapping finds a key exactly when it holds an equal one
    GROUPS = [['1', '0x1', '0o1', '+1', '01'], ['1.0', '1.00', '1e0', '+1.0', '.1e1', '10e-1'], ['0.0', '-0.0', '0e0'], ['.inf', '+.inf', '.Inf', '.INF'],
              ['.nan', '.NaN', '.NAN'], ['~', 'null', 'Null', 'NULL'], ['true', 'True', 'TRUE'], ['a', '"a"', "'a'", '!!str a'], ['"1"', "'1'", '!!str 1'],
              ['-5', '-0x5' , '-05'], ['[1, a]', '[0x1, "a"]', '[+1, \'a\']'], ['{a: 1}', '{"a": 0x1}', "{'a': +1}"], ['!!int 1', '1'], ['!!float 1', '1.0'],
              ['!e!app/k a', '!f!k a', '!<tag:example.com,2000:app/k> a'], ['!e!app/k', '!f!k'], ['!local a', '!local "a"'], ['""', "''", '!!str']]
    HEAD = '%TAG !e! tag:example.com,2000:\n%TAG !f! tag:example.com,2000:app/\n---\n'
    hr = rng.fork('heq')
    hcases = []
    for _ in range(1500 if tier == 'quick' else 60000):
        gs = [hr.choice(GROUPS) for _ in range(hr.randint(2, 5))]
        def doc():
            pairs, seen = [], set()
            for g in gs:
                k = hr.choice(g)
                if k in seen:
                    continue
                seen.add(k)
                v = hr.choice(hr.choice(GROUPS))
                pairs.append(f'? {k}\n: {v}\n')
            return HEAD + ''.join(pairs)
        nk = hr.choice(['y', 'y', 'yo', 'm'])
        mode = hr.choice('el')
        hcases.append((nk, mode, doc(), doc()))
    hreqs = [f'heq {nk} {mode} {hx(a)} {hx(b)}' for nk, mode, a, b in hcases]
    himpl = run_impl(hreqs)
    for (nk, mode, a, b), q, o in zip(hcases, hreqs, himpl):
        res.evaluations += 1
        res.count('heq:' + o.split(' ')[0])
        if o.startswith('ok'):
            if o != 'ok 0':
                res.nt(q)
            continue
        if o == 'LOADERR':
            continue
        res.oracle_failures.append({'sig': usig(q), 'what': ('nodes that compare equal hash differently' if o.startswith('EQHASH') else
                                    'a mapping lookup by node disagrees with key equality' if o.startswith('LOOKUP') else 'heq failed') + ': ' + o[:200],
                                    'reqs': [q], 'input': repr(a) + ' vs ' + repr(b) + f' kind {nk} mode {mode}'})
    for n, (text, probe, idx, nk, mode) in enumerate(cases):
        res.evaluations += 1
        a, d = impl[2 * n], impl[2 * n + 1]
        if canon_tree_line(model[n]) != d:
            diff(res, reqs[2 * n + 1], d, model[n], 'lod')
        if '=' in a and canon_get(a) != canon_get(gmodel[n]):
            diff(res, reqs[2 * n], a, gmodel[n], 'get')
        elif '=' not in a and a != gmodel[n] and 'PANIC' not in a and not a.startswith('CRASH'):
            diff(res, reqs[2 * n], a, gmodel[n], 'get')
        if a in ('LOADERR', 'NODOC') or not d.startswith('OK'):
            res.count('not-loaded')
            continue
        if 'PANIC' == a or a.startswith('CRASH'):
            res.oracle_failures.append({'sig': usig(reqs[2 * n]), 'what': 'lookup panicked outside Index', 'reqs': [reqs[2 * n]], 'input': repr(text)})
            continue
        f = dict(x.split('=', 1) for x in a.split(' '))
        doc = docs_of(d)[0]
        pairs = top_pairs(doc)
        if pairs is not None and len(pairs) >= 2:
            res.nt(reqs[2 * n])
        res.count(f'{nk}/{mode}:' + ('map' if pairs is not None else 'other'))
        want = '-'
        if pairs is not None:
            for k, v in pairs:
                if len(k) == 1 and k[0] == 'S:' + hx(probe):
                    want = ','.join(x.partition('@')[0] for x in v)
        strip = lambda s: ','.join(x.partition('@')[0] for x in s.split(';')) if s not in ('-', 'PANIC') else s
        got = {k: strip(f[k]) for k in ('get', 'index', 'explicit')}
        why = None
        if got['get'] != want:
            why = f"as_mapping_get gives {got['get'][:40]} where the mapping holds {want[:40]}"
        elif (f['contains'] == 'true') != (want != '-'):
            why = 'contains_mapping_key disagrees with as_mapping_get'
        elif got['index'] != (want if want != '-' else 'PANIC'):
            why = f"indexing gives {got['index'][:40]} (get gives {want[:40]})"
        elif got['explicit'] != want:
            why = f"lookup with an explicitly built string node gives {got['explicit'][:40]} (get gives {want[:40]})"
        elif f['keys'] not in ('ok', '-'):
            why = f"hash/equality inconsistency among keys: {f['keys']}"
        elif f['int'] != '-':
            bi, _, bg = f['int'].partition('|')
            bi, bg = strip(bi), strip(bg)
            if d.startswith('OK Q:'):
                if (bi == 'PANIC') != (bg == '-') or (bi != 'PANIC' and bi != bg):
                    why = f'integer indexing of a sequence ({bi[:30]}) disagrees with get ({bg[:30]})'
            elif pairs is not None:
                wanti = 'PANIC'
                for k, v in pairs:
                    if len(k) == 1 and k[0] == f'I:{idx}':
                        wanti = ','.join(x.partition('@')[0] for x in v)
                if bi != wanti:
                    why = f'integer indexing of a mapping gives {bi[:30]} where the entry for Integer({idx}) is {wanti[:30]}'
        if why:
            res.oracle_failures.append({'sig': usig(reqs[2 * n]), 'what': why, 'reqs': [reqs[2 * n], reqs[2 * n + 1]], 'input': repr(text) + f' probe {probe!r} kind {nk} mode {mode}', 'detail': a[:400]})
        if n % 1501 == 0:
            res.samples.append({'text': text, 'probe': probe, 'kind': nk, 'mode': mode, 'answers': a[:200]})
    return res


# ---------------------------------------------------------------------------------------------
# C11: nesting depth

@prop('C11', ["each scenario runs in a child process of the harness on the main thread (8 MiB stack); the observation is the exit status (0 = Ok, 3 = error value, anything else = abort)",
              "the model exhibits recursion depth, not stack bytes: theorems relate the push interface's recursion depth to the nesting depth of the event stream (Props/C11.lean)"])
def c11(tier, rng):
    import subprocess
    res = Result()
    # powers of two are where fixed-width counters wrap: 2^8 (flow level), 2^16
    depths = [1, 10, 100, 255, 256, 257, 1000, 10000, 30000, 65535, 65536, 70000] + ([100000, 140000] if tier == 'thorough' else [])
    res.rule = f"nesting depth in {depths} x shape (block sequence, block mapping, explicit key, flow sequence, flow mapping, alternating) x API (iterator, push, load_from_str + drop, emit); plus one-line mixtures: 31 fixed and random units of block/flow indicators and properties ('- ', '? ', ': ', '- : ', ': ? ', '- &a ', '[(a: ', ...) repeated to depth 10..100000 x iterator/push/loader (and, on an unoptimised build, the stack span at depth 10 vs 2000 seen from inside the character iterator), the block ones also closed by a '---' / '...' line instead of the end of input; non-trivial = depth >= 10"
    res.corr_ops = []
    def run(api, shape, depth):
        try:
            p = subprocess.run([IMPL, '--deep', api, shape, str(depth)], capture_output=True, timeout=600)
            return p.returncode
        except subprocess.TimeoutExpired:
            return 'timeout'
    # the block-mapping shape needs growing indentation: its text is quadratic in the depth, so it is capped
    jobs = [(api, shape, d) for api in ('iter', 'load', 'loaddrop', 'emit') for shape in ('seq', 'map', 'key', 'fseq', 'fmap', 'alt') for d in depths
            if not (api == 'emit' and shape != 'seq') and not (shape == 'map' and d > 10000)
            # loading nested complex keys re-hashes the whole key at every level (quadratic; recorded under C01): capped
            and not (api == 'loaddrop' and shape in ('key', 'alt') and d > 10000)]
    # compact one-line mixtures: a unit of block indicators / properties repeated per level
    units = ['- ', '? ', ': ', '- ? ', '- : ', '? : ', ': ? ', ': - ', '? - ', '- - : ', ': : - ', '- &a ', '- !t ', ': &a ',
             '? !t ', ':  ', '-\t', '? &a : ', '- ? : ', '&a ? ', '!t : ', '[', '{', '{a: ', '[{a: ', '{a: [', '[[{a: ', '{? ', '[? ', '[: ', '{: ']
    ru = rng.fork('units')
    atoms = ['- ', '? ', ': ', '&a ', '!t ', ' ', '-\t', '? : ']
    for _ in range(12 if tier == 'quick' else 60):
        u = ''.join(ru.choice(atoms) for _ in range(ru.randint(2, 4)))
        if u.strip() and u not in units:
            units.append(u)
    mdepths = [10, 3000, 30000, 100000] if tier == 'quick' else [10, 1000, 6000, 30000, 100000, 200000]
    # flow units also come with their closers, so that the nesting is well-formed at every depth
    closers = {'[': ']', '{': '}', '{a: ': '}', '[{a: ': '}]', '{a: [': ']}', '[[{a: ': '}]]', '{? ': '}', '[? ': ']', '[: ': ']', '{: ': '}'}
    unit_shapes = [(u, f'rep:{hx(u)}:{hx("a")}') for u in units] + [(u, f'rep:{hx(u)}:{hx("a")}:{hx(c)}') for u, c in closers.items()]
    # block nests closed by a document marker instead of the end of the input (every open level is unrolled at once)
    for u in units:
        if '[' not in u and '{' not in u:
            for tail in ('a\n--- b\n', 'a\n...\n'):
                unit_shapes.append((u, f'rep:{hx(u)}:{hx(tail)}'))
    for u, shape in unit_shapes:
        for d in mdepths:
            jobs.append(('iter', shape, d))
            jobs.append(('load', shape, d))
            # the loaders: below the depth where releasing the tree recurses too deep (recorded), and
            # without nested complex keys (quadratic, recorded under C01)
            flowu = '[' in u or '{' in u
            if (d * max(1, sum(u.count(c) for c in '-?:[{')) <= 30000 or flowu) and '?' not in u:
                # flow units at every depth: the flow-depth limit turns them into an error long before the tree is deep
                jobs.append(('loaddrop', shape, d))
    from concurrent.futures import ThreadPoolExecutor
    with ThreadPoolExecutor(max_workers=8) as ex:
        rcs = list(ex.map(lambda j: run(*j), jobs))
    status = {j: rc for j, rc in zip(jobs, rcs)}
    for (api, shape, d), rc in zip(jobs, rcs):
        res.evaluations += 1
        if d >= 10:
            res.nt(f'{api}{shape}{d}')
        res.count(f'{api}:{"ok" if rc == 0 else "err" if rc == 3 else "abort"}')
        if rc not in (0, 3):
            sig = usig(f'{api}{shape}')
            # narrow signatures: the tree can be parsed (push interface survives the same input) but
            # releasing / emitting the deeply nested tree recurses once per level
            blocky = shape in ('seq', 'map', 'key') or (shape.startswith('rep:') and not any(c in unhx(shape.split(':')[1]) for c in '[{'))
            if api == 'loaddrop' and status.get(('load', shape, d)) == 0 and d >= 50000 and blocky:
                sig = 'C11:drop-recursion-deep-tree'
            elif api == 'emit' and d >= 50000:
                sig = 'C11:emit-recursion'
            res.oracle_failures.append({'sig': sig, 'what': f'{api} on {shape} nesting of depth {d}: the process died (status {rc})', 'reqs': [f'--deep {api} {shape} {d}'], 'input': f'{shape} x {d}'})
    res.samples = [{'api': j[0], 'shape': j[1], 'depth': j[2], 'status': rc} for j, rc in list(zip(jobs, rcs))[:6]]
    # stack bytes per nesting level, measured on an UNOPTIMISED build (an optimised build may turn a self-call in tail
    # position into a loop and hide recursion that `cargo build` / `cargo test` users have): the characters are served by
    # an iterator that records how deep in the stack it is called; the span must not grow with the depth
    import core as _core
    okb, outb = _core.build_harness_debug()
    DBG = os.path.join(os.path.dirname(IMPL), '..', 'debug', 'impl_run')
    if not okb or not os.path.exists(DBG):
        res.oracle_failures.append({'sig': 'C11:debug-build-failed', 'what': 'the unoptimised harness did not build: ' + outb[-300:], 'reqs': ['cargo build --offline'], 'input': ''})
        return res
    def span(shape, d):
        try:
            p = subprocess.run([DBG, '--deep', 'stack', shape, str(d)], capture_output=True, timeout=300)
        except subprocess.TimeoutExpired:
            return None
        m = [l for l in p.stdout.decode('utf8', 'replace').splitlines() if l.startswith('STACK ')]
        return int(m[0].split(' ')[1]) if m and p.returncode in (0, 3) else None
    sshapes = ['seq', 'key', 'fseq', 'alt'] + [sh for _, sh in unit_shapes]
    D0, D1 = 10, (2000 if tier == 'quick' else 6000)
    with ThreadPoolExecutor(max_workers=8) as ex:
        sp = list(ex.map(lambda sh: (span(sh, D0), span(sh, D1)), sshapes))
    worst = 0
    for sh, (a0, a1) in zip(sshapes, sp):
        res.evaluations += 1
        res.nt('stack' + sh)
        if a0 is None or a1 is None:
            res.oracle_failures.append({'sig': usig('stack' + sh), 'what': f'stack probe on {sh}: the unoptimised process died at depth {D0 if a0 is None else D1} (stack overflow or abort)',
                                        'reqs': [f'(debug build) --deep stack {sh} {D1}'], 'input': f'{sh} x {D1}'})
            continue
        worst = max(worst, (a1 - a0) / (D1 - D0))
        if a1 > a0 + 65536:
            res.oracle_failures.append({'sig': usig('stack' + sh), 'what': f'stack use grows with the nesting depth: {a0} bytes at depth {D0}, {a1} bytes at depth {D1} ({(a1 - a0) // (D1 - D0)} bytes per level, unoptimised build)',
                                        'reqs': [f'(debug build) --deep stack {sh} {D0}', f'(debug build) --deep stack {sh} {D1}'], 'input': f'{sh} x {D1}'})
    res.extra['stack_bytes_per_level_worst'] = round(worst, 2)
    return res


# ---------------------------------------------------------------------------------------------
# renderer-based properties: C03, C04, C05, C06, C13
import render as R


def suite_tree_events(tree):
    """expected events of a yaml-test-suite `tree:` field in the repo harness's normalisation"""
    anchors = []
    out = []
    for ln in tree.split('\n'):
        s = ln.strip()
        if not s:
            continue
        out.append(s)
    return out


def ev_to_suite(line):
    """implementation events -> yaml-test-suite tree lines (as parser/tests/yaml-test-suite.rs prints them)"""
    items, tail = split_line(line)
    out = []

    def esc(t):
        for a, b in (('\\', '\\\\'), ('\n', '\\n'), ('\r', '\\r'), ('\x08', '\\b'), ('\t', '\\t')):
            t = t.replace(a, b)
        return t

    def tag(x):
        if x == '-':
            return ''
        h, _, s = x.partition('!')
        return f' <{unhx(h)}{unhx(s)}>'
    for it in items:
        k = it.rpartition('@')[0].split(':')
        if k[0] == 'SS':
            out.append('+STR')
        elif k[0] == 'SE':
            out.append('-STR')
        elif k[0] == 'DS':
            out.append('+DOC')
        elif k[0] == 'DE':
            out.append('-DOC')
        elif k[0] == 'SQ':
            out.append('+SEQ' + (f' &{k[1]}' if k[1] != '0' else '') + tag(k[2]))
        elif k[0] == 'SQE':
            out.append('-SEQ')
        elif k[0] == 'MP':
            out.append('+MAP' + (f' &{k[1]}' if k[1] != '0' else '') + tag(k[2]))
        elif k[0] == 'MPE':
            out.append('-MAP')
        elif k[0] == 'AL':
            out.append(f'=ALI *{k[1]}')
        elif k[0] == 'SC':
            kind = {'P': ':', 'S': "'", 'D': '"', 'L': '|', 'F': '>'}[k[1]]
            out.append('=VAL' + (f' &{k[2]}' if k[2] != '0' else '') + tag(k[3]) + f' {kind}' + esc(unhx(k[4])))
    return out, tail


def suite_expected(tree):
    """the `tree:` expectation, normalised exactly as the repository's own yaml-test-suite harness does
    (anchor names to numbers, flow/block style markers and explicit-document markers dropped)"""
    anchors = []
    out = []
    for s in tree.split('\n'):
        s = s.lstrip()
        if not s:
            continue
        if '&' in s:
            start = s.find('&')
            if ':' not in s[:start]:
                ln = s[start:].find(' ')
                ln = ln if ln >= 0 else len(s[start:])
                anchors.append(s[start + 1:start + ln])
                s = s.replace(s[start:start + ln], f'&{len(anchors)}')
        if s.startswith('=ALI'):
            start = s.find('*')
            name = s[start + 1:]
            idx = max(i for i, v in enumerate(anchors) if v == name)
            s = s.replace(s[start:], f'*{idx + 1}')
        if s == '+DOC ---':
            s = '+DOC'
        elif s == '-DOC ...':
            s = '-DOC'
        elif s.startswith('+SEQ []'):
            s = s.replace('+SEQ []', '+SEQ', 1)
        elif s.startswith('+MAP {}'):
            s = s.replace('+MAP {}', '+MAP', 1)
        elif s == '=VAL :':
            s = '=VAL :~'
        out.append(s)
    return out


@prop('C03', ["the expectation is the abstract tree the renderer started from (lib/render.py, written from the YAML 1.2 productions, independent of the parser) and, for the official test suite, its tree: field",
              "omitted nodes are expected as the plain scalar '~' with no anchor and no tag (the property's null scalar)",
              "theorems registered: parser-level (token language of collections -> events); the scanner side of C03 rests on correspondence + this oracle"])
def c03(tier, rng):
    res = Result()
    res.rule = "systematic nested layouts (6 parents x indentation step 1-3 x 15 kinds of first key/item x 1-2 pairs); streams rendered from random abstract trees (depth <= 4; block/flow, compact/next-line, explicit keys, sequences at the indentation of their key, comments, blank lines, node properties, aliases, 1-2 documents, markers, %YAML); pairs of single-document streams with 0-6 '...' lines (comments, blank lines) before, between and after them + the non-error yaml-test-suite cases; non-trivial = at least one collection; distinct by text"
    res.corr_ops = ['evt str / evt buf (model pipeline) on every rendered stream, a third of them without the final line break']
    r = rng.fork('c03')
    base = R.end_of_input_cases() * 6 + R.nested_layout_cases() + [R.render_stream(r) for _ in range(20000 if tier == 'quick' else 500000)]
    # document-end markers belong to no document: any number of '...' lines (with comments and blank lines between
    # them) before the first document, between two documents and after the last one leaves the documents as they are
    mr = rng.fork('markers')
    singles = [(t, e) for t, e in (R.nested_layout_cases() + [R.render_stream(mr) for _ in range(300)])
               if t.endswith('\n') and sum(1 for x in e if x[0] == 'DS') == 1 and not t.startswith('%')][:400]
    def marks(k):
        return ''.join('...' + mr.choice(['\n', '\n', ' # c\n', '\n\n', '\n# c\n']) for _ in range(k))
    for _ in range(1200 if tier == 'quick' else 30000):
        (ta, ea), (tb, eb) = mr.choice(singles), mr.choice(singles)
        k0, k1, k2 = mr.choice([0, 0, 1, 2, 3, 4]), mr.choice([1, 2, 3, 4, 5, 6]), mr.choice([0, 1, 2, 3, 5])
        # B after a '...' may be a bare document; anchors restart per document, so the expectations concatenate
        text = marks(k0) + ta + marks(k1) + tb + marks(k2)
        # anchor ids run through the whole stream: B's are shifted by the number of anchors in A
        off = max([x[1] for x in ea if x[0] in ('SC', 'MP', 'SQ') and isinstance(x[1], int)] + [0])
        def shift(x):
            if x[0] in ('SC', 'MP', 'SQ', 'AL') and isinstance(x[1], int) and x[1] > 0:
                return (x[0], x[1] + off) + tuple(x[2:])
            return x
        exp = ea[:-1] + [shift(x) for x in eb[1:]]
        base.append((text, exp))
    # every stream is also read without its final line break (the last token then ends at the end of the input)
    # and through the character-iterator back-end: the denoted tree is the same
    cases, kinds = [], []
    for n, (t, exp) in enumerate(base):
        v = n % 6
        if v in (2, 5) and t.endswith('\n') and not t.endswith('\n\n'):
            t = t[:-1]
        cases.append((t, exp))
        kinds.append('buf 16' if v in (1, 5) else 'str 128')
    reqs = [f'evt {k} 0 {hx(t)}' for (t, _), k in zip(cases, kinds)]
    suite = [c for c in load_suite() if not c['fail'] and c['tree']]
    sreqs = [f'evt str 128 0 {hx(c["yaml"])}' for c in suite]
    impl = run_impl(reqs + sreqs)
    nm = len(reqs) if tier == 'thorough' else 8000
    model = run_model(reqs[:nm] + sreqs)
    for n, (t, exp) in enumerate(cases):
        res.evaluations += 1
        a = impl[n]
        if any(e[0] in ('SQ', 'MP') for e in exp):
            res.nt(t)
        got, tail = R.parse_events(a) if 'PANIC' not in a else ([], ['PANIC'])
        # omitted nodes: the renderer never omits nodes except empty plain scalars it avoids; DS explicitness compared too
        if tail[0] != 'DONE' or got != exp:
            first = next((i for i, (x, y) in enumerate(zip(got + [None] * len(exp), exp)) if x != y), None)
            res.oracle_failures.append({'sig': usig(t), 'what': 'a rendered well-formed stream does not parse to its tree' + (f' (rejected: {unhx(tail[2])})' if tail[0] == 'ERR' else f' (first difference at event {first})'),
                                        'reqs': [reqs[n]], 'input': t[:600], 'detail': {'got': str(got[first] if first is not None and first < len(got) else None), 'want': str(exp[first] if first is not None else None)}})
        if n < nm and model[n] != a and 'PANIC' not in a:
            diff(res, reqs[n], a, model[n], 'evt')
        if n % 4001 == 0:
            res.samples.append({'text': t[:200]})
    for n, c in enumerate(suite):
        res.evaluations += 1
        a = impl[len(reqs) + n]
        res.nt(c['yaml'])
        got, tail = ev_to_suite(a)
        want = suite_expected(c['tree'])
        if tail[0] != 'DONE' or got != want:
            res.oracle_failures.append({'sig': usig(c['yaml']), 'what': f"yaml-test-suite case {c['id']}: events differ from the tree: expectation", 'reqs': [sreqs[n]], 'input': c['yaml'][:400],
                                        'detail': {'got': got[:40], 'want': want[:40]}})
        if model[nm + n] != a:
            diff(res, sreqs[n], a, model[nm + n], 'evt (suite)')
    return res


@prop('C04', ["the expectation is the target string the presentation was derived from (lib/render.py present_scalar: YAML 1.2 folding and escape rules)",
              "theorems registered: escape table and hex-escape decoding at function level; see Props/C04.lean"])
def c04(tier, rng):
    res = Result()
    res.rule = "long words (every special character at every offset around the look-ahead sizes 16/32/128/256, 3 styles x 3 contexts x 2 back-ends); systematic folds, also with CR LF / CR breaks on both back-ends (four words x every combination of joins: blank runs, folds to a space or to 1-2 line feeds, trailing blanks/tab before the break, blank-line contents) x 3 styles x 3-4 contexts; target strings over a tricky-character alphabet (length <= 3 exhaustively over 12 symbols, random up to 16 over 29) x style x random per-character escape/literal choice, fold placement, continuation indentation and trailing padding x 7 syntactic contexts; non-trivial = presentation differs from the target; distinct by document text"
    res.corr_ops = ['evt str on every presentation']
    r = rng.fork('c04')
    A12 = ['a', ' ', '\n', ':', '#', "'", '"', '\\', 'é', '-', '\t', ',']
    targets = list(exhaustive(A12, 3))
    for _ in range(6000 if tier == 'quick' else 300000):
        targets.append(''.join(r.choice(R.TRICKY) for _ in range(r.randint(1, 16))))
    cases = []
    for tg_ in targets:
        for _ in range(2):
            ctx = r.choice(R.CONTEXTS)
            style = r.choice('DDSPP')
            key = ctx in ('key', 'flowkey')
            flow = ctx.startswith('flow')
            if style == 'P' and not R.plain_allowed(tg_, flow, key):
                style = 'D'
            ci = {'top': 1, 'value': 2, 'item': 2, 'key': 0, 'flowitem': 1, 'flowkey': 0, 'flowvalue': 2}[ctx]
            if ctx == 'top' and style in 'DS' and r.chance(1, 2):
                ci = 0          # at the top level a quoted scalar may continue in column 0
            pres = R.present_scalar(r, tg_, style, ci, multiline=not key)
            if pres is None:
                continue
            if ci == 0 and any(l.startswith(('---', '...')) for l in pres.split('\n')[1:]):
                continue        # … unless the line would read as a document marker
            if style == 'P' and flow and any(c in pres for c in ',[]{}'):
                continue
            if key and len(pres) > 1000:
                continue
            doc, idx = R.in_context(ctx, pres)
            cases.append((tg_, style, ctx, doc, idx))
    # systematic folds: four words, every combination of joins, in three contexts
    fam = []
    for style in 'PSD':
        for ctx, ci in (('top', 1), ('value', 2), ('flowitem', 1)) + ((('top', 0),) if style != 'P' else ()):
            for pres, tg_ in R.fold_family(style, ci):
                doc, idx = R.in_context(ctx, pres)
                fam.append((tg_, style, ctx, doc, idx))
    if tier == 'quick':
        fam = fam[::3] + [c for c in fam if c[0].count('\n') >= 1 and '  ' not in c[0]][::2]
    # words straddling the look-ahead sizes, every special character at every offset around each boundary,
    # on the string back-end and on the 16-character ring of the iterator back-end
    lw = []
    for tg_, style, ctx in R.long_word_family(tier != 'quick'):
        doc, idx = R.in_context(ctx, R.present_simple(tg_, style))
        lw.append((tg_, style, ctx, doc, idx, 'str 128'))
        lw.append((tg_, style, ctx, doc, idx, 'buf 16'))
    # every presentation is read through one of: the string back-end, the iterator back-end, and without the
    # final line break (the scalar then ends at the end of the input)
    rest = []
    for n, c in enumerate(fam + cases):
        v = n % 5
        doc = c[3]
        if v in (2, 4) and doc.endswith('\n') and not doc.endswith('\n\n') and c[1] != 'P':
            c = c[:3] + (doc[:-1],) + c[4:]
        elif v in (2, 4) and c[1] == 'P' and c[2] != 'top' and doc.endswith('\n') and not doc[:-1].endswith((' ', '\t', '\n')):
            c = c[:3] + (doc[:-1],) + c[4:]
        rest.append(c + ('buf 16' if v in (1, 4) else 'str 128',))
    # every way of writing a character as a hex escape: \xXX for the first 256, \uXXXX over the whole plane (stride 16 at the
    # quick tier, plus every block boundary), \UXXXXXXXX across all planes; several escapes per scalar
    esc = []
    step = 16 if tier == 'quick' else 1
    bmp = sorted(set(range(0, 0x10000, step)) | {b + d for b in range(0, 0x10000, 0x100) for d in (0, 1, 0xFE, 0xFF)} | {0xD7FF, 0xE000})
    bmp = [cp for cp in bmp if not 0xD800 <= cp <= 0xDFFF]
    astral = [cp for cp in list(range(0x10000, 0x110000, 0x1000 if tier == 'quick' else 0x40)) + [0x10FFFF, 0x1FFFF, 0xFFFFF]]
    def chunks(xs, n):
        return [xs[i:i + n] for i in range(0, len(xs), n)]
    for ch in chunks(list(range(256)), 16):
        esc.append((''.join(chr(c) for c in ch), ''.join('\\x%02x' % c for c in ch)))
    for ch in chunks(bmp, 16):
        esc.append((''.join(chr(c) for c in ch), ''.join('\\u%04X' % c for c in ch)))
    for ch in chunks(bmp[::2] + astral, 12):
        esc.append((''.join(chr(c) for c in ch), ''.join('\\U%08x' % c for c in ch)))
    for n, (tg_, body) in enumerate(esc):
        ctx = ('top', 'value', 'flowitem')[n % 3]
        doc, idx = R.in_context(ctx, '"' + body + '"')
        lw.append((tg_, 'D', ctx, doc, idx, 'str 128' if n % 2 else 'buf 16'))
    # the systematic folds again with CR LF and lone CR line breaks, on both back-ends: the value is the same
    # (a break inside a scalar is reported as a line feed, and a CR LF pair is ONE break)
    crv = []
    for n, c in enumerate(fam):
        doc = c[3]
        if '\r' in doc or '\n' not in doc:
            continue
        v = n % 3
        crv.append(c[:3] + (doc.replace('\n', '\r\n' if v != 2 else '\r'),) + c[4:] + ('buf 16' if v != 1 else 'str 128',))
    cases = lw + rest + crv
    reqs = [f'evt {k} 0 {hx(d)}' for _, _, _, d, _, k in cases]
    impl = run_impl(reqs)
    nm = len(reqs) if tier == 'thorough' else 20000
    model = run_model(reqs[:nm])
    for n, (tg_, style, ctx, doc, idx, _k) in enumerate(cases):
        res.evaluations += 1
        a = impl[n]
        res.nt(doc)
        res.count(f'{style}/{ctx}')
        got, tail = R.parse_events(a) if 'PANIC' not in a else ([], ['PANIC'])
        scal = [e for e in got if e[0] == 'SC']
        why = None
        if tail[0] != 'DONE':
            why = 'rejected: ' + (unhx(tail[2]) if tail[0] == 'ERR' else tail[0])
        elif idx >= len(scal) or scal[idx][4] != tg_ or scal[idx][3] != style:
            why = f'scalar value {scal[idx][4] if idx < len(scal) else None!r} (style {scal[idx][3] if idx < len(scal) else None}) where YAML assigns {tg_!r} (style {style})'
        if why:
            res.oracle_failures.append({'sig': usig(doc), 'what': why, 'reqs': [reqs[n]], 'input': repr(doc[:300]) + f' context {ctx}'})
        if n < nm and model[n] != a and 'PANIC' not in a:
            diff(res, reqs[n], a, model[n], 'evt')
        if n % 5003 == 0:
            res.samples.append({'target': tg_, 'style': style, 'context': ctx, 'document': doc[:120]})
    return res


@prop('C05', ["the expectation is computed from the line list by an independent implementation of YAML 1.2 §8.1 (lib/render.py block_ref_text)",
              "theorems registered: see Props/C05.lean"])
def c05(tier, rng):
    res = Result()
    ML = 3 if tier == 'quick' else 4
    kinds = R.BLOCK_KINDS[:8] if tier == 'quick' else R.BLOCK_KINDS
    res.rule = f"every line list of length <= {ML} over {len(kinds)} line kinds (text, syntax-looking, more-indented, blank) + the same over lines ending in spaces/tabs (3 contexts) x {{literal, folded}} x {{strip, clip, keep}} x {{auto, explicit}} indentation x 5 parent contexts x header comment x final newline or not; non-trivial = at least one content line; distinct by document text"
    res.corr_ops = ['evt str on every block scalar document']
    res.exhaustive = True
    cases = list(R.block_cases(ML, kinds))
    # lines that end in blanks (content in a block scalar: folding must not trim them), alone and before every other kind
    tkinds = [('t', 'a '), ('t', 'b\t'), ('t', 'c d  \t'), ('t', 'a'), ('m', ' d '), ('e', 0)]
    seen = set(cases)
    cases += [c for c in R.block_cases(ML, tkinds) if c not in seen and c[0] in ('top', 'map', 'nest') and c[6] == 0]
    reqs, exps = [], []
    vreqs = []
    for c in cases:
        ctx, style, chomp, combo, final_nl, explicit, comment = c
        doc = R.block_render(ctx, style, chomp, combo, final_nl, explicit, comment)
        reqs.append('evt str 128 0 ' + hx(doc))
        exps.append(R.block_ref_text(style, chomp, combo))
        # the same block scalar through the buffered back-end and with CR LF / CR line breaks
        vreqs += ['evt buf 16 0 ' + hx(doc), 'evt buf 16 0 ' + hx(doc.replace('\n', '\r\n')), 'evt str 128 0 ' + hx(doc.replace('\n', '\r'))]
    impl = run_impl(reqs)
    vimpl = run_impl(vreqs)
    nm = len(reqs) if tier == 'thorough' else 30000
    step = max(1, len(reqs) // nm)
    msel = list(range(0, len(reqs), step))
    model = dict(zip(msel, run_model([reqs[i] for i in msel])))
    for n, c in enumerate(cases):
        res.evaluations += 1
        a = impl[n]
        ctx, style, chomp, combo, final_nl, explicit, comment = c
        content = any(k != 'e' for k, _ in combo)
        if content:
            res.nt(reqs[n])
        res.count(f'{style}{chomp}/{ctx}/{"content" if content else "empty"}')
        got, tail = R.parse_events(a) if 'PANIC' not in a else ([], ['PANIC'])
        blk = [e for e in got if e[0] == 'SC' and e[3] in ('L', 'F')]
        why = None
        if tail[0] != 'DONE':
            why = 'rejected: ' + (unhx(tail[2]) if tail[0] == 'ERR' else tail[0])
        elif len(blk) != 1 or blk[0][4] != exps[n] or blk[0][3] != ('L' if style == '|' else 'F'):
            why = f'block scalar value {blk[0][4] if blk else None!r} where YAML assigns {exps[n]!r}'
        if why:
            sig = usig(reqs[n])
            if not content and chomp != 'strip' and tail[0] == 'DONE' and blk and blk[0][4] == '\n' + exps[n] * 0 and exps[n] in ('', ) :
                sig = 'C05:contentless-clip-keep-at-end'
            elif not content and tail[0] == 'DONE' and blk and chomp in ('clip', 'keep') and set(blk[0][4]) <= {'\n'}:
                # (the document ends with the scalar: nothing follows it in these cases)
                sig = 'C05:contentless-clip-keep-at-end'
            res.oracle_failures.append({'sig': sig, 'what': why, 'reqs': [reqs[n]], 'input': repr(unhx(reqs[n].split(' ')[4]))})
        if n in model and model[n] != a and 'PANIC' not in a:
            diff(res, reqs[n], a, model[n], 'evt')
        if not why:
            for j, name in ((0, 'buffered input'), (1, 'buffered input, CR LF breaks'), (2, 'CR breaks')):
                v = vimpl[3 * n + j]
                g2, t2 = R.parse_events(v) if 'PANIC' not in v else ([], ['PANIC'])
                b2 = [e for e in g2 if e[0] == 'SC' and e[3] in ('L', 'F')]
                if t2[0] != tail[0] or [e[4] for e in b2] != [e[4] for e in blk]:
                    res.oracle_failures.append({'sig': usig(vreqs[3 * n + j]), 'what': f'{name}: block scalar value {b2[0][4] if b2 else None!r} differs from {blk[0][4] if blk else None!r}',
                                                'reqs': [reqs[n], vreqs[3 * n + j]], 'input': repr(unhx(vreqs[3 * n + j].split(' ')[4]))})
                    break
        if n % 20011 == 0:
            res.samples.append({'document': unhx(reqs[n].split(' ')[4]), 'expected': exps[n]})
    # the same scalars with something after them: a sibling entry of the parent, a document-end
    # marker, a new document (chomping must not depend on the scalar being last in the stream)
    fcases, freqs, fexps = [], [], []
    sib = {'top': None, 'doc0': None, 'seq': '- z\n', 'map': 'z: 1\n', 'nest': '  - z\n', 'deep': '    z: 1\n'}
    for c in cases:
        ctx, style, chomp, combo, final_nl, explicit, comment = c
        if len(combo) > 2 or not final_nl or comment:
            continue
        doc = R.block_render(ctx, style, chomp, combo, True, explicit, comment)
        if not doc.endswith('\n'):
            doc += '\n'
        for name, tail_text in (('sibling', sib[ctx]), ('marker', '...\n'), ('document', '--- z\n')):
            if tail_text is None:
                continue
            fcases.append((c, name))
            freqs.append('evt str 128 0 ' + hx(doc + tail_text))
            fexps.append(R.block_ref_text(style, chomp, combo))
    fimpl = run_impl(freqs)
    fsel = list(range(0, len(freqs), max(1, len(freqs) // 20000)))
    fmodel = dict(zip(fsel, run_model([freqs[i] for i in fsel])))
    for n, (c, name) in enumerate(fcases):
        res.evaluations += 1
        a = fimpl[n]
        ctx, style, chomp, combo, final_nl, explicit, comment = c
        content = any(k != 'e' for k, _ in combo)
        res.count(f'followed-by-{name}/{"content" if content else "empty"}')
        got, tail = R.parse_events(a) if 'PANIC' not in a else ([], ['PANIC'])
        blk = [e for e in got if e[0] == 'SC' and e[3] in ('L', 'F')]
        why = None
        if tail[0] != 'DONE':
            why = f'followed by a {name}: rejected: ' + (unhx(tail[2]) if tail[0] == 'ERR' else tail[0])
        elif len(blk) != 1 or blk[0][4] != fexps[n]:
            why = f'followed by a {name}: block scalar value {blk[0][4] if blk else None!r} where YAML assigns {fexps[n]!r}'
        if why:
            sig = usig(freqs[n])
            if not content and tail[0] == 'ERR' and name in ('marker', 'document') and 'wrongly indented line in block scalar' in unhx(tail[2]):
                sig = 'C05:contentless-block-scalar-then-marker-error'
            res.oracle_failures.append({'sig': sig, 'what': why, 'reqs': [freqs[n]], 'input': repr(unhx(freqs[n].split(' ')[4]))})
        if n in fmodel and fmodel[n] != a and 'PANIC' not in a:
            diff(res, freqs[n], a, fmodel[n], 'evt')
    return res


@prop('C06', ["each damage operator produces a stream that is ill-formed by the specification whatever precedes it (lib/render.py damage_stream); the 94 error cases of the official test suite are included",
              "theorems registered: parser-level rejection theorems; see Props/C06.lean"])
def c06(tier, rng):
    res = Result()
    res.rule = "structural damage on generated constructs (flow collections with one closer swapped / stray / missing / extra, open quotes in 11 contexts, tab indentation, over-long keys of 5 kinds in 8 positions, second roots) + every non-escape character after a backslash and every class of non-hexadecimal character at every digit position of \\x/\\u/\\U + 17 damage operators (the classes of the property) applied to well-formed rendered streams + the yaml-test-suite error cases; non-trivial = all; distinct by text"
    res.corr_ops = ['evt str on every damaged stream']
    r = rng.fork('c06')
    cases = []
    for _ in range(1500 if tier == 'quick' else 50000):
        t, _ = R.render_stream(r)
        for w in R.DAMAGES:
            d = R.damage_stream(r, t, w)
            if d is not None:
                cases.append((w, d))
    # structural damage on generated constructs (flow collections with one closer wrong / stray / missing,
    # quoted scalars left open in every context, tabs as indentation, over-long keys, second roots)
    sr = rng.fork('struct')
    for _ in range(6000 if tier == 'quick' else 200000):
        x = sr.choice(R.STRUCT_DAMAGES)(sr)
        if x is not None:
            cases.append(x)
    for c in load_suite():
        if c['fail']:
            cases.append(('suite:' + c['id'], c['yaml']))
    # escapes, systematically: every character that is not an escape letter after a backslash; every class of
    # non-hexadecimal character (signs, blanks, letters beyond f, punctuation, other scripts' digits, a quote, the
    # end of the input) at every digit position of \x, \u and \U
    named = set('0abt\tnvfre "/\\N_LP')
    for cp in list(range(1, 0x7f)) + [0x85, 0xa0, 0xe9, 0x2028, 0x4e2d, 0x1f600]:
        ch = chr(cp)
        if ch in named or ch in 'xuU' or ch in '\r\n':
            continue
        for ctx in ('"a\\%sb"\n', 'k: "\\%s"\n', '- ["x\\%s", y]\n'):
            cases.append(('unknown-escape', ctx % ch))
    bad = ['+', '-', ' ', '\t', 'g', 'G', 'z', 'x', '.', '_', ':', '#', '"', "'", '\\', '\u0663', '\uff21', '\uff11', 'é', '']
    for k, n in (('x', 2), ('u', 4), ('U', 8)):
        for j in range(n):
            for b in bad:
                digits = list('0041'.rjust(n, '0'))
                digits[j] = b
                body = ''.join(digits) if b != '' else ''.join(digits[:j])
                for ctx in ('"a\\%s%sb"\n', 'k: "\\%s%s"\n') if b != '' else ('"a\\%s%s', 'k: "\\%s%s'):
                    cases.append(('bad-hex-escape', ctx % (k, body)))
    reqs = [f'evt str 128 0 {hx(d)}' for _, d in cases]
    reqs2 = [f'lod y e {hx(d)}' for _, d in cases]
    impl = run_impl(reqs)
    impl2 = run_impl(reqs2)
    nesc = sum(1 for w, _ in cases if w in ('unknown-escape', 'bad-hex-escape'))
    model = run_model((reqs[:15000] + reqs[-nesc:]) if tier == 'quick' else reqs)
    for n, (w, d) in enumerate(cases):
        res.evaluations += 1
        a = impl[n]
        res.nt(d)
        res.count(w.split(':')[0])
        tail = split_line(a)[1]
        if tail[0] != 'ERR' and 'PANIC' not in a:
            res.oracle_failures.append({'sig': usig(d), 'what': f'ill-formed stream ({w}) was accepted as a complete event stream', 'reqs': [reqs[n]], 'input': repr(d[-300:])})
        elif not impl2[n].startswith('ERR') and 'PANIC' not in impl2[n]:
            res.oracle_failures.append({'sig': usig(d + 'lod'), 'what': f'ill-formed stream ({w}) was loaded without an error', 'reqs': [reqs2[n]], 'input': repr(d[-300:])})
        mi = n if (tier != 'quick' or n < 15000) else (15000 + n - (len(cases) - nesc) if n >= len(cases) - nesc else None)
        if mi is not None and mi < len(model) and model[mi] != a and 'PANIC' not in a:
            diff(res, reqs[n], a, model[mi], 'evt')
        if n % 5003 == 0:
            res.samples.append({'operator': w, 'tail_of_text': d[-80:]})
    return res


@prop('C13', ["the expectation is the JSON value the text was serialised from (lib/render.py); numbers: integers within 64 bits as integers, everything else as binary64 of the decimal text",
              "\\u escapes are generated for BMP non-surrogate characters only, as the property states",
              "theorems registered: JSON string escapes decode (escape table), JSON literals and numbers resolve; see Props/C13.lean"])
def c13(tier, rng):
    res = Result()
    res.rule = "random JSON values (depth <= 5, hostile strings as keys and values, boundary numbers) x {compact, pretty, random insignificant spaces/tabs/newlines}; nesting up to 254 and beyond; non-trivial = contains an object or array; distinct by text"
    res.corr_ops = ['lod y e on every JSON text'] 
    r = rng.fork('c13')
    cases = []
    for _ in range(10000 if tier == 'quick' else 350000):
        v = R.gen_json(r, r.randint(0, 5))
        for mode in ('compact', 'pretty', 'random'):
            cases.append((v, mode, R.jser(r, v, mode)))
    # boundary family: member names and whitespace runs around the 1024-character implicit-key limit
    for n in list(range(1018, 1031)) + [2000, 5000]:
        cases.append((('o', [('k' * n, ('n', '1'))]), 'compact', '{"' + 'k' * n + '":1}'))
        cases.append((('o', [('k', ('n', '1'))]), 'random', '{"k"' + ' ' * n + ':1}'))
        cases.append((('o', [('k', ('n', '1'))]), 'random', '{"k"' + '\n' * n + ': 1}'))
        cases.append((('a', [('o', [('é' * n, ('s', 'v' * n))])]), 'compact', '[{"' + 'é' * n + '":"' + 'v' * n + '"}]'))
        cases.append((('o', [('a', ('o', [('b' * n, ('l', 'null'))]))]), 'pretty', '{\n  "a": {\n    "' + 'b' * n + '": null\n  }\n}'))
    for d in (100, 200, 254):
        v = ('n', '1')
        for _ in range(d):
            v = ('a', [v])
        cases.append((v, 'compact', R.jser(r, v, 'compact')))
    # every \u escape of the Basic Multilingual Plane that is not a surrogate half (quick: every 8th code point and
    # every block boundary), upper and lower case hex digits, 128 escapes per text
    cps = [cp for cp in range(0x20, 0x10000) if not 0xD800 <= cp <= 0xDFFF and cp not in (0x22, 0x5C)]
    if tier == 'quick':
        keep = set(range(0x20, 0x10000, 8)) | {b + d for b in range(0, 0x10000, 0x100) for d in (0, 1, 0xFE, 0xFF)} | {0xD7FF, 0xE000, 0xD000, 0xCFFF, 0xFFFE, 0xFFFF, 0xFEFF}
        cps = [cp for cp in cps if cp in keep]
    for i in range(0, len(cps), 128):
        chunk = cps[i:i + 128]
        v = ('a', [('s', chr(cp)) for cp in chunk])
        fmt = '\\u%04x' if (i // 128) % 2 else '\\u%04X'
        cases.append((v, 'compact', '[' + ','.join('"' + (fmt % cp) + '"' for cp in chunk) + ']'))
    reqs = [f'lod y e {hx(t)}' for _, _, t in cases]
    impl = run_impl(reqs)
    # the loaders read through the character-iterator back-end; the same text through the string back-end
    # (Parser::new_from_str) must give the same events
    breqs = []
    for _, _, t in cases:
        breqs += [f'evt str 128 0 {hx(t)}', f'evt buf 16 0 {hx(t)}']
    bimpl = run_impl(breqs)
    nm = len(reqs) if tier == 'thorough' else 10000
    model = run_model(reqs[:nm])
    for n, (v, mode, t) in enumerate(cases):
        res.evaluations += 1
        a = impl[n]
        es, eb = bimpl[2 * n], bimpl[2 * n + 1]
        if es != eb and 'PANIC' not in es:
            sig = usig(t + 'backend')
            if '\t' in t and colon_tab(t):
                sig = 'C13:tab-after-colon-in-flow'
            res.oracle_failures.append({'sig': sig, 'what': 'the string back-end and the character-iterator back-end parse this JSON text differently' + (' (string back-end rejects it: ' + unhx(split_line(es)[1][2]) + ')' if ' ; ERR' in es and ' ; ERR' not in eb else ''),
                                        'reqs': breqs[2 * n:2 * n + 2], 'input': repr(t[:300])})
        if v[0] in ('a', 'o'):
            res.nt(t)
        res.count(mode)
        want = ' '.join(canon_float(x) for x in R.json_expect(v))
        why = None
        if not a.startswith('OK'):
            why = 'rejected: ' + (unhx(a.split(' ')[2]) if a.startswith('ERR') else a[:40])
        elif a[3:] != want:
            why = 'loaded tree differs from the JSON value'
        if why:
            sig = usig(t)
            if '\t' in t and 'must be followed by a valid YAML whitespace' in why and colon_tab(t):
                sig = 'C13:tab-after-colon-in-flow'
            res.oracle_failures.append({'sig': sig, 'what': why, 'reqs': [reqs[n]], 'input': repr(t[:300]), 'detail': {'loaded': a[:300], 'json': want[:300]}})
        if n < nm and canon_tree_line(model[n]) != a and 'PANIC' not in a:
            diff(res, reqs[n], a, model[n], 'lod')
        if n % 5003 == 0:
            res.samples.append({'json': t[:160], 'mode': mode})
    return res


def colon_tab(t):
    import re
    return re.search(r':\t+[^ \n\t]', t) is not None
