"""Per-property exploration: correspondence (model vs implementation) and oracle (property predicate
evaluated on the implementation's outputs)."""
import hashlib, os, sys
from vlib import *
from core import Result

PROPS = {}
NOTES = {}


def prop(pid, notes):
    def deco(fn):
        PROPS[pid] = fn
        NOTES[pid] = notes
        return fn
    return deco


# ---------------------------------------------------------------------------------------------
# the shared input space of C01 (also used by C02, C10, C12, C14, C17, C07, C19)

def c01_space(tier, rng, scale=1.0):
    texts = []
    for r in load_regressions():
        if 'text' in r:
            texts.append(r['text'])
    suite = [r['yaml'] for r in load_suite()]
    texts += suite
    L = 3 if tier == 'quick' else 4
    texts += list(exhaustive(ALPHA24, L))
    n = int((6000 if tier == 'quick' else 150000) * scale)
    texts += soups(rng.fork('soup'), n, 14)
    texts += soups(rng.fork('soup-long'), n // 6, 40)
    texts += line_soups(rng.fork('lines'), int(n * 0.7))
    texts += boundary_inputs()
    mr = rng.fork('mut')
    for _ in range(int((2000 if tier == 'quick' else 40000) * scale)):
        t = mr.choice(suite)
        for _ in range(mr.randint(1, 3)):
            t = mutate(mr, t)
        texts.append(t)
    # de-duplicate, keep order
    seen = set()
    out = []
    for t in texts:
        if t not in seen:
            seen.add(t)
            out.append(t)
    return out


def ev_kind(item):
    """event item -> kind with anchor id, without text/tag/span"""
    k = item.rpartition('@')[0]
    f = k.split(':')
    if f[0] == 'SC':
        return f'SC:{f[2]}'
    if f[0] in ('SQ', 'MP'):
        return f'{f[0]}:{f[1]}'
    if f[0] == 'DS':
        return 'DS'
    return k


def proj_kinds(line):
    items, tail = split_line(line)
    return [ev_kind(i) for i in items if i != '/'], tail[0]


def is_nontrivial_tok(line):
    items, tail = split_line(line)
    return len(items) > 2 or tail[0] == 'ERR'


def note_dist(res, line, pfx):
    items, tail = split_line(line)
    res.count(f'{pfx}:{tail[0]}')
    if tail[0] == 'ERR' and len(tail) >= 3:
        res.count('err:' + unhx(tail[2])[:60])
    n = len(items)
    res.count(f'{pfx}:len<={1 if n<=2 else 8 if n<=8 else 32 if n<=32 else 999}')


def diff(res, req, a, b, what):
    res.model_diffs.append({'req': req, 'impl': a, 'model': b, 'what': what})


# ---------------------------------------------------------------------------------------------

@prop('C02', ["theorem C02_grammar quantifies over all token lists; the scanner is not involved",
              "anchor-id discipline is checked by the oracle (gram) and the par/evt correspondence, not yet by a theorem",
              "fuel sufficiency of the iterator loop is not part of C02_grammar (fuel is universally quantified; a fuel panic is excluded from the no-panic clause)"])
def c02(tier, rng):
    res = Result()
    res.rule = ("C01 input space (regressions, yaml-test-suite, exhaustive strings over the 24-symbol indicator alphabet, "
                "token soups, line soups, boundary family, mutated suite); non-trivial = the real scanner delivers a token "
                "besides StreamStart/StreamEnd or reports an error; distinct by text")
    res.corr_ops = ['par (model parser on the real scanner tokens) vs evt', 'evt', 'psh']
    texts = c01_space(tier, rng)
    reqs = []
    for t in texts:
        h = hx(t)
        reqs += [f'tok str 128 {h}', f'evt str 128 0 {h}', f'evt buf 16 1 {h}', f'psh str 1 {h}']
    impl = run_impl(reqs)
    # model: evt + psh directly, par on the real tokens
    mreqs = []
    for i in range(0, len(reqs), 4):
        mreqs += [f'par 0 {impl[i]}', reqs[i + 1], reqs[i + 2], reqs[i + 3]]
    model = run_model(mreqs)
    # oracle: grammar automaton + anchor discipline on the implementation's events
    oreqs = []
    for i in range(0, len(reqs), 4):
        for j in (1, 2, 3):
            body = impl[i + j].rsplit(' ; ', 1)[0] if ' ; ' in impl[i + j] else ''
            oreqs.append('gram ' + ' '.join(x for x in body.split(' ') if x != '/'))
    orac = run_model(oreqs)
    for n, t in enumerate(texts):
        i = 4 * n
        res.evaluations += 1
        if is_nontrivial_tok(impl[i]):
            res.nt(t)
        note_dist(res, impl[i + 1], 'evt')
        for j, what in ((0, 'par'), (1, 'evt str'), (2, 'evt buf'), (3, 'psh')):
            a = impl[i + 1] if j == 0 else impl[i + j]
            b = model[i + j]
            if 'PANIC' in a or 'CRASH' in a:
                res.oracle_failures.append({'sig': 'unclassified:' + hashlib.sha1(t.encode()).hexdigest()[:10],
                                            'what': f'implementation panicked ({what})', 'reqs': [reqs[i + max(j, 1)]], 'input': repr(t)})
                continue
            pa, pb = proj_kinds(a), proj_kinds(b)
            if j == 3 and pa[1] == 'ERR':
                # on an error path the push model does not expose the events delivered before the error
                if pb[1] != 'ERR':
                    diff(res, mreqs[i + j], a, b, what)
                continue
            if pa != pb:
                diff(res, mreqs[i + j], a, b, what + ': event kinds / anchor ids / outcome differ')
        for j in (1, 2, 3):
            o = orac[3 * n + j - 1]
            tail = split_line(impl[i + j])[1][0]
            good = o.startswith('ok') and (tail != 'DONE' or o == 'ok 2 0')
            if not good and 'PANIC' not in impl[i + j]:
                res.oracle_failures.append({
                    'sig': 'unclassified:' + hashlib.sha1(t.encode()).hexdigest()[:10],
                    'what': f'events are not a grammatical prefix/sentence: oracle says {o!r}',
                    'reqs': [reqs[i + j]], 'input': repr(t), 'detail': impl[i + j][:1500]})
        if n % 4001 == 0:
            res.samples.append({'text': t[:80], 'events': impl[i + 1][:200]})
    return res
