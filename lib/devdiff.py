#!/usr/bin/env python3
"""Development aid: diff impl_run and saphyr_model on a mixed request set."""
import sys, os
sys.path.insert(0, os.path.dirname(__file__))
from vlib import *
rng = Rng(int(sys.argv[1]) if len(sys.argv) > 1 else 1)
n = int(sys.argv[2]) if len(sys.argv) > 2 else 2000
ops = sys.argv[3].split(',') if len(sys.argv) > 3 else ['tok', 'evt', 'psh', 'api', 'lod']
texts = [r['yaml'] for r in load_suite()] + soups(rng, n, 14) + line_soups(rng, n) + boundary_inputs()
reqs = []
for t in texts:
    h = hx(t)
    if 'tok' in ops:
        reqs += [f'tok str 128 {h}', f'tok buf 16 {h}']
    if 'evt' in ops:
        reqs += [f'evt str 128 0 {h}', f'evt buf 16 1 {h}']
    if 'psh' in ops:
        reqs += [f'psh str 1 {h}', f'psh str 0 {h}']
    if 'api' in ops:
        calls = ''.join(rng.choice('pn') for _ in range(rng.randint(1, 30)))
        reqs += [f'api {h} {calls}']
    if 'lod' in ops:
        reqs += [f'lod {rng.choice(["y","yo","m","mo"])} {rng.choice("elr")} {h}']
import time
t0 = time.time(); a = run_impl(reqs); t1 = time.time(); b = run_model(reqs); t2 = time.time()
bad = 0
for r, x, y in zip(reqs, a, b):
    if x.split(' ')[-1:] == ['PANIC'] or x.startswith('PANIC'):
        print('IMPL PANIC', r[:60])
    if x != y:
        # on an error path the push model does not report events delivered before the error
        if r.startswith('psh') and ' ; ERR' in x and x.rsplit(' ; ', 1)[1] == y.rsplit(' ; ', 1)[-1].lstrip('; '):
            continue
        bad += 1
        if bad <= 8:
            f = r.split(' ')
            print('DIFF', ' '.join(f[:-1])[:40], repr(unhx(f[-1]) if r[:3] not in ('api',) else unhx(f[1])))
            print('  impl :', x[:600]); print('  model:', y[:600])
print(f'requests={len(reqs)} bad={bad} impl={t1-t0:.1f}s model={t2-t1:.1f}s')
