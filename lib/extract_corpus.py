#!/usr/bin/env python3
"""One-off extraction of the yaml-test-suite corpus shipped in /repo into corpus/suite.jsonl.

Run once at development time (needs PyYAML); checks only read the extracted file, so a broken
parser in /repo cannot corrupt the corpus."""
import glob, json, os, sys, yaml

def visual_to_raw(s):
    for a, b in [("␣", " "), ("»", "\t"), ("—", ""), ("←", "\r"), ("⇔", "﻿"), ("↵", ""), ("∎\n", "")]:
        s = s.replace(a, b)
    return s

out = []
for f in sorted(glob.glob('/repo/parser/tests/yaml-test-suite/src/*.yaml')):
    name = os.path.basename(f)[:-5]
    tests = yaml.safe_load(open(f, encoding='utf8'))
    cur = {}
    for idx, t in enumerate(tests):
        cur.pop('fail', None)
        cur.update(t)
        if 'skip' in cur:
            continue
        tid = f"{name}-{idx:02d}" if len(tests) > 1 else name
        rec = {'id': tid, 'yaml': visual_to_raw(cur['yaml']), 'fail': bool(cur.get('fail', False)),
               'tree': visual_to_raw(cur.get('tree', '')) if 'tree' in cur else None,
               'json': cur.get('json'), 'tags': cur.get('tags', '')}
        out.append(rec)
with open(os.path.join(os.path.dirname(__file__), '..', 'corpus', 'suite.jsonl'), 'w', encoding='utf8') as w:
    for r in out:
        w.write(json.dumps(r, ensure_ascii=True) + '\n')
print(len(out), 'cases,', sum(r['fail'] for r in out), 'error cases')
