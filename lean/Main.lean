import SaphyrModel.Driver.Codec
import SaphyrModel.Lookup
import SaphyrModel.Pipeline
import SaphyrModel.Encoding
import SaphyrModel.Grammar
import SaphyrModel.Spec.Positions
import SaphyrModel.Spec.CoreSchema
/-! Line-protocol driver of the model (`lean_exe saphyr_model`): answers the same requests as the
Rust harness `impl_run`, from the model's executable definitions. -/
open SaphyrModel SaphyrModel.Sc SaphyrModel.Driver ProtoR ProtoE

def kindOf (k : String) : InKind := if k == "str" then .str else .buf

def scanText (kind : String) (cap : Nat) (text : List Char) : List Token × Outcome × Sc :=
  Pipeline.scanText (kindOf kind) cap text

def runTok (kind cap hex : String) : String :=
  let text := decodeHex hex
  let (toks, out, s') := scanText kind cap.toNat! text
  let body := " ".intercalate (toks.map showTok)
  let tail := match out with
    | .done => s!"DONE {showMark s'.mark}"
    | .error e => showErr e
    | .panic p => s!"PANIC {repr p}"
  s!"{body} ; {tail}"

def mkPState := PState.init

/-- scanner model then parser-state construction (`Pipeline.parserOf`); an error text on a
    scanner-model panic -/
def parserFor (kind : String) (cap : Nat) (keep : Bool) (text : List Char) : Except String PState :=
  match Pipeline.parserOf (kindOf kind) cap keep text with
  | some p => .ok p
  | none =>
    match (scanText kind cap text).2.1 with
    | .panic p => .error s!"SCANPANIC {repr p}"
    | _ => .error "SCANPANIC"

def showIter (r : List Ev × Option (SaphyrModel.Res Unit)) : String :=
  let tail := match r.2 with
    | none => "DONE"
    | some (.err e) => showErr e
    | some (.panic x) => s!"PANIC {repr x}"
    | some (.ok _) => "DONE"
  s!"{" ".intercalate (r.1.map fun (e, sp) => showEv e sp)} ; {tail}"

def runEvtP (p : PState) : String := showIter (iterate (16 * p.toks.length + 3) (Api.init p) [])

def runEvt (kind cap keep hex : String) : String :=
  match parserFor kind cap.toNat! (keep == "1") (decodeHex hex) with
  | .error m => s!"; {m}"
  | .ok p => runEvtP p

/-- `par <keep> <tail…>`: the parser model on a token stream printed by the *real* scanner:
    `par <keep> tok tok … ; DONE <mark>` or `… ; ERR <mark> <info>` -/
def runPar (keep : String) (fields : List String) : String :=
  let toks := (fields.takeWhile (· != ";")).filterMap readTok
  match fields.dropWhile (· != ";") with
  | [";", "DONE", m] => runEvtP (mkPState toks none (readMark m) (keep == "1"))
  | [";", "ERR", m, info] =>
    runEvtP (mkPState toks (some ⟨readMark m, String.ofList (decodeHex info)⟩) (readMark m) (keep == "1"))
  | _ => "bad-tail"

/-- repeated `load(multi)` calls, as the harness does -/
def pushAll (multi : Bool) : Nat → Nat → Push → List String → List String × String
  | 0, _, _, acc => (acc, "PANIC fuel")
  | calls + 1, fuel, s, acc =>
    match load multi fuel { s with out := [] } with
    | .err e =>
      -- events delivered before the error are not observable from the model on an error path
      (acc, showErr e)
    | .panic x => (acc, s!"PANIC {repr x}")
    | .ok s' =>
      let evs := s'.out.reverse.map fun (e, sp) => showEv e sp
      let acc := acc ++ evs
      if s'.out.any (fun e => e.1 == .streamEnd) then (acc, "DONE")
      else pushAll multi calls fuel s' (acc ++ ["/"])

def runPsh (kind multi hex : String) : String :=
  let cap := if kind == "str" then 128 else 16
  match parserFor kind cap false (decodeHex hex) with
  | .error m => s!"; {m}"
  | .ok p =>
    let fuel := 4 * p.toks.length + 64
    let (evs, tail) := pushAll (multi == "1") (p.toks.length + 4) fuel ⟨Api.init p, []⟩ []
    -- the consumer loop the theorems of Props/C17 speak about (`loadRepeat`) must tell the same story
    let agrees := multi == "1" ||
      (match loadRepeat (p.toks.length + 4) fuel ⟨Api.init p, []⟩ with
       | .ok s' => tail == "DONE" && (s'.out.reverse.map fun (e, sp) => showEv e sp) == evs.filter (· != "/")
       | .err e => tail == showErr e
       | .panic x => tail == s!"PANIC {repr x}")
    if agrees then s!"{" ".intercalate evs} ; {tail}" else "MODEL-INCONSISTENT loadRepeat vs pushAll"

def showCallRes (c : Call) (r : Option (SaphyrModel.Res Ev)) : String :=
  let pre := match c with | .peek => "P:" | .next => "N:"
  match r with
  | none => pre ++ "-"
  | some (.ok (e, sp)) => pre ++ showEv e sp
  | some (.err e) => pre ++ s!"E:{showMark e.mark}:{encodeHex e.info.toList}"
  | some (.panic x) => pre ++ s!"PANIC {repr x}"

def runApi (hex calls : String) : String :=
  match parserFor "str" 128 false (decodeHex hex) with
  | .error m => m
  | .ok p =>
    let cs := calls.toList.map fun c => if c == 'p' then Call.peek else Call.next
    " ".intercalate ((runCalls cs (Api.init p) []).map fun (c, r) => showCallRes c r)

def showDocs (marked : Bool) (docs : List Node) : String :=
  "OK " ++ " / ".intercalate (docs.map fun d => " ".intercalate (showNode marked d))

def foldAndShow (nk mode : String) (evs : List Ev) : String :=
  let marked := nk == "m" || nk == "mo"
  match foldEvents { marked, early := mode == "e" } {} evs with
  | .panic p => s!"PANIC {repr p}"
  | .ok s =>
    let docs := if mode == "r" then s.docs.map parseReprRec else s.docs
    showDocs marked docs

def runLod (nk mode hex : String) : String :=
  let (kind, cap) := if mode == "e" then ("buf", 16) else ("str", 128)
  match parserFor kind cap false (decodeHex hex) with
  | .error m => m
  | .ok p =>
    match load true (4 * p.toks.length + 64) ⟨Api.init p, []⟩ with
    | .err e => showErr e
    | .panic x => s!"PANIC {repr x}"
    | .ok s => foldAndShow nk mode s.out.reverse

/-- `fld <nk> <mode> <events…>`: the loader model on events printed by the *real* parser -/
def runFld (nk mode : String) (fields : List String) : String :=
  foldAndShow nk mode ((fields.takeWhile (· != ";")).filterMap readEv)

def runRes (style tag hex : String) : String :=
  match parseWithMeta (decodeHex hex) (readStyle style) (readTag tag) with
  | none => "BAD"
  | some (.null) => "N"
  | some (.bool b) => s!"B:{b}"
  | some (.int i) => s!"I:{i}"
  | some (.float f) => s!"D:{showFloat f}"
  | some (.string s) => s!"S:{encodeHex s}"

/-- prefix-notation tree parser with fuel -/
def parseTree : Nat → List String → Option (Y × List String)
  | 0, _ => none
  | fuel + 1, tok :: rest =>
    if tok == "N" then some (.null, rest)
    else if tok == "T" then some (.bool true, rest)
    else if tok == "F" then some (.bool false, rest)
    else if tok == "B" then some (.bad, rest)
    else if tok.startsWith "I:" then (tok.drop 2).toString.toInt?.map fun i => (.int i, rest)
    else if tok.startsWith "S:" then some (.str (decodeHex (tok.drop 2).toString), rest)
    else if tok.startsWith "D:" then
      -- D:<bits>:<hex of the Display text supplied by the harness>
      match tok.splitOn ":" with
      | [_, bits, disp] =>
        let cls : FloatClass :=
          if bits == "7ff0000000000000" then .posInf else if bits == "fff0000000000000" then .negInf
          else if bits == "7ff8000000000000" then .nan else .finite
        some (.float cls (decodeHex disp), rest)
      | _ => none
    else if tok.startsWith "Q:" then
      let n := (tok.drop 2).toString.toNat!
      let rec items (k : Nat) (acc : List Y) (r : List String) (f : Nat) : Option (List Y × List String) :=
        match k, f with
        | 0, _ => some (acc.reverse, r)
        | _, 0 => none
        | k + 1, f + 1 => match parseTree fuel r with
          | some (y, r') => items k (y :: acc) r' f
          | none => none
      (items n [] rest (n + 1)).map fun (ys, r) => (.seq ys, r)
    else if tok.startsWith "M:" then
      let n := (tok.drop 2).toString.toNat!
      let rec pairs (k : Nat) (acc : List (Y × Y)) (r : List String) (f : Nat) : Option (List (Y × Y) × List String) :=
        match k, f with
        | 0, _ => some (acc.reverse, r)
        | _, 0 => none
        | k + 1, f + 1 => match parseTree fuel r with
          | some (a, r1) => match parseTree fuel r1 with
            | some (b, r2) => pairs k ((a, b) :: acc) r2 f
            | none => none
          | none => none
      (pairs n [] rest (n + 1)).map fun (ps, r) => (.map ps, r)
    else none
  | _, [] => none

def boolBit (b : Bool) : Char := if b then '1' else '0'

def runCls (cp : String) : String :=
  let n := cp.toNat!
  if !(n < 0xd800 || (0xdfff < n && n < 0x110000)) then "nochar" else
  let c := Char.ofNat n
  let bits := [isZ c, isBreak c, isBreakz c, isBlank c, isBlankOrBreakz c, isDigit c, isAlpha c, isHex c,
    isFlow c, isBom c, isYamlNonBreak c, isYamlNonSpace c, isAnchorChar c, isWordChar c, isUriChar c, isTagChar c]
  let h := if isHex c then toString (asHex c) else "-"
  s!"{String.ofList (bits.map boolBit)} {h}"

/-- `gram <events…>`: the grammar automaton and the anchor discipline on an event stream
    (spec oracle for C02). Answers `ok <phase> <depth>` or `bad <index>`. -/
def runGram (fields : List String) : String :=
  let evs := ((fields.takeWhile (· != ";")).filterMap readEv).map (·.1)
  let rec go (g : G) (next : Nat) (i : Nat) : List Event → String
    | [] => s!"ok {g.phase} {g.stack.length}"
    | e :: es =>
      match gStep g e with
      | none => s!"bad {i} grammar"
      | some g' =>
        let aid? : Option Nat := match e with
          | .scalar _ _ a _ | .sequenceStart a _ | .mappingStart a _ => some a
          | _ => none
        match e, aid? with
        | .alias id, _ => if 0 < id && id < next then go g' next (i + 1) es else s!"bad {i} alias"
        | _, some a =>
          if a == 0 then go g' next (i + 1) es
          else if a == next then go g' (next + 1) (i + 1) es
          else s!"bad {i} anchor"
        | _, none => go g' next (i + 1) es
  go ⟨0, []⟩ 1 0 evs

/-- `pos <text> <items…> ; <tail>`: every mark of every item (token or event) and of the error must
    be true for the text (spec oracle for C12) -/
def runPos (hex : String) (fields : List String) : String :=
  let text := decodeHex hex
  let items := fields.takeWhile (· != ";")
  let marksOf (it : String) : List Marker :=
    match it.splitOn "@" with
    | [_, sp] => let s := readSpan sp; [s.start, s.stop]
    | _ => []
  let errMarks := match fields.dropWhile (· != ";") with
    | [";", "ERR", m, _] => [readMark m]
    | [";", "DONE", m] => [readMark m]
    | _ => []
  let rec go (i : Nat) : List String → String
    | [] => if errMarks.all (Spec.markTrue text) then "ok" else s!"bad tail"
    | it :: r => if (marksOf it).all (Spec.markTrue text) then go (i + 1) r else s!"bad {i}"
  go 0 items

/-- `core <text>`: what the YAML 1.2 core schema says about a plain scalar (spec oracle for C08):
    `null` | `bool:<b>` | `int:<i>[ float:<f>]` | `float:<f>` | `str` -/
def runCore (hex : String) : String :=
  let s := decodeHex hex
  let fl := match Spec.coreFloat s with | some f => s!" float:{showFloat f}" | none => ""
  if Spec.coreNull s then "null"
  else match Spec.coreBool s with
    | some b => s!"bool:{b}"
    | none => match Spec.coreInt s with
      | some i => s!"int:{i}{fl}"
      | none => match Spec.coreFloat s with
        | some f => s!"float:{showFloat f}"
        | none => "str"

def optNode (marked : Bool) : Option Node → String
  | none => "-"
  | some n => ";".intercalate (showNode marked n)

/-- `get <nodekind> <mode> <probe> <intidx|-> <text>`: the lookups of `Lookup.lean` on the first
    document. The hash is the constant function: by `C20.hashed_lookup_is_lookup` every hash that
    honours the contract gives the same answers. -/
def runGet (nk mode probe idx hex : String) : String :=
  let marked := nk == "m" || nk == "mo"
  match parserFor "str" 128 false (decodeHex hex) with
  | .error _ => "LOADERR"
  | .ok p =>
    match load true (4 * p.toks.length + 64) ⟨Api.init p, []⟩ with
    | .err _ => "LOADERR"
    | .panic x => s!"PANIC {repr x}"
    | .ok s =>
      match foldEvents { marked, early := mode == "e" } {} s.out.reverse with
      | .panic x => s!"PANIC {repr x}"
      | .ok st =>
        match st.docs with
        | [] => "NODOC"
        | d :: _ =>
          let k := decodeHex probe
          let h : Node → Nat := fun _ => 0
          let get := optNode marked (asMappingGet h d k)
          let contains := containsMappingKey h d k
          let index := match indexStr h d k with | none => "PANIC" | some n => optNode marked (some n)
          let explicit := match d with | .map .. => optNode marked (getExplicit d k) | _ => "-"
          let iget := match idx.toNat? with
            | none => "-"
            | some i =>
              let byIndex := match indexInt d i with | none => "PANIC" | some n => optNode marked (some n)
              let byGet := match d with | .seq .. => optNode marked (asSequenceGet d i) | _ => "-"
              s!"{byIndex}|{byGet}"
          s!"get={get} contains={contains} index={index} explicit={explicit} int={iget}"

def hexByte (a b : Char) : Nat := hexVal a * 16 + hexVal b
def decodeBytes : List Char → List Nat
  | a :: b :: rest => hexByte a b :: decodeBytes rest
  | _ => []

/-- `snf <bytes>`: `detect_utf16_endianness` (the sniffing used when there is no BOM) and the
    model's overall choice `detect` -/
def runSnf (hex : String) : String :=
  let b := decodeBytes hex.toList
  let name : Encoding.Enc → String
    | .utf8 => "UTF-8" | .utf16le => "UTF-16LE" | .utf16be => "UTF-16BE"
  s!"sniff={name (Encoding.detectUtf16 b)} detect={name (Encoding.detect b)}"

def runLine (line : String) : String :=
  match line.trimAscii.toString.splitOn " " with
  | ["tok", kind, cap, hex] => runTok kind cap hex
  | ["tok", kind, cap] => runTok kind cap ""
  | ["evt", kind, cap, keep, hex] => runEvt kind cap keep hex
  | ["evt", kind, cap, keep] => runEvt kind cap keep ""
  | "par" :: keep :: rest => runPar keep rest
  | ["psh", kind, multi, hex] => runPsh kind multi hex
  | ["psh", kind, multi] => runPsh kind multi ""
  | ["api", hex, calls] => runApi hex calls
  | ["lod", nk, mode, hex] => runLod nk mode hex
  | ["lod", nk, mode] => runLod nk mode ""
  | "fld" :: nk :: mode :: rest => runFld nk mode rest
  | ["res", style, tag, hex] => runRes style tag hex
  | ["res", style, tag] => runRes style tag ""
  | ["esc", h] => encodeHex (escapeStr (decodeHex h))
  | ["esc"] => encodeHex (escapeStr [])
  | ["nq", h] => toString (needQuotes (decodeHex h))
  | ["nq"] => toString (needQuotes [])
  | ["lit", h] => toString (validLiteral (decodeHex h))
  | ["lit"] => toString (validLiteral [])
  | "emt" :: c :: m :: toks =>
    match parseTree 100000 toks with
    | some (y, _) => encodeHex (dump { compact := c == "1", multiline := m == "1" } y)
    | none => "bad-tree"
  | ["cls", cp] => runCls cp
  | "gram" :: rest => runGram rest
  | ["get", nk, mode, probe, idx, hex] => runGet nk mode probe idx hex
  | ["snf", h] => runSnf h
  | ["snf"] => runSnf ""
  | ["core", h] => runCore h
  | ["core"] => runCore ""
  | "pos" :: hex :: rest => runPos hex rest
  | _ => "bad-op"

partial def loop (h : IO.FS.Stream) (out : IO.FS.Stream) : IO Unit := do
  let line ← h.getLine
  if line.isEmpty then return ()
  out.putStrLn (runLine line)
  out.flush
  loop h out

def main : IO Unit := do
  let out ← IO.getStdout
  loop (← IO.getStdin) out
