/-! Prototype: `Scalar::parse_from_cow` with models of `i64::from_str_radix` and the grammar of `f64::from_str`. -/
namespace ProtoR

abbrev Str := List Char

def digitVal (c : Char) (radix : Nat) : Option Nat :=
  let v :=
    if '0' ≤ c ∧ c ≤ '9' then some (c.toNat - '0'.toNat)
    else if 'a' ≤ c ∧ c ≤ 'z' then some (c.toNat - 'a'.toNat + 10)
    else if 'A' ≤ c ∧ c ≤ 'Z' then some (c.toNat - 'A'.toNat + 10)
    else none
  v.bind fun d => if d < radix then some d else none

def digitsVal (radix : Nat) : Str → Option Nat
  | [] => none
  | cs => cs.foldl (fun acc c => acc.bind fun v => (digitVal c radix).map fun d => v * radix + d) (some 0)

/-- `i64::from_str_radix` -/
def fromStrRadix (s : Str) (radix : Nat) : Option Int :=
  match s with
  | [] => none
  | ['+'] | ['-'] => none
  | '+' :: ds => (digitsVal radix ds).bind fun v => if v ≤ 9223372036854775807 then some (v : Int) else none
  | '-' :: ds => (digitsVal radix ds).bind fun v => if v ≤ 9223372036854775808 then some (-(v : Int)) else none
  | ds => (digitsVal radix ds).bind fun v => if v ≤ 9223372036854775807 then some (v : Int) else none

/-- decimal denotation of a float literal: sign, digit string (mantissa without the point), exponent -/
inductive FloatDen
  | inf (neg : Bool) | nan
  | fin (neg : Bool) (mant : Nat) (exp10 : Int)
deriving Repr, DecidableEq

def lower (s : Str) : Str := s.map Char.toLower
def isDig (c : Char) : Bool := '0' ≤ c && c ≤ '9'

def natOfDigits (ds : Str) : Nat := ds.foldl (fun v c => v * 10 + (c.toNat - '0'.toNat)) 0

/-- optional sign -/
def splitSign : Str → Bool × Str
  | '-' :: r => (true, r)
  | '+' :: r => (false, r)
  | r => (false, r)

/-- the decimal part of the grammar of `f64::from_str`: digits, optional fraction, optional exponent -/
def f64Body (neg : Bool) (r : Str) : Option FloatDen :=
  let ip := r.takeWhile isDig
  let r1 := r.dropWhile isDig
  let fr : Str × Str := match r1 with
    | '.' :: t => (t.takeWhile isDig, t.dropWhile isDig)
    | t => ([], t)
  if ip.isEmpty ∧ fr.1.isEmpty then none
  else
    let mant := natOfDigits (ip ++ fr.1)
    let baseExp : Int := -(fr.1.length : Int)
    match fr.2 with
    | [] => some (.fin neg mant baseExp)
    | e :: t =>
      if e = 'e' ∨ e = 'E' then
        let ex := splitSign t
        if ex.2.isEmpty ∨ !ex.2.all isDig then none
        else
          let ev : Int := natOfDigits ex.2
          some (.fin neg mant (baseExp + (if ex.1 then -ev else ev)))
      else none

/-- grammar accepted by `f64::from_str` (core::num::dec2flt) -/
def parseF64 (s : Str) : Option FloatDen :=
  let nr := splitSign s
  let lr := lower nr.2
  if lr = "inf".toList ∨ lr = "infinity".toList then some (.inf nr.1)
  else if lr = "nan".toList then some .nan
  else f64Body nr.1 nr.2

/-- the characters `parse_f64` hands on to `f64::from_str` -/
def floatByte (c : Char) : Bool := ('0' ≤ c && c ≤ '9') || c == '+' || c == '-' || c == '.' || c == 'e' || c == 'E'

/-- `parse_f64` of loader.rs -/
def parseF64Yaml (s : Str) : Option FloatDen :=
  let str := String.ofList s
  if str = ".inf" ∨ str = ".Inf" ∨ str = ".INF" ∨ str = "+.inf" ∨ str = "+.Inf" ∨ str = "+.INF" then some (.inf false)
  else if str = "-.inf" ∨ str = "-.Inf" ∨ str = "-.INF" then some (.inf true)
  else if str = ".nan" ∨ str = ".NaN" ∨ str = ".NAN" then some .nan
  else if s.all floatByte then parseF64 s
  else none

inductive Scalar
  | null | bool (b : Bool) | int (i : Int) | float (f : FloatDen) | string (s : Str)
deriving Repr, DecidableEq

def stripPrefix (p s : Str) : Option Str := if p.isPrefixOf s then some (s.drop p.length) else none

/-- the digits after a `0x`, `0o` or `+` prefix may not carry a sign of their own -/
def unsignedDigits (n : Str) : Bool := n.head? != some '+' && n.head? != some '-'

/-- `Scalar::parse_from_cow` (scalar.rs), as written -/
def parseFromCow (v : Str) : Scalar :=
  let early : Option Scalar :=
    match stripPrefix ['0', 'x'] v with
    | some n => if unsignedDigits n then (fromStrRadix n 16).map .int else none
    | none =>
      match stripPrefix ['0', 'o'] v with
      | some n => if unsignedDigits n then (fromStrRadix n 8).map .int else none
      | none =>
        match stripPrefix ['+'] v with
        | some n => if unsignedDigits n then (fromStrRadix n 10).map .int else none
        | none => none
  match early with
  | some r => r
  | none =>
    let str := String.ofList v
    if str = "~" ∨ str = "null" ∨ str = "NULL" then .null
    else if str = "true" then .bool true
    else if str = "false" then .bool false
    else match fromStrRadix v 10 with
      | some i => .int i
      | none => match parseF64Yaml v with
        | some f => .float f
        | none => .string v

end ProtoR
