/-! Model of `encoding.rs`: BOM sniffing, `detect_utf16_endianness`, and `decode_loop` over an
abstract decoder step (the `encoding_rs` decoder is external). Bytes are `Nat`s below 256. -/
namespace SaphyrModel.Encoding

inductive Enc | utf8 | utf16le | utf16be
deriving Repr, DecidableEq

/-- `Encoding::for_bom` -/
def forBom : List Nat → Option Enc
  | 0xEF :: 0xBB :: 0xBF :: _ => some .utf8
  | 0xFF :: 0xFE :: _ => some .utf16le
  | 0xFE :: 0xFF :: _ => some .utf16be
  | _ => none

/-- `detect_utf16_endianness` -/
def detectUtf16 : List Nat → Enc
  | b0 :: b1 :: _ => if b0 ≠ b1 then (if b0 = 0 then .utf16be else if b1 = 0 then .utf16le else .utf8) else .utf8
  | _ => .utf8

def detect (b : List Nat) : Enc := (forBom b).getD (detectUtf16 b)

/-- outcome of one `decode_to_string_without_replacement` call -/
inductive StepResult | inputEmpty | outputFull | malformed
deriving Repr, DecidableEq

/-- one decoder call: given the number of unread input bytes and the free output capacity, it
    reports a result, how many bytes it read and how many it wrote -/
structure Decoder where
  step : (remaining free : Nat) → StepResult × Nat × Nat

/-- what the loop relies on (read off the `encoding_rs` documentation):
    reads stay within the input, writes within the free capacity; `InputEmpty` means everything
    was read; a malformed sequence consumes at least one byte; and with room for one more
    character (4 bytes) the decoder never reports `OutputFull` without having consumed input -/
structure Decoder.Contract (d : Decoder) : Prop where
  read_le : ∀ r f, (d.step r f).2.1 ≤ r
  write_le : ∀ r f, (d.step r f).2.2 ≤ f
  malformed_progress : ∀ r f, (d.step r f).1 = .malformed → 0 < (d.step r f).2.1
  full_progress : ∀ r f, 4 ≤ f → (d.step r f).1 = .outputFull → 0 < (d.step r f).2.1

structure LoopState where
  read : Nat      -- total_bytes_read
  len : Nat       -- output.len()
  cap : Nat       -- output.capacity()
deriving Repr

inductive LoopOutcome | done (s : LoopState) | strictError (s : LoopState) | outOfFuel (s : LoopState)
deriving Repr

/-- `String::reserve(additional)`: capacity at least `len + additional` (never shrinks) -/
def reserve (s : LoopState) (additional : Nat) : LoopState := { s with cap := max s.cap (s.len + additional) }

/-- `decode_loop` with the repaired growth step `max(input.len() / 10, 4)`; `strict` = the strict
    trap (the other traps continue after a malformed sequence, writing at most a replacement) -/
def decodeLoop (d : Decoder) (n : Nat) (strict : Bool) (repl : Nat) : Nat → LoopState → LoopOutcome
  | 0, s => .outOfFuel s
  | fuel + 1, s =>
    let r := d.step (n - s.read) (s.cap - s.len)
    let s1 : LoopState := { s with read := s.read + r.2.1, len := s.len + r.2.2 }
    match r.1 with
    | .inputEmpty => .done s1
    | .outputFull => decodeLoop d n strict repl fuel (reserve s1 (max (n / 10) 4))
    | .malformed =>
      if strict then .strictError s1
      else decodeLoop d n strict repl fuel (reserve { s1 with len := s1.len + repl } 0)

end SaphyrModel.Encoding
