import SaphyrModel.Parser2
/-! Model of the three driver interfaces of `Parser`: `peek`, `next_event` (the iterator) and the
push interface `load` / `load_document` / `load_node` / `load_sequence` / `load_mapping`
(parser.rs:320-561). -/
namespace SaphyrModel

abbrev Ev := Event × Span

structure Api where
  p : PState
  current : Option Ev
  endEmitted : Bool
deriving Repr

def Api.init (p : PState) : Api := { p, current := none, endEmitted := false }

/-- the parser as constructed by `Parser::new` over the delivered tokens `toks` and the latched
    scanner error `scanErr` (if any); `eof` is the scanner's final mark -/
def PState.init (toks : List Token) (scanErr : Option ScanError) (eof : Marker) (keep : Bool) : PState :=
  { toks, scanErr, eofMark := eof, state := .streamStart, states := [], anchors := [],
    anchorId := 1, tags := [], keepTags := keep }

/-- `Parser::parse` wrapped by `next_event_impl` -/
def nextImpl (a : Api) : Res (Ev × Api) :=
  match a.current with
  | some v => .ok (v, { a with current := none })
  | none =>
    match parseStep a.p with
    | .ok (ev, sp, p') => .ok ((ev, sp), { a with p := p' })
    | .err e => .err e
    | .panic x => .panic x

/-- `Parser::peek`. `none` = `None`. -/
def Api.peek (a : Api) : Option (Res Ev) × Api :=
  match a.current with
  | some x => (some (.ok x), a)
  | none =>
    if a.endEmitted then (none, a)
    else match nextImpl a with
      | .ok (v, a') => (some (.ok v), { a' with current := some v })
      | .err e => (some (.err e), a)
      | .panic x => (some (.panic x), a)

/-- `Parser::next_event` (= `Iterator::next`). -/
def Api.next (a : Api) : Option (Res Ev) × Api :=
  if a.endEmitted then (none, a)
  else match nextImpl a with
    | .ok (v, a') => (some (.ok v), { a' with endEmitted := v.1 == .streamEnd })
    | .err e => (some (.err e), a)
    | .panic x => (some (.panic x), a)

/-- plain iteration: events up to `StreamEnd` or the first error -/
def iterate : Nat → Api → List Ev → List Ev × Option (Res Unit)
  | 0, _, acc => (acc.reverse, some (.panic .fuel))
  | fuel + 1, a, acc =>
    match a.next with
    | (none, _) => (acc.reverse, none)
    | (some (.ok v), a') => iterate fuel a' (v :: acc)
    | (some (.err e), _) => (acc.reverse, some (.err e))
    | (some (.panic x), _) => (acc.reverse, some (.panic x))

inductive Call | peek | next
deriving Repr, DecidableEq

/-- run a history of calls; the history is cut after the first call that returns an error -/
def runCalls : List Call → Api → List (Call × Option (Res Ev)) → List (Call × Option (Res Ev))
  | [], _, acc => acc.reverse
  | c :: cs, a, acc =>
    let (r, a') := match c with | .peek => a.peek | .next => a.next
    match r with
    | some (.err _) | some (.panic _) => ((c, r) :: acc).reverse
    | _ => runCalls cs a' ((c, r) :: acc)

-- push interface ----------------------------------------------------------------------------------

/-- receiver + parser -/
structure Push where
  api : Api
  out : List Ev        -- delivered events, most recent first
deriving Repr

def Push.recv (s : Push) (e : Ev) : Push := { s with out := e :: s.out }

def Push.pull (s : Push) : Res (Ev × Push) :=
  match nextImpl s.api with
  | .ok (v, a) => .ok (v, { s with api := a })
  | .err e => .err e
  | .panic x => .panic x

def isDocumentStart : Event → Bool | .documentStart _ => true | _ => false

/-- the node loop of `load_document`: forward events until every opened collection is closed.
    `depth` = number of open collections. -/
def loadNodeLoop : Nat → Nat → Push → Res Push
  | 0, _, _ => .panic .fuel
  | fuel + 1, depth, s =>
    match s.pull with
    | .err e => .err e | .panic x => .panic x
    | .ok (e, s) =>
      match e.1 with
      | .sequenceStart .. | .mappingStart .. => loadNodeLoop fuel (depth + 1) (s.recv e)
      | .sequenceEnd | .mappingEnd =>
        if depth = 0 then .panic .loadNodeUnreachable
        else if depth = 1 then .ok (s.recv e) else loadNodeLoop fuel (depth - 1) (s.recv e)
      | .alias _ | .scalar .. => if depth = 0 then .ok (s.recv e) else loadNodeLoop fuel depth (s.recv e)
      | _ => .panic .loadNodeUnreachable

/-- `load_document` -/
def loadDocument (fuel : Nat) (first : Ev) (s : Push) : Res Push :=
  if !isDocumentStart first.1 then .err ⟨first.2.start, "did not find expected <document-start>"⟩
  else
    match loadNodeLoop fuel 0 (s.recv first) with
    | .err e => .err e | .panic x => .panic x
    | .ok s =>
      match s.pull with
      | .err e => .err e | .panic x => .panic x
      | .ok (e, s) => if e.1 == .documentEnd then .ok (s.recv e) else .panic .assertDocumentEnd

/-- the document loop of `load` -/
def loadLoop (multi : Bool) : Nat → Push → Res Push
  | 0, _ => .panic .fuel
  | fuel + 1, s =>
    match s.pull with
    | .err e => .err e | .panic x => .panic x
    | .ok (e, s) =>
      if e.1 == .streamEnd then .ok (s.recv e)
      else
        -- `self.anchors.clear()` before each document
        let s := { s with api := { s.api with p := { s.api.p with anchors := [] } } }
        match loadDocument fuel e s with
        | .err e => .err e | .panic x => .panic x
        | .ok s => if multi then loadLoop multi fuel s else .ok s

/-- `Parser::load`. `scanner.stream_started()` holds exactly when the parser left `State::StreamStart`
    (the first `peek_token` runs `fetch_stream_start`). `scanner.stream_ended()` short-cut: when it
    is true the StreamEnd token is the next one the state machine would read, so the short-cut and
    the regular path deliver the same `StreamEnd` event with the same (empty) span; the model takes
    the regular path (checked by the `psh` correspondence). -/
def load (multi : Bool) (fuel : Nat) (s : Push) : Res Push :=
  let started := s.api.p.state != .streamStart || s.api.current.isSome
  if !started then
    match s.pull with
    | .err e => .err e | .panic x => .panic x
    | .ok (e, s) =>
      if e.1 != .streamStart then .err ⟨e.2.start, "did not find expected <stream-start>"⟩
      else loadLoop multi fuel (s.recv e)
  else loadLoop multi fuel s

/-- the most recently delivered event is StreamEnd -/
def sawEnd (s : Push) : Bool := match s.out with | e :: _ => e.1 == .streamEnd | [] => false

/-- a consumer of the single-document mode: `load(recv, false)` is called again and again until a
    call delivers StreamEnd or fails (`calls` bounds the number of calls) -/
def loadRepeat : Nat → Nat → Push → Res Push
  | 0, _, _ => .panic .fuel
  | calls + 1, fuel, s =>
    match load false fuel s with
    | .err e => .err e | .panic x => .panic x
    | .ok s' => if sawEnd s' then .ok s' else loadRepeat calls fuel s'

end SaphyrModel
