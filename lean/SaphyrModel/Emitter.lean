import SaphyrModel.Resolve
/-! Prototype: `YamlEmitter` (emitter.rs) over trees of null/bool/int/string/sequence/mapping. -/
namespace ProtoE
open ProtoR

inductive FloatClass | finite | posInf | negInf | nan
deriving Repr, DecidableEq

inductive Y
  | null | bool (b : Bool) | int (i : Int) | str (s : Str)
  | float (cls : FloatClass) (disp : Str)   -- class of the value; `Display for f64` text (external; supplied)
  | seq (items : List Y)
  | map (pairs : List (Y × Y))
  | bad

/-- how the emitter writes a float: YAML spellings for the non-finite values, the `Display` text
    for finite ones, with `.0` appended when it has no fractional part or exponent -/
def floatText (cls : FloatClass) (disp : Str) : Str :=
  match cls with
  | .nan => ".nan".toList
  | .posInf => ".inf".toList
  | .negInf => "-.inf".toList
  | .finite => if disp.any (fun c => c == '.' || c == 'e' || c == 'E') then disp else disp ++ ['.', '0']

structure Cfg where
  compact : Bool := true
  multiline : Bool := false
  bestIndent : Nat := 2

def hex2 (n : Nat) : Str :=
  let d (k : Nat) : Char := if k < 10 then Char.ofNat (48 + k) else Char.ofNat (87 + k)
  [d (n / 16), d (n % 16)]

/-- `escape_str`: works on UTF-8 bytes, but only ASCII bytes are ever escaped -/
def escChar (c : Char) : Str :=
  if c = '"' then ['\\', '"'] else if c = '\\' then ['\\', '\\']
  else if c = '\x08' then ['\\', 'b'] else if c = '\t' then ['\\', 't'] else if c = '\n' then ['\\', 'n']
  else if c = '\x0c' then ['\\', 'f'] else if c = '\r' then ['\\', 'r']
  else if c.toNat < 0x20 ∨ c = '\x7f' then ['\\', 'u', '0', '0'] ++ hex2 c.toNat
  else [c]
def escapeStr (s : Str) : Str := ['"'] ++ s.flatMap escChar ++ ['"']

def quoteWords : List String :=
  ["yes", "Yes", "YES", "no", "No", "NO", "True", "TRUE", "true", "False", "FALSE", "false",
   "on", "On", "ON", "off", "Off", "OFF", "null", "Null", "NULL", "~"]

def needQuotes (s : Str) : Bool :=
  s.isEmpty
  || s.head? == some ' ' || s.getLast? == some ' '
  || (match s.head? with
      | some c => "&*?|-<>=!%@".toList.contains c
      | none => false)
  || s.any (fun c => ":{}[],#`\"'\\".toList.contains c
        || c.toNat ≤ 6 || c == '\t' || c == '\n' || c == '\r'
        || (0x0e ≤ c.toNat && c.toNat ≤ 0x1a) || (0x1c ≤ c.toNat && c.toNat ≤ 0x1f))
  || quoteWords.contains (String.ofList s)
  || s.head? == some '.'
  || ['0', 'x'].isPrefixOf s
  || (fromStrRadix s 10).isSome
  || (parseF64 s).isSome
  || (match parseFromCow s with | .string _ => false | _ => true)

/-- `is_valid_literal_block_scalar` (note the source's upper bound `\u{d7fff}`) -/
def validLiteral (s : Str) : Bool :=
  s.all fun c => c == '\t' || c == '\n' || (0x20 ≤ c.toNat && c.toNat ≤ 0x7e) || c.toNat == 0x85
    || (0xa0 ≤ c.toNat && c.toNat ≤ 0xd7fff)

def indentStr (cfg : Cfg) (level : Int) : Str :=
  if level ≤ 0 then [] else List.replicate (level.toNat * cfg.bestIndent) ' '

/-- `str::lines()`: split on '\n', drop one trailing '\r' per line, no final empty line -/
def lines (s : Str) : List Str :=
  let rec go (cur : Str) : Str → List Str
    | [] => if cur.isEmpty then [] else [cur]
    | '\n' :: r => cur :: go [] r
    | c :: r => go (cur ++ [c]) r
  (go [] s).map fun l => if l.getLast? == some '\r' then l.dropLast else l

def emitLiteral (cfg : Cfg) (level : Int) (s : Str) : Str :=
  let hdr : Str := if s.getLast? == some '\n' then ['|'] else ['|', '-']
  hdr ++ (lines s).flatMap fun l => ['\n'] ++ indentStr cfg (level + 1) ++ l

/-- `str::len()`: length in UTF-8 bytes -/
def utf8Len (s : Str) : Nat := s.foldl (fun n c => n + c.utf8Size) 0

/-- split on '\n' (`str::split('\n')`) -/
def splitNl (s : Str) : List Str :=
  let rec go (cur : Str) : Str → List Str
    | [] => [cur]
    | '\n' :: r => cur :: go [] r
    | c :: r => go (cur ++ [c]) r
  go [] s

def endsWith2Nl (s : Str) : Bool :=
  match s.reverse with
  | '\n' :: '\n' :: _ => true
  | _ => false

/-- `use_literal_block`: `multiline_strings` is set and the `|` / `|-` form reads back as `s` -/
def useLiteral (cfg : Cfg) (level : Int) (s : Str) : Bool :=
  cfg.multiline && s.contains '\n' && validLiteral s
  && !endsWith2Nl s
  && s.any (· != '\n')
  && (match s.dropWhile (· == '\n') with
      | c :: _ => !(c == ' ' || c == '\t')
      | [] => true)
  && (decide (level ≥ 0) ||
      !(splitNl s).any (fun l => ['-', '-', '-'].isPrefixOf l || ['.', '.', '.'].isPrefixOf l))

def emitScalarStr (cfg : Cfg) (level : Int) (s : Str) : Str :=
  if useLiteral cfg level s then emitLiteral cfg level s
  else if needQuotes s then escapeStr s else s

def intStr (i : Int) : Str := (toString i).toList

mutual
def emitNode (cfg : Cfg) (level : Int) : Y → Str
  | .seq v => if v.isEmpty then ['[', ']'] else emitSeqItems cfg (level + 1) true v
  | .map h => if h.isEmpty then ['{', '}'] else emitMapItems cfg (level + 1) true h
  | .str s => emitScalarStr cfg level s
  | .bool b => if b then "true".toList else "false".toList
  | .int i => intStr i
  | .float c d => floatText c d
  | .null | .bad => ['~']
def emitSeqItems (cfg : Cfg) (level : Int) (first : Bool) : List Y → Str
  | [] => []
  | x :: xs =>
    (if first then [] else ['\n'] ++ indentStr cfg level) ++ ['-'] ++ emitVal cfg level true x
      ++ emitSeqItems cfg level false xs
def emitMapItems (cfg : Cfg) (level : Int) (first : Bool) : List (Y × Y) → Str
  | [] => []
  | (k, v) :: ps =>
    (if first then [] else ['\n'] ++ indentStr cfg level) ++
    (if (match k with
          | .seq _ | .map _ => true
          | .str s => useLiteral cfg level s || decide (utf8Len s > 128)
          | _ => false) then
        ['?'] ++ emitVal cfg level true k ++ ['\n'] ++ indentStr cfg level ++ [':'] ++ emitVal cfg level true v
      else emitNode cfg level k ++ [':'] ++ emitVal cfg level false v)
      ++ emitMapItems cfg level false ps
def emitVal (cfg : Cfg) (level : Int) (inline : Bool) : Y → Str
  | .seq v =>
    (if (inline && cfg.compact) || v.isEmpty then [' '] else ['\n'] ++ indentStr cfg (level + 1)) ++
      (if v.isEmpty then ['[', ']'] else emitSeqItems cfg (level + 1) true v)
  | .map h =>
    (if (inline && cfg.compact) || h.isEmpty then [' '] else ['\n'] ++ indentStr cfg (level + 1)) ++
      (if h.isEmpty then ['{', '}'] else emitMapItems cfg (level + 1) true h)
  | .str s => [' '] ++ emitScalarStr cfg level s
  | .bool b => [' '] ++ (if b then "true".toList else "false".toList)
  | .int i => [' '] ++ intStr i
  | .float c d => [' '] ++ floatText c d
  | .null | .bad => [' ', '~']
end

def dump (cfg : Cfg) (y : Y) : Str := "---\n".toList ++ emitNode cfg (-1) y

end ProtoE
