import SaphyrModel.Parser
namespace SaphyrModel

instance : Monad Res where
  pure a := .ok a
  bind m f := match m with
    | .ok a => f a
    | .err e => .err e
    | .panic p => .panic p

def isDirectiveOrDocStart : TokenType → Bool
  | .versionDirective .. | .tagDirective .. | .documentStart => true
  | _ => false

/-- insert or replace a binding (`HashMap::insert` / `extend`) -/
def tagsInsert (h pf : Str) : List (Str × Str) → List (Str × Str)
  | [] => [(h, pf)]
  | (k, v) :: r => if k = h then (h, pf) :: r else (k, v) :: tagsInsert h pf r

/-- `self.tags.extend(tags)` -/
def tagsExtend (old new : List (Str × Str)) : List (Str × Str) :=
  new.foldl (fun acc kv => tagsInsert kv.1 kv.2 acc) old

/-- the directive loop of `parser_process_directives`: `acc` collects this document's `%TAG`
    declarations (a handle may be declared once; reserved directives — empty handle — declare
    nothing) -/
def directivesLoop (fuel : Nat) (p : PState) (versionSeen : Bool) (acc : List (Str × Str)) :
    Res (PState × List (Str × Str)) :=
  match fuel with
  | 0 => .ok (p, acc)
  | fuel + 1 => do
    let t ← peekTok p
    match t.ty with
    | .versionDirective _ _ =>
      if versionSeen then .err ⟨t.span.start, "duplicate version directive"⟩
      else directivesLoop fuel (skipTok p) true acc
    | .tagDirective h pf =>
      if h = [] then directivesLoop fuel (skipTok p) versionSeen acc
      else if (lookup h acc).isSome then
        .err ⟨t.span.start, "the TAG directive must only be given at most once per handle in the same document"⟩
      else directivesLoop fuel (skipTok p) versionSeen (acc ++ [(h, pf)])
    | _ => .ok (p, acc)

/-- `parser_process_directives` -/
def processDirectives (fuel : Nat) (p : PState) (versionSeen : Bool) : Res PState := do
  let (p, acc) ← directivesLoop fuel p versionSeen []
  .ok { p with tags := tagsExtend p.tags acc }

def explicitDocumentStart (p : PState) : Res Out := do
  let p ← processDirectives (p.toks.length + 1) p false
  let t ← peekTok p
  match t.ty with
  | .documentStart =>
    .ok (.documentStart true, t.span, skipTok { (pushState p .documentEnd) with state := .documentContent })
  | _ => .err ⟨t.span.start, "did not find expected <document start>"⟩

def skipDocEnds : Nat → PState → Res PState
  | 0, p => .ok p
  | n+1, p => do
    let t ← peekTok p
    match t.ty with
    | .documentEnd => skipDocEnds n (skipTok p)
    | _ => .ok p

def documentStart (p : PState) (implicit : Bool) : Res Out := do
  let p ← skipDocEnds (p.toks.length + 1) p
  let t ← peekTok p
  match t.ty with
  | .streamEnd => .ok (.streamEnd, t.span, skipTok { p with state := .end })
  | .versionDirective .. | .tagDirective .. | .documentStart => explicitDocumentStart p
  | _ =>
    if implicit then do
      let p ← processDirectives (p.toks.length + 1) p false
      .ok (.documentStart false, t.span, { (pushState p .documentEnd) with state := .blockNode })
    else explicitDocumentStart p

def documentContent (p : PState) : Res Out := do
  let t ← peekTok p
  match t.ty with
  | .versionDirective .. | .tagDirective .. | .documentStart | .documentEnd | .streamEnd => do
    let p ← popState p
    .ok (emptyScalar, t.span, p)
  | _ => parseNode p true false

def clearTags (p : PState) : PState := if p.keepTags then p else { p with tags := [] }
@[simp] theorem clearTags_state (p : PState) : (clearTags p).state = p.state := by unfold clearTags; split <;> rfl
@[simp] theorem clearTags_states (p : PState) : (clearTags p).states = p.states := by unfold clearTags; split <;> rfl
@[simp] theorem clearTags_toks (p : PState) : (clearTags p).toks = p.toks := by unfold clearTags; split <;> rfl

/-- `self.anchors.clear()` at the end of every document -/
def clearAnchors (p : PState) : PState := { p with anchors := [] }
@[simp] theorem clearAnchors_state (p : PState) : (clearAnchors p).state = p.state := rfl
@[simp] theorem clearAnchors_states (p : PState) : (clearAnchors p).states = p.states := rfl
@[simp] theorem clearAnchors_toks (p : PState) : (clearAnchors p).toks = p.toks := rfl

def documentEnd (p : PState) : Res Out := do
  let t ← peekTok p
  match t.ty with
  | .documentEnd =>
    .ok (.documentEnd, t.span, { clearAnchors (clearTags (skipTok p)) with state := .implicitDocumentStart })
  | _ => do
    let p := clearAnchors (clearTags p)
    let t2 ← peekTok p
    match t2.ty with
    | .versionDirective .. | .tagDirective .. =>
      .err ⟨t2.span.start, "missing explicit document end marker before directive"⟩
    | _ => .ok (.documentEnd, t.span, { p with state := .documentStart })

/-- `if first { let _ = self.peek_token()?; self.skip(); }` -/
def skipFirst (first : Bool) (p : PState) : Res PState :=
  if first then (peekTok p >>= fun _ => pure (skipTok p)) else pure p

/-- `if !first { match peek { FlowEntry => skip, _ => Err(msg) } }` -/
def requireFlowEntry (first : Bool) (t : Token) (msg : String) (p : PState) : Res PState :=
  if first then pure p else
    match t.ty with
    | .flowEntry => pure (skipTok p)
    | _ => .err ⟨t.span.start, msg⟩

def blockMappingKey (p : PState) (first : Bool) : Res Out := do
  let p ← skipFirst first p
  let t ← peekTok p
  match t.ty with
  | .key => do
    let p := skipTok p
    let t2 ← peekTok p
    match t2.ty with
    | .key | .value | .blockEnd => .ok (emptyScalar, t2.span, { p with state := .blockMappingValue })
    | _ => parseNode (pushState p .blockMappingValue) true true
  | .value => .ok (emptyScalar, t.span, { p with state := .blockMappingValue })
  | .blockEnd => do
    let p ← popState p
    .ok (.mappingEnd, t.span, skipTok p)
  | _ => .err ⟨t.span.start, "while parsing a block mapping, did not find expected key"⟩

def blockMappingValue (p : PState) : Res Out := do
  let t ← peekTok p
  match t.ty with
  | .value => do
    let p := skipTok p
    let t2 ← peekTok p
    match t2.ty with
    | .key | .value | .blockEnd => .ok (emptyScalar, t2.span, { p with state := .blockMappingKey })
    | _ => parseNode (pushState p .blockMappingKey) true true
  | _ => .ok (emptyScalar, t.span, { p with state := .blockMappingKey })

def flowMappingKey (p : PState) (first : Bool) : Res Out := do
  let p ← skipFirst first p
  let t ← peekTok p
  match t.ty with
  | .flowMappingEnd => do
    let p ← popState p
    .ok (.mappingEnd, t.span, skipTok p)
  | _ => do
    let p ← requireFlowEntry first t "while parsing a flow mapping, did not find expected ',' or '}'" p
    let t2 ← peekTok p
    match t2.ty with
    | .key => do
      let p := skipTok p
      let t3 ← peekTok p
      match t3.ty with
      | .value | .flowEntry | .flowMappingEnd =>
        .ok (emptyScalar, t3.span, { p with state := .flowMappingValue })
      | _ => parseNode (pushState p .flowMappingValue) false false
    | .value => .ok (emptyScalar, t2.span, { p with state := .flowMappingValue })
    | .flowMappingEnd => do
      let p ← popState p
      .ok (.mappingEnd, t.span, skipTok p)
    | _ => parseNode (pushState p .flowMappingEmptyValue) false false

def flowMappingValue (p : PState) (empty : Bool) : Res Out := do
  let t ← peekTok p
  if empty then .ok (emptyScalar, t.span, { p with state := .flowMappingKey })
  else match t.ty with
    | .value => do
      let p := skipTok p
      let t2 ← peekTok p
      match t2.ty with
      | .flowEntry | .flowMappingEnd => .ok (emptyScalar, t.span, { p with state := .flowMappingKey })
      | _ => parseNode (pushState p .flowMappingKey) false false
    | _ => .ok (emptyScalar, t.span, { p with state := .flowMappingKey })

def flowSequenceEntry (p : PState) (first : Bool) : Res Out := do
  let p ← skipFirst first p
  let t ← peekTok p
  match t.ty with
  | .flowSequenceEnd => do
    let p ← popState p
    .ok (.sequenceEnd, t.span, skipTok p)
  | _ => do
    let p ← requireFlowEntry first t "while parsing a flow sequence, expected ',' or ']'" p
    let t2 ← peekTok p
    match t2.ty with
    | .flowSequenceEnd => do
      let p ← popState p
      .ok (.sequenceEnd, t2.span, skipTok p)
    | .key => .ok (.mappingStart 0 none, t2.span, skipTok { p with state := .flowSequenceEntryMappingKey })
    | _ => parseNode (pushState p .flowSequenceEntry) false false

def indentlessSequenceEntry (p : PState) : Res Out := do
  let t ← peekTok p
  match t.ty with
  | .blockEntry => do
    let p := skipTok p
    let t2 ← peekTok p
    match t2.ty with
    | .blockEntry | .key | .value | .blockEnd =>
      .ok (emptyScalar, t2.span, { p with state := .indentlessSequenceEntry })
    | _ => parseNode (pushState p .indentlessSequenceEntry) true false
  | _ => do
    let p ← popState p
    .ok (.sequenceEnd, t.span, p)

def blockSequenceEntry (p : PState) (first : Bool) : Res Out := do
  let p ← skipFirst first p
  let t ← peekTok p
  match t.ty with
  | .blockEnd => do
    let p ← popState p
    .ok (.sequenceEnd, t.span, skipTok p)
  | .blockEntry => do
    let p := skipTok p
    let t2 ← peekTok p
    match t2.ty with
    | .blockEntry | .blockEnd => .ok (emptyScalar, t2.span, { p with state := .blockSequenceEntry })
    | _ => parseNode (pushState p .blockSequenceEntry) true false
  | _ => .err ⟨t.span.start, "while parsing a block collection, did not find expected '-' indicator"⟩

def flowSequenceEntryMappingKey (p : PState) : Res Out := do
  let t ← peekTok p
  match t.ty with
  | .value | .flowEntry | .flowSequenceEnd =>
    .ok (emptyScalar, t.span, { p with state := .flowSequenceEntryMappingValue })
  | _ => parseNode (pushState p .flowSequenceEntryMappingValue) false false

def flowSequenceEntryMappingValue (p : PState) : Res Out := do
  let t ← peekTok p
  match t.ty with
  | .value => do
    let p := skipTok p
    let t2 ← peekTok p
    match t2.ty with
    | .flowEntry | .flowSequenceEnd =>
      .ok (emptyScalar, t2.span, { p with state := .flowSequenceEntryMappingEnd t2.span.stop })
    | _ => parseNode (pushState p (.flowSequenceEntryMappingEnd t2.span.stop)) false false
  | _ => .ok (emptyScalar, t.span, { p with state := .flowSequenceEntryMappingEnd t.span.stop })

def streamStart (p : PState) : Res Out := do
  let t ← peekTok p
  match t.ty with
  | .streamStart => .ok (.streamStart, t.span, skipTok { p with state := .implicitDocumentStart })
  | _ => .err ⟨t.span.start, "did not find expected <stream-start>"⟩

/-- `Parser::parse` / `state_machine`. -/
def parseStep (p : PState) : Res Out :=
  match p.state with
  | .end => .ok (.streamEnd, Span.empty p.eofMark, p)
  | .streamStart => streamStart p
  | .implicitDocumentStart => documentStart p true
  | .documentStart => documentStart p false
  | .documentContent => documentContent p
  | .documentEnd => documentEnd p
  | .blockNode => parseNode p true false
  | .blockMappingFirstKey => blockMappingKey p true
  | .blockMappingKey => blockMappingKey p false
  | .blockMappingValue => blockMappingValue p
  | .blockSequenceFirstEntry => blockSequenceEntry p true
  | .blockSequenceEntry => blockSequenceEntry p false
  | .flowSequenceFirstEntry => flowSequenceEntry p true
  | .flowSequenceEntry => flowSequenceEntry p false
  | .flowMappingFirstKey => flowMappingKey p true
  | .flowMappingKey => flowMappingKey p false
  | .flowMappingValue => flowMappingValue p false
  | .indentlessSequenceEntry => indentlessSequenceEntry p
  | .flowSequenceEntryMappingKey => flowSequenceEntryMappingKey p
  | .flowSequenceEntryMappingValue => flowSequenceEntryMappingValue p
  | .flowSequenceEntryMappingEnd m => .ok (.mappingEnd, Span.empty m, { p with state := .flowSequenceEntry })
  | .flowMappingEmptyValue => flowMappingValue p true

end SaphyrModel
