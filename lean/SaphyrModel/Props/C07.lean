import SaphyrModel.Load
/-! # C07 — Loaded documents mirror the event stream exactly (loader model)

`ETree` is an abstract node tree = a well-nested run of events; `flatten` gives its events,
`denote` its meaning, written independently of the loader: children in order, pairs inserted with
the hashlink `insert` semantics, an anchor bound when its node is complete, an alias replaced by a
copy of the anchored node (BadValue when the anchor is unknown or still open). The theorem: from
**any** loader state, feeding the events of a tree to the loader is the same as placing the tree's
denotation — for every tree, every nesting depth, marked or bare nodes, eager or lazy scalars. -/
namespace SaphyrModel.C07
open SaphyrModel ProtoR

inductive ETree
  | scalar (v : Str) (style : ScalarStyle) (aid : Nat) (tag : Option Tag) (sp : Span)
  | alias (id : Nat) (sp : Span)
  | seq (aid : Nat) (tag : Option Tag) (sp spEnd : Span) (items : List ETree)
  | map (aid : Nat) (tag : Option Tag) (sp spEnd : Span) (pairs : List (ETree × ETree))

mutual
def flatten : ETree → List (Event × Span)
  | .scalar v st a t sp => [(.scalar v st a t, sp)]
  | .alias i sp => [(.alias i, sp)]
  | .seq a t sp se items => (.sequenceStart a t, sp) :: (flattenList items ++ [(.sequenceEnd, se)])
  | .map a t sp se pairs => (.mappingStart a t, sp) :: (flattenPairs pairs ++ [(.mappingEnd, se)])
def flattenList : List ETree → List (Event × Span)
  | [] => []
  | t :: ts => flatten t ++ flattenList ts
def flattenPairs : List (ETree × ETree) → List (Event × Span)
  | [] => []
  | (k, v) :: ps => flatten k ++ flatten v ++ flattenPairs ps
end

abbrev Env := List (Nat × Node)
def bindAnchor (env : Env) (aid : Nat) (n : Node) : Env := if aid > 0 then anchorsInsert env aid n else env
def spanOf (c : LCfg) (sp : Span) : Span := if c.marked then sp else Span.dflt

-- the meaning of a tree, threading the anchor environment in document order
mutual
def denote (c : LCfg) (env : Env) : ETree → Node × Env
  | .scalar v st a t sp =>
    let n := Node.withSpan c.marked (scalarNode c.early v st t) sp
    (n, bindAnchor env a n)
  | .alias i sp => (Node.withSpan c.marked ((anchorsGet env i).getD (.bad Span.dflt)) sp, env)
  | .seq a _ sp _ items =>
    let r := denoteList c env items
    (.seq (spanOf c sp) r.1, bindAnchor r.2 a (.seq (spanOf c sp) r.1))
  | .map a _ sp _ pairs =>
    let r := denotePairs c env [] pairs
    (.map (spanOf c sp) r.1, bindAnchor r.2 a (.map (spanOf c sp) r.1))
def denoteList (c : LCfg) (env : Env) : List ETree → List Node × Env
  | [] => ([], env)
  | t :: ts =>
    let r1 := denote c env t
    let r2 := denoteList c r1.2 ts
    (r1.1 :: r2.1, r2.2)
def denotePairs (c : LCfg) (env : Env) (acc : List (Node × Node)) : List (ETree × ETree) → List (Node × Node) × Env
  | [] => (acc, env)
  | (k, v) :: ps =>
    let rk := denote c env k
    let rv := denote c rk.2 v
    denotePairs c rv.2 (mapInsert rk.1 rv.1 acc) ps
end

def aidOf : ETree → Nat
  | .scalar _ _ a _ _ => a | .alias _ _ => 0 | .seq a _ _ _ _ => a | .map a _ _ _ _ => a

/-- where a completed node goes: the root slot, the open sequence, or the open mapping (as pending
    key, or as the value of the pending key) -/
def place (s : LSt) (n : Node) (aid : Nat) : LRes :=
  match s.docStack with
  | [] => .ok { s with docStack := [(n, aid)] }
  | (.seq sp items, a) :: rest => .ok { s with docStack := (.seq sp (items ++ [n]), a) :: rest }
  | (.map sp m, a) :: rest =>
    match s.keyStack with
    | [] => .panic .keyStackLastUnwrap
    | none :: ks => .ok { s with keyStack := some n :: ks }
    | some k :: ks => .ok { s with docStack := (.map sp (mapInsert k n m), a) :: rest, keyStack := none :: ks }
  | _ :: _ => .ok s

theorem insertNewNode_eq (s : LSt) (n : Node) (aid : Nat) :
    insertNewNode s n aid = place { s with anchors := bindAnchor s.anchors aid n } n aid := by
  unfold insertNewNode place bindAnchor
  by_cases h : aid > 0 <;> simp only [h, ↓reduceIte] <;>
    (repeat' (first | rfl | split))

theorem fold_append (c : LCfg) (s : LSt) (a b : List (Event × Span)) :
    foldEvents c s (a ++ b) = match foldEvents c s a with | .ok s' => foldEvents c s' b | .panic p => .panic p := by
  induction a generalizing s with
  | nil => simp [foldEvents]
  | cons e es ih =>
    obtain ⟨ev, sp⟩ := e
    simp only [List.cons_append, foldEvents]
    cases onEvent c s ev sp with
    | ok s' => exact ih s'
    | panic p => rfl

theorem fold_nil_match (c : LCfg) (r : LRes) :
    (match r with | .ok s' => foldEvents c s' [] | .panic p => .panic p) = r := by
  cases r <;> simp [foldEvents]

theorem withSpan_seq (c : LCfg) (sp : Span) : Node.withSpan c.marked (.seq Span.dflt []) sp = .seq (spanOf c sp) [] := by
  unfold Node.withSpan spanOf; cases c.marked <;> simp
theorem withSpan_map (c : LCfg) (sp : Span) : Node.withSpan c.marked (.map Span.dflt []) sp = .map (spanOf c sp) [] := by
  unfold Node.withSpan spanOf; cases c.marked <;> simp

theorem bindAnchor_zero (env : Env) (n : Node) : bindAnchor env 0 n = env := by simp [bindAnchor]

mutual
/-- **C07, compositional form.** From any loader state, the events of a tree place its denotation. -/
theorem fold_tree (c : LCfg) (t : ETree) (s : LSt) :
    foldEvents c s (flatten t) =
      place { s with anchors := (denote c s.anchors t).2 } (denote c s.anchors t).1 (aidOf t) := by
  cases t with
  | scalar v st a tg sp =>
    simp only [flatten, foldEvents, onEvent, insertNewNode_eq, denote, aidOf]
    exact fold_nil_match c _
  | alias i sp =>
    simp only [flatten, foldEvents, onEvent, insertNewNode_eq, denote, aidOf, bindAnchor_zero]
    exact fold_nil_match c _
  | seq a tg sp se items =>
    simp only [flatten, foldEvents, onEvent, withSpan_seq]
    rw [fold_append]
    have h := fold_list c items { s with docStack := (.seq (spanOf c sp) [], a) :: s.docStack } (spanOf c sp) [] a s.docStack rfl
    rw [h]
    simp only [foldEvents, onEvent, insertNewNode_eq, denote, aidOf, List.nil_append]
    exact fold_nil_match c _
  | map a tg sp se pairs =>
    simp only [flatten, foldEvents, onEvent, withSpan_map]
    rw [fold_append]
    have h := fold_pairs c pairs
      { s with docStack := (.map (spanOf c sp) [], a) :: s.docStack, keyStack := none :: s.keyStack }
      (spanOf c sp) [] a s.docStack s.keyStack rfl rfl
    rw [h]
    simp only [foldEvents, onEvent, insertNewNode_eq, denote, aidOf]
    exact fold_nil_match c _

theorem fold_list (c : LCfg) (ts : List ETree) (s : LSt) (spn : Span)
    (acc : List Node) (a : Nat) (rest : List (Node × Nat)) (hs : s.docStack = (.seq spn acc, a) :: rest) :
    foldEvents c s (flattenList ts) =
      .ok { s with docStack := (.seq spn (acc ++ (denoteList c s.anchors ts).1), a) :: rest,
                   anchors := (denoteList c s.anchors ts).2 } := by
  cases ts with
  | nil => simp [flattenList, foldEvents, denoteList, ← hs]
  | cons t ts =>
    simp only [flattenList]
    rw [fold_append, fold_tree c t s]
    simp only [place, hs]
    have := fold_list c ts
      { s with anchors := (denote c s.anchors t).2,
               docStack := (.seq spn (acc ++ [(denote c s.anchors t).1]), a) :: rest }
      spn (acc ++ [(denote c s.anchors t).1]) a rest rfl
    rw [this]
    simp [denoteList, List.append_assoc]

theorem fold_pairs (c : LCfg) (ps : List (ETree × ETree)) (s : LSt) (spn : Span)
    (acc : List (Node × Node)) (a : Nat) (rest : List (Node × Nat)) (ks : List (Option Node))
    (hs : s.docStack = (.map spn acc, a) :: rest) (hk : s.keyStack = none :: ks) :
    foldEvents c s (flattenPairs ps) =
      .ok { s with docStack := (.map spn (denotePairs c s.anchors acc ps).1, a) :: rest,
                   anchors := (denotePairs c s.anchors acc ps).2 } := by
  cases ps with
  | nil => simp [flattenPairs, foldEvents, denotePairs, ← hs]
  | cons p ps =>
    obtain ⟨k, v⟩ := p
    simp only [flattenPairs]
    rw [fold_append, fold_append, fold_tree c k s]
    simp only [place, hs, hk]
    rw [fold_tree c v]
    simp only [place]
    have := fold_pairs c ps
      { s with anchors := (denote c (denote c s.anchors k).2 v).2,
               docStack := (.map spn (mapInsert (denote c s.anchors k).1
                   (denote c (denote c s.anchors k).2 v).1 acc), a) :: rest,
               keyStack := none :: ks }
      spn _ a rest ks rfl rfl
    rw [this]
    simp [denotePairs]
end

/-- A whole document: `DocumentStart`, the events of a tree, `DocumentEnd` load exactly one
    document — the denotation of the tree — from a loader between documents. -/
theorem fold_document (c : LCfg) (t : ETree) (s : LSt) (b : Bool) (sp1 sp2 : Span)
    (hd : s.docStack = []) :
    foldEvents c s ((.documentStart b, sp1) :: (flatten t ++ [(.documentEnd, sp2)])) =
      .ok { s with docs := s.docs ++ [(denote c s.anchors t).1], docStack := [],
                   anchors := (denote c s.anchors t).2 } := by
  simp only [foldEvents, onEvent]
  rw [fold_append, fold_tree]
  simp [place, hd, foldEvents, onEvent]

end SaphyrModel.C07
