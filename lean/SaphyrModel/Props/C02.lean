import SaphyrModel.Proofs.Run
import SaphyrModel.Pipeline
/-! # C02 — Events always form a well-nested YAML event sentence

Property theorems only. The grammar of event sentences is the automaton `gStep`/`gRun` of
`SaphyrModel/Grammar.lean`; `IsPrefix`/`IsSentence` below are its acceptance conditions. -/
namespace SaphyrModel.C02
open SaphyrModel

/-- `evs` is a prefix of a well-nested event sentence -/
def IsPrefix (evs : List Event) : Prop := (gRun ⟨0, []⟩ evs).isSome
/-- `evs` is a whole sentence: StreamStart, documents, StreamEnd, and nothing after -/
def IsSentence (evs : List Event) : Prop := gRun ⟨0, []⟩ evs = some ⟨2, []⟩

/-- The grammar part of C02 at full strength, for **every token sequence** (hence for every input
    and every input back-end: the scanner's output is a token sequence), every latched scanner
    error, both settings of `keep_tags` and every amount of fuel: the events delivered by the
    iterator up to the first error are a prefix of a sentence; without an error they are a whole
    sentence; the parser never reaches one of its panic sites. -/
def C02_grammar_full : Prop :=
  ∀ (toks : List Token) (scanErr : Option ScanError) (eof : Marker) (keep : Bool) (fuel : Nat),
    let r := iterate fuel (Api.init (PState.init toks scanErr eof keep)) []
    IsPrefix (r.1.map (·.1)) ∧
    (r.2 = none → IsSentence (r.1.map (·.1))) ∧
    (∀ x, r.2 = some (.panic x) → x = .fuel)

theorem C02_grammar : C02_grammar_full := by
  intro toks scanErr eof keep fuel
  have hinv : IterInv (Api.init (PState.init toks scanErr eof keep)) ⟨0, []⟩ :=
    ⟨by simp [Api.init, PState.init, R, R'], rfl, by simp [Api.init, PState.init],
     by simp [Api.init]⟩
  obtain ⟨g', hrun, hpan, hdone⟩ := iterate_sound fuel _ _ hinv
  refine ⟨by simp [IsPrefix, hrun], ?_, hpan⟩
  intro hn
  simp [IsSentence, hrun, hdone hn]

/-- The anchor clause of C02 at full strength, for every token sequence: reading the delivered
    events in order with a counter that starts at 1, every anchored node carries exactly the
    counter's value (so ids are positive, handed out as 1, 2, 3, … and never shared) and every
    alias carries a positive id below the counter (an id handed out earlier in the stream). -/
def C02_anchors_full : Prop :=
  ∀ (toks : List Token) (scanErr : Option ScanError) (eof : Marker) (keep : Bool) (fuel : Nat),
    ∃ n, aRun 1 ((iterate fuel (Api.init (PState.init toks scanErr eof keep)) []).1.map (·.1)) = some n

theorem C02_anchors : C02_anchors_full := by
  intro toks scanErr eof keep fuel
  exact iterate_anchors fuel (Api.init (PState.init toks scanErr eof keep)) rfl
    ⟨by simp [Api.init, PState.init], by simp [Api.init, PState.init]⟩

/-- **End to end, for every input.** For every character sequence, input back-end, capacity and
    `keep_tags` setting: if the scanner model does not stop at a panic site (it never does on a
    string input apart from fuel: `C01.scanner_str_no_panic`), the events the pipeline
    `characters → scanner → parser` delivers are a prefix of a well-nested sentence, a whole
    sentence when no error is reported, and the parser reaches none of its panic sites. -/
theorem C02_end_to_end (k : Sc.InKind) (cap : Nat) (keep : Bool) (text : Str)
    (r : List Ev × Option (Res Unit)) (h : Pipeline.events k cap keep text = some r) :
    IsPrefix (r.1.map (·.1)) ∧ (r.2 = none → IsSentence (r.1.map (·.1))) ∧
      (∀ x, r.2 = some (.panic x) → x = .fuel) := by
  unfold Pipeline.events at h
  cases hp : Pipeline.parserOf k cap keep text with
  | none => simp [hp] at h
  | some p =>
    simp only [hp, Option.map_some, Option.some.injEq] at h
    subst h
    unfold Pipeline.parserOf at hp
    split at hp
    · simp at hp
    · simp only [Option.some.injEq] at hp; subst hp; exact C02_grammar _ _ _ _ _
    · simp only [Option.some.injEq] at hp; subst hp; exact C02_grammar _ _ _ _ _

/-- one step, any state reachable or not: a parser state related to a grammar configuration steps
    to a related one, emitting an event the grammar accepts; `pop_state().unwrap()` is safe -/
theorem C02_one_step {p : PState} {g : G} (h : R p g) (hne : p.state ≠ .end) :
    Good g (parseStep p) := parseStep_good h hne

/-- non-vacuity: a concrete token stream for `[a]` runs to a whole sentence -/
example :
    let sp : Span := ⟨⟨0, 1, 0⟩, ⟨0, 1, 0⟩⟩
    let toks : List Token := [⟨sp, .streamStart⟩, ⟨sp, .flowSequenceStart⟩, ⟨sp, .scalar .plain ['a']⟩,
      ⟨sp, .flowSequenceEnd⟩, ⟨sp, .streamEnd⟩]
    let r := iterate 20 (Api.init (PState.init toks none ⟨3, 1, 3⟩ false)) []
    r.2 = none ∧ r.1.length = 7 := by decide

end SaphyrModel.C02
