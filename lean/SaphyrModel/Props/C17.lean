import SaphyrModel.Api
import SaphyrModel.Proofs.Run
import SaphyrModel.Proofs.History
/-! # C17 — Pull, peek and push interfaces tell the same story (Api model)

Laws of `peek` / `next_event` on the model of the parser's driver (`SaphyrModel/Api.lean`), for
every parser state. Histories are cut at the first call that returns an error (DESIGN §7 C17). -/
namespace SaphyrModel.C17
open SaphyrModel

/-- `peek` followed by `next` is `next`: the event `peek` shows is the one the following `next`
    returns, and the parser ends up in the same state as if `peek` had not been called. -/
theorem peek_then_next (a : Api) (hc : a.current = none) (he : a.endEmitted = false) :
    match a.peek with
    | (some (.ok v), a1) => a1.next.1 = some (.ok v) ∧ a.next.1 = some (.ok v) ∧ a1.next.2 = a.next.2
    | (some (.err e), a1) => a.next.1 = some (.err e) ∧ a1 = a
    | (some (.panic x), a1) => a.next.1 = some (.panic x) ∧ a1 = a
    | (none, _) => False := by
  unfold Api.peek
  simp only [hc, he, Bool.false_eq_true, ↓reduceIte]
  unfold nextImpl
  simp only [hc]
  cases hp : parseStep a.p with
  | err e => simp [Api.next, he, nextImpl, hc, hp]
  | panic x => simp [Api.next, he, nextImpl, hc, hp]
  | ok o =>
    obtain ⟨ev, sp, p'⟩ := o
    simp [Api.next, he, nextImpl, hc, hp]

/-- `peek` consumes nothing: a second `peek` returns the same event and leaves the state alone -/
theorem peek_idempotent (a : Api) (v : Ev) (a1 : Api) (h : a.peek = (some (.ok v), a1)) :
    a1.peek = (some (.ok v), a1) := by
  unfold Api.peek at h
  cases hc : a.current with
  | some x =>
    simp only [hc, Prod.mk.injEq, Option.some.injEq, Res.ok.injEq] at h
    obtain ⟨h1, h2⟩ := h
    subst h1; subst h2
    simp [Api.peek, hc]
  | none =>
    simp only [hc] at h
    split at h
    · simp at h
    · cases hn : nextImpl a with
      | ok r =>
        obtain ⟨w, a'⟩ := r
        simp only [hn, Prod.mk.injEq, Option.some.injEq, Res.ok.injEq] at h
        obtain ⟨h1, h2⟩ := h
        subst h1; subst h2
        simp [Api.peek]
      | err e => simp [hn] at h
      | panic x => simp [hn] at h

/-- after `StreamEnd` has been returned by `next`, both `next` and `peek` return nothing, forever -/
theorem fused (a : Api) (hc : a.current = none) (he : a.endEmitted = true) :
    a.next = (none, a) ∧ a.peek = (none, a) := by
  simp [Api.next, Api.peek, he, hc]

/-- `next` sets the end flag exactly when it returns `StreamEnd` -/
theorem next_sets_end_flag (a : Api) (v : Ev) (a' : Api) (h : a.next = (some (.ok v), a')) :
    a'.endEmitted = (v.1 == .streamEnd) ∧ a'.current = none := by
  unfold Api.next at h
  split at h
  · simp at h
  · unfold nextImpl at h
    cases hc : a.current with
    | some x =>
      simp only [hc] at h
      simp only [Prod.mk.injEq, Option.some.injEq, Res.ok.injEq] at h
      obtain ⟨h1, h2⟩ := h
      subst h1; subst h2; simp
    | none =>
      simp only [hc] at h
      cases hp : parseStep a.p with
      | err e => simp [hp] at h
      | panic x => simp [hp] at h
      | ok o =>
        obtain ⟨ev, sp, p'⟩ := o
        simp only [hp, Prod.mk.injEq, Option.some.injEq, Res.ok.injEq] at h
        obtain ⟨h1, h2⟩ := h
        subst h1; subst h2; simp [hc]

/-- **Every interleaving of `peek` and `next` tells the story of plain iteration**: for every parser
    state reachable from a fresh parser (`Api.Ok`), every history `h` of calls, cut at the first
    error, returns through its `next` calls a prefix of the events of plain iteration. The bound
    `h.length ≤ fuel` only says that iteration is given at least as many steps as the history has. -/
theorem history_is_iteration (h : List Call) (a : Api) (ha : a.Ok) (fuel : Nat) (hf : h.length ≤ fuel) :
    nextOks (runCalls h a []) <+: (iterate fuel a []).1 :=
  nexts_prefix_of_iteration h a ha fuel hf

/-- a fresh parser satisfies the hypothesis, and so does every state reached by `peek`/`next` -/
theorem fresh_ok (p : PState) : (Api.init p).Ok := by intro h; rfl
theorem ok_preserved (a : Api) (ha : a.Ok) : (a.peek).2.Ok ∧ (a.next).2.Ok := ⟨Api.peek_ok ha, Api.next_ok ha⟩

/-- `peek` returns what the following `next` returns and consumes nothing (general form: whatever
    is cached) -/
theorem peek_shows_next (a : Api) (ha : a.Ok) (v : Ev) (a1 : Api) (h : a.peek = (some (.ok v), a1)) :
    a1.next = a.next ∧ (a.next).1 = some (.ok v) := Api.next_after_peek ha h

/-- once `next` has returned `StreamEnd`, `next` and `peek` return nothing -/
theorem after_stream_end (a : Api) (v : Ev) (a' : Api) (h : a.next = (some (.ok v), a')) (hv : v.1 = .streamEnd) :
    a'.next = (none, a') ∧ a'.peek = (none, a') := by
  obtain ⟨he, hc⟩ := next_sets_end_flag a v a' h
  exact fused a' hc (by rw [he, hv]; rfl)

/-- the history theorem is not vacuous: a history that interleaves both calls -/
example : ([Call.peek, .next, .peek, .peek, .next] : List Call).length ≤ 5 := by decide

end SaphyrModel.C17
