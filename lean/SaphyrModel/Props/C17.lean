import SaphyrModel.Api
import SaphyrModel.Proofs.Run
import SaphyrModel.Proofs.History
import SaphyrModel.Proofs.PushPull
import SaphyrModel.Proofs.TermRun
import SaphyrModel.Proofs.PushSingle
/-! # C17 — Pull, peek and push interfaces tell the same story (Api model)

Laws of `peek` / `next_event` on the model of the parser's driver (`SaphyrModel/Api.lean`), for
every parser state. Histories are cut at the first call that returns an error (DESIGN §7 C17). -/
namespace SaphyrModel.C17
open SaphyrModel

/-- `peek` followed by `next` is `next`: the event `peek` shows is the one the following `next`
    returns, and the parser ends up in the same state as if `peek` had not been called. -/
theorem peek_then_next (a : Api) (hc : a.current = none) (he : a.endEmitted = false) :
    match a.peek with
    | (some (.ok v), a1) => a1.next.1 = some (.ok v) ∧ a.next.1 = some (.ok v) ∧ a1.next.2 = a.next.2
    | (some (.err e), a1) => a.next.1 = some (.err e) ∧ a1 = a
    | (some (.panic x), a1) => a.next.1 = some (.panic x) ∧ a1 = a
    | (none, _) => False := by
  unfold Api.peek
  simp only [hc, he, Bool.false_eq_true, ↓reduceIte]
  unfold nextImpl
  simp only [hc]
  cases hp : parseStep a.p with
  | err e => simp [Api.next, he, nextImpl, hc, hp]
  | panic x => simp [Api.next, he, nextImpl, hc, hp]
  | ok o =>
    obtain ⟨ev, sp, p'⟩ := o
    simp [Api.next, he, nextImpl, hc, hp]

/-- `peek` consumes nothing: a second `peek` returns the same event and leaves the state alone -/
theorem peek_idempotent (a : Api) (v : Ev) (a1 : Api) (h : a.peek = (some (.ok v), a1)) :
    a1.peek = (some (.ok v), a1) := by
  unfold Api.peek at h
  cases hc : a.current with
  | some x =>
    simp only [hc, Prod.mk.injEq, Option.some.injEq, Res.ok.injEq] at h
    obtain ⟨h1, h2⟩ := h
    subst h1; subst h2
    simp [Api.peek, hc]
  | none =>
    simp only [hc] at h
    split at h
    · simp at h
    · cases hn : nextImpl a with
      | ok r =>
        obtain ⟨w, a'⟩ := r
        simp only [hn, Prod.mk.injEq, Option.some.injEq, Res.ok.injEq] at h
        obtain ⟨h1, h2⟩ := h
        subst h1; subst h2
        simp [Api.peek]
      | err e => simp [hn] at h
      | panic x => simp [hn] at h

/-- after `StreamEnd` has been returned by `next`, both `next` and `peek` return nothing, forever -/
theorem fused (a : Api) (hc : a.current = none) (he : a.endEmitted = true) :
    a.next = (none, a) ∧ a.peek = (none, a) := by
  simp [Api.next, Api.peek, he, hc]

/-- `next` sets the end flag exactly when it returns `StreamEnd` -/
theorem next_sets_end_flag (a : Api) (v : Ev) (a' : Api) (h : a.next = (some (.ok v), a')) :
    a'.endEmitted = (v.1 == .streamEnd) ∧ a'.current = none := by
  unfold Api.next at h
  split at h
  · simp at h
  · unfold nextImpl at h
    cases hc : a.current with
    | some x =>
      simp only [hc] at h
      simp only [Prod.mk.injEq, Option.some.injEq, Res.ok.injEq] at h
      obtain ⟨h1, h2⟩ := h
      subst h1; subst h2; simp
    | none =>
      simp only [hc] at h
      cases hp : parseStep a.p with
      | err e => simp [hp] at h
      | panic x => simp [hp] at h
      | ok o =>
        obtain ⟨ev, sp, p'⟩ := o
        simp only [hp, Prod.mk.injEq, Option.some.injEq, Res.ok.injEq] at h
        obtain ⟨h1, h2⟩ := h
        subst h1; subst h2; simp [hc]

/-- **Every interleaving of `peek` and `next` tells the story of plain iteration**: for every parser
    state reachable from a fresh parser (`Api.Ok`), every history `h` of calls, cut at the first
    error, returns through its `next` calls a prefix of the events of plain iteration. The bound
    `h.length ≤ fuel` only says that iteration is given at least as many steps as the history has. -/
theorem history_is_iteration (h : List Call) (a : Api) (ha : a.Ok) (fuel : Nat) (hf : h.length ≤ fuel) :
    nextOks (runCalls h a []) <+: (iterate fuel a []).1 :=
  nexts_prefix_of_iteration h a ha fuel hf

/-- a fresh parser satisfies the hypothesis, and so does every state reached by `peek`/`next` -/
theorem fresh_ok (p : PState) : (Api.init p).Ok := by intro h; rfl
theorem ok_preserved (a : Api) (ha : a.Ok) : (a.peek).2.Ok ∧ (a.next).2.Ok := ⟨Api.peek_ok ha, Api.next_ok ha⟩

/-- `peek` returns what the following `next` returns and consumes nothing (general form: whatever
    is cached) -/
theorem peek_shows_next (a : Api) (ha : a.Ok) (v : Ev) (a1 : Api) (h : a.peek = (some (.ok v), a1)) :
    a1.next = a.next ∧ (a.next).1 = some (.ok v) := Api.next_after_peek ha h

/-- once `next` has returned `StreamEnd`, `next` and `peek` return nothing -/
theorem after_stream_end (a : Api) (v : Ev) (a' : Api) (h : a.next = (some (.ok v), a')) (hv : v.1 = .streamEnd) :
    a'.next = (none, a') ∧ a'.peek = (none, a') := by
  obtain ⟨he, hc⟩ := next_sets_end_flag a v a' h
  exact fused a' hc (by rw [he, hv]; rfl)

/-- **Push = pull.** For every token list, latched scanner error and `keep_tags` setting, `Parser::load`
    with `multi = true` on a fresh parser, given `16·|tokens| + 2` loop iterations, never panics and
    * when it returns `Ok`, the receiver got exactly the events of plain iteration, in order, ending with
      StreamEnd (iteration then returns `None`);
    * when it returns an error, plain iteration returns the same error after some prefix of events.
    The anchor table that `load` clears before each document is already empty there, the
    `unreachable!` arms and the `assert_eq!(DocumentEnd)` of the push loops cannot be reached, and the
    loops terminate (each pull decreases the potential of `Proofs/Term.lean`). -/
theorem push_eq_pull (toks : List Token) (scanErr : Option ScanError) (eof : Marker) (keep : Bool)
    (n : Nat) (hn : 16 * toks.length + 2 ≤ n) :
    let a0 := Api.init (PState.init toks scanErr eof keep)
    match load true n ⟨a0, []⟩ with
    | .ok s => ∀ m, iterate (s.out.length + 1 + m) a0 [] = (s.out.reverse, none)
    | .err e => ∃ evs, ∀ m, iterate (evs.length + 1 + m) a0 [] = (evs, some (.err e))
    | .panic _ => False := by
  intro a0
  have hspec := load_spec n (PState.init toks scanErr eof keep) rfl rfl rfl
  have hphi : phi a0.p = 16 * toks.length + 1 := phi_init toks scanErr eof keep
  cases hl : load true n ⟨a0, []⟩ with
  | ok s =>
    simp only [a0] at hl
    simp only [hl, LoopSpec] at hspec ⊢
    obtain ⟨evs, vEnd, a1, hst, hne, hn1, hvend, hout⟩ := hspec
    intro m
    rw [iterate_eq]
    obtain ⟨h1, he1⟩ := iterSpec_of_steps hst hne rfl (1 + m)
    have hlen : s.out.length + 1 + m = evs.length + (1 + m) + 1 := by simp [hout]; omega
    have hnext : a1.next = (some (.ok vEnd), { s.api with endEmitted := true }) := by
      simp [Api.next, he1, hn1, hvend]
    have hlast : ∀ k, iterSpec (k + 1) ({ s.api with endEmitted := true } : Api) = ([], none) := by
      intro k; simp [iterSpec, Api.next]
    have h2 : iterSpec (1 + m + 1) a1 = ([vEnd], none) := by
      rw [show 1 + m + 1 = (m + 1) + 1 by omega]
      unfold iterSpec
      simp only [hnext]
      rw [hlast m]
    have h3 := (iterSpec_of_steps hst hne rfl (1 + m + 1)).1
    rw [h2] at h3
    rw [hlen, show evs.length + (1 + m) + 1 = evs.length + (1 + m + 1) by omega, h3]
    simp [hout]
  | err e =>
    simp only [a0] at hl
    simp only [hl, LoopSpec] at hspec ⊢
    obtain ⟨evs, a', hst, hne, herr⟩ := hspec
    refine ⟨evs, fun m => ?_⟩
    rw [iterate_eq]
    obtain ⟨h1, he1⟩ := iterSpec_of_steps hst hne rfl (1 + m)
    have hnext : a'.next = (some (.err e), a') := by simp [Api.next, he1, herr]
    have h2 : iterSpec (1 + m) a' = ([], some (.err e)) := by
      rw [show 1 + m = m + 1 by omega]; simp only [iterSpec, hnext]
    rw [show evs.length + 1 + m = evs.length + (1 + m) by omega, h1, h2]
    simp
  | panic x =>
    simp only [a0] at hl
    simp only [hl, LoopSpec] at hspec ⊢
    have h4 : phi (PState.init toks scanErr eof keep) = 16 * toks.length + 1 := phi_init toks scanErr eof keep
    have h5 : n ≤ phi (PState.init toks scanErr eof keep) := hspec.2
    omega

/-- **Single-document mode = pull.** For every token list, latched scanner error and `keep_tags`
    setting: a consumer that calls `Parser::load(recv, multi = false)` on a fresh parser again and
    again until a call delivers StreamEnd or fails (given `16·|tokens| + 2` calls and as many loop
    iterations per call) never reaches a panic site and
    * when it stops normally, the receiver got, over all calls together, exactly the events of plain
      iteration, in order, ending with StreamEnd;
    * when a call fails, plain iteration returns the same error after some prefix of events. -/
theorem single_docs_eq_pull (toks : List Token) (scanErr : Option ScanError) (eof : Marker) (keep : Bool)
    (c n : Nat) (hc : 16 * toks.length + 2 ≤ c) (hn : 16 * toks.length + 2 ≤ n) :
    let a0 := Api.init (PState.init toks scanErr eof keep)
    match loadRepeat c n ⟨a0, []⟩ with
    | .ok s => ∀ m, iterate (s.out.length + 1 + m) a0 [] = (s.out.reverse, none)
    | .err e => ∃ evs, ∀ m, iterate (evs.length + 1 + m) a0 [] = (evs, some (.err e))
    | .panic _ => False := by
  intro a0
  obtain ⟨c', rfl⟩ : ∃ c', c = c' + 1 := ⟨c - 1, by omega⟩
  have hspec := repeat_fresh_spec c' n (PState.init toks scanErr eof keep) rfl rfl rfl
  have hphi : phi (PState.init toks scanErr eof keep) = 16 * toks.length + 1 := phi_init toks scanErr eof keep
  cases hl : loadRepeat (c' + 1) n ⟨a0, []⟩ with
  | ok s =>
    simp only [a0] at hl
    simp only [hl, RepSpec] at hspec ⊢
    obtain ⟨evs, vEnd, a1, hst, hne, hn1, hvend, hout⟩ := hspec
    intro m
    have := iterate_of_steps_end hst hne hn1 hvend rfl m
    rw [show s.out.length + 1 + m = evs.length + 2 + m by simp [hout], this]
    simp [hout]
  | err e =>
    simp only [a0] at hl
    simp only [hl, RepSpec] at hspec ⊢
    obtain ⟨evs, a', hst, hne, herr⟩ := hspec
    exact ⟨evs, fun m => iterate_of_steps_err hst hne herr rfl m⟩
  | panic x =>
    simp only [a0] at hl
    simp only [hl, RepSpec] at hspec ⊢
    have h5 := hspec.2
    simp only [Api.init] at h5
    omega

/-- **The calls together deliver the same stream as multi-document mode.** When both ways of using
    the push interface end normally the receiver holds the same events; neither reaches a panic
    site (`push_eq_pull`, `single_docs_eq_pull`). -/
theorem single_docs_eq_multi (toks : List Token) (scanErr : Option ScanError) (eof : Marker) (keep : Bool)
    (c n : Nat) (hc : 16 * toks.length + 2 ≤ c) (hn : 16 * toks.length + 2 ≤ n) (s1 s2 : Push)
    (h1 : loadRepeat c n ⟨Api.init (PState.init toks scanErr eof keep), []⟩ = .ok s1)
    (h2 : load true n ⟨Api.init (PState.init toks scanErr eof keep), []⟩ = .ok s2) : s1.out = s2.out := by
  have a := single_docs_eq_pull toks scanErr eof keep c n hc hn
  have b := push_eq_pull toks scanErr eof keep n hn
  simp only [h1] at a
  simp only [h2] at b
  have ha := a (s2.out.length)
  have hb := b (s1.out.length)
  rw [show s1.out.length + 1 + s2.out.length = s2.out.length + 1 + s1.out.length by omega, hb] at ha
  have := congrArg Prod.fst ha
  simpa using this.symm

/-- **One document per call.** Between documents, a call of the document loop in single-document mode
    forwards either StreamEnd alone, or a run of events that starts with DocumentStart, ends with
    DocumentEnd and leaves the parser between documents again (ready for the next call) — or it
    returns the error the next pull returns. -/
theorem one_document_per_call (n : Nat) (s : Push) (h : PInv s.api ⟨1, []⟩) :
    Doc1Spec n s (loadLoop false n s) := doc1_spec n s h

/-- the history theorem is not vacuous: a history that interleaves both calls -/
example : ([Call.peek, .next, .peek, .peek, .next] : List Call).length ≤ 5 := by decide

end SaphyrModel.C17
