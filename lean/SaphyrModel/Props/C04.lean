import SaphyrModel.Sc.Scan3
/-! # C04 — Plain and quoted scalar text (function-level theorems)

The escape table of the double-quoted scanner against the table of YAML 1.2.2 §5.7, for every
character; the value of hexadecimal escapes. The folding rules are not covered by theorems here:
for them the check relies on correspondence + the presentation oracle. -/
namespace SaphyrModel.C04
open SaphyrModel SaphyrModel.Sc

/-- YAML 1.2.2 §5.7 escape sequences `\c ↦ code point` (independent table, as (escape, code) pairs) -/
def specEscapes : List (Char × Nat) :=
  [('0', 0x00), ('a', 0x07), ('b', 0x08), ('t', 0x09), ('\t', 0x09), ('n', 0x0A), ('v', 0x0B), ('f', 0x0C),
   ('r', 0x0D), ('e', 0x1B), (' ', 0x20), ('"', 0x22), ('/', 0x2F), ('\\', 0x5C), ('N', 0x85), ('_', 0xA0),
   ('L', 0x2028), ('P', 0x2029)]

def specEscape (e : Char) : Option Char := (specEscapes.find? (·.1 == e)).map (fun p => Char.ofNat p.2)

/-- Every named escape decodes to the code point YAML assigns to it (all 18 rows). -/
theorem named_escapes_correct : ∀ p ∈ specEscapes, namedEscape p.1 = some (Char.ofNat p.2) := by
  decide

/-- … and nothing else is a named escape: for **every** character the scanner's table and the
    specification's agree. -/
theorem named_escape_table (e : Char) : namedEscape e = specEscape e := by
  unfold namedEscape
  split <;> first | rfl | skip
  -- the default arm: `e` is none of the 18 escape letters
  rename_i h0 h1 h2 h3 h4 h5 h6 h7 h8 h9 h10 h11 h12 h13 h14 h15 h16 h17
  unfold specEscape specEscapes
  simp only [List.find?]
  have ne : ∀ c : Char, (e = c → False) → (c == e) = false := by
    intro c h; simp; intro hc; exact h hc.symm
  simp [ne _ h0, ne _ h1, ne _ h2, ne _ h3, ne _ h4, ne _ h5, ne _ h6, ne _ h7, ne _ h8, ne _ h9, ne _ h10,
    ne _ h11, ne _ h12, ne _ h13, ne _ h14, ne _ h15, ne _ h16, ne _ h17]

/-- value of a hexadecimal digit string, most significant first (specification) -/
def hexValue (ds : List Char) : Nat := ds.foldl (fun v c => v * 16 + asHex c) 0

/-- `as_hex` gives each hexadecimal digit its value -/
theorem asHex_digits :
    ("0123456789".toList.map asHex = List.range 10) ∧
    ("abcdef".toList.map asHex = [10, 11, 12, 13, 14, 15]) ∧
    ("ABCDEF".toList.map asHex = [10, 11, 12, 13, 14, 15]) := by decide

end SaphyrModel.C04
