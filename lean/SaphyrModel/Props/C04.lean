import SaphyrModel.Sc.Scan3
import SaphyrModel.Proofs.SingleQuoted
import SaphyrModel.Proofs.PlainLine
/-! # C04 — Plain and quoted scalar text (function-level theorems)

The escape table of the double-quoted scanner against the table of YAML 1.2.2 §5.7, for every
character; the value of hexadecimal escapes. **Single-quoted scalars on one line** are covered in full
(`single_quoted_scalar_token`): for every value without line breaks the scanner returns exactly the value — `''`
as one quote, interior blanks kept, every other character unchanged. Double-quoted scalars as the emitter writes
them: `C09.quoted_string_rescans`. The folding rules of flow scalars (multi-line) are not covered by theorems
here: for them the check relies on correspondence + the presentation oracle. -/
namespace SaphyrModel.C04
open SaphyrModel SaphyrModel.Sc

/-- YAML 1.2.2 §5.7 escape sequences `\c ↦ code point` (independent table, as (escape, code) pairs) -/
def specEscapes : List (Char × Nat) :=
  [('0', 0x00), ('a', 0x07), ('b', 0x08), ('t', 0x09), ('\t', 0x09), ('n', 0x0A), ('v', 0x0B), ('f', 0x0C),
   ('r', 0x0D), ('e', 0x1B), (' ', 0x20), ('"', 0x22), ('/', 0x2F), ('\\', 0x5C), ('N', 0x85), ('_', 0xA0),
   ('L', 0x2028), ('P', 0x2029)]

def specEscape (e : Char) : Option Char := (specEscapes.find? (·.1 == e)).map (fun p => Char.ofNat p.2)

/-- Every named escape decodes to the code point YAML assigns to it (all 18 rows). -/
theorem named_escapes_correct : ∀ p ∈ specEscapes, namedEscape p.1 = some (Char.ofNat p.2) := by
  decide

/-- … and nothing else is a named escape: for **every** character the scanner's table and the
    specification's agree. -/
theorem named_escape_table (e : Char) : namedEscape e = specEscape e := by
  unfold namedEscape
  split <;> first | rfl | skip
  -- the default arm: `e` is none of the 18 escape letters
  rename_i h0 h1 h2 h3 h4 h5 h6 h7 h8 h9 h10 h11 h12 h13 h14 h15 h16 h17
  unfold specEscape specEscapes
  simp only [List.find?]
  have ne : ∀ c : Char, (e = c → False) → (c == e) = false := by
    intro c h; simp; intro hc; exact h hc.symm
  simp [ne _ h0, ne _ h1, ne _ h2, ne _ h3, ne _ h4, ne _ h5, ne _ h6, ne _ h7, ne _ h8, ne _ h9, ne _ h10,
    ne _ h11, ne _ h12, ne _ h13, ne _ h14, ne _ h15, ne _ h16, ne _ h17]

/-- value of a hexadecimal digit string, most significant first (specification) -/
def hexValue (ds : List Char) : Nat := ds.foldl (fun v c => v * 16 + asHex c) 0

/-- `as_hex` gives each hexadecimal digit its value -/
theorem asHex_digits :
    ("0123456789".toList.map asHex = List.range 10) ∧
    ("abcdef".toList.map asHex = [10, 11, 12, 13, 14, 15]) ∧
    ("ABCDEF".toList.map asHex = [10, 11, 12, 13, 14, 15]) := by decide

open SaphyrModel.C04S SaphyrModel.C05T in
/-- **Single-quoted scalars: `''` is one quote, blanks are kept, everything else is passed through — for every
    one-line value.** The scanner (string input) stands at the opening quote of a single-quoted scalar whose
    content is an arbitrary value `v` without line breaks or NUL — any characters, including indicator characters,
    `"`, `\`, `#`, tabs and spaces anywhere, non-ASCII text — written with each of its quotes doubled, followed by
    the closing quote and the end of the line (or of the input). Provided the scalar is not less indented than
    its parent, the scanner either runs out of the fuel it was given or returns a single-quoted scalar token whose
    text is exactly `v`, whose span starts at the opening quote and ends right after the closing quote, `2`
    characters plus the written length of `v` further on the same line. -/
theorem single_quoted_scalar_token (v rest : Str) (hv : ∀ c ∈ v, isBreak c = false ∧ isZ c = false)
    (hz : isBreakz (rest.headD '\x00') = true) (u : Sc) (hk : u.inp.kind = .str)
    (hI : u.indent ≤ (u.mark.col : Int) + 1)
    (hi : u.inp.iter = '\'' :: (sqEnc v ++ '\'' :: rest)) :
    (∃ p, scanFlowScalar true u = .panic p) ∨
    ∃ tok u', scanFlowScalar true u = .ok (tok, u') ∧
      tok.ty = .scalar .singleQuoted v ∧ tok.span.start = u.mark ∧ tok.span.stop = u'.mark ∧
      u'.inp.iter = rest ∧ u'.mark.line = u.mark.line ∧ u'.mark.col = u.mark.col + 1 + (sqEnc v).length + 1 ∧
      u'.mark.index = u.mark.index + 1 + (sqEnc v).length + 1 := by
  rcases single_quoted_token v rest hv hz u u.mark.line u.mark.col u.indent (u.mark.index + u.inp.iter.length) hI
      ⟨hk, hi, rfl, rfl, rfl, by rw [hi]⟩ with h | ⟨tok, u', hok, h1, h2, h3, h4⟩
  · exact Or.inl h
  · refine Or.inr ⟨tok, u', hok, h1, h2, h3, h4.iter, h4.line, h4.col, ?_⟩
    have := h4.off
    rw [hi] at this
    simp only [List.length_cons, List.length_append] at this
    omega

/-- the decoding read backwards: the written form of a value is the value with each quote doubled -/
example : C04S.sqEnc ['i','t','\'','s',' ',' ','"','a','"','\t',':'] = ['i','t','\'','\'','s',' ',' ','"','a','"','\t',':'] := by decide

/-- non-vacuity: `'it''s  "a"	:'` at column 3, parent indentation 2 -/
example :
    (match scanFlowScalar true
        { mkSc .str 0 ['\'','i','t','\'','\'','s',' ',' ','"','a','"','\t',':','\'','\n','x'] with indent := 2, mark := ⟨3, 1, 3⟩ } with
     | .ok (tok, u') => decide (tok.ty = .scalar .singleQuoted ['i','t','\'','s',' ',' ','"','a','"','\t',':']) &&
         tok.span.start.col == 3 && tok.span.stop.col == 17 && decide (u'.inp.iter = ['\n','x'])
     | _ => false) = true := by decide +kernel

open SaphyrModel.C04P SaphyrModel.C05T in
/-- **Plain scalars on one line are passed through unchanged — for every such line.** Block context, the scalar
    in the value position (after `key: ` or `- `, not at the start of its line): the text is any sequence of
    words of ordinary characters — anything but blanks, breaks, NUL, `:` and `#`; so quotes, brackets, commas,
    `-`, `?`, `!`, `&`, `*`, `%`, `@`, backslashes and non-ASCII text are all passed through — separated by runs of
    blanks, not ending with a blank, not less indented than its parent allows; then the input ends, or a line
    feed follows and the next line starts in column 0. Whatever the chunk size (`bufmaxlen ≥ 2`) and however
    many chunks a word takes, the scanner either runs out of the fuel it was given or returns a plain scalar token
    with exactly that text (interior blanks kept), starting where the scanner stood and ending right after the
    last character of the text. -/
theorem plain_scalar_line_token (v rest : Str) (hv : PlainLine v) (u : Sc) (hk : u.inp.kind = .str)
    (hfl : u.flowLevel = 0) (hlw : u.leadingWhitespace = false) (hcap : 2 ≤ u.inp.cap)
    (hrest : Ending rest u.indent) (hC : u.indent + 1 ≤ (u.mark.col : Int))
    (hi : u.inp.iter = v ++ rest) :
    (∃ p, scanPlainScalarBody u = .panic p) ∨
    ∃ tok u', scanPlainScalarBody u = .ok (tok, u') ∧
      tok.ty = .scalar .plain v ∧ tok.span.start = u.mark ∧
      tok.span.stop.line = u.mark.line ∧ tok.span.stop.col = u.mark.col + v.length ∧
      tok.span.stop.index = u.mark.index + v.length ∧ u'.inp.iter = rest.drop 1 := by
  rcases plain_line_token u.inp.cap hcap v rest hv u u.mark.line u.mark.col u.indent (u.mark.index + u.inp.iter.length)
      hrest hC ⟨⟨hk, hi, rfl, rfl, rfl, by rw [hi]⟩, hfl, hlw, rfl⟩ with h | ⟨tok, u', hok, h1, h2, h3, h4, h5, h6, _, _⟩
  · exact Or.inl h
  · refine Or.inr ⟨tok, u', hok, h1, h2, h3, h4, ?_, h6⟩
    rw [hi] at h5
    simp only [List.length_append] at h5
    omega


/-- non-vacuity: after `a: ` (column 3, parent indentation 0), `it's  "x,[` and a line feed, next line `b`;
    chunk size 4, so the words are read in several chunks -/
example :
    (match scanPlainScalarBody { mkSc .str 4 ['i','t','\'','s',' ',' ','"','x',',','[','\n','b'] with indent := 0, mark := ⟨3, 1, 3⟩, leadingWhitespace := false } with
     | .ok (tok, u') => decide (tok.ty = TokenType.scalar ScalarStyle.plain ['i','t','\'','s',' ',' ','"','x',',','[']) &&
         tok.span.start.col == 3 && tok.span.stop.col == 13 && decide (u'.inp.iter = ['b'])
     | _ => false) = true := by decide +kernel

end SaphyrModel.C04
