import SaphyrModel.Parser2
/-! # C03 — Block and flow structure parses to the denoted tree (parser-level component theorems)

The structural content of C03 at full strength (`parse (render ℓ t) = flatten t` for every layout)
is not proved. Proved here, for every parser state: nodes the syntax leaves out are delivered as
the null scalar `~`, and the single-pair flow-mapping forms with an explicit empty key
(`[ ? : b ]`, `[ ? ]`, `[ ? , a ]`) deliver `~` for the key **without consuming** the token that
follows — which is what makes the value state see its `:` / `,` / `]`. -/
namespace SaphyrModel.C03
open SaphyrModel

/-- the event for a node the syntax leaves out: plain scalar `~`, no anchor, no tag -/
theorem omitted_node_is_null : emptyScalar = .scalar ['~'] .plain 0 none := rfl

/-- `[ ? : b ]`, `[ ? , a ]`, `[ ? ]`: the empty key is reported as `~` and the next token is left
    for the value state -/
theorem empty_key_leaves_token (p : PState) (t : Token) (rest : List Token) (hp : p.toks = t :: rest)
    (ht : t.ty = .value ∨ t.ty = .flowEntry ∨ t.ty = .flowSequenceEnd) :
    flowSequenceEntryMappingKey p =
      .ok (emptyScalar, t.span, { p with state := .flowSequenceEntryMappingValue }) := by
  unfold flowSequenceEntryMappingKey
  simp only [peekTok, hp, Bind.bind]
  rcases ht with h | h | h <;> simp [h]

/-- … and the value state then reads the `:` and the value, or reports `~` for a left-out value -/
theorem empty_value_is_null (p : PState) (t : Token) (rest : List Token) (hp : p.toks = t :: rest)
    (ht : t.ty = .flowEntry ∨ t.ty = .flowSequenceEnd) :
    flowSequenceEntryMappingValue p =
      .ok (emptyScalar, t.span, { p with state := .flowSequenceEntryMappingEnd t.span.stop }) := by
  unfold flowSequenceEntryMappingValue
  simp only [peekTok, hp, Bind.bind]
  rcases ht with h | h <;> simp [h]

/-- a block mapping key with nothing after `:` (next token is a key, a value indicator or the end of
    the block) has the null scalar as its value -/
theorem block_value_omitted (p : PState) (t t2 : Token) (rest : List Token) (hp : p.toks = t :: t2 :: rest)
    (ht : t.ty = .value) (h2 : t2.ty = .key ∨ t2.ty = .value ∨ t2.ty = .blockEnd) :
    blockMappingValue p = .ok (emptyScalar, t2.span, { skipTok p with state := .blockMappingKey }) := by
  unfold blockMappingValue
  simp only [peekTok, hp, Bind.bind, ht, skipTok, List.tail_cons]
  rcases h2 with h | h | h <;> simp [h]

end SaphyrModel.C03
