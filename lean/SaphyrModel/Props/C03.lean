import SaphyrModel.Parser2
import SaphyrModel.Proofs.TokTree
import SaphyrModel.Proofs.AnchorTok
/-! # C03 — Block and flow structure parses to the denoted tree (parser-level component theorems)

The structural content of C03 at full strength (`parse (render ℓ t) = flatten t` for every layout)
is not proved end to end: the scanner half (characters → tokens for every layout) rests on the
correspondence and the renderer oracle. The parser half **is** proved, for every tree:
`tokens_parse_to_tree` / `node_tokens_parse` say that the token language of nested block and flow
collections (any depth, any mixture of block-in-block, flow-in-block, flow-in-flow) is parsed to
exactly the events the tree denotes. Also proved, for every parser state: nodes the syntax leaves out are delivered as
the null scalar `~`, and the single-pair flow-mapping forms with an explicit empty key
(`[ ? : b ]`, `[ ? ]`, `[ ? , a ]`) deliver `~` for the key **without consuming** the token that
follows — which is what makes the value state see its `:` / `,` / `]`. -/
namespace SaphyrModel.C03
open SaphyrModel

/-- the event for a node the syntax leaves out: plain scalar `~`, no anchor, no tag -/
theorem omitted_node_is_null : emptyScalar = .scalar ['~'] .plain 0 none := rfl

/-- `[ ? : b ]`, `[ ? , a ]`, `[ ? ]`: the empty key is reported as `~` and the next token is left
    for the value state -/
theorem empty_key_leaves_token (p : PState) (t : Token) (rest : List Token) (hp : p.toks = t :: rest)
    (ht : t.ty = .value ∨ t.ty = .flowEntry ∨ t.ty = .flowSequenceEnd) :
    flowSequenceEntryMappingKey p =
      .ok (emptyScalar, t.span, { p with state := .flowSequenceEntryMappingValue }) := by
  unfold flowSequenceEntryMappingKey
  simp only [peekTok, hp, Bind.bind]
  rcases ht with h | h | h <;> simp [h]

/-- … and the value state then reads the `:` and the value, or reports `~` for a left-out value -/
theorem empty_value_is_null (p : PState) (t : Token) (rest : List Token) (hp : p.toks = t :: rest)
    (ht : t.ty = .flowEntry ∨ t.ty = .flowSequenceEnd) :
    flowSequenceEntryMappingValue p =
      .ok (emptyScalar, t.span, { p with state := .flowSequenceEntryMappingEnd t.span.stop }) := by
  unfold flowSequenceEntryMappingValue
  simp only [peekTok, hp, Bind.bind]
  rcases ht with h | h <;> simp [h]

/-- a block mapping key with nothing after `:` (next token is a key, a value indicator or the end of
    the block) has the null scalar as its value -/
theorem block_value_omitted (p : PState) (t t2 : Token) (rest : List Token) (hp : p.toks = t :: t2 :: rest)
    (ht : t.ty = .value) (h2 : t2.ty = .key ∨ t2.ty = .value ∨ t2.ty = .blockEnd) :
    blockMappingValue p = .ok (emptyScalar, t2.span, { skipTok p with state := .blockMappingKey }) := by
  unfold blockMappingValue
  simp only [peekTok, hp, Bind.bind, ht, skipTok, List.tail_cons]
  rcases h2 with h | h | h <;> simp [h]

open TokTree in
/-- **Every tree's tokens parse to that tree (whole stream).** For every well-formed token tree — block
    sequences and mappings, flow sequences and mappings, scalars of every style, nested to any depth,
    with arbitrary spans on every token — a fresh parser over the one-document stream presenting it
    emits StreamStart, DocumentStart, exactly the events the tree denotes (each collection's items and
    pairs in order, properly bracketed), DocumentEnd, StreamEnd, without error or panic, consuming all
    tokens. -/
theorem tokens_parse_to_tree (t : TT) (hw : t.wf = true) (ss se : Span) (eof : Marker) (keep : Bool) :
    ∃ sp pf, steps (t.events.length + 4) (PState.init (streamToks ss se t) none eof keep) =
        .ok ((.streamStart, ss) :: (.documentStart false, sp) :: (t.events ++ [(.documentEnd, se), (.streamEnd, se)]), pf) ∧
      pf.state = .end ∧ pf.toks = [] :=
  stream_parses t hw ss se eof keep

open TokTree in
/-- the compositional form: wherever the state machine calls `parse_node` in front of a tree's tokens
    (as a sequence entry, a key, a value, a document root), it emits that tree's events, returns to
    the continuation state in front of the remaining tokens, and changes nothing else (no anchors,
    no tags, no leftover state) — in block context for every tree, in flow context for flow trees -/
theorem node_tokens_parse (t : TT) (hw : t.wf = true) (b : Bool) (hb : b = true ∨ t.flowOnly = true) :
    Parses t b := TT.parses t hw b hb

open TokTree in
/-- non-vacuity: `- [a, {k: v}]`-shaped tokens are a well-formed tree with 9 events -/
example :
    let sp : Span := ⟨⟨0, 1, 0⟩, ⟨0, 1, 0⟩⟩
    let t : TT := .blockSeq sp sp (.cons sp (.flowSeq sp sp (.cons sp (.scalar sp .plain ['a'])
      (.cons sp (.flowMap sp sp (.cons sp sp (.scalar sp .plain ['k']) sp (.scalar sp .plain ['v']) .nil)) .nil))) .nil)
    t.wf = true ∧ t.events.length = 9 ∧ t.toks.length = 13 := by decide

open SaphyrModel.Sc SaphyrModel.C03A SaphyrModel.C05T in
/-- **Anchors and aliases carry exactly their names (scanner level) — for every name.** On a string input the
    scanner stands at `&` (`alias = false`) or `*` (`alias = true`), followed by a non-empty name made of anchor
    characters — anything but blanks, line breaks, NUL, the byte-order mark and the flow indicators `,[]{}`; so
    `:`, `-`, `#`, quotes, non-ASCII text are all part of the name — and then a character that ends it (or the end
    of the input). The token returned is an anchor (alias) token with exactly that name; it starts at the
    indicator and ends right after the name, on the same line. With the parser theorems (`C02.C02_anchors`:
    an alias resolves to the latest anchor of that name) this is what "anchor links" in C03 rests on. -/
theorem anchor_token_carries_name (alias : Bool) (ind : Char) (name tl : Str) (hne : name ≠ [])
    (hn : ∀ c ∈ name, isAnchorChar c = true) (htl : isAnchorChar (tl.headD '\x00') = false)
    (u : Sc) (hk : u.inp.kind = .str) (hi : u.inp.iter = ind :: (name ++ tl)) :
    (∃ p, scanAnchor alias u = .panic p) ∨
    ∃ tok u', scanAnchor alias u = .ok (tok, u') ∧
      tok.ty = (if alias then TokenType.alias name else TokenType.anchor name) ∧
      tok.span.start = u.mark ∧ tok.span.stop = u'.mark ∧ u'.inp.iter = tl ∧
      u'.mark.line = u.mark.line ∧ u'.mark.col = u.mark.col + 1 + name.length ∧
      u'.mark.index = u.mark.index + 1 + name.length := by
  rcases anchor_token alias ind name tl hne hn htl u u.mark.line u.mark.col u.indent (u.mark.index + u.inp.iter.length)
      ⟨hk, hi, rfl, rfl, rfl, by rw [hi]⟩ with h | ⟨tok, u', hok, h1, h2, h3, h4⟩
  · exact Or.inl h
  · refine Or.inr ⟨tok, u', hok, h1, h2, h3, h4.iter, h4.line, h4.col, ?_⟩
    have := h4.off
    rw [hi] at this
    simp only [List.length_cons, List.length_append] at this
    omega

open SaphyrModel.Sc in
/-- non-vacuity: `&a:b-1 ` gives the anchor `a:b-1`; `*é,` gives the alias `é` -/
example :
    (match scanAnchor false { mkSc .str 0 ['&','a',':','b','-','1',' ','x'] with mark := ⟨2, 1, 2⟩ },
           scanAnchor true { mkSc .str 0 ['*','é',',',' '] with mark := ⟨2, 1, 2⟩ } with
     | .ok (t1, _), .ok (t2, _) => decide (t1.ty = TokenType.anchor ['a',':','b','-','1']) && decide (t2.ty = TokenType.alias ['é']) &&
         t1.span.stop.col == 8
     | _, _ => false) = true := by decide +kernel

end SaphyrModel.C03
