import SaphyrModel.Parser2
import SaphyrModel.Api
/-! # C15 — Documents are parsed independently (component theorems, parser level)

What carries over from one document to the next in the parser is its tag table and its anchor
table. The scanner-state part of C15 (indentation, flow level, simple keys reset at a document
marker) is not covered by a theorem; the check's oracle compares A ++ "...\n" ++ B with A and B. -/
namespace SaphyrModel.C15
open SaphyrModel

/-- When a document ends (whichever way: explicit marker or not), the anchor table is empty and,
    unless `keep_tags` is set, so is the tag table: nothing declared in a document survives it. -/
theorem document_end_clears (p : PState) (ev : Event) (sp : Span) (p' : PState)
    (h : documentEnd p = .ok (ev, sp, p')) :
    p'.anchors = [] ∧ (p.keepTags = false → p'.tags = []) ∧ ev = .documentEnd := by
  unfold documentEnd at h
  simp only [Bind.bind] at h
  cases hp : peekTok p with
  | err e => simp [hp] at h
  | panic x => simp [hp] at h
  | ok t =>
    simp only [hp] at h
    split at h
    · simp only [Res.ok.injEq, Prod.mk.injEq] at h
      obtain ⟨h1, _, h3⟩ := h
      subst h3
      refine ⟨rfl, ?_, h1.symm⟩
      intro hk
      simp [clearAnchors, clearTags, skipTok, hk]
    · cases hp2 : peekTok (clearAnchors (clearTags p)) with
      | err e => simp [hp2] at h
      | panic x => simp [hp2] at h
      | ok t2 =>
        simp only [hp2] at h
        split at h
        · simp at h
        · simp at h
        · simp only [Res.ok.injEq, Prod.mk.injEq] at h
          obtain ⟨h1, _, h3⟩ := h
          subst h3
          refine ⟨rfl, ?_, h1.symm⟩
          intro hk
          simp [clearAnchors, clearTags, hk]

end SaphyrModel.C15
