import SaphyrModel.Parser2
import SaphyrModel.Proofs.TokDocs
import SaphyrModel.Api
import SaphyrModel.Proofs.Unwind
/-! # C15 — Documents are parsed independently (component theorems, parser level)

What carries over from one document to the next in the parser is its tag table and its anchor
table. Of the scanner-state part of C15 the block state is covered: `document_marker_closes_all_blocks` — whatever
block structure is open, a document marker leaves indentation −1, an empty indent stack and no simple key
allowed, having emitted exactly the `BlockEnd`s owed (`unroll_indent_closed_form`). Flow level and
implicit-mapping state at a marker are not covered by a theorem; the check's oracle compares
A ++ "...\n" ++ B with A and B. -/
namespace SaphyrModel.C15
open SaphyrModel

/-- When a document ends (whichever way: explicit marker or not), the anchor table is empty and,
    unless `keep_tags` is set, so is the tag table: nothing declared in a document survives it. -/
theorem document_end_clears (p : PState) (ev : Event) (sp : Span) (p' : PState)
    (h : documentEnd p = .ok (ev, sp, p')) :
    p'.anchors = [] ∧ (p.keepTags = false → p'.tags = []) ∧ ev = .documentEnd := by
  unfold documentEnd at h
  simp only [Bind.bind] at h
  cases hp : peekTok p with
  | err e => simp [hp] at h
  | panic x => simp [hp] at h
  | ok t =>
    simp only [hp] at h
    split at h
    · simp only [Res.ok.injEq, Prod.mk.injEq] at h
      obtain ⟨h1, _, h3⟩ := h
      subst h3
      refine ⟨rfl, ?_, h1.symm⟩
      intro hk
      simp [clearAnchors, clearTags, skipTok, hk]
    · cases hp2 : peekTok (clearAnchors (clearTags p)) with
      | err e => simp [hp2] at h
      | panic x => simp [hp2] at h
      | ok t2 =>
        simp only [hp2] at h
        split at h
        · simp at h
        · simp at h
        · simp only [Res.ok.injEq, Prod.mk.injEq] at h
          obtain ⟨h1, _, h3⟩ := h
          subst h3
          refine ⟨rfl, ?_, h1.symm⟩
          intro hk
          simp [clearAnchors, clearTags, hk]

open TokTree in
/-- **Documents are parsed independently (parser half).** Let `A` and `B` be lists of documents given as
    tokens (each document: optional `---`, a node tree of block/flow collections and scalars, optional
    `...`), `A` legal from the start of a stream and `B` legal after a document-end marker, every
    document of `A` … closed so that `B` may follow. Then the token stream of `A` followed by `B` parses,
    from a fresh parser, to StreamStart, the events of `A`'s documents, the events of `B`'s documents,
    StreamEnd: the parser handles every document from a state that carries nothing of its
    predecessors but the token position (`TokTree.doc_parses` is applied to each document in turn,
    whatever base state the previous ones left). No indentation, flow or key state exists at this
    level; `%TAG`/anchors are covered by `document_end_clears`. -/
theorem documents_parse_independently (A B : List Doc) (hl : legal true (A ++ B) = true)
    (ss se : Span) (eof : Marker) (keep : Bool) :
    ∃ ea eb pf, steps (docsSteps (A ++ B) + 2)
        (PState.init (⟨ss, .streamStart⟩ :: (docsToks (A ++ B) ++ [⟨se, .streamEnd⟩])) none eof keep) =
        .ok ((.streamStart, ss) :: ((ea ++ eb) ++ [(.streamEnd, se)]), pf) ∧
      DocsEvents A ea ∧ DocsEvents B eb ∧ pf.state = .end := by
  obtain ⟨evs, pf, h, hev, hend⟩ := stream_docs_parse (A ++ B) hl ss se eof keep
  -- split the events of A ++ B
  have hsplit : ∀ (a b : List Doc) (es : List Ev), DocsEvents (a ++ b) es →
      ∃ ea eb, es = ea ++ eb ∧ DocsEvents a ea ∧ DocsEvents b eb := by
    intro a
    induction a with
    | nil => intro b es h; exact ⟨[], es, rfl, DocsEvents.nil, h⟩
    | cons d a ih =>
      intro b es h
      cases h with
      | cons s1 s2 hrest =>
        obtain ⟨ea, eb, he, ha, hb⟩ := ih b _ hrest
        exact ⟨d.events s1 s2 ++ ea, eb, by rw [he, List.append_assoc], DocsEvents.cons s1 s2 ha, hb⟩
  obtain ⟨ea, eb, he, ha, hb⟩ := hsplit A B evs hev
  exact ⟨ea, eb, pf, by rw [← he]; exact h, ha, hb, hend⟩

open TokTree in
/-- … and each of the two parts, parsed as a stream of its own, gives events of the same shape -/
theorem documents_parse_alone (A : List Doc) (hl : legal true A = true) (ss se : Span) (eof : Marker) (keep : Bool) :
    ∃ ea pf, steps (docsSteps A + 2)
        (PState.init (⟨ss, .streamStart⟩ :: (docsToks A ++ [⟨se, .streamEnd⟩])) none eof keep) =
        .ok ((.streamStart, ss) :: (ea ++ [(.streamEnd, se)]), pf) ∧ DocsEvents A ea ∧ pf.state = .end :=
  stream_docs_parse A hl ss se eof keep

open SaphyrModel.Sc in
/-- **`unroll_indent(-1)` in closed form**: from any state with a well-formed indent stack (the scanner's
    structural invariant `Inv.ind`, preserved by every scanner function — C01) outside flow collections, the
    stack is emptied, the indentation set to −1, and one `BlockEnd` appended per level that owed one; no other
    field of the scanner state changes. -/
theorem unroll_indent_closed_form (s : Sc) (hw : WFInd s.indent s.indents) (hfl : s.flowLevel = 0) :
    unrollIndent (-1) s =
      .ok ((), { s with indent := -1, indents := [], tokens := s.tokens ++ blockEnds s.mark s.indents }) :=
  unrollIndent_all s hw hfl

open SaphyrModel.Sc in
/-- **No indentation state survives a document marker.** Whatever block collections are open when `---` or
    `...` is fetched — any well-formed indent stack of any depth — afterwards the scanner's indentation is −1,
    its indent stack is empty, a simple key may not start, and what it has emitted is exactly one `BlockEnd` per
    open level that owed one, then the marker: the next document starts from the block state of a fresh scanner. -/
theorem document_marker_closes_all_blocks (t : TokenType) (s : Sc) (hw : WFInd s.indent s.indents) (hfl : s.flowLevel = 0) :
    match fetchDocumentIndicator t s with
    | .ok (_, s') => s'.indent = -1 ∧ s'.indents = [] ∧ s'.simpleKeyAllowed = false ∧ s'.flowLevel = 0 ∧
        ∃ sp, s'.tokens = s.tokens ++ blockEnds s.mark s.indents ++ [⟨sp, t⟩]
    | _ => True :=
  fetchDocumentIndicator_unwinds t s hw hfl

open SaphyrModel.Sc in
/-- non-vacuity: two open block levels (a mapping at column 0 holding a sequence at column 2), `---` ahead -/
example :
    let s : Sc := { mkSc .str 0 ['-','-','-','\n'] with indent := 2, indents := [⟨0, true⟩, ⟨-1, true⟩], simpleKeys := [⟨false, false, 0, ⟨0,1,0⟩⟩] }
    WFInd s.indent s.indents ∧ s.flowLevel = 0 ∧
    (match fetchDocumentIndicator .documentStart s with
     | .ok (_, s') => s'.tokens.map (·.ty) == [.blockEnd, .blockEnd, .documentStart] && s'.indent == -1
     | _ => false) = true := by
  refine ⟨by simp [WFInd, mkSc], rfl, by decide +kernel⟩

open SaphyrModel.Sc in
/-- **… and so does the end of the stream**: whatever block collections are open when the input ends, `StreamEnd`
    is preceded by exactly one `BlockEnd` per open level that owed one, and the scanner is back at indentation −1
    with an empty indent stack. -/
theorem stream_end_closes_all_blocks (s : Sc) (hw : WFInd s.indent s.indents) (hfl : s.flowLevel = 0) :
    match fetchStreamEnd s with
    | .ok (_, s') => s'.indent = -1 ∧ s'.indents = [] ∧
        ∃ m, s'.tokens = s.tokens ++ blockEnds m s.indents ++ [⟨Span.empty m, .streamEnd⟩]
    | _ => True :=
  fetchStreamEnd_unwinds s hw hfl

end SaphyrModel.C15
