import SaphyrModel.Props.C04
import SaphyrModel.Props.C08
import SaphyrModel.Proofs.TokTree
/-! # C13 — Every JSON text loads with its JSON meaning (component theorems)

JSON's string escapes are a subset of YAML's double-quoted escapes with the same meaning; JSON's
literals resolve to boolean / null; JSON integers within 64 bits resolve to that integer. The
structural part (flow collections with arbitrary insignificant whitespace) is not proved. -/
namespace SaphyrModel.C13
open SaphyrModel SaphyrModel.Sc ProtoR

/-- RFC 8259 §7: the two-character escapes and their code points -/
def jsonEscapes : List (Char × Nat) :=
  [('"', 0x22), ('\\', 0x5C), ('/', 0x2F), ('b', 0x08), ('f', 0x0C), ('n', 0x0A), ('r', 0x0D), ('t', 0x09)]

/-- every JSON escape is decoded by the double-quoted scanner to the JSON code point -/
theorem json_escapes_decode : ∀ p ∈ jsonEscapes, namedEscape p.1 = some (Char.ofNat p.2) := by decide

/-- `\uXXXX` is a hexadecimal escape of the scanner (4 digits), not a named one -/
theorem json_u_escape_is_hex : namedEscape 'u' = none := by decide

/-- JSON's three literals resolve to the values JSON gives them -/
theorem json_literals_resolve :
    parseFromCow "true".toList = .bool true ∧ parseFromCow "false".toList = .bool false ∧
    parseFromCow "null".toList = .null := by decide

/-- a quoted JSON string never changes type: whatever its content it loads as that string -/
theorem json_string_stays_string (v : Str) :
    parseWithMeta v .doubleQuoted none = some (.string v) :=
  C08.nonplain_is_string v .doubleQuoted none (by decide)

open TokTree in
/-- **JSON structure, parser half.** A JSON value is a tree of flow sequences, flow mappings and scalars;
    for every such tree (any depth, any spans) the parser turns the token sequence
    `[`, `]`, `{`, `}`, `,`, Key, Value, scalars into exactly the events of that tree: arrays as
    sequences in order, objects as mappings with their members in order. (The scanner half — that
    every spacing of the JSON text yields this token sequence — rests on the correspondence.) -/
theorem json_tokens_parse (t : TT) (hw : t.wf = true) (hf : t.flowOnly = true) (ss se : Span) (eof : Marker) (keep : Bool) :
    ∃ sp pf, steps (t.events.length + 4) (PState.init (streamToks ss se t) none eof keep) =
        .ok ((.streamStart, ss) :: (.documentStart false, sp) :: (t.events ++ [(.documentEnd, se), (.streamEnd, se)]), pf) ∧
      pf.state = .end ∧ pf.toks = [] :=
  stream_parses t hw ss se eof keep

end SaphyrModel.C13
