import SaphyrModel.Proofs.InputAgree
import SaphyrModel.Sc.Scan3
import SaphyrModel.Proofs.Rel.Complete
/-! # C10 — All input back-ends behave identically

`StrInput` (`kind = .str`) reads straight from the remaining string, overriding some twenty trait
methods with byte-level fast paths; `BufferedInput` and every contract-conforming ring input
(`kind = .buf`, any capacity) use the trait's default methods over a look-ahead buffer padded with
NUL at the end of input.

**`theorem C10 : C10_full`** — for every text, every buffer capacity and every fuel the string back-end
and the buffered back-end deliver the same tokens (values and spans) and the same outcome (end of
stream or the same error), unless one of the two runs stops at a panic site. A panic of either side
(a look-ahead request the ring cannot hold, a `peek` beyond what was requested, a `skip` on an empty
ring, exhausted fuel) claims nothing: the look-ahead discipline and termination are C01's subject.

How it is proved:
* `input_interface_agrees` — *every* operation of the `Input` interface returns the same value on a
  string input and on a buffered input of any capacity that see the same characters (`SimIn`), and
  leaves them seeing the same characters; `StrInput`'s overrides whose code is a different algorithm
  (byte tests for document indicators and `next_can_be_plain_scalar`, slice scans, `skip_ws_to_eol`)
  are proved equal to the trait defaults (loops over `look_ch`/`skip`) by induction over the text.
* `Proofs/Rel/` — a relational Hoare logic over pairs of scanner states that differ only in their
  input, one lemma per model function (generated, `lib/gen/relgen.py`), up to `Scanner::next` and the run.
* the three functions of the scanner that branch on the state of the look-ahead buffer and take
  different paths on the two back-ends are proved to agree by hand: the chunked word loop of
  `scan_plain_scalar` (`plain_chunks_agree`: lock-step with stuttering at the chunk boundaries),
  `scan_block_scalar_content_line` (`content_line_agrees`: buffer first, then raw reads behind it) and
  `skip_block_scalar_indent` (`block_scalar_indent_agrees`: one look-ahead when the indentation fits
  the buffer, refills otherwise) — each via two unary lemmas "this side consumes exactly …".
The parser is the same code over the token stream, so equal token streams give equal events. -/
namespace SaphyrModel.C10
open SaphyrModel SaphyrModel.Sc

/-- C10 for the scanner, full strength: for every text and every capacity the contract allows, the
string back-end and a buffered back-end deliver the same tokens (values, spans) and the same
outcome (end of stream or the same error) — whenever neither run stops at a panic site. -/
def C10_full : Prop :=
  ∀ (text : Str) (cap fuel : Nat), 8 ≤ cap →
    let a := scanAll fuel (mkSc .str 128 text) []
    let b := scanAll fuel (mkSc .buf cap text) []
    (∀ p, a.2.1 ≠ .panic p) → (∀ p, b.2.1 ≠ .panic p) → a.1 = b.1 ∧ a.2.1 = b.2.1

/-- the chunked word loop of `scan_plain_scalar` agrees across back-ends whatever their `bufmaxlen`s
    (the chunk boundaries fall at different places; lock-step with stuttering at the boundaries) -/
theorem plain_chunks_agree (f1 f2 : Nat) (str : Str) : RelS (plainChunks f1 str) (plainChunks f2 str) :=
  plainChunks_rel f1 f2 str

/-- `scan_block_scalar_content_line` agrees across back-ends: buffer first and then raw reads behind it on
    the buffered input, one of the two paths on the string input — the same characters up to the next break -/
theorem content_line_agrees (str : Str) : RelS (scanBlockScalarContentLine str) (scanBlockScalarContentLine str) :=
  line_rel str

/-- `skip_block_scalar_indent` agrees across back-ends whatever their `bufmaxlen`s: the single look-ahead
    request of the fitting case and the refill loop of the other skip the same spaces -/
theorem block_scalar_indent_agrees (ind f1 f2 : Nat) (b : Str) :
    RelS (skipBlockScalarIndent ind f1 b) (skipBlockScalarIndent ind f2 b) := indent_rel ind f1 f2 b

/-- **C10 for the scanner: all texts, all capacities, all fuels.** -/
theorem C10 : C10_full :=
  fun text cap fuel _ => scan_backends_agree_all text 128 cap fuel fuel

/-- … and for arbitrary capacities and fuels on both sides (the contract's `cap ≥ 8` is not even needed:
    a ring that is too small makes the buffered side stop at a panic site, about which nothing is claimed) -/
theorem scan_backends_agree_everywhere (text : Str) (cap cap' fuel fuel' : Nat) :
    let a := scanAll fuel (mkSc .str cap text) []
    let b := scanAll fuel' (mkSc .buf cap' text) []
    (∀ p, a.2.1 ≠ .panic p) → (∀ p, b.2.1 ≠ .panic p) → a.1 = b.1 ∧ a.2.1 = b.2.1 :=
  scan_backends_agree_all text cap cap' fuel fuel'

/-- **The whole `Input` interface agrees between the string back-end and any buffered back-end.** -/
theorem input_interface_agrees :
    (∀ n, Agrees (In.lookahead n)) ∧ Agrees In.peek ∧ (∀ n, Agrees (In.peekNth n)) ∧
    Agrees In.skip ∧ (∀ n, Agrees (In.skipN n)) ∧ Agrees In.lookCh ∧
    (∀ c, Agrees (In.nextCharIs c)) ∧ (∀ n c, Agrees (In.nthCharIs n c)) ∧
    (∀ c1 c2, c1 ≠ '\x00' → c2 ≠ '\x00' → Agrees (In.next2Are c1 c2)) ∧
    (∀ c1 c2 c3, c1 ≠ '\x00' → c2 ≠ '\x00' → c3 ≠ '\x00' → Agrees (In.next3Are c1 c2 c3)) ∧
    Agrees In.nextIsDocumentIndicator ∧ Agrees In.nextIsDocumentStart ∧ Agrees In.nextIsDocumentEnd ∧
    Agrees In.nextIsBlankOrBreak ∧ Agrees In.nextIsBlankOrBreakz ∧ Agrees In.nextIsBlank ∧
    Agrees In.nextIsBreak ∧ Agrees In.nextIsBreakz ∧ Agrees In.nextIsZ ∧ Agrees In.nextIsFlow ∧
    Agrees In.nextIsDigit ∧ Agrees In.nextIsAlpha ∧
    (∀ fl, Agrees (In.nextCanBePlainScalar fl)) ∧
    Agrees In.skipWhileNonBreakz ∧ Agrees In.skipWhileBlank ∧ (∀ out, Agrees (In.fetchWhileIsAlpha out)) ∧
    Agrees (In.skipWsToEol .yes) ∧ Agrees (In.skipWsToEol .no) :=
  ⟨lookahead_agree, peek_agree, peekNth_agree, skip_agree, skipN_agree, lookCh_agree', nextCharIs_agree, nthCharIs_agree,
   next2Are_agree, next3Are_agree, nextIsDocumentIndicator_agree, nextIsDocumentStart_agree,
   nextIsDocumentEnd_agree, nextIsBlankOrBreak_agree, nextIsBlankOrBreakz_agree, nextIsBlank_agree,
   nextIsBreak_agree, nextIsBreakz_agree, nextIsZ_agree, nextIsFlow_agree, nextIsDigit_agree, nextIsAlpha_agree,
   nextCanBePlainScalar_agree, skipWhileNonBreakz_agree, skipWhileBlank_agree, fetchWhileIsAlpha_agree,
   skipWsToEol_agree .yes (Or.inl rfl), skipWsToEol_agree .no (Or.inr rfl)⟩

/-- `raw_read_non_breakz_ch` reads behind the look-ahead buffer; with the buffer empty (what
`scan_block_scalar_content_line` checks first) it agrees with the string back-end -/
theorem raw_read_agrees (i j : In) (h : SimIn i j) (hb : j.buf = []) :
    AgreeR j (In.rawReadNonBreakzCh i) (In.rawReadNonBreakzCh j) := rawRead_agree i j h hb

/-- agreement composes: any program built from agreeing operations agrees -/
theorem agreement_composes {α β : Type} {m : M In α} {f : α → M In β} (h1 : Agrees m) (h2 : ∀ a, Agrees (f a)) :
    Agrees (m >>= f) := Agrees.bind h1 h2

/-- the trait's default loop `while p(look_ch()) { skip }` computes, on a buffered input of any
capacity, exactly the count and the remainder that `StrInput` reads off its slice -/
theorem default_skip_while_is_span (p : Char → Bool) (hp : p '\x00' = false) (fuel n : Nat) (i j : In) (l : Nat)
    (h : SimIn i j) :
    AgreeR j (.ok (n + (In.spanWhile p i.iter).1, { i with iter := (In.spanWhile p i.iter).2, la := l }))
      (In.dfltSkipWhile p fuel n j) := dfltSkipWhile_agree p hp fuel n i j l h

/-- the hypotheses are met by fresh inputs over the same text, for every capacity -/
example (t : Str) (cap : Nat) : SimIn (mkSc .str 128 t).inp (mkSc .buf cap t).inp :=
  ⟨rfl, rfl, fun _ => rfl⟩

/-- … and the statement is not vacuous: on `a: b` both sides answer `look_ch` with `'a'` -/
example : In.lookCh (mkSc .str 128 "a: b".toList).inp = .ok ('a', { (mkSc .str 128 "a: b".toList).inp with la := 1 })
    ∧ (∃ j', In.lookCh (mkSc .buf 16 "a: b".toList).inp = .ok ('a', j')) := ⟨rfl, ⟨_, rfl⟩⟩

/-- **What is proved about the string back-end holds on the character-iterator back-end.** For the scanner
    functions whose results are characterised by theorems on a string input — block scalars
    (`C05.literal_block_scalar_token`, `C05.folded_block_scalar_token`), quoted scalars
    (`C04.single_quoted_scalar_token`, `C09.quoted_string_rescans`), plain scalars (`C04.plain_scalar_line_token`),
    anchors and aliases (`C03.anchor_token_carries_name`) — a buffered state that sees the same text (`Sim`:
    every field equal, the inputs holding the same characters, whatever the buffer capacity and however much of
    the text has been pulled into it) delivers, whenever both runs complete, the very same token: same type,
    same text, same span. So the prescribed token is what the character-iterator back-end returns too. -/
theorem string_theorems_transfer (s t : Sc) (h : Sim s t) :
    (∀ lit sm a s' b t', scanBlockScalarBody lit sm s = .ok (a, s') → scanBlockScalarBody lit sm t = .ok (b, t') → a = b) ∧
    (∀ single a s' b t', scanFlowScalar single s = .ok (a, s') → scanFlowScalar single t = .ok (b, t') → a = b) ∧
    (∀ a s' b t', scanPlainScalarBody s = .ok (a, s') → scanPlainScalarBody t = .ok (b, t') → a = b) ∧
    (∀ alias a s' b t', scanAnchor alias s = .ok (a, s') → scanAnchor alias t = .ok (b, t') → a = b) := by
  refine ⟨?_, ?_, ?_, ?_⟩
  · intro lit sm a s' b t' h1 h2
    have := (RelS.scanBlockScalarBody lit sm).out s t h
    rw [h1, h2] at this
    exact this.1
  · intro single a s' b t' h1 h2
    have := (RelS.scanFlowScalar single).out s t h
    rw [h1, h2] at this
    exact this.1
  · intro a s' b t' h1 h2
    have := RelS.scanPlainScalarBody.out s t h
    rw [h1, h2] at this
    exact this.1
  · intro alias a s' b t' h1 h2
    have := (RelS.scanAnchor alias).out s t h
    rw [h1, h2] at this
    exact this.1

/-- the hypothesis is met by a string state and its buffered twin over the same text, for every capacity -/
example (text : Str) (cap : Nat) : Sim (mkSc .str 128 text) (mkSc .buf cap text) :=
  ⟨⟨rfl, rfl, fun _ => rfl⟩, rfl⟩

end SaphyrModel.C10
