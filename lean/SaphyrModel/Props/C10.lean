import SaphyrModel.Proofs.InputAgree
import SaphyrModel.Sc.Scan3
/-! # C10 — All input back-ends behave identically

`StrInput` (`kind = .str`) reads straight from the remaining string, overriding some twenty trait
methods with byte-level fast paths; `BufferedInput` and every contract-conforming ring input
(`kind = .buf`, any capacity) use the trait's default methods over a look-ahead buffer padded with
NUL at the end of input.

`C10_full` is the property at full strength (equal token streams for every text). **Proved** is the
whole `Input` interface: `input_interface_agrees` — *every* operation of the interface (the eight
required methods and all defaulted/overridden ones the scanner calls) returns the same value on a
string input and on a buffered input of any capacity that see the same characters (`SimIn`), and
leaves them seeing the same characters. The three override families whose `StrInput` code is a
different algorithm — byte tests for document indicators and `next_can_be_plain_scalar`, slice
scans for `skip_while_*` / `fetch_while_is_alpha`, and `skip_ws_to_eol` — are proved equal to the
trait defaults (loops over `look_ch`/`skip`) by induction over the text. A panic of the buffered side
(look-ahead beyond the ring, `peek` beyond what was requested, exhausted fuel) claims nothing: the
look-ahead discipline is C01's subject. **Not proved**: the lifting through the scanner's own code
(130 functions, three of which branch on `buf_is_empty`/`bufmaxlen`); there the check compares the
implementation with itself on six back-ends and the scanner model on three. -/
namespace SaphyrModel.C10
open SaphyrModel SaphyrModel.Sc

/-- C10 for the scanner, full strength: for every text and every capacity the contract allows, the
string back-end and a buffered back-end deliver the same tokens (values, spans) and the same
outcome (end of stream or the same error) — whenever neither run stops at a panic site. -/
def C10_full : Prop :=
  ∀ (text : Str) (cap fuel : Nat), 8 ≤ cap →
    let a := scanAll fuel (mkSc .str 128 text) []
    let b := scanAll fuel (mkSc .buf cap text) []
    (∀ p, a.2.1 ≠ .panic p) → (∀ p, b.2.1 ≠ .panic p) → a.1 = b.1 ∧ a.2.1 = b.2.1

/-- **The whole `Input` interface agrees between the string back-end and any buffered back-end.** -/
theorem input_interface_agrees :
    (∀ n, Agrees (In.lookahead n)) ∧ Agrees In.peek ∧ (∀ n, Agrees (In.peekNth n)) ∧
    Agrees In.skip ∧ (∀ n, Agrees (In.skipN n)) ∧ Agrees In.lookCh ∧
    (∀ c, Agrees (In.nextCharIs c)) ∧ (∀ n c, Agrees (In.nthCharIs n c)) ∧
    (∀ c1 c2, c1 ≠ '\x00' → c2 ≠ '\x00' → Agrees (In.next2Are c1 c2)) ∧
    (∀ c1 c2 c3, c1 ≠ '\x00' → c2 ≠ '\x00' → c3 ≠ '\x00' → Agrees (In.next3Are c1 c2 c3)) ∧
    Agrees In.nextIsDocumentIndicator ∧ Agrees In.nextIsDocumentStart ∧ Agrees In.nextIsDocumentEnd ∧
    Agrees In.nextIsBlankOrBreak ∧ Agrees In.nextIsBlankOrBreakz ∧ Agrees In.nextIsBlank ∧
    Agrees In.nextIsBreak ∧ Agrees In.nextIsBreakz ∧ Agrees In.nextIsZ ∧ Agrees In.nextIsFlow ∧
    Agrees In.nextIsDigit ∧ Agrees In.nextIsAlpha ∧
    (∀ fl, Agrees (In.nextCanBePlainScalar fl)) ∧
    Agrees In.skipWhileNonBreakz ∧ Agrees In.skipWhileBlank ∧ (∀ out, Agrees (In.fetchWhileIsAlpha out)) ∧
    Agrees (In.skipWsToEol .yes) ∧ Agrees (In.skipWsToEol .no) :=
  ⟨lookahead_agree, peek_agree, peekNth_agree, skip_agree, skipN_agree, lookCh_agree', nextCharIs_agree, nthCharIs_agree,
   next2Are_agree, next3Are_agree, nextIsDocumentIndicator_agree, nextIsDocumentStart_agree,
   nextIsDocumentEnd_agree, nextIsBlankOrBreak_agree, nextIsBlankOrBreakz_agree, nextIsBlank_agree,
   nextIsBreak_agree, nextIsBreakz_agree, nextIsZ_agree, nextIsFlow_agree, nextIsDigit_agree, nextIsAlpha_agree,
   nextCanBePlainScalar_agree, skipWhileNonBreakz_agree, skipWhileBlank_agree, fetchWhileIsAlpha_agree,
   skipWsToEol_agree .yes (Or.inl rfl), skipWsToEol_agree .no (Or.inr rfl)⟩

/-- `raw_read_non_breakz_ch` reads behind the look-ahead buffer; with the buffer empty (what
`scan_block_scalar_content_line` checks first) it agrees with the string back-end -/
theorem raw_read_agrees (i j : In) (h : SimIn i j) (hb : j.buf = []) :
    AgreeR j (In.rawReadNonBreakzCh i) (In.rawReadNonBreakzCh j) := rawRead_agree i j h hb

/-- agreement composes: any program built from agreeing operations agrees -/
theorem agreement_composes {α β : Type} {m : M In α} {f : α → M In β} (h1 : Agrees m) (h2 : ∀ a, Agrees (f a)) :
    Agrees (m >>= f) := Agrees.bind h1 h2

/-- the trait's default loop `while p(look_ch()) { skip }` computes, on a buffered input of any
capacity, exactly the count and the remainder that `StrInput` reads off its slice -/
theorem default_skip_while_is_span (p : Char → Bool) (hp : p '\x00' = false) (fuel n : Nat) (i j : In) (l : Nat)
    (h : SimIn i j) :
    AgreeR j (.ok (n + (In.spanWhile p i.iter).1, { i with iter := (In.spanWhile p i.iter).2, la := l }))
      (In.dfltSkipWhile p fuel n j) := dfltSkipWhile_agree p hp fuel n i j l h

/-- the hypotheses are met by fresh inputs over the same text, for every capacity -/
example (t : Str) (cap : Nat) : SimIn (mkSc .str 128 t).inp (mkSc .buf cap t).inp :=
  ⟨rfl, rfl, fun _ => rfl⟩

/-- … and the statement is not vacuous: on `a: b` both sides answer `look_ch` with `'a'` -/
example : In.lookCh (mkSc .str 128 "a: b".toList).inp = .ok ('a', { (mkSc .str 128 "a: b".toList).inp with la := 1 })
    ∧ (∃ j', In.lookCh (mkSc .buf 16 "a: b".toList).inp = .ok ('a', j')) := ⟨rfl, ⟨_, rfl⟩⟩

end SaphyrModel.C10
