import SaphyrModel.Sc.Basic
/-! # C10 — All input back-ends behave identically (per-operation theorems)

`StrInput` (`kind = .str`) reads straight from the remaining string; `BufferedInput` and every
contract-conforming ring input (`kind = .buf`, any capacity ≥ 1) read through a look-ahead buffer
padded with NUL at the end of input. `Same i j` says both see the same characters, NUL standing for
"past the end". The theorems say the basic operations return the same value from `Same` states and
lead to `Same` states. The whole-scanner relational theorem (every scanner function preserves
`Same` and returns equal tokens) is not complete. -/
namespace SaphyrModel.C10
open SaphyrModel SaphyrModel.Sc

/-- the characters an input will deliver, in order -/
def text (i : In) : Str := match i.kind with | .str => i.iter | .buf => i.buf ++ i.iter

/-- both inputs deliver the same characters, with NUL standing for "past the end" -/
def Same (i j : In) : Prop := ∀ n, (text i).getD n '\x00' = (text j).getD n '\x00'

theorem getD_replicate_nul (n k : Nat) : (List.replicate k '\x00').getD n '\x00' = '\x00' := by
  simp [List.getD, List.getElem?_replicate]; split <;> simp

/-- `look_ch` (= `lookahead(1)` then `peek`) returns the same character on a string input and on a
    buffered input of any capacity ≥ 1, and leaves them seeing the same text -/
theorem lookCh_agree (i j : In) (hi : i.kind = .str) (hj : j.kind = .buf) (hcap : 1 ≤ j.cap) (h : Same i j) :
    ∃ c i' j', In.lookCh i = .ok (c, i') ∧ In.lookCh j = .ok (c, j') ∧ Same i' j' ∧
      i'.kind = .str ∧ j'.kind = .buf ∧ j'.cap = j.cap := by
  unfold In.lookCh In.lookahead In.peek
  have h0 := h 0
  simp only [text, hi, hj] at h0
  cases hb : j.buf with
  | cons b r =>
    refine ⟨b, { i with la := max i.la 1 }, j, ?_, ?_, ?_, hi, hj, rfl⟩
    · simp [Bind.bind, hi]
      simp [hb, List.getD] at h0
      cases hit : i.iter <;> simp_all <;> assumption
    · simp [Bind.bind, hj, hb]
    · intro n; have := h n; simpa [text, hi, hj] using this
  | nil =>
    cases hjt : j.iter with
    | nil =>
      refine ⟨'\x00', { i with la := max i.la 1 }, { j with buf := ['\x00'], iter := [] }, ?_, ?_, ?_, hi, hj, rfl⟩
      · simp [Bind.bind, hi]
        simp [hb, hjt, List.getD] at h0
        cases hit : i.iter <;> simp_all <;> assumption
      · have : ¬ (1 > j.cap) := by omega
        simp [Bind.bind, hj, hb, hjt, this]
      · intro n
        have := h n
        simp only [text, hi, hj, hb, hjt, List.append_nil, List.nil_append] at this ⊢
        rw [this]
        cases n <;> simp [List.getD]
    | cons c r =>
      refine ⟨c, { i with la := max i.la 1 }, { j with buf := [c], iter := r }, ?_, ?_, ?_, hi, hj, rfl⟩
      · simp [Bind.bind, hi]
        simp [hb, hjt, List.getD] at h0
        cases hit : i.iter <;> simp_all <;> assumption
      · have : ¬ (1 > j.cap) := by omega
        simp [Bind.bind, hj, hb, hjt, this]
      · intro n
        have := h n
        simpa [text, hi, hj, hb, hjt] using this

/-- `skip` after a `look_ch` drops the same character on both inputs -/
theorem skip_agree (i j : In) (hi : i.kind = .str) (hj : j.kind = .buf) (hne : j.buf ≠ []) (h : Same i j) :
    ∃ i' j', In.skip i = .ok ((), i') ∧ In.skip j = .ok ((), j') ∧ Same i' j' := by
  refine ⟨{ i with iter := i.iter.tail }, { j with buf := j.buf.tail }, by simp [In.skip, hi], by simp [In.skip, hj], ?_⟩
  intro n
  have := h (n + 1)
  simp only [text, hi, hj] at this ⊢
  cases hb : j.buf with
  | nil => exact absurd hb hne
  | cons b r =>
    cases hit : i.iter with
    | nil => simp_all [List.getD] <;> assumption
    | cons a t => simp_all [List.getD] <;> assumption

end SaphyrModel.C10
