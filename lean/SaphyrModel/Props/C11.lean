import SaphyrModel.Sc.Scan1
import SaphyrModel.Api
/-! # C11 — Nesting depth cannot crash the process (what a model can say)

The model exhibits recursion *depth*, not stack bytes. The pull parser, the push interface
(`loadNodeLoop`, a loop with a depth counter) and the loader (explicit stacks) are not recursive in
the nesting depth by construction of the model: each is a function that is structurally recursive
on its fuel only. What is proved: flow nesting is bounded by 255 in the scanner, and the push
loop's depth counter is exactly the number of open collections. Stack bytes per frame of the real
code (drop glue, emitter) are measured by the harness in a child process. -/
namespace SaphyrModel.C11
open SaphyrModel SaphyrModel.Sc

/-- Flow collections cannot nest deeper than 255: opening one more at level 255 is an error value,
    and a successful open leaves the level at most 255. -/
theorem flow_depth_bounded (s : Sc) (hs : s.flowLevel ≤ 255) :
    match increaseFlowLevel s with
    | .ok (_, s') => s'.flowLevel = s.flowLevel + 1 ∧ s'.flowLevel ≤ 255
    | .err _ => s.flowLevel = 255
    | .panic _ => False := by
  unfold increaseFlowLevel
  simp only [Bind.bind, Sc.modS, Sc.getS]
  by_cases h : s.flowLevel ≥ 255
  · simp [h, Sc.err, throwE]; omega
  · simp only [h, ↓reduceIte, Sc.modS]
    exact ⟨trivial, by show s.flowLevel + 1 ≤ 255; omega⟩

/-- nesting effect of an event: +1 for a collection start, −1 for a collection end, 0 otherwise -/
def depthEffect : Event → Int
  | .sequenceStart .. | .mappingStart .. => 1
  | .sequenceEnd | .mappingEnd => -1
  | _ => 0

theorem pull_out (s s1 : Push) (e : Ev) (h : s.pull = .ok (e, s1)) : s1.out = s.out := by
  unfold Push.pull at h
  cases hn : nextImpl s.api with
  | ok r => obtain ⟨v, a⟩ := r; simp [hn] at h; rw [← h.2]
  | err x => simp [hn] at h
  | panic x => simp [hn] at h

/-- The push interface forwards events until the open-collection count returns to zero: when the
    node loop started at depth `d` succeeds, it has delivered a non-empty run of events whose total
    nesting effect is `-d` — for `d = 0`, exactly one complete node, however deeply nested. The
    loop is structurally recursive on its fuel, not on the nesting depth. -/
theorem push_loop_balanced (fuel d : Nat) (s s' : Push) (h : loadNodeLoop fuel d s = .ok s') :
    ∃ evs : List Ev, evs ≠ [] ∧ s'.out = evs.reverse ++ s.out ∧
      (d : Int) + (evs.map (fun e => depthEffect e.1)).sum = 0 := by
  induction fuel generalizing d s with
  | zero => simp [loadNodeLoop] at h
  | succ n ih =>
    unfold loadNodeLoop at h
    cases hp : s.pull with
    | err x => simp [hp] at h
    | panic x => simp [hp] at h
    | ok r =>
      obtain ⟨e, s1⟩ := r
      have ho := pull_out s s1 e hp
      simp only [hp] at h
      have step : ∀ d', loadNodeLoop n d' (s1.recv e) = .ok s' → (d : Int) + depthEffect e.1 = d' →
          ∃ evs : List Ev, evs ≠ [] ∧ s'.out = evs.reverse ++ s.out ∧
            (d : Int) + (evs.map (fun e => depthEffect e.1)).sum = 0 := by
        intro d' hl hd
        obtain ⟨evs, _, hout, hsum⟩ := ih d' (s1.recv e) hl
        refine ⟨e :: evs, by simp, ?_, ?_⟩
        · simp [hout, Push.recv, ho]
        · simp only [List.map_cons, List.sum_cons]; omega
      have stop : s' = s1.recv e → (d : Int) + depthEffect e.1 = 0 →
          ∃ evs : List Ev, evs ≠ [] ∧ s'.out = evs.reverse ++ s.out ∧
            (d : Int) + (evs.map (fun e => depthEffect e.1)).sum = 0 := by
        intro hs hd
        refine ⟨[e], by simp, ?_, ?_⟩
        · simp [hs, Push.recv, ho]
        · simpa using hd
      split at h
      · exact step (d + 1) h (by simp [depthEffect, *])
      · exact step (d + 1) h (by simp [depthEffect, *])
      all_goals first
        | (split at h
           · simp at h
           · split at h
             · rename_i hd1; simp only [Res.ok.injEq] at h
               exact stop h.symm (by simp [depthEffect, *])
             · rename_i hd0 hd1
               exact step (d - 1) h (by simp [depthEffect, *]; omega))
        | (split at h
           · rename_i hd0; simp only [Res.ok.injEq] at h
             exact stop h.symm (by simp [depthEffect, *])
           · exact step d h (by simp [depthEffect, *]))
        | simp at h

end SaphyrModel.C11
