import SaphyrModel.Sc.Scan3
/-! # C14 — Line-break style does not change the parse (component theorems)

The character tests the scanner applies cannot tell LF from CR, and the three break primitives
advance the position identically on LF, CR LF and CR. The whole-scanner relational theorem is not
attempted; the check compares the implementation with itself under both substitutions. -/
namespace SaphyrModel.C14
open SaphyrModel SaphyrModel.Sc

/-- every character class of `char_traits` gives LF and CR the same answer -/
theorem classes_break_blind :
    isZ '\n' = isZ '\r' ∧ isBreak '\n' = isBreak '\r' ∧ isBreakz '\n' = isBreakz '\r' ∧
    isBlank '\n' = isBlank '\r' ∧ isBlankOrBreakz '\n' = isBlankOrBreakz '\r' ∧ isDigit '\n' = isDigit '\r' ∧
    isAlpha '\n' = isAlpha '\r' ∧ isHex '\n' = isHex '\r' ∧ isFlow '\n' = isFlow '\r' ∧ isBom '\n' = isBom '\r' ∧
    isYamlNonBreak '\n' = isYamlNonBreak '\r' ∧ isYamlNonSpace '\n' = isYamlNonSpace '\r' ∧
    isAnchorChar '\n' = isAnchorChar '\r' ∧ isWordChar '\n' = isWordChar '\r' ∧ isUriChar '\n' = isUriChar '\r' ∧
    isTagChar '\n' = isTagChar '\r' := by decide

/-- `skip_linebreak` on a string input: after LF, after CR LF and after a lone CR (followed by any
    non-LF character) the reported line and column are the same: next line, column 0 -/
theorem skipLinebreak_same_position (s : Sc) (rest : Str) (c : Char) (hk : s.inp.kind = .str) (hc : c ≠ '\n') :
    let run (text : Str) := skipLinebreak { s with inp := { s.inp with iter := text } }
    (match run ('\n' :: c :: rest), run ('\r' :: '\n' :: c :: rest), run ('\r' :: c :: rest) with
     | .ok (_, a), .ok (_, b), .ok (_, d) =>
       a.mark.line = s.mark.line + 1 ∧ a.mark.col = 0 ∧ b.mark.line = a.mark.line ∧ b.mark.col = 0 ∧
       d.mark.line = a.mark.line ∧ d.mark.col = 0 ∧
       a.inp.iter = c :: rest ∧ b.inp.iter = c :: rest ∧ d.inp.iter = c :: rest
     | _, _, _ => False) := by
  have hc' : (c == '\n') = false := by simpa using hc
  simp [skipLinebreak, skipBlank, skipNl, liftI, In.next2Are, In.nextIsBreak, In.nextIs, In.skip, advance, modS,
    Bind.bind, hk, isBreak, hc', hc]

end SaphyrModel.C14
