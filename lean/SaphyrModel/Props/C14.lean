import SaphyrModel.Sc.Scan3
import SaphyrModel.Proofs.BlockLitBreaks
import SaphyrModel.Proofs.BlockLitToken
import SaphyrModel.Proofs.BlockFold
/-! # C14 — Line-break style does not change the parse (component theorems)

The character tests the scanner applies cannot tell LF from CR, and the three break primitives
advance the position identically on LF, CR LF and CR. For one whole token kind the property is proved for every
input of that shape: the content lines of a literal block scalar (`literal_block_break_blind`: any number of lines,
any indentation, the three spellings chosen independently per line) decode to the same text — breaks reported as
line feeds — and leave the scanner on the same line and in the same column. The whole-scanner relational theorem
is not attempted; the check compares the implementation with itself under both substitutions. -/
namespace SaphyrModel.C14
open SaphyrModel SaphyrModel.Sc

/-- every character class of `char_traits` gives LF and CR the same answer -/
theorem classes_break_blind :
    isZ '\n' = isZ '\r' ∧ isBreak '\n' = isBreak '\r' ∧ isBreakz '\n' = isBreakz '\r' ∧
    isBlank '\n' = isBlank '\r' ∧ isBlankOrBreakz '\n' = isBlankOrBreakz '\r' ∧ isDigit '\n' = isDigit '\r' ∧
    isAlpha '\n' = isAlpha '\r' ∧ isHex '\n' = isHex '\r' ∧ isFlow '\n' = isFlow '\r' ∧ isBom '\n' = isBom '\r' ∧
    isYamlNonBreak '\n' = isYamlNonBreak '\r' ∧ isYamlNonSpace '\n' = isYamlNonSpace '\r' ∧
    isAnchorChar '\n' = isAnchorChar '\r' ∧ isWordChar '\n' = isWordChar '\r' ∧ isUriChar '\n' = isUriChar '\r' ∧
    isTagChar '\n' = isTagChar '\r' := by decide

/-- `skip_linebreak` on a string input: after LF, after CR LF and after a lone CR (followed by any
    non-LF character) the reported line and column are the same: next line, column 0 -/
theorem skipLinebreak_same_position (s : Sc) (rest : Str) (c : Char) (hk : s.inp.kind = .str) (hc : c ≠ '\n') :
    let run (text : Str) := skipLinebreak { s with inp := { s.inp with iter := text } }
    (match run ('\n' :: c :: rest), run ('\r' :: '\n' :: c :: rest), run ('\r' :: c :: rest) with
     | .ok (_, a), .ok (_, b), .ok (_, d) =>
       a.mark.line = s.mark.line + 1 ∧ a.mark.col = 0 ∧ b.mark.line = a.mark.line ∧ b.mark.col = 0 ∧
       d.mark.line = a.mark.line ∧ d.mark.col = 0 ∧
       a.inp.iter = c :: rest ∧ b.inp.iter = c :: rest ∧ d.inp.iter = c :: rest
     | _, _, _ => False) := by
  have hc' : (c == '\n') = false := by simpa using hc
  simp [skipLinebreak, skipBlank, skipNl, liftI, In.next2Are, In.nextIsBreak, In.nextIs, In.skip, advance, modS,
    Bind.bind, hk, isBreak, hc']

open SaphyrModel.C14L SaphyrModel.C05 in
/-- **The content of a literal block scalar does not depend on the spelling of its line breaks — for every
    list of lines.** Take any content lines (non-empty, free of breaks and NUL), indented by `ind ≥ 1`, and end
    each of them by a line feed, CR LF or a lone CR, independently per line and differently in two texts; let the
    text continue with anything that does not start with a space or a break. From two string-input states on the
    same line and column, whenever both content loops complete they return the same text (in which every break is
    a line feed), the same pending breaks, and leave the scanner on the same line and in column 0 in front of the
    same continuation. Only character indices may differ. -/
theorem literal_block_break_blind (ind : Nat) (hind : ind ≠ 0) (tail : Str) (ht1 : tail.headD '\x00' ≠ ' ')
    (ht2 : isBreak (tail.headD '\x00') = false)
    (l : Str) (b1 b2 : Brk) (ls1 ls2 : List (Str × Brk)) (hsame : ls1.map Prod.fst = ls2.map Prod.fst)
    (hl : GoodLine l) (hls : ∀ p ∈ ls1, GoodLine p.1)
    (a : BlkAcc) (s1 s2 : Sc) (f1 f2 : Nat)
    (hk1 : s1.inp.kind = .str) (hk2 : s2.inp.kind = .str) (hc1 : s1.mark.col = ind) (hc2 : s2.mark.col = ind)
    (hline : s1.mark.line = s2.mark.line)
    (hi1 : s1.inp.iter = l ++ (b1.txt ++ restLinesB ind ls1 tail))
    (hi2 : s2.inp.iter = l ++ (b2.txt ++ restLinesB ind ls2 tail))
    (r1 r2 : BlkAcc) (t1 t2 : Sc)
    (h1 : blockScalarLines true ind f1 a s1 = .ok (r1, t1)) (h2 : blockScalarLines true ind f2 a s2 = .ok (r2, t2)) :
    r1.str = r2.str ∧ r1.leadingBreak = r2.leadingBreak ∧ r1.trailingBreaks = r2.trailingBreaks ∧
    t1.mark.line = t2.mark.line ∧ t1.mark.col = t2.mark.col ∧ t1.inp.iter = t2.inp.iter ∧
    (∀ c ∈ r1.str.drop (a.str ++ a.leadingBreak ++ a.trailingBreaks).length, c ≠ '\r') := by
  have hls2 : ∀ p ∈ ls2, GoodLine p.1 := by
    intro p hp
    have : p.1 ∈ ls2.map Prod.fst := List.mem_map_of_mem hp
    rw [← hsame] at this
    obtain ⟨q, hq, hqe⟩ := List.mem_map.mp this
    rw [← hqe]; exact hls q hq
  have hlen : ls1.length = ls2.length := by
    have := congrArg List.length hsame
    simpa using this
  rcases literal_lines_any_break ind hind tail ht1 ht2 ls1 l b1 a s1 f1 hl hls hk1 hc1 hi1 with ⟨p, hp⟩ | ⟨u1, bl1, e1, _, i1, c1, n1, _⟩
  · rw [hp] at h1; cases h1
  rcases literal_lines_any_break ind hind tail ht1 ht2 ls2 l b2 a s2 f2 hl hls2 hk2 hc2 hi2 with ⟨p, hp⟩ | ⟨u2, bl2, e2, _, i2, c2, n2, _⟩
  · rw [hp] at h2; cases h2
  rw [e1] at h1; rw [e2] at h2
  cases h1; cases h2
  refine ⟨by simp only [joinB, hsame], rfl, rfl, by rw [n1, n2, hline, hlen], by rw [c1, c2], by rw [i1, i2], ?_⟩
  intro c hc
  simp only [List.drop_left'] at hc
  refine joinLines_no_cr (ls1.map Prod.fst) l hl.2 ?_ c hc
  intro l' hl' x hx
  obtain ⟨q, hq, hqe⟩ := List.mem_map.mp hl'
  rw [← hqe] at hx
  exact (hls q hq).2 x hx

/-- non-vacuity: two content lines `ab`, `c` at indentation 1, ended by CR LF and a lone CR in one text and by
    line feeds in the other, continue with `x`: both content loops complete, with `ab\nc`, on line 4, column 0 -/
example :
    let st (t : Str) : Sc := { mkSc .str 0 t with mark := ⟨3, 2, 1⟩ }
    let out (t : Str) : Option (Str × Nat × Nat × Str) :=
      match blockScalarLines true 1 20 ⟨[], [], [], false⟩ (st t) with
      | .ok (r, s) => some (r.str, s.mark.line, s.mark.col, s.inp.iter)
      | _ => none
    out ['a','b','\r','\n',' ','c','\r','x'] = some (['a','b','\n','c'], 4, 0, ['x']) ∧
    out ['a','b','\n',' ','c','\n','x'] = out ['a','b','\r','\n',' ','c','\r','x'] := by decide +kernel

open SaphyrModel.C14L SaphyrModel.C05 SaphyrModel.C05T in
/-- **A whole literal block scalar gives the same token under every spelling of its line breaks.** Two texts
    hold the same literal block scalar — same header (nothing, `-`, `+`), same content lines at the same
    indentation, same continuation — but spell each line break (the one that ends the header line included)
    independently as LF, CR LF or a lone CR. Scanned from two string-input states on the same line with the same
    parent indentation, whenever both scans complete the two tokens are the same scalar (same style, same text,
    in which every break is a line feed) and start and end on the same lines and in the same columns, and both
    scanners stand on the same line, in the same column, in front of the same rest. -/
theorem literal_block_token_break_blind (sm1 sm2 : Marker) (hd : Hdr) (ind : Nat) (hind : ind ≠ 0) (tail : Str)
    (ht1 : tail.headD '\x00' ≠ ' ') (ht2 : isBreak (tail.headD '\x00') = false)
    (l : Str) (a1 a2 b1 b2 : Brk) (ls1 ls2 : List (Str × Brk)) (hsame : ls1.map Prod.fst = ls2.map Prod.fst)
    (hl : GoodLine l) (hl1 : l.headD '\x00' ≠ ' ') (hls : ∀ p ∈ ls1, GoodLine p.1)
    (u1 u2 : Sc) (hk1 : u1.inp.kind = .str) (hk2 : u2.inp.kind = .str) (hline : u1.mark.line = u2.mark.line)
    (hind12 : u1.indent = u2.indent) (hI : (u1.indent + 1).toNat ≤ ind)
    (hi1 : u1.inp.iter = hd.txt ++ (a1.txt ++ (List.replicate ind ' ' ++ (l ++ (b1.txt ++ restLinesB ind ls1 tail)))))
    (hi2 : u2.inp.iter = hd.txt ++ (a2.txt ++ (List.replicate ind ' ' ++ (l ++ (b2.txt ++ restLinesB ind ls2 tail)))))
    (t1 t2 : Token) (v1 v2 : Sc)
    (h1 : scanBlockScalarBody true sm1 u1 = .ok (t1, v1)) (h2 : scanBlockScalarBody true sm2 u2 = .ok (t2, v2)) :
    t1.ty = t2.ty ∧ t1.span.start.line = t2.span.start.line ∧ t1.span.start.col = t2.span.start.col ∧
    t1.span.stop.line = t2.span.stop.line ∧ t1.span.stop.col = t2.span.stop.col ∧
    v1.inp.iter = v2.inp.iter ∧ v1.mark.line = v2.mark.line ∧ v1.mark.col = v2.mark.col := by
  have hls2 : ∀ p ∈ ls2, GoodLine p.1 := by
    intro p hp
    have : p.1 ∈ ls2.map Prod.fst := List.mem_map_of_mem hp
    rw [← hsame] at this
    obtain ⟨q, hq, hqe⟩ := List.mem_map.mp this
    rw [← hqe]; exact hls q hq
  have hlen : ls1.length = ls2.length := by
    have := congrArg List.length hsame
    simpa using this
  rcases literal_block_token sm1 hd a1 ind hind tail ht1 ht2 ls1 l b1 hl hl1 hls u1 u1.mark.line u1.mark.col u1.indent _ hI
      ⟨hk1, hi1, rfl, rfl, rfl, rfl⟩ with ⟨p, hp⟩ | ⟨tok1, w1, e1, ⟨x1, x2, x3, x4, x5, _, _⟩, _, y2, y3, y4, _⟩
  · rw [hp] at h1; cases h1
  rcases literal_block_token sm2 hd a2 ind hind tail ht1 ht2 ls2 l b2 hl hl1 hls2 u2 u2.mark.line u2.mark.col u2.indent _
      (by rw [← hind12]; exact hI) ⟨hk2, hi2, rfl, rfl, rfl, rfl⟩ with ⟨p, hp⟩ | ⟨tok2, w2, e2, ⟨z1, z2, z3, z4, z5, _, _⟩, _, q2, q3, q4, _⟩
  · rw [hp] at h2; cases h2
  rw [e1] at h1; rw [e2] at h2
  cases h1; cases h2
  refine ⟨?_, by rw [x2, z2, hline], by rw [x3, z3], by rw [x4, z4, hline, hlen], by rw [x5, z5],
    by rw [y2, q2], by rw [y3, q3, hline, hlen], by rw [y4, q4]⟩
  rw [x1, z1]
  simp only [joinB, hsame]

open SaphyrModel.C14L SaphyrModel.C05 SaphyrModel.C05T SaphyrModel.C05F in
/-- the same for the folded style (content lines that do not start with a blank): same token — the lines joined
    by single spaces — under every spelling of every line break -/
theorem folded_block_token_break_blind (sm1 sm2 : Marker) (hd : Hdr) (ind : Nat) (hind : ind ≠ 0) (tail : Str)
    (ht1 : tail.headD '\x00' ≠ ' ') (ht2 : isBreak (tail.headD '\x00') = false)
    (l : Str) (a1 a2 b1 b2 : Brk) (ls1 ls2 : List (Str × Brk)) (hsame : ls1.map Prod.fst = ls2.map Prod.fst)
    (hl : FoldLine l) (hls : ∀ p ∈ ls1, FoldLine p.1)
    (u1 u2 : Sc) (hk1 : u1.inp.kind = .str) (hk2 : u2.inp.kind = .str) (hline : u1.mark.line = u2.mark.line)
    (hind12 : u1.indent = u2.indent) (hI : (u1.indent + 1).toNat ≤ ind)
    (hi1 : u1.inp.iter = hd.txt ++ (a1.txt ++ (List.replicate ind ' ' ++ (l ++ (b1.txt ++ restLinesB ind ls1 tail)))))
    (hi2 : u2.inp.iter = hd.txt ++ (a2.txt ++ (List.replicate ind ' ' ++ (l ++ (b2.txt ++ restLinesB ind ls2 tail)))))
    (t1 t2 : Token) (v1 v2 : Sc)
    (h1 : scanBlockScalarBody false sm1 u1 = .ok (t1, v1)) (h2 : scanBlockScalarBody false sm2 u2 = .ok (t2, v2)) :
    t1.ty = t2.ty ∧ t1.span.start.line = t2.span.start.line ∧ t1.span.start.col = t2.span.start.col ∧
    t1.span.stop.line = t2.span.stop.line ∧ t1.span.stop.col = t2.span.stop.col ∧
    v1.inp.iter = v2.inp.iter ∧ v1.mark.line = v2.mark.line ∧ v1.mark.col = v2.mark.col := by
  have hls2 : ∀ p ∈ ls2, FoldLine p.1 := by
    intro p hp
    have : p.1 ∈ ls2.map Prod.fst := List.mem_map_of_mem hp
    rw [← hsame] at this
    obtain ⟨q, hq, hqe⟩ := List.mem_map.mp this
    rw [← hqe]; exact hls q hq
  have hlen : ls1.length = ls2.length := by
    have := congrArg List.length hsame
    simpa using this
  rcases folded_block_token sm1 hd a1 ind hind tail ht1 ht2 ls1 l b1 hl hls u1 u1.mark.line u1.mark.col u1.indent _ hI
      ⟨hk1, hi1, rfl, rfl, rfl, rfl⟩ with ⟨p, hp⟩ | ⟨tok1, w1, e1, ⟨x1, x2, x3, x4, x5, _, _⟩, _, y2, y3, y4, _⟩
  · rw [hp] at h1; cases h1
  rcases folded_block_token sm2 hd a2 ind hind tail ht1 ht2 ls2 l b2 hl hls2 u2 u2.mark.line u2.mark.col u2.indent _
      (by rw [← hind12]; exact hI) ⟨hk2, hi2, rfl, rfl, rfl, rfl⟩ with ⟨p, hp⟩ | ⟨tok2, w2, e2, ⟨z1, z2, z3, z4, z5, _, _⟩, _, q2, q3, q4, _⟩
  · rw [hp] at h2; cases h2
  rw [e1] at h1; rw [e2] at h2
  cases h1; cases h2
  refine ⟨?_, by rw [x2, z2, hline], by rw [x3, z3], by rw [x4, z4, hline, hlen], by rw [x5, z5],
    by rw [y2, q2], by rw [y3, q3, hline, hlen], by rw [y4, q4]⟩
  rw [x1, z1]
  simp only [hsame]

end SaphyrModel.C14
