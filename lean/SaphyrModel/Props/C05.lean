import SaphyrModel.Sc.Scan2
/-! # C05 — Block scalars (function-level component theorems)

The text of a block scalar is assembled from content lines and breaks; whatever the break style
in the input, a break contributes exactly one line feed. The chomping / folding / indentation
assembly (`block_decode`) is not proved: for it the check relies on the exhaustive enumeration of
line lists against the independent §8.1 reference (oracle) and the correspondence. -/
namespace SaphyrModel.C05
open SaphyrModel SaphyrModel.Sc

/-- `read_break`: whichever break was consumed (LF, CR LF or CR), exactly one `'\n'` is appended to
    the scalar text -/
theorem readBreak_appends_lf (acc : Str) (s : Sc) :
    match readBreak acc s with
    | .ok (r, _) => r = acc ++ ['\n']
    | _ => True := by
  unfold readBreak
  simp only [Bind.bind]
  cases skipBreak s with
  | ok r => obtain ⟨_, s'⟩ := r; simp [Pure.pure]
  | err e => trivial
  | panic p => trivial

end SaphyrModel.C05
