import SaphyrModel.Sc.Scan2
import SaphyrModel.Proofs.BlockLit
import SaphyrModel.Proofs.BlockLitToken
import SaphyrModel.Proofs.BlockFold
/-! # C05 — Block scalars (function-level theorems)

**Proved** (string input, for every list of content lines, every indentation ≥ 1, every accumulated prefix):
* `literal_content_lines` — in front of `n ≥ 1` content lines, each indented by exactly the content
  indentation and ended by a line feed, followed by a less indented line or the end of the input, the content
  loop of a literal block scalar returns the lines verbatim, joined by single line feeds (nothing added,
  dropped or folded; further spaces at the start of a line are content), leaves one pending line feed and no
  trailing breaks, and stops in column 0 in front of what follows;
* `literal_chomping` — the chomping step then gives: strip — the lines without a final break; clip and keep —
  exactly one final break;
* `content_line_read_verbatim`, `indentation_skipped` — the two ingredients, for *both* back-ends and whatever
  path the scanner takes (buffer or raw reads; one look-ahead or refills): a content line is read up to the next
  break; the spaces in front of a line are skipped up to the content indentation, no further;
* `readBreak_appends_lf` — whichever break was consumed, one line feed is appended.

* `literal_block_scalar_token` — **the whole scalar**: from just after the `|`, with the header ``, `-` or `+`,
  any spelling of the break that ends the header line, the indentation detected from the first content line,
  any number of content lines each ended by its own spelling of a break: the scanner returns the token of a
  literal scalar whose text is the lines joined by line feeds and chomped as the header says (strip — no final
  break; clip, keep — one), spanning from the first content line to column 0 of the line after the last.

* `folded_block_scalar_token` — the same for the folded style (`>`), for content lines none of which starts with
  a blank: the text is the lines joined by *single spaces* (each single line break between two such lines is
  folded into one space), chomped as the header says.

**Not proved**: in folded style the more-indented and blank lines (which are not folded), blank and more- or
less-indented line bookkeeping between content lines, explicit indentation indicators, the end-of-stream cases. For
those the check relies on the exhaustive enumeration of line lists against the independent §8.1 reference and
on the correspondence. -/
namespace SaphyrModel.C05
open SaphyrModel SaphyrModel.Sc

/-- `read_break`: whichever break was consumed (LF, CR LF or CR), exactly one `'\n'` is appended to
    the scalar text -/
theorem readBreak_appends_lf (acc : Str) (s : Sc) :
    match readBreak acc s with
    | .ok (r, _) => r = acc ++ ['\n']
    | _ => True := by
  unfold readBreak
  simp only [Bind.bind]
  cases skipBreak s with
  | ok r => obtain ⟨_, s'⟩ := r; simp [Pure.pure]
  | err e => trivial
  | panic p => trivial

/-- **The content lines of a literal block scalar are read verbatim** (see `Proofs/BlockLit.lean`). -/
theorem literal_content_lines (ind : Nat) (hind : ind ≠ 0) (tail : Str) (ht1 : tail.headD '\x00' ≠ ' ')
    (ht2 : isBreak (tail.headD '\x00') = false) (ls : List Str) (l : Str) (a : BlkAcc) (s : Sc) (fuel : Nat)
    (hl : GoodLine l) (hls : ∀ l' ∈ ls, GoodLine l') (hk : s.inp.kind = .str) (hcol : s.mark.col = ind)
    (hi : s.inp.iter = l ++ '\n' :: restLines ind ls tail) :
    (∃ p, blockScalarLines true ind fuel a s = .panic p) ∨
    ∃ s' b, blockScalarLines true ind fuel a s =
        .ok (⟨a.str ++ a.leadingBreak ++ a.trailingBreaks ++ joinLines l ls, ['\n'], [], b⟩, s') ∧
      s'.inp.kind = .str ∧ s'.inp.iter = tail ∧ s'.mark.col = 0 :=
  literal_lines ind hind tail ht1 ht2 ls l a s fuel hl hls hk hcol hi

/-- chomping of a literal block scalar without trailing blank lines: strip — no final break; clip, keep — one -/
theorem literal_chomping' (chomping : Chomping) (ind : Nat) (content : Str) (b : Bool) (s : Sc)
    (hk : s.inp.kind = .str) (hcol : s.mark.col = 0) :
    blockFinish chomping ind ⟨content, ['\n'], [], b⟩ s s =
      .ok ((match chomping with | .strip => content | _ => content ++ ['\n']), s) :=
  literal_chomping chomping ind content b s hk hcol

/-- a content line is read verbatim up to the next break or the end — on a string input, whichever of the two
    paths (look-ahead buffer or raw reads) is taken -/
theorem content_line_read_verbatim (str : Str) (s : Sc) (hk : s.inp.kind = .str) :
    (∃ p, scanBlockScalarContentLine str s = .panic p) ∨
    scanBlockScalarContentLine str s = .ok (str ++ s.inp.iter.takeWhile C10.nb,
      C10.advS s (s.inp.iter.takeWhile C10.nb).length { s.inp with iter := s.inp.iter.dropWhile C10.nb }) :=
  C10.line_str str s hk

/-- the spaces in front of a block-scalar line are skipped up to the content indentation and no further — on a
    string input, whichever path (one look-ahead request or the refill loop) is taken -/
theorem indentation_skipped (ind : Nat) (u : Sc) (hk : u.inp.kind = .str) :
    (∃ p, C10.indentPart ind u = .panic p) ∨
    ∃ la', C10.indentPart ind u = .ok ((), C10.advS u (C10.spc (ind - u.mark.col) u.inp.iter)
      { u.inp with iter := u.inp.iter.drop (C10.spc (ind - u.mark.col) u.inp.iter), la := la' }) :=
  C10.part_str ind u hk

/-- the hypotheses of `literal_content_lines` are met by ordinary lines -/
example : GoodLine "a b".toList ∧ GoodLine "  more indented".toList ∧
    restLines 2 ["x".toList] "k: v".toList = "  x\nk: v".toList ∧ joinLines "a".toList ["b".toList, "c".toList] = "a\nb\nc".toList := by
  refine ⟨⟨by decide, by decide⟩, ⟨by decide, by decide⟩, by decide, by decide⟩

open SaphyrModel.C14L SaphyrModel.C05T in
/-- **A whole literal block scalar is scanned to the token the specification prescribes — for every list of
    content lines.** The scanner stands just after the `|` of a literal block scalar (string input, line `L`,
    parent indentation `I`). What follows is: the header `hd` (nothing, `-` or `+`); a line break in any spelling;
    a first content line `l` indented by `ind ≥ 1` spaces (deeper than the parent, not starting with a space)
    and any number of further lines `ls` indented alike (these may start with more spaces: they are content);
    every line is non-empty, free of breaks and NUL, and ends with its own spelling of a break; then text that
    does not start with a space or a break. The scanner either runs out of the fuel it was given or returns a
    token that is a *literal scalar* whose text is exactly the lines joined by single line feeds, followed by one
    line feed unless the header says strip; the token starts on line `L + 1` in column `ind` and ends in column 0
    of the line after the last content line, where the scanner now stands in front of the rest. -/
theorem literal_block_scalar_token (sm : Marker) (hd : Hdr) (b0 : Brk) (ind : Nat) (hind : ind ≠ 0) (tail : Str)
    (ht1 : tail.headD '\x00' ≠ ' ') (ht2 : isBreak (tail.headD '\x00') = false) (ls : List (Str × Brk)) (l : Str) (b : Brk)
    (hl : GoodLine l) (hl1 : l.headD '\x00' ≠ ' ') (hls : ∀ p ∈ ls, GoodLine p.1) (u : Sc) (L : Nat)
    (hI : (u.indent + 1).toNat ≤ ind) (hk : u.inp.kind = .str) (hline : u.mark.line = L)
    (hi : u.inp.iter = hd.txt ++ (b0.txt ++ (List.replicate ind ' ' ++ (l ++ (b.txt ++ restLinesB ind ls tail))))) :
    (∃ p, scanBlockScalarBody true sm u = .panic p) ∨
    ∃ tok u', scanBlockScalarBody true sm u = .ok (tok, u') ∧
      tok.ty = .scalar .literal (chomped hd.chomp (joinLines l (ls.map Prod.fst))) ∧
      tok.span.start.line = L + 1 ∧ tok.span.start.col = ind ∧
      tok.span.stop.line = L + 1 + ls.length + 1 ∧ tok.span.stop.col = 0 ∧
      u'.inp.iter = tail ∧ u'.mark.line = L + 1 + ls.length + 1 ∧ u'.mark.col = 0 := by
  rcases literal_block_token sm hd b0 ind hind tail ht1 ht2 ls l b hl hl1 hls u L u.mark.col u.indent _ hI
      ⟨hk, hi, hline, rfl, rfl, rfl⟩ with h | ⟨tok, u', hok, ⟨h1, h2, h3, h4, h5, _, _⟩, _, h7, h8, h9, _⟩
  · exact Or.inl h
  · exact Or.inr ⟨tok, u', hok, h1, h2, h3, h4, h5, h7, h8, h9⟩

/-- non-vacuity: `|-`, CR LF, then the lines `ab` (LF) and ` c` (lone CR) at indentation 2 under a parent at
    indentation 0, then `x`: the token is the literal scalar `ab\n c` on lines 2–4 -/
example :
    (match scanBlockScalarBody true ⟨4, 1, 3⟩
        { mkSc .str 0 ['-','\r','\n',' ',' ','a','b','\n',' ',' ',' ','c','\r','x'] with indent := 0, mark := ⟨5, 1, 4⟩ } with
     | .ok (tok, u') => decide (tok.ty = .scalar .literal ['a','b','\n',' ','c']) && tok.span.start.line == 2 &&
         tok.span.start.col == 2 && tok.span.stop.line == 4 && tok.span.stop.col == 0 && decide (u'.inp.iter = ['x'])
     | _ => false) = true := by decide +kernel

open SaphyrModel.C14L SaphyrModel.C05T SaphyrModel.C05F in
/-- **A whole folded block scalar: single line breaks between text lines become single spaces — for every list
    of lines.** As `literal_block_scalar_token`, after a `>`: header ``/`-`/`+`, a break in any spelling, a first
    content line indented by `ind ≥ 1` spaces and any number of further lines at that indentation, every line
    non-empty, free of breaks and NUL and *not starting with a blank*, each ended by its own spelling of a break;
    then text that does not start with a space or a break. The token returned is a *folded scalar* whose text is
    the lines joined by single spaces, followed by one line feed unless the header says strip. -/
theorem folded_block_scalar_token (sm : Marker) (hd : Hdr) (b0 : Brk) (ind : Nat) (hind : ind ≠ 0) (tail : Str)
    (ht1 : tail.headD '\x00' ≠ ' ') (ht2 : isBreak (tail.headD '\x00') = false) (ls : List (Str × Brk)) (l : Str) (b : Brk)
    (hl : FoldLine l) (hls : ∀ p ∈ ls, FoldLine p.1) (u : Sc) (L : Nat)
    (hI : (u.indent + 1).toNat ≤ ind) (hk : u.inp.kind = .str) (hline : u.mark.line = L)
    (hi : u.inp.iter = hd.txt ++ (b0.txt ++ (List.replicate ind ' ' ++ (l ++ (b.txt ++ restLinesB ind ls tail))))) :
    (∃ p, scanBlockScalarBody false sm u = .panic p) ∨
    ∃ tok u', scanBlockScalarBody false sm u = .ok (tok, u') ∧
      tok.ty = .scalar .folded (chomped hd.chomp (joinSp l (ls.map Prod.fst))) ∧
      tok.span.start.line = L + 1 ∧ tok.span.start.col = ind ∧
      tok.span.stop.line = L + 1 + ls.length + 1 ∧ tok.span.stop.col = 0 ∧
      u'.inp.iter = tail ∧ u'.mark.line = L + 1 + ls.length + 1 ∧ u'.mark.col = 0 := by
  rcases folded_block_token sm hd b0 ind hind tail ht1 ht2 ls l b hl hls u L u.mark.col u.indent _ hI
      ⟨hk, hi, hline, rfl, rfl, rfl⟩ with h | ⟨tok, u', hok, ⟨h1, h2, h3, h4, h5, _, _⟩, _, h7, h8, h9, _⟩
  · exact Or.inl h
  · exact Or.inr ⟨tok, u', hok, h1, h2, h3, h4, h5, h7, h8, h9⟩

/-- non-vacuity: `>`, LF, then `ab` (CR LF), `cd` (LF), `e` (lone CR) at indentation 1, then `x`: `ab cd e\n` -/
example :
    (match scanBlockScalarBody false ⟨0, 1, 0⟩
        { mkSc .str 0 ['\n',' ','a','b','\r','\n',' ','c','d','\n',' ','e','\r','x'] with mark := ⟨1, 1, 1⟩ } with
     | .ok (tok, u') => decide (tok.ty = .scalar .folded ['a','b',' ','c','d',' ','e','\n']) && tok.span.start.line == 2 &&
         tok.span.stop.line == 5 && decide (u'.inp.iter = ['x'])
     | _ => false) = true := by decide +kernel

end SaphyrModel.C05
