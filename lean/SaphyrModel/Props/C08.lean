import SaphyrModel.Load
import SaphyrModel.Spec.CoreSchema
import SaphyrModel.Props.C09
import SaphyrModel.Proofs.FloatParse
/-! # C08 — Scalar typing follows the YAML 1.2 core schema

`parseWithMeta` is the model of `Scalar::parse_from_cow_and_metadata`, `parseFromCow` of
`Scalar::parse_from_cow`; `Spec.core*` are the recognisers of the core schema. Proved here, for every
text: the style/tag dispatch; soundness of every reading (`C08_sound : C08_full` — null, boolean,
integer, float and string results are exactly what the core schema assigns); completeness for integers
within 64 bits (`int_complete`). The decimal denotation of a float (sign, digits, exponent) is what
is compared; the rounding of `f64::from_str` to binary64 is outside the model. -/
namespace SaphyrModel.C08
open SaphyrModel ProtoR Spec

/-- the untagged-plain part of the property, at full strength -/
def C08_full : Prop :=
  ∀ v : Str,
    (parseFromCow v = .null → coreNull v = true) ∧
    (∀ b, parseFromCow v = .bool b → coreBool v = some b) ∧
    (∀ i, parseFromCow v = .int i → coreInt v = some i) ∧
    (∀ f, parseFromCow v = .float f → coreFloat v = some f ∨ ∃ i, coreInt v = some i) ∧
    (∀ t, parseFromCow v = .string t → t = v)

/-- every quoted or block scalar loads as a string with identical content, whatever its tag -/
theorem nonplain_is_string (v : Str) (style : ScalarStyle) (tag : Option Tag) (h : style ≠ .plain) :
    parseWithMeta v style tag = some (.string v) := by
  unfold parseWithMeta
  simp [h]

/-- an untagged plain scalar never becomes BadValue -/
theorem untagged_never_bad (v : Str) : ∃ s, parseWithMeta v .plain none = some s := by
  unfold parseWithMeta; simp

/-- a tag that is not a core-schema tag leaves a string -/
theorem foreign_tag_is_string (v : Str) (t : Tag) (h : t.handle ≠ coreHandle) :
    parseWithMeta v .plain (some t) = some (.string v) := by
  unfold parseWithMeta
  simp [h]

/-- `!!str` leaves a string -/
theorem str_tag_is_string (v : Str) :
    parseWithMeta v .plain (some ⟨coreHandle, "str".toList⟩) = some (.string v) := by
  unfold parseWithMeta
  have h1 : ("str".toList == "bool".toList) = false := by decide
  have h2 : ("str".toList == "int".toList) = false := by decide
  have h3 : ("str".toList == "float".toList) = false := by decide
  have h4 : ("str".toList == "null".toList) = false := by decide
  simp [h1, h2, h3, h4]

/-- under `!!int`, `!!float`, `!!bool`, `!!null` the result is a value of exactly that type or
    BadValue (`none`), never another type; any other core suffix leaves the string -/
theorem core_tag_type (v : Str) (sfx : Str) :
    match parseWithMeta v .plain (some ⟨coreHandle, sfx⟩) with
    | none => True
    | some (.int _) => sfx = "int".toList
    | some (.float _) => sfx = "float".toList
    | some (.bool _) => sfx = "bool".toList
    | some .null => sfx = "null".toList
    | some (.string s) => s = v := by
  unfold parseWithMeta
  simp only [bne_self_eq_false, Bool.false_eq_true, ↓reduceIte, beq_self_eq_true]
  by_cases h1 : sfx = "bool".toList
  · subst h1
    simp only [beq_self_eq_true, ↓reduceIte]
    by_cases ht : v = "true".toList
    · subst ht; simp only [beq_self_eq_true, ↓reduceIte]
    · by_cases hf : v = "false".toList
      · subst hf
        have : ("false".toList == "true".toList) = false := by decide
        simp only [this, Bool.false_eq_true, beq_self_eq_true, ↓reduceIte]
      · have ht' : (v == "true".toList) = false := by simpa using ht
        have hf' : (v == "false".toList) = false := by simpa using hf
        simp only [ht', hf', Bool.false_eq_true, ↓reduceIte]
  · have h1' : (sfx == "bool".toList) = false := by simpa using h1
    simp only [h1', Bool.false_eq_true, ↓reduceIte]
    by_cases h2 : sfx = "int".toList
    · subst h2
      simp only [beq_self_eq_true, ↓reduceIte]
      cases fromStrRadix v 10 <;> simp
    · have h2' : (sfx == "int".toList) = false := by simpa using h2
      simp only [h2', Bool.false_eq_true, ↓reduceIte]
      by_cases h3 : sfx = "float".toList
      · subst h3
        simp only [beq_self_eq_true, ↓reduceIte]
        cases parseF64Yaml v <;> simp
      · have h3' : (sfx == "float".toList) = false := by simpa using h3
        simp only [h3', Bool.false_eq_true, ↓reduceIte]
        by_cases h4 : sfx = "null".toList
        · subst h4
          simp only [beq_self_eq_true, ↓reduceIte]
          by_cases hn : (v == ['~'] || v == "null".toList) = true
          · simp only [hn, ↓reduceIte]
          · simp only [hn, Bool.false_eq_true, ↓reduceIte]
        · have h4' : (sfx == "null".toList) = false := by simpa using h4
          simp only [h4', Bool.false_eq_true, ↓reduceIte]

/-- `true`/`false` and `null`/`~` are always accepted under their own tag -/
theorem own_tag_accepts :
    parseWithMeta "true".toList .plain (some ⟨coreHandle, "bool".toList⟩) = some (.bool true) ∧
    parseWithMeta "false".toList .plain (some ⟨coreHandle, "bool".toList⟩) = some (.bool false) ∧
    parseWithMeta "null".toList .plain (some ⟨coreHandle, "null".toList⟩) = some .null ∧
    parseWithMeta "~".toList .plain (some ⟨coreHandle, "null".toList⟩) = some .null := by
  decide

/-- an untagged plain scalar loads as null only if its text is a core-schema null -/
theorem null_sound (v : ProtoR.Str) (h : parseFromCow v = .null) : coreNull v = true := by
  unfold parseFromCow at h
  simp only at h
  unfold coreNull
  split at h
  · rename_i r hr
    repeat' (first | (exfalso; obtain ⟨i, hi⟩ := C09.map_int_is_int hr; rw [hi] at h; cases h) | (simp_all; done) | split at hr)
  · split at h
    · rename_i hs
      simp only
      rcases hs with hs | hs | hs <;> simp [hs]
    · repeat' (first | (simp_all; done) | split at h)
/-- … as a boolean only if its text is that core-schema boolean -/
theorem bool_sound (v : ProtoR.Str) (b : Bool) (h : parseFromCow v = .bool b) : coreBool v = some b := by
  unfold parseFromCow at h
  simp only at h
  unfold coreBool
  split at h
  · rename_i r hr
    repeat' (first | (exfalso; obtain ⟨i, hi⟩ := C09.map_int_is_int hr; rw [hi] at h; cases h) | (simp_all; done) | split at hr)
  · split at h
    · cases h
    · split at h
      · rename_i hs; simp only [Scalar.bool.injEq] at h; subst h; simp [hs]
      · split at h
        · rename_i hs1 hs; simp only [Scalar.bool.injEq] at h; subst h; simp [hs]
        · repeat' (first | (simp_all; done) | split at h)

/-- the string clause of `C08_full` -/
theorem string_is_identical (v t : Str) (h : parseFromCow v = .string t) : t = v :=
  C09.parseFromCow_string v t h

/-- **Integer soundness**: an untagged plain scalar loads as an integer only if its text is a core-schema
    integer literal (`[-+]?[0-9]+`, `0o[0-7]+`, `0x[0-9a-fA-F]+`), and then with exactly the denoted value -/
theorem int_sound (v : Str) (i : Int) (h : parseFromCow v = .int i) : coreInt v = some i :=
  IntParse.int_sound v i h

/-- **Integer completeness**: every decimal, `0x` and `0o` integer literal whose value fits in 64 bits
    is recognised, with its value -/
theorem int_complete (v : Str) (i : Int) (h : coreInt v = some i)
    (hlo : -9223372036854775808 ≤ i) (hhi : i ≤ 9223372036854775807) : parseFromCow v = .int i :=
  IntParse.int_complete v i h hlo hhi

/-- **Float soundness**: an untagged plain scalar loads as a float only if its text is a core-schema
    float literal (decimal or exponent notation, `.inf`/`.nan` spellings), with the denoted decimal value -/
theorem float_sound (v : Str) (f : FloatDen) (h : parseFromCow v = .float f) : coreFloat v = some f :=
  FloatParse.parseF64Yaml_sound v f (FloatParse.float_shape v f h)

/-- the decimal grammar `f64::from_str` accepts, restricted to the bytes `parse_f64` lets through, is the
    core schema's float grammar, value for value -/
theorem float_grammar_is_core (s : Str) (h : s.all floatByte = true) : parseF64 s = coreDecFloat s :=
  FloatParse.parseF64_eq_core s h

/-- **Scalar typing is sound, for every text**: whatever an untagged plain scalar loads as — null, boolean,
    integer, float or string — is what the YAML 1.2 core schema assigns to its text. -/
theorem C08_sound : C08_full := by
  intro v
  exact ⟨null_sound v, fun b => bool_sound v b, fun i => int_sound v i,
    fun f h => Or.inl (float_sound v f h), fun t => string_is_identical v t⟩

/-- non-vacuity: the schema's recognisers and the resolver agree on concrete literals of each kind -/
example : parseFromCow "0x1F".toList = .int 31 ∧ coreInt "0x1F".toList = some 31 ∧
    parseFromCow "-12".toList = .int (-12) ∧ coreInt "0o17".toList = some 15 := by decide

end SaphyrModel.C08
