import SaphyrModel.Encoding
/-! # C18 — Byte input: encoding detection, and the decode loop always ends

`decodeLoop` is the model of `decode_loop` over an abstract decoder step with the contract
`Decoder.Contract` (the `encoding_rs` decoder itself is external). -/
namespace SaphyrModel.C18
open SaphyrModel.Encoding

/-- a text that starts with a non-NUL ASCII character `c`, encoded as UTF-16LE without BOM, is
    detected as UTF-16LE … -/
theorem detect_utf16le (c : Nat) (rest : List Nat) (h0 : 0 < c) (h1 : c < 128) :
    detect (c :: 0 :: rest) = .utf16le := by
  unfold detect forBom detectUtf16
  have : c ≠ 0 := by omega
  split <;> first | omega | (simp_all; try omega)
/-- … as UTF-16BE … -/
theorem detect_utf16be (c : Nat) (rest : List Nat) (h0 : 0 < c) (h1 : c < 128) :
    detect (0 :: c :: rest) = .utf16be := by
  unfold detect forBom detectUtf16
  have : c ≠ 0 := by omega
  simp_all
  omega
/-- … and its UTF-8 form (second byte not NUL: the text's second character is not NUL) as UTF-8 -/
theorem detect_utf8 (c d : Nat) (rest : List Nat) (h0 : 0 < c) (h1 : c < 128) (hd : 0 < d) :
    detect (c :: d :: rest) = .utf8 := by
  unfold detect forBom detectUtf16
  have : c ≠ 0 := by omega
  have : d ≠ 0 := by omega
  split <;> first | omega | (simp_all; try split <;> simp_all)
/-- a byte-order mark decides the encoding whatever follows -/
theorem bom_decides (rest : List Nat) :
    detect (0xEF :: 0xBB :: 0xBF :: rest) = .utf8 ∧ detect (0xFF :: 0xFE :: rest) = .utf16le ∧
    detect (0xFE :: 0xFF :: rest) = .utf16be := by
  simp [detect, forBom]

/-- the case the sniffing rule gets wrong (recorded finding): a NUL as second character of a UTF-8
    text is taken for UTF-16LE -/
example : detect [0x61, 0x00, 0x3A] = .utf16le := by decide

/-- potential of the loop: unread input (each byte counted twice) plus the shortfall of free
    output capacity below 4 -/
def potential (n : Nat) (s : LoopState) : Nat := 2 * (n - s.read) + (if s.cap - s.len < 4 then 1 else 0)

/-- **The decode loop always ends**: for every decoder that honours the contract, every input
    length, trap mode and starting state, `2·n + 2` iterations suffice — it never runs out of fuel. -/
theorem decode_loop_terminates (d : Decoder) (hd : d.Contract) (n : Nat) (strict : Bool) (repl : Nat)
    (fuel : Nat) (s : LoopState) (hs : s.read ≤ n) (hf : potential n s < fuel) :
    ∀ s', decodeLoop d n strict repl fuel s ≠ .outOfFuel s' := by
  induction fuel generalizing s with
  | zero => omega
  | succ k ih =>
    intro s'
    unfold decodeLoop
    simp only
    have hr := hd.read_le (n - s.read) (s.cap - s.len)
    have hw := hd.write_le (n - s.read) (s.cap - s.len)
    cases hres : (d.step (n - s.read) (s.cap - s.len)).1 with
    | inputEmpty => simp
    | outputFull =>
      simp only
      apply ih
      · simp only [reserve]; omega
      · -- after reserving at least 4 free bytes the shortfall term is 0; before, either input was
        -- consumed (free ≥ 4) or the shortfall term drops from 1 to 0
        have hfp := hd.full_progress (n - s.read) (s.cap - s.len)
        simp only [potential, reserve] at hf ⊢
        have h4 : 4 ≤ max (n / 10) 4 := Nat.le_max_right _ _
        split at hf
        · have : ¬ (max s.cap (s.len + (d.step (n - s.read) (s.cap - s.len)).2.2 + max (n / 10) 4) -
              (s.len + (d.step (n - s.read) (s.cap - s.len)).2.2) < 4) := by omega
          simp only [this, ↓reduceIte]
          omega
        · have hp := hfp (by omega) hres
          have : ¬ (max s.cap (s.len + (d.step (n - s.read) (s.cap - s.len)).2.2 + max (n / 10) 4) -
              (s.len + (d.step (n - s.read) (s.cap - s.len)).2.2) < 4) := by omega
          simp only [this, ↓reduceIte]
          omega
    | malformed =>
      simp only
      cases strict with
      | true => simp
      | false =>
        simp only [Bool.false_eq_true, ↓reduceIte]
        have hp := hd.malformed_progress (n - s.read) (s.cap - s.len) hres
        apply ih
        · simp only [reserve]; omega
        · simp only [potential, reserve] at hf ⊢
          generalize (d.step (n - s.read) (s.cap - s.len)).2.1 = e at hr hp ⊢
          generalize (d.step (n - s.read) (s.cap - s.len)).2.2 = w at hw ⊢
          have hsub : n - (s.read + e) + e = n - s.read := by omega
          show (2 * (n - (s.read + e)) + if max s.cap (s.len + w + repl + 0) - (s.len + w + repl) < 4 then 1 else 0) < k
          split <;> omega

/-- non-vacuity: a decoder that copies min(remaining, free) bytes satisfies the contract when it
    reports `OutputFull` only if output space ran out -/
example : (Decoder.mk fun r f => (if r ≤ f then .inputEmpty else .outputFull, min r f, min r f)).Contract :=
  ⟨by intro r f; simp; omega, by intro r f; simp; omega, by intro r f h; simp at h; split at h <;> simp at h,
   by intro r f h4 h; simp at h ⊢; omega⟩

end SaphyrModel.C18
