import SaphyrModel.Parser2
/-! # C16 — Tags resolve through the directives in force (parser level)

`Spec`: a tag spelling is `(handle, suffix)` as delivered by the scanner (suffix already
percent-decoded); the table binds handles to prefixes. -/
namespace SaphyrModel.C16
open SaphyrModel

/-- specification of tag resolution, written from the property text -/
def expectedTag (table : List (Str × Str)) (handle suffix : Str) : Option Tag :=
  if handle = ['!', '!'] then
    some ⟨(lookup ['!', '!'] table).getD "tag:yaml.org,2002:".toList, suffix⟩   -- `!!` unless redefined
  else if handle = [] ∧ suffix = ['!'] then
    some ⟨(lookup [] table).getD [], suffix⟩                                       -- the non-specific tag `!`
  else match lookup handle table with
    | some pfx => some ⟨pfx, suffix⟩                                               -- a declared handle (incl. `!`)
    | none => if isHandleForm handle then none                                     -- `!name!` never declared: error
              else some ⟨handle, suffix⟩                                           -- `!name` local tag, `!<…>` verbatim

/-- `resolve_tag` implements the specification: same tag, and an error exactly for an undeclared
    named handle -/
theorem resolveTag_spec (p : PState) (span : Span) (h sfx : Str) :
    (match resolveTag p span h sfx with
     | .ok t => expectedTag p.tags h sfx = some t
     | .err _ => expectedTag p.tags h sfx = none
     | .panic _ => False) := by
  unfold resolveTag expectedTag
  by_cases h1 : h = ['!', '!']
  · simp only [h1, if_true]
  · simp only [h1, if_false]
    by_cases h2 : h = [] ∧ sfx = ['!']
    · simp only [h2, and_self, if_true]
    · simp only [h2, if_false]
      cases hl : lookup h p.tags with
      | some pfx => simp only
      | none =>
        simp only
        by_cases h3 : isHandleForm h = true
        · simp only [h3, if_true]
        · simp only [h3]; rfl

theorem tagsInsert_lookup (h pf : Str) (t : List (Str × Str)) (k : Str) :
    lookup k (tagsInsert h pf t) = if k = h then some pf else lookup k t := by
  induction t with
  | nil => simp only [tagsInsert, lookup]
  | cons kv r ih =>
    obtain ⟨k', v'⟩ := kv
    simp only [tagsInsert]
    split
    · rename_i hk; subst hk
      simp only [lookup]
      split <;> simp_all
    · simp only [lookup, ih]
      split <;> simp_all

/-- All `%TAG` declarations of a document are in force together: after `tagsExtend`, every declared
    handle resolves to its (last) declared prefix and every other handle to what it was bound to. -/
theorem tagsExtend_lookup (old new : List (Str × Str)) (k : Str) :
    lookup k (tagsExtend old new) =
      match lookup k new.reverse with
      | some pf => some pf
      | none => lookup k old := by
  unfold tagsExtend
  induction new generalizing old with
  | nil => simp [lookup]
  | cons kv r ih =>
    obtain ⟨h, pf⟩ := kv
    simp only [List.foldl_cons, List.reverse_cons]
    rw [ih]
    have happ : ∀ (a b : List (Str × Str)), lookup k (a ++ b) = match lookup k a with
        | some v => some v | none => lookup k b := by
      intro a b
      induction a with
      | nil => simp [lookup]
      | cons x xs iha =>
        obtain ⟨xk, xv⟩ := x
        simp only [List.cons_append, lookup]
        split <;> simp_all
    rw [happ]
    cases hr : lookup k r.reverse with
    | some v => simp
    | none =>
      simp only [lookup, tagsInsert_lookup]
      split <;> simp_all

/-- A handle may be declared only once per document: the directive loop rejects a `%TAG` whose
    handle is already among this document's declarations. -/
theorem duplicate_handle_rejected (fuel : Nat) (p : PState) (t : Token) (rest : List Token)
    (h pf : Str) (v : Bool) (acc : List (Str × Str)) (hp : p.toks = t :: rest)
    (ht : t.ty = .tagDirective h pf) (hne : h ≠ []) (hdup : (lookup h acc).isSome = true) :
    ∃ e, directivesLoop (fuel + 1) p v acc = .err e := by
  unfold directivesLoop
  simp [peekTok, hp, ht, Bind.bind, hne, hdup]

/-- non-vacuity / examples of the specification -/
example : expectedTag [] ['!', '!'] "str".toList = some ⟨"tag:yaml.org,2002:".toList, "str".toList⟩ := by decide
example : expectedTag [("!e!".toList, "tag:e,".toList)] "!e!".toList ['x'] = some ⟨"tag:e,".toList, ['x']⟩ := by decide
example : expectedTag [] "!m!".toList ['x'] = none := by decide

end SaphyrModel.C16
