import SaphyrModel.Parser2
import SaphyrModel.Proofs.OpenQuote
import SaphyrModel.Sc.KS.Flow
/-! # C06 — Ill-formed YAML is rejected (component theorems, parser level)

Each theorem is about the component that rejects one damage class of the property, for **every**
parser state / token stream it quantifies over. Of the scanner-level classes, "a quoted scalar still open at
end of input" is proved for every text (`open_quoted_scalar_rejected`); the others (tab indentation, over-long
keys, …) are not covered by theorems here: for them the check relies on correspondence + oracle. The full property
quantifies over the generator's damage operators (text transformers), so it has no closed Lean form. -/
namespace SaphyrModel.C06
open SaphyrModel

/-- close goals of the shape `∃ e, (match … ) = .err e` / equalities by case analysis on the token -/
macro "token_cases" : tactic => `(tactic| repeat' (first | exact ⟨_, rfl⟩ | rfl | (exfalso; simp_all; done) | split))

/-- an alias with no preceding anchor of that name is an error, in every parser state and for
    every continuation stack -/
theorem alias_without_anchor_rejected (p : PState) (t : Token) (name : Str) (rest : List Token)
    (b i : Bool) (hp : p.toks = t :: rest) (ht : t.ty = .alias name)
    (hn : lookup name p.anchors = none) (hs : p.states ≠ []) :
    ∃ e, parseNode p b i = .err e := by
  unfold parseNode
  simp only [peekTok, hp, ht]
  cases hst : p.states with
  | nil => exact absurd hst hs
  | cons s ss =>
    simp [popState, hst, skipTok, hn]

/-- a tag whose named handle was never declared is an error -/
theorem undeclared_handle_rejected (p : PState) (span : Span) (h sfx : Str)
    (hform : isHandleForm h = true) (hne : h ≠ ['!', '!']) (hl : lookup h p.tags = none) :
    ∃ e, resolveTag p span h sfx = .err e := by
  unfold resolveTag
  have hne2 : ¬ (h = [] ∧ sfx = ['!']) := by
    intro hh; rw [hh.1] at hform; simp [isHandleForm] at hform
  simp [hne, hne2, hl, hform]

/-- a second %YAML directive in the same document is an error (whatever follows) -/
theorem repeated_yaml_directive_rejected (fuel : Nat) (p : PState) (t : Token) (rest : List Token)
    (a b : Nat) (acc : List (Str × Str)) (hp : p.toks = t :: rest) (ht : t.ty = .versionDirective a b) :
    ∃ e, directivesLoop (fuel + 1) p true acc = .err e := by
  unfold directivesLoop
  simp [peekTok, hp, ht, Bind.bind]

/-- directives that are not followed by `---`: after the directives, any token but DocumentStart
    is an error -/
theorem directives_need_document_start (p : PState) (q : PState) (t : Token) (rest : List Token)
    (hd : processDirectives (p.toks.length + 1) p false = .ok q) (hq : q.toks = t :: rest)
    (ht : t.ty ≠ .documentStart) :
    ∃ e, explicitDocumentStart p = .err e := by
  unfold explicitDocumentStart
  simp only [hd, Bind.bind, peekTok, hq]
  token_cases

/-- a second root node: once a document's root node is complete (state `DocumentEnd` popped into
    `DocumentStart` without an explicit marker), a token that is not a document marker, a
    directive or the end of the stream is an error -/
theorem skipDocEnds_id (p : PState) (t : Token) (rest : List Token) (n : Nat)
    (hp : p.toks = t :: rest) (h1 : t.ty ≠ .documentEnd) : skipDocEnds (n + 1) p = .ok p := by
  unfold skipDocEnds
  simp only [peekTok, hp, Bind.bind]
  token_cases

theorem processDirectives_none (p : PState) (t : Token) (rest : List Token) (n : Nat)
    (hp : p.toks = t :: rest)
    (h4 : ∀ a b, t.ty ≠ .versionDirective a b) (h5 : ∀ a b, t.ty ≠ .tagDirective a b) :
    processDirectives (n + 1) p false = .ok { p with tags := tagsExtend p.tags [] } := by
  unfold processDirectives directivesLoop
  simp only [peekTok, hp, Bind.bind]
  token_cases

theorem explicit_needs_marker (p : PState) (t : Token) (rest : List Token)
    (hp : p.toks = t :: rest) (h3 : t.ty ≠ .documentStart)
    (h4 : ∀ a b, t.ty ≠ .versionDirective a b) (h5 : ∀ a b, t.ty ≠ .tagDirective a b) :
    ∃ e, explicitDocumentStart p = .err e := by
  unfold explicitDocumentStart
  rw [processDirectives_none p t rest _ hp h4 h5]
  simp only [Bind.bind, peekTok, hp]
  token_cases

theorem second_root_rejected (p : PState) (t : Token) (rest : List Token)
    (hp : p.toks = t :: rest)
    (h1 : t.ty ≠ .documentEnd) (h2 : t.ty ≠ .streamEnd) (h3 : t.ty ≠ .documentStart)
    (h4 : ∀ a b, t.ty ≠ .versionDirective a b) (h5 : ∀ a b, t.ty ≠ .tagDirective a b) :
    ∃ e, documentStart p false = .err e := by
  unfold documentStart
  rw [skipDocEnds_id p t rest _ hp h1]
  simp only [Bind.bind, peekTok, hp]
  have hexp := explicit_needs_marker p t rest hp h3 h4 h5
  repeat' (first | exact hexp | (exfalso; simp_all; done) | split)

/-- non-vacuity: the hypotheses of `second_root_rejected` are met by a scalar token -/
example : ∃ e, documentStart (PState.mk [⟨Span.empty ⟨0, 1, 0⟩, .scalar .plain ['b']⟩] none ⟨0, 1, 0⟩
    .documentStart [] [] 1 [] false) false = .err e :=
  second_root_rejected _ _ [] rfl (by simp) (by simp) (by simp) (by simp) (by simp)

/-- tokens that can never continue an open flow collection: the end of the stream, a document marker,
    a directive, or a block-end token -/
def notInFlow : TokenType → Bool
  | .streamEnd | .documentStart | .documentEnd | .versionDirective .. | .tagDirective ..
  | .blockEnd | .streamStart => true
  | _ => false

/-- **A flow sequence still open at the end of input (or at a document marker) is an error**: in the
    state after an entry of `[ … `, any token that is neither `,` nor `]` is rejected — in particular
    StreamEnd and the closing bracket of the other kind, `}`. -/
theorem open_flow_sequence_rejected (p : PState) (t : Token) (rest : List Token) (hp : p.toks = t :: rest)
    (h1 : t.ty ≠ .flowSequenceEnd) (h2 : t.ty ≠ .flowEntry) :
    ∃ e, flowSequenceEntry p false = .err e := by
  unfold flowSequenceEntry
  simp only [skipFirst, Bool.false_eq_true, ↓reduceIte, Pure.pure, Bind.bind, peekTok, hp, requireFlowEntry]
  token_cases

/-- the same for a flow mapping `{ … `: after a pair, anything but `,` or `}` (StreamEnd, `]`, …) is
    rejected -/
theorem open_flow_mapping_rejected (p : PState) (t : Token) (rest : List Token) (hp : p.toks = t :: rest)
    (h1 : t.ty ≠ .flowMappingEnd) (h2 : t.ty ≠ .flowEntry) :
    ∃ e, flowMappingKey p false = .err e := by
  unfold flowMappingKey
  simp only [skipFirst, Bool.false_eq_true, ↓reduceIte, Pure.pure, Bind.bind, peekTok, hp, requireFlowEntry]
  token_cases

/-- directly after `[` or after `,`: the end of the stream, a document marker, a directive or a
    block end where an entry is expected is an error (no properties pending) -/
theorem flow_entry_expected_rejected (p : PState) (t : Token) (rest : List Token) (b i : Bool)
    (hp : p.toks = t :: rest) (ht : notInFlow t.ty = true) :
    ∃ e, parseNode p b i = .err e := by
  unfold parseNode parseNodeContent
  simp only [peekTok, hp]
  obtain ⟨sp, ty⟩ := t
  cases ty <;> simp [notInFlow] at ht <;> simp

/-- a mismatched closing bracket: `}` where a flow sequence is open, `]` where a flow mapping is open -/
theorem mismatched_bracket_rejected (p : PState) (sp : Span) (rest : List Token) :
    (p.toks = ⟨sp, .flowMappingEnd⟩ :: rest → ∃ e, flowSequenceEntry p false = .err e) ∧
    (p.toks = ⟨sp, .flowSequenceEnd⟩ :: rest → ∃ e, flowMappingKey p false = .err e) :=
  ⟨fun h => open_flow_sequence_rejected p _ rest h (by simp) (by simp),
   fun h => open_flow_mapping_rejected p _ rest h (by simp) (by simp)⟩

open SaphyrModel.Sc in
/-- **A quoted scalar still open at the end of the input is rejected — for every text.** On a string input,
    standing at an opening quote (single or double): if the closing quote character of that style does not occur
    anywhere in the rest of the input — whatever else does: escapes, line breaks, blank lines, document markers,
    any number of lines — then `scan_flow_scalar` returns no token: the result is a scan error (or the model runs
    out of the fuel it was given / stops at a structural site, which C01 excludes). Proof: the loop of the scanner
    has one normal exit, taken only when the character just looked at is the closing quote, and the scanner only
    ever moves forward through the text (`Proofs/OpenQuote.lean`). -/
theorem open_quoted_scalar_rejected (single : Bool) (u : Sc) (hk : u.inp.kind = .str)
    (hopen : quoteOf single ∉ u.inp.iter.tail) :
    match scanFlowScalar single u with
    | .ok _ => False
    | .err _ => True
    | .panic p => OkSite p := by
  have hks := (KS.scanFlowScalar single).out u hk
  cases h : scanFlowScalar single u with
  | ok r =>
    obtain ⟨tok, u'⟩ := r
    exact hopen (scanFlowScalar_ok_has_quote single u hk tok u' h)
  | err e => trivial
  | panic p => simp only [h] at hks; exact hks

open SaphyrModel.Sc in
/-- non-vacuity: `"a\"b` + line feed + ` c` (the only double quote after the opening one is escaped away… here
    there is none at all): an error, not a token -/
example :
    (match scanFlowScalar false { mkSc .str 0 ['"','a','\\','n','b','\n',' ','c'] with mark := ⟨3, 1, 3⟩ } with
     | .err e => e.info == "while scanning a quoted scalar, found unexpected end of stream"
     | _ => false) = true := by decide +kernel

open SaphyrModel.Sc in
/-- **An unknown escape is rejected**, in every scanner state on a string input: a backslash followed by any
    character that is not one of the 18 named escapes and not `x`, `u`, `U` (this includes the end of the
    input) makes `resolve_flow_scalar_escape_sequence` return an error. -/
theorem unknown_escape_rejected (sm : Marker) (s : Sc) (hk : s.inp.kind = .str) (e : Char)
    (he : s.inp.iter.getD 1 '\x00' = e) (hn : namedEscape e = none) (hx : e ≠ 'x') (hu : e ≠ 'u') (hU : e ≠ 'U') :
    ∃ err, resolveEscape sm s = .err err :=
  resolveEscape_unknown sm s hk e he hn hx hu hU

open SaphyrModel.Sc in
/-- **A truncated or malformed hexadecimal escape is rejected**, for every text: if any of the `n` characters
    that should be hexadecimal digits is not one (a sign, a blank, a quote, the end of the input — anything for
    which `is_hex` says no), the digit loop returns an error, whatever the other digits are. -/
theorem nonhex_escape_rejected (sm : Marker) (n : Nat) (s : Sc) (hk : s.inp.kind = .str)
    (hbad : ∃ j, j < n ∧ isHex (s.inp.iter.getD j '\x00') = false) :
    ∃ e, hexLoop sm n n 0 s = .err e := by
  obtain ⟨j, hj, hb⟩ := hbad
  exact hexLoop_rejects sm n n 0 s hk (Nat.le_refl _) ⟨j, hj, by rw [Nat.sub_self, Nat.zero_add]; exact hb⟩

/-- the characters that are hexadecimal digits are exactly 0-9, a-f, A-F: in particular no sign -/
example : Sc.isHex '+' = false ∧ Sc.isHex '-' = false ∧ Sc.isHex ' ' = false ∧ Sc.isHex 'g' = false ∧ Sc.isHex '\x00' = false := by decide

open SaphyrModel.Sc in
/-- **A required simple key that has gone stale is an error** — the component behind "an implicit key longer than
    1024 characters" and "a quoted implicit key spanning lines": in block context, if some pending simple key that
    is *required* (it sits at the indentation of its block mapping) started on an earlier line, or more than 1024
    characters back, `stale_simple_keys` reports an error — in every scanner state. (A pending key that is not
    required is dropped silently; the `:` that follows then finds no key.) -/
theorem stale_required_key_rejected (s : Sc) (hfl : s.flowLevel = 0)
    (h : ∃ sk ∈ s.simpleKeys, sk.possible = true ∧ sk.required = true ∧
      (sk.mark.line < s.mark.line ∨ sk.mark.index + 1024 < s.mark.index)) :
    ∃ e, staleSimpleKeys s = .err e := by
  obtain ⟨sk, hmem, hp, hr, hstale⟩ := h
  unfold staleSimpleKeys
  simp only [Bind.bind, getS]
  have hany : (s.simpleKeys.any fun sk => (sk.possible && s.flowLevel == 0 &&
      (decide (sk.mark.line < s.mark.line) || decide (sk.mark.index + 1024 < s.mark.index))) && sk.required) = true := by
    rw [List.any_eq_true]
    refine ⟨sk, hmem, ?_⟩
    simp only [hp, hfl, hr, beq_self_eq_true, Bool.and_self, Bool.true_and, Bool.and_true, Bool.or_eq_true, decide_eq_true_eq]
    exact hstale
  simp only [hany, ↓reduceIte]
  exact ⟨_, rfl⟩

end SaphyrModel.C06
