import SaphyrModel.Emitter
/-! # C09 — Emit then load (scalar layer)

Component theorems about the emitter's decisions. The structural round trip
`load (emit t) = [t]` for nested collections is not proved; the check evaluates it on the
implementation for every explored tree. -/
namespace SaphyrModel.C09
open ProtoE ProtoR

theorem map_int_ne_string {o : Option Int} {r : Scalar} {t : Str} (h : o.map Scalar.int = some r)
    (hr : r = .string t) : False := by
  cases o with
  | none => simp at h
  | some i => simp at h; subst h; cases hr

theorem map_int_is_int {o : Option Int} {r : Scalar} (h : o.map Scalar.int = some r) : ∃ i, r = .int i := by
  cases o with
  | none => simp at h
  | some i => simp at h; exact ⟨i, h.symm⟩

/-- the resolver's string result is always its argument -/
theorem parseFromCow_string (v t : Str) (h : parseFromCow v = .string t) : t = v := by
  unfold parseFromCow at h
  simp only at h
  split at h
  · rename_i r hr
    repeat' (first | exact absurd (map_int_ne_string hr h) id | (simp_all; done) | split at hr)
  · repeat' (first | (simp_all; done) | split at h)

/-- A string that the emitter writes without quotes is one the resolver reads back as the very same
    string: never as null, a boolean or a number. (For every string.) -/
theorem unquoted_string_reloads_as_string (s : Str) (h : needQuotes s = false) :
    parseFromCow s = .string s := by
  unfold needQuotes at h
  simp only [Bool.or_eq_false_iff] at h
  have hlast := h.2
  cases hp : parseFromCow s with
  | string t =>
    -- `parseFromCow` returns its argument in the string case
    rw [parseFromCow_string s t hp]
  | null => simp [hp] at hlast
  | bool b => simp [hp] at hlast
  | int i => simp [hp] at hlast
  | float f => simp [hp] at hlast

/-- The emitter never writes the empty string, nor a string with a leading or trailing space,
    unquoted. -/
theorem blank_edges_are_quoted (s : Str) (h : s = [] ∨ s.head? = some ' ' ∨ s.getLast? = some ' ') :
    needQuotes s = true := by
  unfold needQuotes
  rcases h with h | h | h <;> simp [h]

/-- Floats are written so that they cannot be read back as integers: the text of a finite float
    always contains a '.', 'e' or 'E'; the non-finite ones use the YAML spellings. -/
theorem float_text_is_not_integer_like (cls : FloatClass) (disp : Str) :
    (floatText cls disp).any (fun c => c == '.' || c == 'e' || c == 'E') = true ∨
    (cls = .nan ∨ cls = .posInf ∨ cls = .negInf) := by
  cases cls with
  | finite =>
    left
    unfold floatText
    simp only
    split
    · assumption
    · simp
  | posInf => right; simp
  | negInf => right; simp
  | nan => right; simp

example : needQuotes "0o17".toList = true := by decide
example : needQuotes "+.inf".toList = true := by decide
example : needQuotes "plain text".toList = false := by decide

end SaphyrModel.C09
