import SaphyrModel.Emitter
import SaphyrModel.Proofs.DqDecode
/-! # C09 — Emit then load (scalar layer)

Component theorems about the emitter's decisions, and the scanner half of the round trip for quoted
strings: the double-quoted scanner reads back exactly the string `escape_str` wrote, for every
string. The structural round trip `load (emit t) = [t]` for nested collections is not proved; the
check evaluates it on the implementation for every explored tree. -/
namespace SaphyrModel.C09
open ProtoE ProtoR

theorem map_int_ne_string {o : Option Int} {r : Scalar} {t : Str} (h : o.map Scalar.int = some r)
    (hr : r = .string t) : False := by
  cases o with
  | none => simp at h
  | some i => simp at h; subst h; cases hr

theorem map_int_is_int {o : Option Int} {r : Scalar} (h : o.map Scalar.int = some r) : ∃ i, r = .int i := by
  cases o with
  | none => simp at h
  | some i => simp at h; exact ⟨i, h.symm⟩

/-- the resolver's string result is always its argument -/
theorem parseFromCow_string (v t : Str) (h : parseFromCow v = .string t) : t = v := by
  unfold parseFromCow at h
  simp only at h
  split at h
  · rename_i r hr
    repeat' (first | exact absurd (map_int_ne_string hr h) id | (simp_all; done) | split at hr)
  · repeat' (first | (simp_all; done) | split at h)

/-- A string that the emitter writes without quotes is one the resolver reads back as the very same
    string: never as null, a boolean or a number. (For every string.) -/
theorem unquoted_string_reloads_as_string (s : Str) (h : needQuotes s = false) :
    parseFromCow s = .string s := by
  unfold needQuotes at h
  simp only [Bool.or_eq_false_iff] at h
  have hlast := h.2
  cases hp : parseFromCow s with
  | string t =>
    -- `parseFromCow` returns its argument in the string case
    rw [parseFromCow_string s t hp]
  | null => simp [hp] at hlast
  | bool b => simp [hp] at hlast
  | int i => simp [hp] at hlast
  | float f => simp [hp] at hlast

/-- The emitter never writes the empty string, nor a string with a leading or trailing space,
    unquoted. -/
theorem blank_edges_are_quoted (s : Str) (h : s = [] ∨ s.head? = some ' ' ∨ s.getLast? = some ' ') :
    needQuotes s = true := by
  unfold needQuotes
  rcases h with h | h | h <;> simp [h]

/-- Floats are written so that they cannot be read back as integers: the text of a finite float
    always contains a '.', 'e' or 'E'; the non-finite ones use the YAML spellings. -/
theorem float_text_is_not_integer_like (cls : FloatClass) (disp : Str) :
    (floatText cls disp).any (fun c => c == '.' || c == 'e' || c == 'E') = true ∨
    (cls = .nan ∨ cls = .posInf ∨ cls = .negInf) := by
  cases cls with
  | finite =>
    left
    unfold floatText
    simp only
    split
    · assumption
    · simp
  | posInf => right; simp
  | negInf => right; simp
  | nan => right; simp

/-- **A quoted string is read back as itself.** For every string `t` (any characters: quotes,
    backslashes, control characters, line breaks, runs of spaces, non-ASCII), in every scanner state
    on a string input whose cursor stands in front of `escape_str t` followed by anything, with the
    quote at or beyond the current indent: `scan_flow_scalar` cannot panic, and whenever it returns a
    token that token is a double-quoted scalar whose value is exactly `t` and which starts at the
    opening quote. (An error is possible only from what follows the closing quote: the trailing-content
    check or a comment without a separating space; see `SaphyrModel.Sc.scanFlowScalar_escaped`,
    which reduces the scan to that check with `t` already decoded.) -/
theorem quoted_string_rescans (s : SaphyrModel.Sc.Sc) (hk : s.inp.kind = .str) (t rest : Str)
    (hiter : s.inp.iter = escapeStr t ++ rest)
    (hind : s.indent ≤ (s.mark.col + 1 : Nat)) :
    match SaphyrModel.Sc.scanFlowScalar false s with
    | .ok (tok, _) => tok.ty = .scalar .doubleQuoted t ∧ tok.span.start = s.mark
    | .err _ => True
    | .panic _ => False :=
  SaphyrModel.Sc.scanFlowScalar_escaped_value s hk t rest
    (by rw [hiter]; simp [escapeStr]) hind

/-- the statement is about a non-trivial function: what `escape_str` writes for a string with a
    quote, a backslash, a line break, a control character and a double space -/
example : escapeStr "a\"b\\ \n\x01  c".toList = "\"a\\\"b\\\\ \\n\\u0001  c\"".toList := by decide

example : needQuotes "0o17".toList = true := by decide
example : needQuotes "+.inf".toList = true := by decide
example : needQuotes "plain text".toList = false := by decide

end SaphyrModel.C09
