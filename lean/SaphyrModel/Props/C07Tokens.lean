import SaphyrModel.Proofs.TokLoad
/-! # C07 (and C03) — from tokens to loaded documents

The parser theorem for token trees composed with the loader theorem: what is loaded is the
denotation of the tree the tokens present. -/
namespace SaphyrModel.C07
open SaphyrModel SaphyrModel.TokTree

/-- **Tokens → events → document.** For every well-formed token tree `t` (block and flow collections,
    scalars of every style, any depth), every node type (marked or bare) and resolution mode (eager or
    deferred): plain iteration over the one-document stream presenting `t` ends normally after
    `|events| + 5` calls, and feeding its events to the loader yields exactly one document, the
    denotation of `t` — items in order, every key paired with the node that follows it, pairs
    inserted in document order with the map's insert semantics, each scalar the value chosen by its
    text and style — and leaves nothing on the loader's stacks. (The loaders consume the push
    interface, which delivers these very events: `C17.push_eq_pull`.) -/
theorem tokens_load_to_denotation (t : TT) (hw : t.wf = true) (c : LCfg) (ss se : Span) (eof : Marker)
    (keep : Bool) (m : Nat) :
    let r := iterate (t.events.length + 5 + m) (Api.init (PState.init (streamToks ss se t) none eof keep)) []
    r.2 = none ∧
    ∃ s, foldEvents c {} r.1 = .ok s ∧ s.docs = [(denote c [] t.toE).1] ∧ s.docStack = [] :=
  tokens_load t hw c ss se eof keep m

end SaphyrModel.C07
