import SaphyrModel.Spec.Positions
import SaphyrModel.Sc.State
import SaphyrModel.Proofs.SpansRun
import SaphyrModel.Props.C17
import SaphyrModel.Proofs.Counting
import SaphyrModel.Proofs.BlockFold
import SaphyrModel.Props.C04
import SaphyrModel.Sc.MI.TokSpan
import SaphyrModel.Sc.NT.TokOrd2
import SaphyrModel.Sc.ML.TokOrdL
/-! # C12 — Reported positions are true positions

**Parser half, proved for every token list** (`event_spans_are_token_spans` and its corollaries): the
parser invents no position. Every span it attaches to an event — through the iterator and through
the push interface — is the span of one of the tokens it was given or the empty span at the end of
one of them, and every error it raises itself points at the start of one of those tokens. Hence:
if the scanner's token marks are true positions, so are all event marks and parser error marks
(`event_marks_true`), and if token spans start no later than they end, so do event spans
(`event_spans_ordered`). **Scanner half** (the marks of the tokens are true): per-primitive theorems
below; the induction over the whole scanner is not complete and rests on the `lineCol` oracle that
the Lean driver evaluates on every reported mark.

`Spec.lineCol input idx` is the specification: count line breaks and characters up to `idx`.
Proved: the counting function advances by one column over any non-break character and to the next
line over a line feed; and the scanner's `skip` primitives move the mark exactly as the counting
function does — so a true mark stays true across them. The induction over the whole scanner
(every call site applies the right primitive to the right character class) is not complete. -/
namespace SaphyrModel.C12
open SaphyrModel SaphyrModel.Sc SaphyrModel.Spec

theorem advanceLC_snoc_char (s : Str) (c : Char) (lc : Nat × Nat) (h1 : c ≠ '\n') (h2 : c ≠ '\r') :
    advanceLC (s ++ [c]) lc = ((advanceLC s lc).1, (advanceLC s lc).2 + 1) := by
  fun_induction advanceLC s lc with
  | case1 lc =>
    obtain ⟨l, k⟩ := lc
    simp only [List.nil_append]
    unfold advanceLC
    split <;> simp_all [advanceLC]
  | case2 r l k ih => simpa [advanceLC] using ih
  | case3 r l k ih => simpa [advanceLC] using ih
  | case4 r l k hr ih =>
    have : advanceLC ('\r' :: (r ++ [c])) (l, k) = advanceLC (r ++ [c]) (l + 1, 0) := by
      cases r with
      | nil => simp [advanceLC, h1]
      | cons a t =>
        have ha : a ≠ '\n' := by intro h; subst h; exact hr t rfl
        simp [advanceLC, ha]
    simpa [this] using ih
  | case5 a r l k ha1 ha2 ha3 ih =>
    have : advanceLC (a :: (r ++ [c])) (l, k) = advanceLC (r ++ [c]) (l, k + 1) := by
      rw [advanceLC]
      all_goals (intros; simp_all)
    simpa [this] using ih

/-- counting over one more non-break character: same line, next column -/
theorem lineCol_succ_char (input : Str) (idx : Nat) (c : Char) (hc : input[idx]? = some c)
    (h1 : c ≠ '\n') (h2 : c ≠ '\r') :
    lineCol input (idx + 1) = ((lineCol input idx).1, (lineCol input idx).2 + 1) := by
  unfold lineCol
  have : input.take (idx + 1) = input.take idx ++ [c] := by
    rw [List.take_add_one, hc]; rfl
  rw [this]
  exact advanceLC_snoc_char _ c _ h1 h2

/-- `skip_blank` / `skip_non_blank` (both `advance 1`): index, column + 1 — so if the mark was the
    true position of a non-break character, it is the true position of the next one -/
theorem skip_char_keeps_mark_true (input : Str) (s : Sc) (c : Char) (hc : input[s.mark.index]? = some c)
    (h1 : c ≠ '\n') (h2 : c ≠ '\r') (ht : lineCol input s.mark.index = (s.mark.line, s.mark.col)) :
    match advance 1 s with
    | .ok (_, s') => s'.mark.index = s.mark.index + 1 ∧ lineCol input s'.mark.index = (s'.mark.line, s'.mark.col)
    | _ => False := by
  simp only [advance, modS]
  refine ⟨trivial, ?_⟩
  show lineCol input (s.mark.index + 1) = (s.mark.line, s.mark.col + 1)
  rw [lineCol_succ_char input _ c hc h1 h2, ht]

/-- **The parser invents no position (iterator).** For every token list, latched scanner error,
    end mark, `keep_tags` setting and fuel: every span delivered by plain iteration is the span of one
    of the tokens, or the empty span at the end of one of them; an error, if any, points at the start
    of one of the tokens or is the scanner's own latched error (or "unexpected eof" at its end mark). -/
theorem event_spans_are_token_spans (toks : List Token) (scanErr : Option ScanError) (eofm : Marker) (keep : Bool)
    (fuel : Nat) :
    let r := iterate fuel (Api.init (PState.init toks scanErr eofm keep)) []
    (∀ v ∈ r.1, Sp.SpanOf toks v.2) ∧ (∀ e, r.2 = some (.err e) → Sp.ErrOf toks scanErr eofm e) :=
  Sp.iterate_spans toks scanErr eofm keep fuel

/-- … and one step from any state that only knows tokens of `T` -/
theorem step_spans_are_token_spans {T : List Token} {se : Option ScanError} {eofm : Marker} {p : PState}
    (hinv : Sp.SInv T se eofm p) (hne : p.state ≠ .end) : Sp.StepOk T se eofm (parseStep p) :=
  Sp.parseStep_spans hinv hne

/-- **If the token marks are true positions, so are all event marks.** `ok m` is any predicate on
    marks (for C12: `Spec.markTrue text m`). -/
theorem event_marks_true (ok : Marker → Prop) (toks : List Token) (scanErr : Option ScanError) (eofm : Marker)
    (keep : Bool) (fuel : Nat) (htok : ∀ t ∈ toks, ok t.span.start ∧ ok t.span.stop) :
    ∀ v ∈ (iterate fuel (Api.init (PState.init toks scanErr eofm keep)) []).1, ok v.2.start ∧ ok v.2.stop := by
  intro v hv
  rcases (event_spans_are_token_spans toks scanErr eofm keep fuel).1 v hv with ⟨t, ht, h⟩ | ⟨t, ht, h⟩
  · rw [h]; exact htok t ht
  · rw [h]; exact ⟨(htok t ht).2, (htok t ht).2⟩

/-- … and a parser error is reported at a true position as well (the other error it can return is the
    scanner's own) -/
theorem parser_error_mark_true (ok : Marker → Prop) (toks : List Token) (scanErr : Option ScanError) (eofm : Marker)
    (keep : Bool) (fuel : Nat) (htok : ∀ t ∈ toks, ok t.span.start ∧ ok t.span.stop) (e : ScanError)
    (he : (iterate fuel (Api.init (PState.init toks scanErr eofm keep)) []).2 = some (.err e)) :
    ok e.mark ∨ e = scanErr.getD ⟨eofm, "unexpected eof"⟩ := by
  rcases (event_spans_are_token_spans toks scanErr eofm keep fuel).2 e he with ⟨t, ht, h⟩ | h
  · left; rw [h]; exact (htok t ht).1
  · right; exact h

/-- **Each span starts no later than it ends** — if that holds of the tokens -/
theorem event_spans_ordered (toks : List Token) (scanErr : Option ScanError) (eofm : Marker) (keep : Bool) (fuel : Nat)
    (htok : ∀ t ∈ toks, t.span.start.index ≤ t.span.stop.index) :
    ∀ v ∈ (iterate fuel (Api.init (PState.init toks scanErr eofm keep)) []).1, v.2.start.index ≤ v.2.stop.index := by
  intro v hv
  rcases (event_spans_are_token_spans toks scanErr eofm keep fuel).1 v hv with ⟨t, ht, h⟩ | ⟨t, ht, h⟩
  · rw [h]; exact htok t ht
  · rw [h]; exact Nat.le_refl _

/-- the push interface delivers the same spans (C17.push_eq_pull), so it invents none either -/
theorem push_spans_are_token_spans (toks : List Token) (scanErr : Option ScanError) (eofm : Marker) (keep : Bool)
    (n : Nat) (hn : 16 * toks.length + 2 ≤ n) (s : Push)
    (h : load true n ⟨Api.init (PState.init toks scanErr eofm keep), []⟩ = .ok s) :
    ∀ v ∈ s.out, Sp.SpanOf toks v.2 := by
  intro v hv
  have hp := C17.push_eq_pull toks scanErr eofm keep n hn
  simp only [h] at hp
  have h0 := hp 0
  have hs := (event_spans_are_token_spans toks scanErr eofm keep (s.out.length + 1 + 0)).1 v
  rw [h0] at hs
  exact hs (by simpa using hv)

/-- non-vacuity: two tokens, both spans are read off them -/
example : Sp.SpanOf [⟨⟨⟨0, 1, 0⟩, ⟨0, 1, 0⟩⟩, .streamStart⟩, ⟨⟨⟨0, 1, 0⟩, ⟨1, 1, 1⟩⟩, .scalar .plain ['a']⟩] ⟨⟨0, 1, 0⟩, ⟨1, 1, 1⟩⟩ :=
  Or.inl ⟨⟨⟨⟨0, 1, 0⟩, ⟨1, 1, 1⟩⟩, .scalar .plain ['a']⟩, by simp, rfl⟩

example : lineCol "ab\ncd".toList 4 = (2, 1) := by decide
example : lineCol "ab\r\ncd".toList 5 = (2, 1) := by decide
example : lineCol "ab\rcd".toList 4 = (2, 1) := by decide

theorem take_split (A B : Str) (k : Nat) (h : k + B.length = (A ++ B).length) : (A ++ B).take k = A := by
  have : k = A.length := by simp only [List.length_append] at h; omega
  subst this; simp

theorem hdr_nobreak (hd : C05T.Hdr) : ∀ c ∈ hd.txt, isBreak c = false := by
  cases hd <;> simp [C05T.Hdr.txt] <;> decide

open SaphyrModel.C14L SaphyrModel.C05 SaphyrModel.C05T SaphyrModel.C12C in
/-- the counting argument shared by the literal and the folded style: from what the token-level theorems say
    about line, column and index of the marks to `Spec.markTrue` -/
theorem block_marks_true_core (lit : Bool) (text : Str) (pre : Str) (hpre : ∀ p, pre ≠ p ++ ['\r'])
    (hd : Hdr) (b0 : Brk) (ind : Nat) (hind : ind ≠ 0) (tail : Str)
    (ls : List (Str × Brk)) (l : Str) (b : Brk)
    (hl : GoodLine l) (hls : ∀ p ∈ ls, GoodLine p.1) (u : Sc)
    (hi : u.inp.iter = hd.txt ++ (b0.txt ++ (List.replicate ind ' ' ++ (l ++ (b.txt ++ restLinesB ind ls tail)))))
    (hlc : advanceLC pre (1, 0) = (u.mark.line, u.mark.col))
    (tok : Token) (u' : Sc)
    (hres : IsTok lit tok text (u.mark.line + 1) ind (u.mark.line + 1 + ls.length + 1)
        (l ++ (b.txt ++ restLinesB ind ls tail)).length tail.length (pre.length + u.inp.iter.length) ∧
      Pos u' tail (u.mark.line + 1 + ls.length + 1) 0 (pre.length + u.inp.iter.length)) :
    markTrue (pre ++ u.inp.iter) tok.span.start = true ∧ markTrue (pre ++ u.inp.iter) tok.span.stop = true ∧
    markTrue (pre ++ u.inp.iter) u'.mark = true := by
  obtain ⟨⟨_, x2, x3, x4, x5, x6, x7⟩, _, _, y3, y4, y5⟩ := hres
  obtain ⟨n, rfl⟩ : ∃ n, ind = n + 1 := ⟨ind - 1, by omega⟩
  have hN : (pre ++ u.inp.iter).length = pre.length + u.inp.iter.length := List.length_append
  -- the text in front of the first content character, and in front of the continuation
  have hA : pre ++ u.inp.iter = (pre ++ (hd.txt ++ (b0.txt ++ List.replicate (n + 1) ' '))) ++ (l ++ (b.txt ++ restLinesB (n + 1) ls tail)) := by
    rw [hi]; simp only [List.append_assoc]
  have hB : pre ++ u.inp.iter = (pre ++ (hd.txt ++ (b0.txt ++ (linesTxt (n + 1) ((l, b) :: ls) ++ [])))) ++ tail := by
    rw [hi, restLinesB_eq]; simp only [linesTxt, List.append_assoc, List.append_nil]
  have hsp : (List.replicate (n + 1) ' ').headD '\x00' ≠ '\n' := by simp [List.replicate_succ]
  have hcount1 : advanceLC (pre ++ (hd.txt ++ (b0.txt ++ List.replicate (n + 1) ' '))) (1, 0) = (u.mark.line + 1, n + 1) := by
    rw [advanceLC_append_left _ _ _ hpre, hlc, advanceLC_nobreak_append _ _ _ _ (hdr_nobreak hd),
      advanceLC_append _ hsp, advanceLC_brk, advanceLC_nobreak _ _ _ (replicate_nobreak (n + 1))]
    simp
  have hlt : (linesTxt (n + 1) ((l, b) :: ls) ++ ([] : Str)).headD '\x00' ≠ '\n' :=
    linesTxt_head (n + 1) hind [] (by simp) ((l, b) :: ls)
  have hcount2 : advanceLC (pre ++ (hd.txt ++ (b0.txt ++ (linesTxt (n + 1) ((l, b) :: ls) ++ [])))) (1, 0)
      = (u.mark.line + 1 + ls.length + 1, 0) := by
    rw [advanceLC_append_left _ _ _ hpre, hlc, advanceLC_nobreak_append _ _ _ _ (hdr_nobreak hd),
      advanceLC_append _ hlt, advanceLC_brk,
      advanceLC_lines (n + 1) hind [] (by simp) ((l, b) :: ls) _ (by
        intro q hq
        rcases List.mem_cons.mp hq with rfl | hq
        · exact hl
        · exact hls q hq)]
    simp only [advanceLC, List.length_cons]
    congr 1
  have hstart : markTrue (pre ++ u.inp.iter) tok.span.start = true := by
    unfold markTrue lineCol
    have hle : tok.span.start.index ≤ (pre ++ u.inp.iter).length := by
      rw [hN]
      omega
    have htake : (pre ++ u.inp.iter).take tok.span.start.index = pre ++ (hd.txt ++ (b0.txt ++ List.replicate (n + 1) ' ')) := by
      rw [hA]; apply take_split; rw [← hA, hN]; exact x6
    rw [htake, hcount1, x2, x3]
    simp
    omega
  have hstop : ∀ m : Marker, m.index + tail.length = pre.length + u.inp.iter.length → m.line = u.mark.line + 1 + ls.length + 1 →
      m.col = 0 → markTrue (pre ++ u.inp.iter) m = true := by
    intro m h1 h2 h3
    unfold markTrue lineCol
    have hle : m.index ≤ (pre ++ u.inp.iter).length := by
      rw [hN]
      omega
    have htake : (pre ++ u.inp.iter).take m.index = pre ++ (hd.txt ++ (b0.txt ++ (linesTxt (n + 1) ((l, b) :: ls) ++ []))) := by
      rw [hB]; apply take_split; rw [← hB, hN]; exact h1
    rw [htake, hcount2, h2, h3]
    simp
    omega
  exact ⟨hstart, hstop _ x7 x4 x5, hstop _ y5 y3 y4⟩

open SaphyrModel.C14L SaphyrModel.C05 SaphyrModel.C05T SaphyrModel.C12C in
/-- **The marks of a literal block scalar token are true positions — for every such scalar.** Let the whole
    input be `pre` (what the scanner has consumed, ending with the `|`) followed by what remains: a literal block
    scalar as in `C05.literal_block_scalar_token` (header ``/`-`/`+`, any list of content lines, any spelling of
    every break) and a continuation. If the scanner's own mark is the true position of the end of `pre` — its
    index is the number of characters consumed, its line and column are what counting line breaks and characters
    over `pre` gives — then the start mark and the end mark of the token the scanner returns, and the scanner's
    mark afterwards, are true positions too: each index lies within the input, and line and column are exactly
    those obtained by counting (`Spec.lineCol`) up to that index. -/
theorem literal_block_token_marks_true (pre : Str) (hpre : ∀ p, pre ≠ p ++ ['\r'])
    (sm : Marker) (hd : Hdr) (b0 : Brk) (ind : Nat) (hind : ind ≠ 0) (tail : Str)
    (ht1 : tail.headD '\x00' ≠ ' ') (ht2 : isBreak (tail.headD '\x00') = false) (ls : List (Str × Brk)) (l : Str) (b : Brk)
    (hl : GoodLine l) (hl1 : l.headD '\x00' ≠ ' ') (hls : ∀ p ∈ ls, GoodLine p.1) (u : Sc)
    (hI : (u.indent + 1).toNat ≤ ind) (hk : u.inp.kind = .str)
    (hi : u.inp.iter = hd.txt ++ (b0.txt ++ (List.replicate ind ' ' ++ (l ++ (b.txt ++ restLinesB ind ls tail)))))
    (hidx : u.mark.index = pre.length) (hlc : advanceLC pre (1, 0) = (u.mark.line, u.mark.col))
    (tok : Token) (u' : Sc) (h : scanBlockScalarBody true sm u = .ok (tok, u')) :
    markTrue (pre ++ u.inp.iter) tok.span.start = true ∧ markTrue (pre ++ u.inp.iter) tok.span.stop = true ∧
    markTrue (pre ++ u.inp.iter) u'.mark = true := by
  rcases literal_block_token sm hd b0 ind hind tail ht1 ht2 ls l b hl hl1 hls u u.mark.line u.mark.col u.indent
      (pre.length + u.inp.iter.length) hI ⟨hk, hi, rfl, rfl, rfl, by rw [hidx, hi]⟩ with
    ⟨p, hp⟩ | ⟨tok', w, e, hres⟩
  · rw [hp] at h; cases h
  rw [e] at h; cases h
  exact block_marks_true_core true _ pre hpre hd b0 ind hind tail ls l b hl hls u hi hlc tok u' hres

open SaphyrModel.C14L SaphyrModel.C05 SaphyrModel.C05T SaphyrModel.C12C SaphyrModel.C05F in
/-- the same for every folded block scalar whose lines do not start with a blank -/
theorem folded_block_token_marks_true (pre : Str) (hpre : ∀ p, pre ≠ p ++ ['\r'])
    (sm : Marker) (hd : Hdr) (b0 : Brk) (ind : Nat) (hind : ind ≠ 0) (tail : Str)
    (ht1 : tail.headD '\x00' ≠ ' ') (ht2 : isBreak (tail.headD '\x00') = false) (ls : List (Str × Brk)) (l : Str) (b : Brk)
    (hl : FoldLine l) (hls : ∀ p ∈ ls, FoldLine p.1) (u : Sc)
    (hI : (u.indent + 1).toNat ≤ ind) (hk : u.inp.kind = .str)
    (hi : u.inp.iter = hd.txt ++ (b0.txt ++ (List.replicate ind ' ' ++ (l ++ (b.txt ++ restLinesB ind ls tail)))))
    (hidx : u.mark.index = pre.length) (hlc : advanceLC pre (1, 0) = (u.mark.line, u.mark.col))
    (tok : Token) (u' : Sc) (h : scanBlockScalarBody false sm u = .ok (tok, u')) :
    markTrue (pre ++ u.inp.iter) tok.span.start = true ∧ markTrue (pre ++ u.inp.iter) tok.span.stop = true ∧
    markTrue (pre ++ u.inp.iter) u'.mark = true := by
  rcases folded_block_token sm hd b0 ind hind tail ht1 ht2 ls l b hl hls u u.mark.line u.mark.col u.indent
      (pre.length + u.inp.iter.length) hI ⟨hk, hi, rfl, rfl, rfl, by rw [hidx, hi]⟩ with
    ⟨p, hp⟩ | ⟨tok', w, e, hres⟩
  · rw [hp] at h; cases h
  rw [e] at h; cases h
  exact block_marks_true_core false _ pre hpre hd b0 ind hind tail ls l b hl.1 (fun p hp => (hls p hp).1) u hi hlc tok u' hres

/-- non-vacuity: after `a: |` (index 4, line 1, column 4), the scalar `-`, CR LF, `  ab` LF, `   c` CR, then `x`:
    the token starts at index 9 (line 2, column 2), ends at index 17 (line 4, column 0); both marks are true -/
example :
    (match scanBlockScalarBody true ⟨3, 1, 3⟩
        { mkSc .str 0 ['-','\r','\n',' ',' ','a','b','\n',' ',' ',' ','c','\r','x'] with indent := 0, mark := ⟨4, 1, 4⟩ } with
     | .ok (tok, _) =>
       markTrue (['a',':',' ','|'] ++ ['-','\r','\n',' ',' ','a','b','\n',' ',' ',' ','c','\r','x']) tok.span.start &&
       markTrue (['a',':',' ','|'] ++ ['-','\r','\n',' ',' ','a','b','\n',' ',' ',' ','c','\r','x']) tok.span.stop &&
       tok.span.start.index == 9 && tok.span.stop.index == 17
     | _ => false) = true := by decide +kernel

open SaphyrModel.C04S in
/-- **The span of a single-quoted scalar starts at its opening quote and contains its closing quote — for every
    one-line value.** Let the whole input be `pre` followed by what remains, a single-quoted scalar as in
    `C04.single_quoted_scalar_token`, with the scanner's index equal to the number of characters consumed. Then
    the character of the input at the token's start index is the opening quote, the character just before its
    end index is the closing quote, the span is `2 +` the written length of the value long, lies on one line, and
    starts before it ends. -/
theorem single_quoted_span_covers_quotes (pre v rest : Str) (hv : ∀ c ∈ v, isBreak c = false ∧ isZ c = false)
    (hz : isBreakz (rest.headD '\x00') = true) (u : Sc) (hk : u.inp.kind = .str)
    (hI : u.indent ≤ (u.mark.col : Int) + 1)
    (hi : u.inp.iter = '\'' :: (sqEnc v ++ '\'' :: rest)) (hidx : u.mark.index = pre.length)
    (tok : Token) (u' : Sc) (h : scanFlowScalar true u = .ok (tok, u')) :
    (pre ++ u.inp.iter)[tok.span.start.index]? = some '\'' ∧
    (pre ++ u.inp.iter)[tok.span.stop.index - 1]? = some '\'' ∧
    tok.span.stop.index = tok.span.start.index + (sqEnc v).length + 2 ∧
    tok.span.stop.line = tok.span.start.line ∧ tok.span.stop.col = tok.span.start.col + (sqEnc v).length + 2 ∧
    tok.span.stop.index ≤ (pre ++ u.inp.iter).length := by
  rcases C04.single_quoted_scalar_token v rest hv hz u hk hI hi with ⟨p, hp⟩ | ⟨tok', w, e, _, h2, h3, _, h5, h6, h7⟩
  · rw [hp] at h; cases h
  rw [e] at h; cases h
  rw [h2, h3, h7, h5, h6, hidx, hi]
  refine ⟨?_, ?_, by omega, rfl, by omega, ?_⟩
  · simp
  · have : pre.length + 1 + (sqEnc v).length + 1 - 1 = pre.length + (1 + (sqEnc v).length) := by omega
    rw [this, List.getElem?_append_right (by omega)]
    have h1 : pre.length + (1 + (sqEnc v).length) - pre.length = (sqEnc v).length + 1 := by omega
    rw [h1, List.getElem?_cons_succ, List.getElem?_append_right (Nat.le_refl _)]
    simp
  · simp only [List.length_append, List.length_cons]; omega

open SaphyrModel.C04P in
/-- **The span of a plain scalar on one line covers exactly its text — for every such line.** With the whole
    input `pre` followed by what remains (a plain scalar line as in `C04.plain_scalar_line_token`) and the
    scanner's index equal to the number of characters consumed: the characters of the input from the token's
    start index up to its end index are exactly the scalar's text — no leading or trailing blank, nothing of
    the line break —, the span lies on one line, and its columns differ by the length of the text. -/
theorem plain_scalar_span_covers_text (pre v rest : Str) (hv : PlainLine v) (u : Sc) (hk : u.inp.kind = .str)
    (hfl : u.flowLevel = 0) (hlw : u.leadingWhitespace = false) (hcap : 2 ≤ u.inp.cap)
    (hrest : Ending rest u.indent) (hC : u.indent + 1 ≤ (u.mark.col : Int))
    (hi : u.inp.iter = v ++ rest) (hidx : u.mark.index = pre.length)
    (tok : Token) (u' : Sc) (h : scanPlainScalarBody u = .ok (tok, u')) :
    ((pre ++ u.inp.iter).drop tok.span.start.index).take (tok.span.stop.index - tok.span.start.index) = v ∧
    tok.ty = .scalar .plain v ∧
    tok.span.stop.line = tok.span.start.line ∧ tok.span.stop.col = tok.span.start.col + v.length ∧
    tok.span.start.index ≤ tok.span.stop.index ∧ tok.span.stop.index ≤ (pre ++ u.inp.iter).length := by
  rcases C04.plain_scalar_line_token v rest hv u hk hfl hlw hcap hrest hC hi with ⟨p, hp⟩ | ⟨tok', w, e, h1, h2, h3, h4, h5, _⟩
  · rw [hp] at h; cases h
  rw [e] at h; cases h
  rw [h2, h3, h4, h5, hidx, hi]
  refine ⟨?_, h1, rfl, rfl, by omega, ?_⟩
  · rw [show pre.length + v.length - pre.length = v.length by omega]
    simp
  · simp only [List.length_append]; omega

/-- **The scanner's index never decreases — for every input, back-end and state.** Whatever the state a call of
    `next_token` (and of every scanner function below it: the invariant `MI` is proved for each of them,
    `Sc/MI/*.lean`) starts from, if it returns normally the index of the scanner's mark is at least what it was. -/
theorem scanner_index_never_decreases (s : Sc) (r : Option Token) (s' : Sc) (h : nextToken s = .ok (r, s')) :
    s.mark.index ≤ s'.mark.index :=
  MI.nextToken.out s r s' h

/-- **Each span starts no later than it ends** — for the tokens of single- and double-quoted scalars, literal and
    folded block scalars, anchors and aliases, from every scanner state, on every back-end, whatever the input:
    the start mark is taken before anything is consumed, the end mark after, and the index only grows in between. -/
theorem scalar_token_spans_ordered (s : Sc) (tok : Token) (s' : Sc) :
    (∀ single, scanFlowScalar single s = .ok (tok, s') → tok.span.start.index ≤ tok.span.stop.index) ∧
    (∀ lit, scanBlockScalar lit s = .ok (tok, s') → tok.span.start.index ≤ tok.span.stop.index) ∧
    (∀ alias, scanAnchor alias s = .ok (tok, s') → tok.span.start.index ≤ tok.span.stop.index) :=
  ⟨fun single h => (TS.scanFlowScalar single 0).out s tok s' (Nat.zero_le _) h,
   fun lit h => (TS.scanBlockScalar lit 0).out s tok s' (Nat.zero_le _) h,
   fun alias h => (TS.scanAnchor alias 0).out s tok s' (Nat.zero_le _) h⟩

/-- **Each span starts no later than it ends — every token, every input.** For every text, every input back-end
    and capacity, and however many tokens are pulled: every token the scanner delivers has
    `start.index ≤ stop.index`. (Invariant: the queue only ever holds such tokens — each one is either an empty
    span, or runs from a mark taken before something was consumed to a mark taken after, and the index never
    decreases; proved function by function in `Sc/NT/TokOrd*.lean`.) -/
theorem token_spans_ordered (k : InKind) (cap : Nat) (text : Str) (fuel : Nat) :
    ∀ t ∈ (scanAll fuel (mkSc k cap text) []).1, t.span.start.index ≤ t.span.stop.index :=
  scanAll_ord fuel (mkSc k cap text) [] (fun _ h => by simp [mkSc] at h) (fun _ h => by simp at h)

/-- **… and every event.** For every text, back-end and capacity: feed the tokens the scanner delivers (all of
    them, `sfuel` being enough or not) to the parser; every event span it reports starts no later than it ends.
    This is the clause "each span starts no later than it ends" of C12 for the whole pipeline of the model. -/
theorem event_spans_ordered_for_every_text (k : InKind) (cap : Nat) (text : Str) (sfuel pfuel : Nat)
    (scanErr : Option ScanError) (eofm : Marker) (keep : Bool) :
    ∀ v ∈ (iterate pfuel (Api.init (PState.init (scanAll sfuel (mkSc k cap text) []).1 scanErr eofm keep)) []).1,
      v.2.start.index ≤ v.2.stop.index :=
  event_spans_ordered _ scanErr eofm keep pfuel (token_spans_ordered k cap text sfuel)

/-- … in lines too: every token the scanner delivers starts on a line no later than the one it ends on — every
    text, back-end and capacity (the same invariants for the line of the mark, `Sc/ML/*.lean`) -/
theorem token_span_lines_ordered (k : InKind) (cap : Nat) (text : Str) (fuel : Nat) :
    ∀ t ∈ (scanAll fuel (mkSc k cap text) []).1, t.span.start.line ≤ t.span.stop.line :=
  scanAll_ordL fuel (mkSc k cap text) [] (fun _ h => by simp [mkSc] at h) (fun _ h => by simp at h)

/-- … and so does every event, for every text -/
theorem event_span_lines_ordered_for_every_text (k : InKind) (cap : Nat) (text : Str) (sfuel pfuel : Nat)
    (scanErr : Option ScanError) (eofm : Marker) (keep : Bool) :
    ∀ v ∈ (iterate pfuel (Api.init (PState.init (scanAll sfuel (mkSc k cap text) []).1 scanErr eofm keep)) []).1,
      v.2.start.line ≤ v.2.stop.line := by
  intro v hv
  rcases (event_spans_are_token_spans _ scanErr eofm keep pfuel).1 v hv with ⟨t, ht, h⟩ | ⟨t, ht, h⟩
  · rw [h]; exact token_span_lines_ordered k cap text sfuel t ht
  · rw [h]; exact Nat.le_refl _

/-- … and through the push interface (`Parser::load`, which the document loaders consume): every span it delivers
    for the tokens of any text starts no later than it ends -/
theorem push_event_spans_ordered_for_every_text (k : InKind) (cap : Nat) (text : Str) (sfuel : Nat)
    (scanErr : Option ScanError) (eofm : Marker) (keep : Bool) (n : Nat)
    (hn : 16 * (scanAll sfuel (mkSc k cap text) []).1.length + 2 ≤ n) (s : Push)
    (h : load true n ⟨Api.init (PState.init (scanAll sfuel (mkSc k cap text) []).1 scanErr eofm keep), []⟩ = .ok s) :
    ∀ v ∈ s.out, v.2.start.index ≤ v.2.stop.index ∧ v.2.start.line ≤ v.2.stop.line := by
  intro v hv
  rcases push_spans_are_token_spans _ scanErr eofm keep n hn s h v hv with ⟨t, ht, e⟩ | ⟨t, ht, e⟩
  · rw [e]; exact ⟨token_spans_ordered k cap text sfuel t ht, token_span_lines_ordered k cap text sfuel t ht⟩
  · rw [e]; exact ⟨Nat.le_refl _, Nat.le_refl _⟩

/-- the line of the scanner's mark never decreases either (every state, input and back-end) -/
theorem scanner_line_never_decreases (s : Sc) (r : Option Token) (s' : Sc) (h : nextToken s = .ok (r, s')) :
    s.mark.line ≤ s'.mark.line :=
  ML.nextToken.out s r s' h

end SaphyrModel.C12
