import SaphyrModel.Spec.Positions
import SaphyrModel.Sc.State
/-! # C12 — Reported positions are true positions (per-primitive theorems)

`Spec.lineCol input idx` is the specification: count line breaks and characters up to `idx`.
Proved: the counting function advances by one column over any non-break character and to the next
line over a line feed; and the scanner's `skip` primitives move the mark exactly as the counting
function does — so a true mark stays true across them. The induction over the whole scanner
(every call site applies the right primitive to the right character class) is not complete. -/
namespace SaphyrModel.C12
open SaphyrModel SaphyrModel.Sc SaphyrModel.Spec

theorem advanceLC_snoc_char (s : Str) (c : Char) (lc : Nat × Nat) (h1 : c ≠ '\n') (h2 : c ≠ '\r') :
    advanceLC (s ++ [c]) lc = ((advanceLC s lc).1, (advanceLC s lc).2 + 1) := by
  fun_induction advanceLC s lc with
  | case1 lc =>
    obtain ⟨l, k⟩ := lc
    simp only [List.nil_append]
    unfold advanceLC
    split <;> simp_all [advanceLC]
  | case2 r l k ih => simpa [advanceLC] using ih
  | case3 r l k ih => simpa [advanceLC] using ih
  | case4 r l k hr ih =>
    have : advanceLC ('\r' :: (r ++ [c])) (l, k) = advanceLC (r ++ [c]) (l + 1, 0) := by
      cases r with
      | nil => simp [advanceLC, h1]
      | cons a t =>
        have ha : a ≠ '\n' := by intro h; subst h; exact hr t rfl
        simp [advanceLC, ha]
    simpa [this] using ih
  | case5 a r l k ha1 ha2 ha3 ih =>
    have : advanceLC (a :: (r ++ [c])) (l, k) = advanceLC (r ++ [c]) (l, k + 1) := by
      rw [advanceLC]
      all_goals (intros; simp_all)
    simpa [this] using ih

/-- counting over one more non-break character: same line, next column -/
theorem lineCol_succ_char (input : Str) (idx : Nat) (c : Char) (hc : input[idx]? = some c)
    (h1 : c ≠ '\n') (h2 : c ≠ '\r') :
    lineCol input (idx + 1) = ((lineCol input idx).1, (lineCol input idx).2 + 1) := by
  unfold lineCol
  have : input.take (idx + 1) = input.take idx ++ [c] := by
    rw [List.take_add_one, hc]; rfl
  rw [this]
  exact advanceLC_snoc_char _ c _ h1 h2

/-- `skip_blank` / `skip_non_blank` (both `advance 1`): index, column + 1 — so if the mark was the
    true position of a non-break character, it is the true position of the next one -/
theorem skip_char_keeps_mark_true (input : Str) (s : Sc) (c : Char) (hc : input[s.mark.index]? = some c)
    (h1 : c ≠ '\n') (h2 : c ≠ '\r') (ht : lineCol input s.mark.index = (s.mark.line, s.mark.col)) :
    match advance 1 s with
    | .ok (_, s') => s'.mark.index = s.mark.index + 1 ∧ lineCol input s'.mark.index = (s'.mark.line, s'.mark.col)
    | _ => False := by
  simp only [advance, modS]
  refine ⟨trivial, ?_⟩
  show lineCol input (s.mark.index + 1) = (s.mark.line, s.mark.col + 1)
  rw [lineCol_succ_char input _ c hc h1 h2, ht]

example : lineCol "ab\ncd".toList 4 = (2, 1) := by decide
example : lineCol "ab\r\ncd".toList 5 = (2, 1) := by decide
example : lineCol "ab\rcd".toList 4 = (2, 1) := by decide

end SaphyrModel.C12
