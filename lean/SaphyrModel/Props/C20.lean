import SaphyrModel.Lookup
/-! # C20 — Mapping lookups, equality and hashing are mutually consistent (lookup model)

`hashOf` is the node hash (external: `derive(Hash)` + the map's `BuildHasher`); the one assumption
is the contract `HashOk`: equal nodes hash equally — which the harness checks on the real code with
a recording `Hasher`. -/
namespace SaphyrModel.C20
open SaphyrModel

/-- the hashing contract: nodes that compare equal hash equally -/
def HashOk (hashOf : Node → Nat) : Prop := ∀ a b, Node.eqv a b = true → hashOf a = hashOf b

/-- looking up by (hash, equality) finds what looking up by equality finds -/
theorem hashed_lookup_is_lookup (hashOf : Node → Nat) (hc : HashOk hashOf) (m : List (Node × Node)) (key : Node) :
    mapGetHashed hashOf m (hashOf key) (fun k => Node.eqv k key) = mapGet m key := by
  unfold mapGetHashed mapGet
  congr 1
  induction m with
  | nil => rfl
  | cons p r ih =>
    simp only [List.find?]
    cases he : Node.eqv p.1 key with
    | true => simp [hc _ _ he]
    | false => simpa using ih

/-- The four ways of asking for string key `k` agree (for every node, mapping or not). -/
theorem four_ways_agree (hashOf : Node → Nat) (hc : HashOk hashOf) (n : Node) (k : Str) :
    asMappingGet hashOf n k = getExplicit n k ∧
    indexStr hashOf n k = getExplicit n k ∧
    containsMappingKey hashOf n k = (getExplicit n k).isSome := by
  have h : asMappingGet hashOf n k = getExplicit n k := by
    unfold asMappingGet getExplicit
    cases n <;> simp [hashed_lookup_is_lookup hashOf hc]
  exact ⟨h, h, by simp [containsMappingKey, h]⟩

/-- a key equals the string node `k` exactly when it is a resolved string with content `k` -/
theorem eqv_strKey (x : Node) (k : Str) :
    Node.eqv x (strKey k) = true ↔ ∃ sp, x = .value sp (.string k) := by
  unfold strKey
  cases x with
  | value sp s =>
    cases s <;> simp [Node.eqv, scalarEq]
  | repr sp v st t => simp [Node.eqv]
  | seq sp xs => simp [Node.eqv]
  | map sp ps => simp [Node.eqv]
  | alias sp n => simp [Node.eqv]
  | bad sp => simp [Node.eqv]

/-- … and an entry is found exactly when some key of the mapping is the resolved string `k`;
    a non-string key whose text equals `k` (the integer `1` for "1") is never found -/
theorem found_iff (sp : Span) (m : List (Node × Node)) (k : Str) :
    (getExplicit (.map sp m) k).isSome = true ↔ ∃ p ∈ m, ∃ sp', p.1 = .value sp' (.string k) := by
  unfold getExplicit mapGet
  simp only [Option.isSome_map, List.find?_isSome]
  constructor
  · rintro ⟨p, hp, he⟩
    exact ⟨p, hp, (eqv_strKey _ _).1 he⟩
  · rintro ⟨p, hp, hs⟩
    exact ⟨p, hp, (eqv_strKey _ _).2 hs⟩

/-- integer indexing of a sequence agrees with `as_sequence_get` (it panics exactly when `get`
    reports absence) -/
theorem int_index_sequence (sp : Span) (xs : List Node) (i : Nat) :
    indexInt (.seq sp xs) i = asSequenceGet (.seq sp xs) i := rfl

example : (getExplicit (.map Span.dflt [(.value Span.dflt (.int 1), .bad Span.dflt)]) ['1']).isSome = false := by decide

end SaphyrModel.C20
