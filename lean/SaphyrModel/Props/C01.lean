import SaphyrModel.Sc.KS.Final
import SaphyrModel.Proofs.TermRun
import SaphyrModel.Props.C17
import SaphyrModel.Props.C02
import SaphyrModel.Props.C07
import SaphyrModel.Props.C11
import SaphyrModel.Props.C18
/-! # C01 — Parsing always terminates: no panic, abort or hang (component theorems)

`C01_scanner_full` is the scanner part of the property at full strength; it is **not yet proved** in
full. What is proved is `scanner_no_structural_panic`: for every input, back-end and capacity the
scanner never reaches one of its six structural panic sites (the per-function lemmas below are the
ingredients: each structural function preserves the invariant `InvS`; `Sc/Assemble.lean` carries
the invariant through every `fetch_*` function, `fetch_more_tokens`, `next_token` and the run).
`scanner_str_no_panic` adds, for the string back-end, that no input-level site is reachable either:
on a `StrInput` the model can only stop at `fuel`. Still open: the look-ahead discipline of the
buffered input (its ring-buffer sites), and fuel sufficiency. The parser part is proved
for every token list (C02), the loader part for every well-nested event run (C07), the push loop
and the decode loop terminate (C11, C18). -/
namespace SaphyrModel.C01
open SaphyrModel SaphyrModel.Sc

/-- the scanner part of C01, full strength: for every input kind, capacity ≥ 8 and text, scanning
    with fuel linear in the input never hits a panic site and never runs out of fuel -/
def C01_scanner_full : Prop :=
  ∀ (k : InKind) (cap : Nat) (text : Str), 8 ≤ cap →
    ∀ p, (scanAll (4 * text.length + 32) (mkSc k cap text) []).2.1 ≠ .panic p

/-- the parser never reaches a panic site, for every token list (iterator) -/
theorem parser_no_panic : C02.C02_grammar_full := C02.C02_grammar

/-- structural panic sites of the scanner (`indents.pop().unwrap()`, `simple_keys.last().unwrap()`,
    `insert_token`'s assert, the `usize` subtraction of token numbers) are unreachable under the
    invariant `InvS`, which these functions preserve (`PresS m` = from a state satisfying `InvS`,
    `m` ends in a state satisfying `InvS`, an error value, or a non-structural panic) -/
theorem unroll_indent_safe (col : Int) (h : -1 ≤ col) : PresS (unrollIndent col) := unrollIndent_pres col h
theorem roll_indent_safe (col : Nat) (tok : TokenType) (mark : Marker) : PresS (rollIndent col none tok mark) :=
  rollIndent_none_pres col tok mark
theorem save_simple_key_safe : PresS saveSimpleKey := saveSimpleKey_pres
theorem remove_simple_key_safe : PresS removeSimpleKey := removeSimpleKey_pres
theorem stale_simple_keys_safe : PresS staleSimpleKeys := staleSimpleKeys_pres
theorem increase_flow_level_safe : PresS increaseFlowLevel := increaseFlowLevel_pres
theorem decrease_flow_level_safe : PresS decreaseFlowLevel := decreaseFlowLevel_pres
theorem value_after_simple_key_safe (sk : SimpleKey) (hp : sk.possible = true) (m : Marker) (imp : Bool) :
    Tr (HeadKey sk) (valueAfterSimpleKey sk m imp) (fun _ => InvS) := valueAfterSimpleKey_pres sk hp m imp
theorem value_after_complex_key_safe (m : Marker) (imp : Bool) : PresS (valueAfterComplexKey m imp) :=
  valueAfterComplexKey_pres m imp

/-- **No structural panic, for every input.** Whatever the text, the back-end, its capacity and the
    number of tokens pulled, the scanner model never reaches `indents.pop().unwrap()`,
    `indents.last().unwrap()`, `simple_keys.last().unwrap()`, `simple_keys.pop().unwrap()`, the
    `assert!(pos <= old_len)` of `insert_token`, or a negative `token_number - tokens_parsed`. -/
theorem scanner_no_structural_panic (k : InKind) (cap : Nat) (text : Str) (fuel : Nat) (p : Site)
    (h : (scanAll fuel (mkSc k cap text) []).2.1 = .panic p) : ¬ StructSite p :=
  scanAll_no_struct_panic fuel _ [] (mkSc_between k cap text) p h

/-- **String input: no panic site at all, for every text.** When the scanner reads from a string slice
    (`StrInput`, the back-end behind `Parser::new_from_str` and every `load_from_str`) the only way the
    model run can stop abnormally is by exhausting the fuel it was given: none of the `unwrap`,
    `assert!`, index and subtraction sites of the scanner or of `StrInput` (its
    `next_can_be_plain_scalar` on an empty string, its `skip_ws_to_eol` assertion) is reachable. -/
theorem scanner_str_no_panic (cap : Nat) (text : Str) (fuel : Nat) (p : Site)
    (h : (scanAll fuel (mkSc .str cap text) []).2.1 = .panic p) : p = .fuel :=
  scanAll_str_only_fuel cap text fuel p h

/-- **The pull parser terminates, with a bound linear in the number of tokens.** For every token list
    (hence every input and back-end), latched scanner error and `keep_tags` setting: plain iteration
    given `16·|tokens| + 3` steps ends in `None` (after StreamEnd) or in an error value. It never
    stops at a panic site and never exhausts its steps: every step of the 22-state machine strictly
    decreases the potential `16·|remaining tokens| + rank(state, next token) + Σ rank(waiting states)`
    (`Proofs/Term.lean`). -/
theorem parser_terminates (toks : List Token) (scanErr : Option ScanError) (eof : Marker) (keep : Bool)
    (fuel : Nat) (hf : 16 * toks.length + 3 ≤ fuel) :
    ∀ x, (iterate fuel (Api.init (PState.init toks scanErr eof keep)) []).2 ≠ some (.panic x) := by
  have hinv : IterInv (Api.init (PState.init toks scanErr eof keep)) ⟨0, []⟩ :=
    ⟨by simp [Api.init, PState.init, R, R'], rfl, by simp [Api.init, PState.init], by simp [Api.init]⟩
  apply iterate_terminates fuel _ _ hinv
  simp only [need, Api.init, Bool.false_eq_true, ↓reduceIte, phi_init]; omega

/-- **The push interface terminates and reaches no panic site**, for every token list: `Parser::load`
    (multi-document) given `16·|tokens| + 2` loop iterations returns `Ok` or an error value — its
    `unreachable!` arms and its `assert_eq!` are never reached (corollary of `C17.push_eq_pull`). -/
theorem push_terminates (toks : List Token) (scanErr : Option ScanError) (eof : Marker) (keep : Bool)
    (n : Nat) (hn : 16 * toks.length + 2 ≤ n) (x : PanicSite) :
    load true n ⟨Api.init (PState.init toks scanErr eof keep), []⟩ ≠ .panic x := by
  intro h
  have := C17.push_eq_pull toks scanErr eof keep n hn
  simp only [h] at this

/-- one step of the state machine, any state: the potential strictly decreases -/
theorem parser_step_decreases (p : PState) (hne : p.state ≠ .end) (e : Event) (sp : Span) (p' : PState)
    (h : parseStep p = .ok (e, sp, p')) : phi p' < phi p := by
  have := parseStep_below p hne; rw [h] at this; exact this

/-- **String input, whole pull pipeline.** For every text, `keep_tags` setting and capacity, the
    pipeline `characters → StrInput → scanner → parser iterator` reaches no panic site of the scanner,
    of `StrInput` or of the parser, and the parser part always finishes within its steps: the only
    abnormal stop the model can exhibit is the scanner run exhausting its fuel. -/
theorem pipeline_str_no_panic (cap : Nat) (keep : Bool) (text : Str) :
    (Pipeline.events .str cap keep text = none → (Pipeline.scanText .str cap text).2.1 = .panic .fuel) ∧
    (∀ r, Pipeline.events .str cap keep text = some r → ∀ x, r.2 ≠ some (.panic x)) := by
  constructor
  · intro h
    unfold Pipeline.events Pipeline.parserOf at h
    cases hs : Pipeline.scanText .str cap text with
    | mk toks rest =>
      obtain ⟨out, s'⟩ := rest
      cases out with
      | done => simp [hs] at h
      | error e => simp [hs] at h
      | panic p =>
        have := scanner_str_no_panic cap text (4 * text.length + 32) p (by
          have := congrArg (fun x => x.2.1) hs; simpa [Pipeline.scanText] using this)
        subst this; rfl
  · intro r h
    unfold Pipeline.events at h
    cases hp : Pipeline.parserOf .str cap keep text with
    | none => simp [hp] at h
    | some p =>
      simp only [hp, Option.map_some, Option.some.injEq] at h
      subst h
      unfold Pipeline.parserOf at hp
      split at hp
      · simp at hp
      · simp only [Option.some.injEq] at hp; subst hp
        exact parser_terminates _ _ _ _ _ (by simp [PState.init])
      · simp only [Option.some.injEq] at hp; subst hp
        exact parser_terminates _ _ _ _ _ (by simp [PState.init])

/-- the statement is not vacuous: the six sites are exactly the ones it excludes -/
example : StructSite .indentsPopUnwrap ∧ StructSite .insertTokenAssert ∧ StructSite .tokenNumberUnderflow ∧
    StructSite .simpleKeysLastUnwrap ∧ StructSite .simpleKeysPopUnwrap ∧ StructSite .indentsLastUnwrap := by
  simp [StructSite]

/-- the initial scanner state after `fetch_stream_start` satisfies the structural invariant's
    indentation and numbering clauses -/
example : WFInd (mkSc .str 128 []).indent (mkSc .str 128 []).indents := by simp [mkSc, WFInd]

end SaphyrModel.C01
