import SaphyrModel.Load
/-! # C19 — All node types and loading modes hold the same data (loader model)

The four Rust node types are one model type: the marked kinds carry spans, the bare kinds have the
default span everywhere (`LCfg.marked`); owned vs borrowed differ only in string ownership, which
the model does not distinguish. -/
namespace SaphyrModel.C19
open SaphyrModel ProtoR

/-- resolving leaves already-resolved nodes untouched: `parse_representation` changes only
    `Representation` nodes -/
theorem parseRepr_resolved (n : Node) (h : ∀ sp v st t, n ≠ .repr sp v st t) : parseRepr n = n := by
  cases n with
  | repr sp v st t => exact absurd rfl (h sp v st t)
  | _ => simp [parseRepr]

/-- … and so does the recursive variant on leaves that are not representations -/
theorem parseReprRec_leaf (n : Node) (hr : ∀ sp v st t, n ≠ .repr sp v st t)
    (hs : ∀ sp xs, n ≠ .seq sp xs) (hm : ∀ sp ps, n ≠ .map sp ps) : parseReprRec n = n := by
  cases n with
  | repr sp v st t => exact absurd rfl (hr sp v st t)
  | seq sp xs => exact absurd rfl (hs sp xs)
  | map sp ps => exact absurd rfl (hm sp ps)
  | _ => simp [parseReprRec]

/-- a sequence is resolved element-wise and keeps its length and order (it is no longer dropped) -/
theorem parseReprRec_seq (sp : Span) (xs : List Node) :
    parseReprRec (.seq sp xs) = .seq sp (parseReprList xs) := by simp [parseReprRec]

theorem parseReprList_length (xs : List Node) : (parseReprList xs).length = xs.length := by
  induction xs with
  | nil => simp [parseReprList]
  | cons x r ih => simp [parseReprList, ih]

/-- deferred resolution of a scalar equals eager resolution: resolving the `Representation` the lazy
    loader stores gives the node the eager loader stores (same span) -/
theorem lazy_scalar_eq_eager (marked : Bool) (v : Str) (st : ScalarStyle) (tag : Option Tag) (sp : Span) :
    parseRepr (Node.withSpan marked (scalarNode false v st tag) sp) =
      Node.withSpan marked (scalarNode true v st tag) sp := by
  unfold scalarNode
  simp only [Bool.false_eq_true, ↓reduceIte]
  cases marked <;> cases h : parseWithMeta v st tag <;> simp [Node.withSpan, parseRepr, h]

/-- equality of nodes ignores spans: re-spanning a node does not change what it is equal to -/
theorem eqv_withSpan (a b : Node) (sp : Span) : Node.eqv (Node.withSpan true a sp) b = Node.eqv a b := by
  cases a <;> cases b <;> simp [Node.withSpan, Node.eqv]

end SaphyrModel.C19
