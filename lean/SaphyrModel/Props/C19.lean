import SaphyrModel.Load
import SaphyrModel.Proofs.Erase
/-! # C19 — All node types and loading modes hold the same data (loader model)

The four Rust node types are one model type: the marked kinds carry spans, the bare kinds have the
default span everywhere (`LCfg.marked`); owned vs borrowed differ only in string ownership, which
the model does not distinguish. -/
namespace SaphyrModel.C19
open SaphyrModel ProtoR

/-- resolving leaves already-resolved nodes untouched: `parse_representation` changes only
    `Representation` nodes -/
theorem parseRepr_resolved (n : Node) (h : ∀ sp v st t, n ≠ .repr sp v st t) : parseRepr n = n := by
  cases n with
  | repr sp v st t => exact absurd rfl (h sp v st t)
  | _ => simp [parseRepr]

/-- … and so does the recursive variant on leaves that are not representations -/
theorem parseReprRec_leaf (n : Node) (hr : ∀ sp v st t, n ≠ .repr sp v st t)
    (hs : ∀ sp xs, n ≠ .seq sp xs) (hm : ∀ sp ps, n ≠ .map sp ps) : parseReprRec n = n := by
  cases n with
  | repr sp v st t => exact absurd rfl (hr sp v st t)
  | seq sp xs => exact absurd rfl (hs sp xs)
  | map sp ps => exact absurd rfl (hm sp ps)
  | _ => simp [parseReprRec]

/-- a sequence is resolved element-wise and keeps its length and order (it is no longer dropped) -/
theorem parseReprRec_seq (sp : Span) (xs : List Node) :
    parseReprRec (.seq sp xs) = .seq sp (parseReprList xs) := by simp [parseReprRec]

theorem parseReprList_length (xs : List Node) : (parseReprList xs).length = xs.length := by
  induction xs with
  | nil => simp [parseReprList]
  | cons x r ih => simp [parseReprList, ih]

/-- deferred resolution of a scalar equals eager resolution: resolving the `Representation` the lazy
    loader stores gives the node the eager loader stores (same span) -/
theorem lazy_scalar_eq_eager (marked : Bool) (v : Str) (st : ScalarStyle) (tag : Option Tag) (sp : Span) :
    parseRepr (Node.withSpan marked (scalarNode false v st tag) sp) =
      Node.withSpan marked (scalarNode true v st tag) sp := by
  unfold scalarNode
  simp only [Bool.false_eq_true, ↓reduceIte]
  cases marked <;> cases h : parseWithMeta v st tag <;> simp [Node.withSpan, parseRepr, h]

/-- equality of nodes ignores spans: re-spanning a node does not change what it is equal to -/
theorem eqv_withSpan (a b : Node) (sp : Span) : Node.eqv (Node.withSpan true a sp) b = Node.eqv a b := by
  cases a <;> cases b <;> simp [Node.withSpan, Node.eqv]

/-- **Marked and bare node types hold the same data, for every event list.** Loading any event
    sequence (well nested or not, eager or deferred scalars) into the marked node type and then
    forgetting the spans gives exactly what loading it into the bare node type gives — the same
    documents, the same open collections, the same anchor table, and a panic site in one exactly when
    in the other. Marked nodes differ from bare ones only by carrying spans. -/
theorem kinds_agree (early : Bool) (evs : List (Event × Span)) :
    foldEvents ⟨false, early⟩ {} evs = (foldEvents ⟨true, early⟩ {} evs).erase :=
  foldEvents_erase early {} evs

/-- equality (and therefore hashing-by-equality lookups) of marked nodes ignores the spans entirely -/
theorem marked_eq_ignores_spans (a b : Node) : Node.eqv a.erase b.erase = Node.eqv a b := eqv_erase a b

/-- non-vacuity: a marked load of `[x]` really carries spans that the bare load does not -/
example :
    let sp : Span := ⟨⟨2, 1, 2⟩, ⟨3, 1, 3⟩⟩
    let evs : List (Event × Span) := [(.sequenceStart 0 none, sp), (.scalar ['x'] .plain 0 none, sp), (.sequenceEnd, sp)]
    (match foldEvents ⟨true, true⟩ {} evs with | .ok s => s.docStack.map (fun p : Node × Nat => Node.isBad p.1 || (match p.1 with | .seq sp _ => sp.start.index == 2 | _ => false)) | .panic _ => []) ≠
    (match foldEvents ⟨false, true⟩ {} evs with | .ok s => s.docStack.map (fun p : Node × Nat => Node.isBad p.1 || (match p.1 with | .seq sp _ => sp.start.index == 2 | _ => false)) | .panic _ => []) := by decide

end SaphyrModel.C19
