import SaphyrModel.Sc.Scan3
import SaphyrModel.Api
/-! The composition the driver runs: characters → scanner model → parser model (iterator). Kept in
the library so that the end-to-end theorems speak about exactly what `saphyr_model` executes. -/
namespace SaphyrModel.Pipeline
open SaphyrModel SaphyrModel.Sc

/-- all tokens the scanner delivers for `text` on the given back-end -/
def scanText (k : InKind) (cap : Nat) (text : Str) : List Token × Outcome × Sc :=
  scanAll (4 * text.length + 32) (mkSc k cap text) []

/-- the parser as constructed over the scanner's deliveries; `none` when the scanner model panicked -/
def parserOf (k : InKind) (cap : Nat) (keep : Bool) (text : Str) : Option PState :=
  match scanText k cap text with
  | (_, .panic _, _) => none
  | (toks, .done, s') => some (PState.init toks none s'.mark keep)
  | (toks, .error e, s') => some (PState.init toks (some e) s'.mark keep)

/-- plain iteration over the events of `text` -/
def events (k : InKind) (cap : Nat) (keep : Bool) (text : Str) : Option (List Ev × Option (Res Unit)) :=
  (parserOf k cap keep text).map fun p => iterate (16 * p.toks.length + 3) (Api.init p) []

end SaphyrModel.Pipeline
