import SaphyrModel.Load
/-! Model of the mapping lookups of the node types (macros.rs, yaml.rs): the key-by-`&str` lookups go
through `raw_entry().from_hash(hash, eq)` with the hash of a freshly built string node; the
explicit lookup and `Index<usize>` go through `LinkedHashMap::get`. Both are modelled over the
association list of `Load.lean`, with an abstract hash function. -/
namespace SaphyrModel

/-- the node `Yaml::Value(Scalar::String(k))` -/
def strKey (k : Str) : Node := .value Span.dflt (.string k)

/-- `LinkedHashMap::get(key)`: the (unique) entry whose key equals `key` -/
def mapGet (m : List (Node × Node)) (key : Node) : Option Node :=
  (m.find? (fun p => Node.eqv p.1 key)).map (·.2)

/-- `raw_entry().from_hash(h, eq)`: the first entry in the bucket of `h` that satisfies `eq` -/
def mapGetHashed (hashOf : Node → Nat) (m : List (Node × Node)) (h : Nat) (eq : Node → Bool) : Option Node :=
  (m.find? (fun p => hashOf p.1 == h && eq p.1)).map (·.2)

/-- `as_mapping_get_impl(key: &str)` -/
def asMappingGet (hashOf : Node → Nat) (n : Node) (k : Str) : Option Node :=
  match n with
  | .map _ m => mapGetHashed hashOf m (hashOf (strKey k)) (fun key => Node.eqv key (strKey k))
  | _ => none

def containsMappingKey (hashOf : Node → Nat) (n : Node) (k : Str) : Bool := (asMappingGet hashOf n k).isSome

/-- `Index<&str>`: `none` stands for the documented panic -/
def indexStr (hashOf : Node → Nat) (n : Node) (k : Str) : Option Node := asMappingGet hashOf n k

/-- lookup with an explicitly built string node: `as_mapping().get(&Yaml::Value(String(k)))` -/
def getExplicit (n : Node) (k : Str) : Option Node :=
  match n with
  | .map _ m => mapGet m (strKey k)
  | _ => none

/-- `Index<usize>` (`none` = panic) and `as_sequence_get` -/
def indexInt (n : Node) (i : Nat) : Option Node :=
  match n with
  | .seq _ xs => xs[i]?
  | .map _ m =>
    -- `i64::try_from(idx)`: an index that does not fit an `i64` is the documented panic, it never
    -- wraps around to a negative key
    if i < 2 ^ 63 then mapGet m (.value Span.dflt (.int i)) else none
  | _ => none
def asSequenceGet (n : Node) (i : Nat) : Option Node :=
  match n with
  | .seq _ xs => xs[i]?
  | _ => none

end SaphyrModel
