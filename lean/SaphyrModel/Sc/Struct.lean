import SaphyrModel.Sc.Inv
/-! Calibration: structural invariant I1–I3 through the functions that touch indent/key/queue state. -/
namespace SaphyrModel.Sc
open SaphyrModel

/-- Hoare triple: partial w.r.t. scan errors, total w.r.t. structural panic sites -/
def Tr (P : Sc → Prop) (m : S α) (Q : α → Sc → Prop) : Prop :=
  ∀ s, P s → match m s with
    | .ok (a, s') => Q a s'
    | .err _ => True
    | .panic p => ¬ StructSite p

theorem Tr.pure {P : Sc → Prop} {Q : α → Sc → Prop} (a : α) (h : ∀ s, P s → Q a s) :
    Tr P (Pure.pure a : S α) Q := fun s hs => h s hs

theorem Tr.bind {P : Sc → Prop} {R : α → Sc → Prop} {Q : β → Sc → Prop} {m : S α} {f : α → S β}
    (h1 : Tr P m R) (h2 : ∀ a, Tr (R a) (f a) Q) : Tr P (m >>= f) Q := by
  intro s hs
  have := h1 s hs
  simp only [Bind.bind]
  cases hm : m s with
  | ok r => obtain ⟨a, s'⟩ := r; simp only [hm] at this ⊢; exact h2 a s' this
  | err e => trivial
  | panic p => simp only [hm] at this ⊢; exact this

theorem Tr.conseq {P P' : Sc → Prop} {Q Q' : α → Sc → Prop} {m : S α}
    (h : Tr P m Q) (hp : ∀ s, P' s → P s) (hq : ∀ a s, Q a s → Q' a s) : Tr P' m Q' := by
  intro s hs
  have := h s (hp s hs)
  cases hm : m s with
  | ok r => obtain ⟨a, s'⟩ := r; simp only [hm] at this ⊢; exact hq a s' this
  | err e => trivial
  | panic p => simp only [hm] at this ⊢; exact this

theorem Tr.ite {P : Sc → Prop} {Q : α → Sc → Prop} {c : Prop} [Decidable c] {a b : S α}
    (ha : c → Tr P a Q) (hb : ¬ c → Tr P b Q) : Tr P (if c then a else b) Q := by
  split <;> rename_i h
  · exact ha h
  · exact hb h

/-- read the state and continue with the knowledge of what it is -/
theorem Tr.getS_bind {P : Sc → Prop} {Q : β → Sc → Prop} {f : Sc → S β}
    (h : ∀ s0, Tr (fun s => P s ∧ s = s0) (f s0) Q) : Tr P (getS >>= f) Q := by
  intro s hs
  simp only [Bind.bind, getS]
  exact h s s ⟨hs, rfl⟩

theorem Tr.modS {Q : Unit → Sc → Prop} (f : Sc → Sc) : Tr (fun s => Q () (f s)) (modS f) Q :=
  fun _ hs => hs

theorem Tr.err {P : Sc → Prop} {Q : α → Sc → Prop} (m : Marker) (msg : String) : Tr P (err m msg : S α) Q :=
  fun _ _ => trivial

theorem Tr.panicAt {P : Sc → Prop} {Q : α → Sc → Prop} (site : Site) (h : ∀ s, P s → False) :
    Tr P (panicAt site : S α) Q := fun s hs => (h s hs).elim

theorem Tr.panicFuel {P : Sc → Prop} {Q : α → Sc → Prop} : Tr P (Sc.panicAt .fuel : S α) Q :=
  fun _ _ => by simp [Sc.panicAt, StructSite]

/-- a property of states that survives framing -/
def Stable (P : Sc → Prop) : Prop := ∀ s s', P s → Frame s s' → P s'

theorem Frames.tr {m : S α} (h : Frames m) {P : Sc → Prop} (hP : Stable P) : Tr P m (fun _ => P) := by
  intro s hs
  have := h.out s
  cases hm : m s with
  | ok r => obtain ⟨a, s'⟩ := r; simp only [hm] at this ⊢; exact hP s s' hs this
  | err e => trivial
  | panic p => simp only [hm] at this ⊢; exact this

/-- the invariant after the stream has started -/
structure InvS (s : Sc) : Prop extends Inv s where
  started : s.streamStartProduced = true

theorem InvS.stable : Stable InvS := by
  intro s s' h f
  exact ⟨h.toInv.frame f, by rw [f.started]; exact h.started⟩

theorem InvS.keysLen {s : Sc} (h : InvS s) : s.simpleKeys.length = s.flowLevel + 1 := h.keys h.started

-- token queue ------------------------------------------------------------------------------------

theorem tokenPos_tr (n : Nat) (P : Sc → Prop) (hn : ∀ s, P s → s.tokensParsed ≤ n) :
    Tr P (tokenPos n) (fun r s => P s ∧ r = n - s.tokensParsed) := by
  intro s hs
  have h : n ≥ s.tokensParsed := hn s hs
  simp only [tokenPos, h, if_true]
  exact ⟨hs, trivial⟩

theorem insertToken_tr (pos : Nat) (tok : Token) (P : Sc → Prop) (hp : ∀ s, P s → pos ≤ s.tokens.length) :
    Tr P (insertToken pos tok)
      (fun _ s' => ∃ s, P s ∧ s' = { s with tokens := s.tokens.take pos ++ [tok] ++ s.tokens.drop pos }) := by
  intro s hs
  have h : pos ≤ s.tokens.length := hp s hs
  simp only [insertToken, h, if_true]
  exact ⟨s, hs, rfl⟩

/-- inserting a token anywhere keeps the invariant (the queue only grows) -/
theorem InvS.insert {s : Sc} (h : InvS s) (pos : Nat) (tok : Token) :
    InvS { s with tokens := s.tokens.take pos ++ [tok] ++ s.tokens.drop pos } := by
  refine ⟨⟨h.ind, h.keys, ?_⟩, h.started⟩
  intro sk hsk hp
  have := h.nums sk hsk hp
  have hl : (s.tokens.take pos ++ [tok] ++ s.tokens.drop pos).length = s.tokens.length + 1 := by
    simp only [List.length_append, List.length_take, List.length_drop, List.length_cons, List.length_nil]
    omega
  simp only [hl]; omega

end SaphyrModel.Sc

namespace SaphyrModel.Sc
open SaphyrModel

abbrev PresS (m : S α) : Prop := Tr InvS m (fun _ => InvS)

theorem Tr.modS' {P : Sc → Prop} {Q : Unit → Sc → Prop} (f : Sc → Sc) (h : ∀ s, P s → Q () (f s)) :
    Tr P (SaphyrModel.Sc.modS f) Q := fun s hs => h s hs

theorem rollOneColIndent_pres : PresS rollOneColIndent := by
  unfold rollOneColIndent
  apply Tr.getS_bind; intro s0
  apply Tr.ite
  · intro _
    apply Tr.modS'
    rintro s ⟨hs, rfl⟩
    refine ⟨⟨?_, hs.keys, hs.nums⟩, hs.started⟩
    show WFInd (s.indent + 1) (⟨s.indent, false⟩ :: s.indents)
    exact ⟨by show s.indent < s.indent + 1; omega, hs.ind⟩
  · intro _; exact Tr.pure _ (fun s h => h.1)

theorem WFInd_dropNonBlock (i : Int) (l : List Indent) (h : WFInd i l) :
    WFInd (unrollNonBlockIndents.go i l).1 (unrollNonBlockIndents.go i l).2 := by
  induction l generalizing i with
  | nil => simpa [unrollNonBlockIndents.go] using h
  | cons x xs ih =>
    simp only [unrollNonBlockIndents.go]
    split
    · exact h
    · exact ih _ h.2

theorem unrollNonBlockIndents_pres : PresS unrollNonBlockIndents := by
  unfold unrollNonBlockIndents
  apply Tr.modS'
  intro s hs
  exact ⟨⟨WFInd_dropNonBlock _ _ hs.ind, hs.keys, hs.nums⟩, hs.started⟩

theorem InvS.keys_ne {s : Sc} (h : InvS s) : s.simpleKeys ≠ [] := by
  intro hk; have := h.keysLen; rw [hk] at this; simp at this

theorem removeSimpleKey_pres : PresS removeSimpleKey := by
  unfold removeSimpleKey
  apply Tr.getS_bind; intro s0
  cases hk : s0.simpleKeys with
  | nil =>
    apply Tr.panicAt
    rintro s ⟨hs, rfl⟩; exact hs.keys_ne hk
  | cons k ks =>
    simp only
    apply Tr.ite
    · intro _; exact Tr.err _ _
    · intro _
      apply Tr.modS'
      rintro s ⟨hs, rfl⟩
      refine ⟨⟨hs.ind, ?_, ?_⟩, hs.started⟩
      · intro _; have := hs.keysLen; rw [hk] at this; simpa using this
      · intro sk hsk hp
        simp only [List.mem_cons] at hsk
        rcases hsk with rfl | hsk
        · simp at hp
        · exact hs.nums sk (by rw [hk]; exact List.mem_cons_of_mem _ hsk) hp


theorem requiredKey_tr (s0 : Sc) :
    Tr (fun s => InvS s ∧ s = s0) (requiredKey s0) (fun _ s => InvS s ∧ s = s0) := by
  unfold requiredKey
  apply Tr.ite
  · intro hc
    cases hi : s0.indents with
    | nil =>
      apply Tr.panicAt
      rintro s ⟨hs, rfl⟩
      have := hs.ind; rw [hi] at this; simp only [WFInd] at this
      simp only [Bool.and_eq_true, beq_iff_eq] at hc
      omega
    | cons i is => exact Tr.pure _ (fun s h => h)
  · intro _; exact Tr.pure _ (fun s h => h)

theorem saveSimpleKey_pres : PresS saveSimpleKey := by
  unfold saveSimpleKey
  apply Tr.getS_bind; intro s0
  apply Tr.ite
  · intro _
    apply Tr.bind (requiredKey_tr s0)
    intro req
    apply Tr.modS'
    rintro s ⟨hs, rfl⟩
    refine ⟨⟨hs.ind, ?_, ?_⟩, hs.started⟩
    · intro _
      cases hk : s.simpleKeys with
      | nil => exact absurd hk hs.keys_ne
      | cons k ks => have := hs.keysLen; rw [hk] at this; simpa using this
    · intro sk hsk hp
      simp only [List.mem_cons] at hsk
      rcases hsk with rfl | hsk
      · exact ⟨by simp, by simp⟩
      · exact hs.nums sk (List.mem_of_mem_tail hsk) hp
  · intro _; exact Tr.pure _ (fun s h => h.1)

theorem staleSimpleKeys_pres : PresS staleSimpleKeys := by
  unfold staleSimpleKeys
  apply Tr.getS_bind; intro s0
  simp only
  apply Tr.ite
  · intro _; exact Tr.err _ _
  · intro _
    apply Tr.modS'
    rintro s ⟨hs, rfl⟩
    refine ⟨⟨hs.ind, ?_, ?_⟩, hs.started⟩
    · intro _; simpa using hs.keysLen
    · intro sk hsk hp
      simp only [List.mem_map] at hsk
      obtain ⟨sk0, hsk0, rfl⟩ := hsk
      split at hp
      · simp at hp
      · rename_i hc
        simp only [hc, if_false] 
        exact hs.nums sk0 hsk0 hp

theorem increaseFlowLevel_pres : PresS increaseFlowLevel := by
  unfold increaseFlowLevel
  apply Tr.bind (R := fun _ s => InvS { s with simpleKeys := s.simpleKeys.tail } ∧
      s.simpleKeys.length = s.flowLevel + 2 ∧ (s.simpleKeys.head?.map (·.possible)) = some false)
  · apply Tr.modS'
    intro s hs
    refine ⟨?_, ?_, rfl⟩
    · simpa using hs
    · simp [hs.keysLen]
  · intro _
    apply Tr.getS_bind; intro s0
    apply Tr.ite
    · intro _; exact Tr.err _ _
    · intro _
      apply Tr.modS'
      rintro s ⟨⟨hs, hl, hh⟩, rfl⟩
      refine ⟨⟨hs.ind, ?_, ?_⟩, hs.started⟩
      · intro _; simpa using hl
      · intro sk hsk hp
        cases hk : s.simpleKeys with
        | nil => rw [hk] at hsk; simp at hsk
        | cons k ks =>
          rw [hk] at hsk hh
          simp only [List.mem_cons] at hsk
          rcases hsk with rfl | hsk
          · simp at hh; rw [hh] at hp; simp at hp
          · have := hs.nums sk (by simp [hk, hsk]) hp
            exact this

theorem decreaseFlowLevel_pres : PresS decreaseFlowLevel := by
  unfold decreaseFlowLevel
  apply Tr.getS_bind; intro s0
  apply Tr.ite
  · intro hpos
    cases hk : s0.simpleKeys with
    | nil =>
      apply Tr.panicAt
      rintro s ⟨hs, rfl⟩; exact hs.keys_ne hk
    | cons k ks =>
      apply Tr.modS'
      rintro s ⟨hs, rfl⟩
      refine ⟨⟨hs.ind, ?_, ?_⟩, hs.started⟩
      · intro _; have := hs.keysLen; rw [hk] at this; simp at this ⊢; omega
      · intro sk hsk hp
        exact hs.nums sk (by rw [hk]; exact List.mem_cons_of_mem _ hsk) hp
  · intro _; exact Tr.pure _ (fun s h => h.1)


-- generic PresS combinators --------------------------------------------------------------------

theorem PresS.pure (a : α) : PresS (Pure.pure a : S α) := Tr.pure a (fun _ h => h)
theorem PresS.bind {m : S α} {f : α → S β} (h1 : PresS m) (h2 : ∀ a, PresS (f a)) : PresS (m >>= f) :=
  Tr.bind h1 h2
theorem PresS.ite {c : Prop} [Decidable c] {a b : S α} (ha : PresS a) (hb : PresS b) :
    PresS (if c then a else b) := Tr.ite (fun _ => ha) (fun _ => hb)
theorem PresS.getS_bind {f : Sc → S β} (h : ∀ s0, PresS (f s0)) : PresS (getS >>= f) :=
  Tr.getS_bind fun s0 => Tr.conseq (h s0) (fun _ hs => hs.1) (fun _ _ hq => hq)
theorem Frames.presS {m : S α} (h : Frames m) : PresS m := h.tr InvS.stable
theorem PresS.err (m : Marker) (msg : String) : PresS (err m msg : S α) := Tr.err m msg
theorem PresS.panicFuel : PresS (Sc.panicAt .fuel : S α) := Tr.panicFuel

-- indentation -----------------------------------------------------------------------------------

theorem pushTok_pres (sp : Span) (t : TokenType) : PresS (pushTok sp t) := (Frames.pushTok sp t).presS

theorem unrollIndentGo_pres (col : Int) (hcol : -1 ≤ col) (fuel : Nat) : PresS (unrollIndentGo col fuel) := by
  induction fuel with
  | zero => unfold unrollIndentGo; exact PresS.panicFuel
  | succ n ih =>
    unfold unrollIndentGo
    apply Tr.getS_bind; intro s0
    apply Tr.ite
    · intro hgt
      cases hi : s0.indents with
      | nil =>
        apply Tr.panicAt
        rintro s ⟨hs, rfl⟩
        have := hs.ind; rw [hi] at this; simp only [WFInd] at this; omega
      | cons i is =>
        simp only
        apply Tr.bind (R := fun _ s => InvS s)
        · apply Tr.modS'
          rintro s ⟨hs, rfl⟩
          have hw := hs.ind; rw [hi] at hw
          exact ⟨⟨hw.2, hs.keys, hs.nums⟩, hs.started⟩
        · intro _
          apply PresS.ite
          · apply PresS.getS_bind; intro s1
            exact PresS.bind (pushTok_pres _ _) (fun _ => ih)
          · exact ih
    · intro _; exact Tr.pure _ (fun s h => h.1)

theorem unrollIndent_pres (col : Int) (hcol : -1 ≤ col) : PresS (unrollIndent col) := by
  unfold unrollIndent
  apply PresS.getS_bind; intro s0
  apply PresS.ite
  · exact PresS.pure _
  · exact unrollIndentGo_pres col hcol _


def NumOk (s : Sc) : Option Nat → Prop
  | none => True
  | some n => s.tokensParsed ≤ n ∧ n ≤ s.tokensParsed + s.tokens.length

theorem NumOk_of_eq {s s' : Sc} {n : Option Nat} (h : NumOk s n) (hp : s'.tokensParsed = s.tokensParsed)
    (ht : s'.tokens = s.tokens) : NumOk s' n := by
  cases n <;> simp_all [NumOk]

theorem dropNonBlockTop_inv (col : Nat) (s : Sc) (hs : InvS s) : InvS (dropNonBlockTop col s) := by
  unfold dropNonBlockTop
  split
  · split
    · rename_i i is hi
      split
      · have hw := hs.ind; rw [hi] at hw
        exact ⟨⟨hw.2, hs.keys, hs.nums⟩, hs.started⟩
      · exact hs
    · exact hs
  · exact hs

theorem dropNonBlockTop_toks (col : Nat) (s : Sc) :
    (dropNonBlockTop col s).tokens = s.tokens ∧ (dropNonBlockTop col s).tokensParsed = s.tokensParsed := by
  unfold dropNonBlockTop
  split
  · split
    · split <;> exact ⟨rfl, rfl⟩
    · exact ⟨rfl, rfl⟩
  · exact ⟨rfl, rfl⟩

theorem rollIndentPush_pres (col : Nat) (number : Option Nat) (tok : TokenType) (mark : Marker) :
    Tr (fun s => InvS s ∧ NumOk s number) (rollIndentPush col number tok mark) (fun _ => InvS) := by
  unfold rollIndentPush
  apply Tr.getS_bind; intro s1
  apply Tr.ite
  · intro hlt
    apply Tr.bind (R := fun _ s => InvS s ∧ NumOk s number)
    · apply Tr.modS'
      rintro s ⟨⟨hs, hn⟩, rfl⟩
      refine ⟨⟨⟨?_, hs.keys, hs.nums⟩, hs.started⟩, NumOk_of_eq hn rfl rfl⟩
      show WFInd (col : Int) (⟨s.indent, true⟩ :: s.indents)
      exact ⟨hlt, hs.ind⟩
    · intro _
      cases number with
      | none => exact Tr.conseq (pushTok_pres _ _) (fun _ h => h.1) (fun _ _ h => h)
      | some n =>
        simp only
        apply Tr.bind (tokenPos_tr n _ (fun s h => h.2.1))
        intro pos
        apply Tr.conseq (insertToken_tr pos _ (fun s => (InvS s ∧ NumOk s (some n)) ∧ pos = n - s.tokensParsed) ?_)
          (fun s h => h) ?_
        · rintro s ⟨⟨_, hn⟩, rfl⟩; simp only [NumOk] at hn; omega
        · rintro _ s' ⟨s, ⟨⟨hs, _⟩, _⟩, rfl⟩; exact hs.insert _ _
  · intro _; exact Tr.pure _ (fun s h => h.1.1)

theorem rollIndent_pres (col : Nat) (number : Option Nat) (tok : TokenType) (mark : Marker) :
    Tr (fun s => InvS s ∧ NumOk s number) (rollIndent col number tok mark) (fun _ => InvS) := by
  unfold rollIndent
  apply Tr.getS_bind; intro s0
  apply Tr.ite
  · intro _; exact Tr.pure _ (fun s h => h.1.1)
  · intro _
    apply Tr.bind (R := fun _ s => InvS s ∧ NumOk s number)
    · apply Tr.modS'
      rintro s ⟨⟨hs, hn⟩, rfl⟩
      exact ⟨dropNonBlockTop_inv col s hs,
        NumOk_of_eq hn (dropNonBlockTop_toks col s).2 (dropNonBlockTop_toks col s).1⟩
    · intro _; exact rollIndentPush_pres col number tok mark


-- fetch_value -------------------------------------------------------------------------------------

/-- the head simple key is `sk`, and it is possible (so its token number is in range) -/
def HeadKey (sk : SimpleKey) (s : Sc) : Prop := InvS s ∧ s.simpleKeys.head? = some sk

theorem HeadKey.numOk {sk : SimpleKey} {s : Sc} (h : HeadKey sk s) (hp : sk.possible = true) :
    NumOk s (some sk.tokenNumber) := by
  obtain ⟨hs, hh⟩ := h
  cases hk : s.simpleKeys with
  | nil => rw [hk] at hh; simp at hh
  | cons k ks =>
    rw [hk] at hh; simp at hh; subst hh
    exact hs.nums k (by rw [hk]; simp) hp

theorem insertAtKey_tr (sk : SimpleKey) (hp : sk.possible = true) (tok : Token) :
    Tr (HeadKey sk) (tokenPos sk.tokenNumber >>= fun pos => insertToken pos tok) (fun _ => HeadKey sk) := by
  apply Tr.bind (tokenPos_tr sk.tokenNumber _ (fun s h => (h.numOk hp).1))
  intro pos
  apply Tr.conseq (insertToken_tr pos tok (fun s => HeadKey sk s ∧ pos = sk.tokenNumber - s.tokensParsed) ?_)
    (fun s h => h) ?_
  · rintro s ⟨h, rfl⟩; have := h.numOk hp; simp only [NumOk] at this; omega
  · rintro _ s' ⟨s, ⟨⟨hs, hh⟩, _⟩, rfl⟩; exact ⟨hs.insert _ _, hh⟩

theorem clearHeadPossible_inv (s : Sc) (hs : InvS s) :
    InvS (match s.simpleKeys with
      | k :: ks => { s with simpleKeys := { k with possible := false } :: ks }
      | [] => s) := by
  cases hk : s.simpleKeys with
  | nil => exact hs
  | cons k ks =>
    simp only
    refine ⟨⟨hs.ind, ?_, ?_⟩, hs.started⟩
    · intro _; have := hs.keysLen; rw [hk] at this; simpa using this
    · intro sk hsk hp
      simp only [List.mem_cons] at hsk
      rcases hsk with rfl | hsk
      · simp at hp
      · exact hs.nums sk (by rw [hk]; exact List.mem_cons_of_mem _ hsk) hp

theorem disallowSimpleKey_frames : Frames disallowSimpleKey := by unfold disallowSimpleKey; frames
theorem allowSimpleKey_frames : Frames allowSimpleKey := by unfold allowSimpleKey; frames

/-- `tokenPos n` followed by `insertToken` and a continuation -/
theorem insertAtKey_then (sk : SimpleKey) (hp : sk.possible = true) (tok : Token) {rest : S β}
    {Q : β → Sc → Prop} (hrest : Tr (HeadKey sk) rest Q) :
    Tr (HeadKey sk) (tokenPos sk.tokenNumber >>= fun pos => insertToken pos tok >>= fun _ => rest) Q := by
  apply Tr.bind (tokenPos_tr sk.tokenNumber _ (fun s h => (h.numOk hp).1))
  intro pos
  apply Tr.bind (R := fun _ => HeadKey sk)
  · apply Tr.conseq (insertToken_tr pos tok (fun s => HeadKey sk s ∧ pos = sk.tokenNumber - s.tokensParsed) ?_)
      (fun s h => h) ?_
    · rintro s ⟨h, rfl⟩; have := h.numOk hp; simp only [NumOk] at this; omega
    · rintro _ s' ⟨s, ⟨⟨hs, hh⟩, _⟩, rfl⟩; exact ⟨hs.insert _ _, hh⟩
  · intro _; exact hrest

theorem valueAfterSimpleKey_pres (sk : SimpleKey) (hp : sk.possible = true) (startMark : Marker) (imp : Bool) :
    Tr (HeadKey sk) (valueAfterSimpleKey sk startMark imp) (fun _ => InvS) := by
  unfold valueAfterSimpleKey
  apply insertAtKey_then sk hp
  apply Tr.bind (R := fun _ => HeadKey sk)
  · -- optional FlowMappingStart
    apply Tr.ite
    · intro _
      apply Tr.ite
      · intro _; exact Tr.err _ _
      · intro _
        have := insertAtKey_then sk hp ⟨Span.empty sk.mark, .flowMappingStart⟩
          (rest := (Pure.pure () : S Unit)) (Q := fun _ => HeadKey sk) (Tr.pure _ (fun s h => h))
        -- `insertToken … >>= pure` vs plain `insertToken`: prove directly instead
        apply Tr.bind (tokenPos_tr sk.tokenNumber _ (fun s h => (h.numOk hp).1))
        intro pos
        apply Tr.conseq (insertToken_tr pos _ (fun s => HeadKey sk s ∧ pos = sk.tokenNumber - s.tokensParsed) ?_)
          (fun s h => h) ?_
        · rintro s ⟨h, rfl⟩; have := h.numOk hp; simp only [NumOk] at this; omega
        · rintro _ s' ⟨s, ⟨⟨hs, hh⟩, _⟩, rfl⟩; exact ⟨hs.insert _ _, hh⟩
    · intro _; exact Tr.pure _ (fun s h => h)
  · intro _
    apply Tr.bind (R := fun _ => InvS)
    · exact Tr.conseq (rollIndent_pres _ _ _ _) (fun s h => ⟨h.1, h.numOk hp⟩) (fun _ _ h => h)
    · intro _
      apply PresS.bind rollOneColIndent_pres
      intro _
      apply PresS.bind
      · apply Tr.modS'; intro s hs; exact clearHeadPossible_inv s hs
      · intro _; exact disallowSimpleKey_frames.presS


theorem rollIndent_none_pres (col : Nat) (tok : TokenType) (mark : Marker) : PresS (rollIndent col none tok mark) :=
  Tr.conseq (rollIndent_pres col none tok mark) (fun _ h => ⟨h, trivial⟩) (fun _ _ h => h)

theorem valueAfterComplexKey_pres (startMark : Marker) (imp : Bool) : PresS (valueAfterComplexKey startMark imp) := by
  unfold valueAfterComplexKey
  apply PresS.bind
  · apply PresS.ite
    · exact pushTok_pres _ _
    · exact PresS.pure _
  · intro _
    apply PresS.getS_bind; intro s0
    apply PresS.bind
    · apply PresS.ite
      · apply PresS.ite
        · exact PresS.err _ _
        · exact rollIndent_none_pres _ _ _
      · exact PresS.pure _
    · intro _
      apply PresS.bind rollOneColIndent_pres
      intro _
      apply PresS.ite
      · exact allowSimpleKey_frames.presS
      · exact disallowSimpleKey_frames.presS

-- remaining input operations: none of them can raise a structural panic ------------------------------

theorem NoStruct.dfltSkipWhile (p : Char → Bool) (fuel n : Nat) : NoStruct (In.dfltSkipWhile p fuel n) := by
  induction fuel generalizing n with
  | zero => unfold In.dfltSkipWhile; nostruct
  | succ k ih =>
    unfold In.dfltSkipWhile
    have := NoStruct.lookCh
    have := fun n => ih n
    nostruct

theorem NoStruct.dfltFetchAlpha (fuel n : Nat) (out : Str) : NoStruct (In.dfltFetchAlpha fuel n out) := by
  induction fuel generalizing n out with
  | zero => unfold In.dfltFetchAlpha; nostruct
  | succ k ih =>
    unfold In.dfltFetchAlpha
    have := NoStruct.lookCh
    have := fun n o => ih n o
    nostruct

theorem NoStruct.dfltSkipWs (t : SkipTabs) (fuel n : Nat) (tab ws : Bool) : NoStruct (In.dfltSkipWs t fuel n tab ws) := by
  induction fuel generalizing n tab ws with
  | zero => unfold In.dfltSkipWs; nostruct
  | succ k ih =>
    unfold In.dfltSkipWs
    have := NoStruct.lookCh
    have := fun n a b => ih n a b
    have := fun n => NoStruct.dfltSkipWhile (fun c => !isBreakz c) (k + 1) n
    nostruct

theorem NoStruct.ofNoPanic {m : M In α} (h : ∀ i p, m i ≠ .panic p) : NoStruct m :=
  ⟨fun i p hp => absurd hp (h i p)⟩

theorem NoStruct.skipWsToEol (t : SkipTabs) : NoStruct (In.skipWsToEol t) := by
  unfold In.skipWsToEol
  constructor
  intro i p h
  dsimp only at h
  split at h
  · -- StrInput: the only panic is the `assert!` on the argument
    split at h
    · cases h; simp [StructSite]
    · (repeat' split at h) <;> simp at h
  · exact (NoStruct.dfltSkipWs t _ 0 false false).out i p h

theorem Frames.skipWsToEol (t : SkipTabs) : Frames (skipWsToEol t) := by
  unfold Sc.skipWsToEol
  have := Frames.liftI _ (NoStruct.skipWsToEol t)
  frames

end SaphyrModel.Sc
