import SaphyrModel.Sc.NT.TokOrd2
import SaphyrModel.Sc.ML.TokSpan
/-! The same invariant for the *line* of the marks: every token's span starts on a line no later than the one it ends on
(generated from `TokOrd.lean` / `TokOrd2.lean` by substitution). -/
set_option linter.unusedSimpArgs false
namespace SaphyrModel.Sc
open SaphyrModel

def TokOkL (t : Token) : Prop := t.span.start.line ≤ t.span.stop.line
def TokOrdL (l : List Token) : Prop := ∀ t ∈ l, TokOkL t

theorem TokOrdL.append {a b : List Token} (ha : TokOrdL a) (hb : TokOrdL b) : TokOrdL (a ++ b) := by
  intro t ht
  rcases List.mem_append.mp ht with h | h
  · exact ha t h
  · exact hb t h
theorem TokOrdL.single {t : Token} (h : TokOkL t) : TokOrdL [t] := by
  intro x hx; simp at hx; subst hx; exact h
theorem TokOrdL.take {l : List Token} (h : TokOrdL l) (n : Nat) : TokOrdL (l.take n) :=
  fun t ht => h t (List.mem_of_mem_take ht)
theorem TokOrdL.drop {l : List Token} (h : TokOrdL l) (n : Nat) : TokOrdL (l.drop n) :=
  fun t ht => h t (List.mem_of_mem_drop ht)
theorem TokOkL.empty (m : Marker) (ty : TokenType) : TokOkL ⟨Span.empty m, ty⟩ := Nat.le_refl _

structure TPLL (lo : Nat) (m : S α) : Prop where
  out : ∀ s a s', lo ≤ s.mark.line → TokOrdL s.tokens → m s = .ok (a, s') → TokOrdL s'.tokens

theorem TPLL.ofNT {lo : Nat} {m : S α} (h : NT m) : TPLL lo m :=
  ⟨fun s a s' _ ho hh => by rw [h.out s a s' hh]; exact ho⟩
theorem TPLL.pure {lo : Nat} (a : α) : TPLL lo (Pure.pure a : S α) := ⟨fun s b s' _ ho hh => by cases hh; exact ho⟩
theorem TPLL.err {lo : Nat} (m : Marker) (msg : String) : TPLL lo (err m msg : S α) := ⟨fun s b s' _ _ hh => by cases hh⟩
theorem TPLL.panicAt {lo : Nat} (p : Site) : TPLL lo (panicAt p : S α) := ⟨fun s b s' _ _ hh => by cases hh⟩
theorem TPLL.bind {lo : Nat} {m : S α} {f : α → S β} (hmi : ML m) (h1 : TPLL lo m) (h2 : ∀ a, TPLL lo (f a)) : TPLL lo (m >>= f) := by
  constructor
  intro s b s' hlo ho h
  simp only [Bind.bind] at h
  cases hm : m s with
  | ok r =>
    obtain ⟨a, s1⟩ := r
    simp only [hm] at h
    exact (h2 a).out s1 b s' (Nat.le_trans hlo (hmi.out s a s1 hm)) (h1.out s a s1 hlo ho hm) h
  | err e => simp [hm] at h
  | panic p => simp [hm] at h
theorem TPLL.ite {lo : Nat} {c : Prop} [Decidable c] {a b : S α} (ha : TPLL lo a) (hb : TPLL lo b) : TPLL lo (if c then a else b) := by
  split <;> assumption
theorem TPLL.getMark_bind {lo : Nat} {f : Marker → S β} (h : ∀ sm : Marker, lo ≤ sm.line → TPLL sm.line (f sm)) :
    TPLL lo (getMark >>= f) := by
  constructor
  intro s b s' hlo ho hh
  exact (h s.mark hlo).out s b s' (Nat.le_refl _) ho (by simpa [Bind.bind, getMark] using hh)
theorem TPLL.getS_bind {lo : Nat} {f : Sc → S β} (h : ∀ s0 : Sc, lo ≤ s0.mark.line → TPLL s0.mark.line (f s0)) :
    TPLL lo (getS >>= f) := by
  constructor
  intro s b s' hlo ho hh
  exact (h s hlo).out s b s' (Nat.le_refl _) ho (by simpa [Bind.bind, getS] using hh)
theorem TPLL.pushTok {lo : Nat} (sp : Span) (t : TokenType) (h : sp.start.line ≤ sp.stop.line) : TPLL lo (pushTok sp t) :=
  ⟨fun s b s' _ ho hh => by
    simp only [Sc.pushTok, modS] at hh; cases hh
    exact ho.append (TokOrdL.single h)⟩
theorem TPLL.appendTok {lo : Nat} (tok : Token) (h : TokOkL tok) (g : Sc → Sc) (hg : ∀ s, (g s).tokens = s.tokens ++ [tok]) :
    TPLL lo (modS g) :=
  ⟨fun s b s' _ ho hh => by
    simp only [modS] at hh; cases hh
    rw [hg s]; exact ho.append (TokOrdL.single h)⟩
theorem TPLL.insertToken {lo : Nat} (pos : Nat) (tok : Token) (h : TokOkL tok) : TPLL lo (insertToken pos tok) :=
  ⟨fun s b s' _ ho hh => by
    unfold Sc.insertToken at hh
    by_cases hp : pos ≤ s.tokens.length
    · rw [if_pos hp] at hh; cases hh
      exact ((ho.take pos).append (TokOrdL.single h)).append (ho.drop pos)
    · rw [if_neg hp] at hh; cases hh⟩
theorem TPLL.modS {lo : Nat} (f : Sc → Sc) (h : ∀ s, (f s).tokens = s.tokens) : TPLL lo (Sc.modS f) :=
  TPLL.ofNT (NT.modS f h)
/-- a scanner that returns a token and leaves the queue alone, followed by something that may use the token -/
theorem TPLL.bindTok {lo : Nat} {m : S Token} {f : Token → S β} (hmi : ML m) (hnt : NT m) (hts : TSL lo m)
    (h2 : ∀ tok, TokOkL tok → TPLL lo (f tok)) : TPLL lo (m >>= f) := by
  constructor
  intro s b s' hlo ho h
  simp only [Bind.bind] at h
  cases hm : m s with
  | ok r =>
    obtain ⟨tok, s1⟩ := r
    simp only [hm] at h
    refine (h2 tok (hts.out s tok s1 hlo hm)).out s1 b s' (Nat.le_trans hlo (hmi.out s tok s1 hm)) ?_ h
    rw [hnt.out s tok s1 hm]; exact ho
  | err e => simp [hm] at h
  | panic p => simp [hm] at h

theorem TSL.bindTok {lo : Nat} {m : S Token} {f : Token → S Token} (hmi : ML m) (hts : TSL lo m)
    (h2 : ∀ tok, TokOkL tok → TSL lo (f tok)) : TSL lo (m >>= f) := by
  constructor
  intro s tok s' hlo h
  simp only [Bind.bind] at h
  cases hm : m s with
  | ok r =>
    obtain ⟨t1, s1⟩ := r
    simp only [hm] at h
    exact (h2 t1 (hts.out s t1 s1 hlo hm)).out s1 tok s' (Nat.le_trans hlo (hmi.out s t1 s1 hm)) h
  | err e => simp [hm] at h
  | panic p => simp [hm] at h

macro "tsl" : tactic => `(tactic|
  repeat' (first
    | exact TSL.err _ _
    | (guard_target = ML _; ml)
    | (guard_target = TSL _ (Pure.pure _); first | exact TSL.pure _ (by assumption) | (apply TSL.pure; dsimp only; omega))
    | (guard_target = TSL _ (getMark >>= _); apply TSL.getMark_bind)
    | (guard_target = TSL _ (getS >>= _); apply TSL.getS_bind)
    | (guard_target = TSL _ (_ >>= _); apply TSL.bindMI)
    | (guard_target = TSL _ (ite _ _ _); apply TSL.ite)
    | intro _
    | split
    | dsimp only))

theorem TSL.scanVersionDirectiveValue (mark : Marker) (lo : Nat) (h : mark.line ≤ lo) : TSL lo (scanVersionDirectiveValue mark) := by
  unfold Sc.scanVersionDirectiveValue; tsl
theorem TSL.scanTagDirectiveValue (mark : Marker) (lo : Nat) (h : mark.line ≤ lo) : TSL lo (scanTagDirectiveValue mark) := by
  unfold Sc.scanTagDirectiveValue In.nextIsBlankOrBreakz; tsl
theorem TSL.scanDirective (lo : Nat) : TSL lo scanDirective := by
  unfold Sc.scanDirective In.nextIsBreakz
  apply TSL.getMark_bind; intro sm hsm
  apply TSL.bindMI ML.skipNonBlank; intro _
  apply TSL.bindMI ML.scanDirectiveName; intro name
  dsimp only
  split
  · apply TSL.bindTok (by ml) (TSL.scanVersionDirectiveValue sm _ (Nat.le_refl _))
    intro tok htok; tsl
  · split
    · apply TSL.bindTok (by ml) (TSL.scanTagDirectiveValue sm _ (Nat.le_refl _))
      intro tok htok; tsl
    · apply TSL.bindMI (ML.liftI _); intro n
      apply TSL.bindMI (ML.advance _); intro _
      apply TSL.getMark_bind; intro eml hem
      apply TSL.bindTok (ML.pure _) (TSL.pure _ (by dsimp only; omega))
      intro tok htok; tsl

theorem TSL.scanTag (lo : Nat) : TSL lo scanTag := by
  unfold Sc.scanTag In.nextIsFlow
  apply TSL.getMark_bind; intro sm hsm
  apply TSL.bindMI (ML.lookahead _); intro _
  apply TSL.bindMI
  · ml
  · intro p
    tsl

-- plain scalars: the end mark travels in the accumulator ---------------------------------------------------------

structure EML (lo : Nat) (m : S PlAcc) : Prop where
  out : ∀ s a s', lo ≤ s.mark.line → m s = .ok (a, s') → lo ≤ a.endMark.line

theorem EML.bindMI {lo : Nat} {m : S α} {f : α → S PlAcc} (h1 : ML m) (h2 : ∀ a, EML lo (f a)) : EML lo (m >>= f) := by
  constructor
  intro s a s' hlo h
  simp only [Bind.bind] at h
  cases hm : m s with
  | ok r =>
    obtain ⟨x, s1⟩ := r
    simp only [hm] at h
    exact (h2 x).out s1 a s' (Nat.le_trans hlo (h1.out s x s1 hm)) h
  | err e => simp [hm] at h
  | panic p => simp [hm] at h
theorem EML.bindAcc {lo : Nat} {m : S PlAcc} {f : PlAcc → S PlAcc} (hmi : ML m) (h1 : EML lo m)
    (h2 : ∀ a, lo ≤ a.endMark.line → EML lo (f a)) : EML lo (m >>= f) := by
  constructor
  intro s a s' hlo h
  simp only [Bind.bind] at h
  cases hm : m s with
  | ok r =>
    obtain ⟨x, s1⟩ := r
    simp only [hm] at h
    exact (h2 x (h1.out s x s1 hlo hm)).out s1 a s' (Nat.le_trans hlo (hmi.out s x s1 hm)) h
  | err e => simp [hm] at h
  | panic p => simp [hm] at h
theorem EML.getMark_bind {lo : Nat} {f : Marker → S PlAcc} (h : ∀ sm : Marker, lo ≤ sm.line → EML lo (f sm)) :
    EML lo (getMark >>= f) := by
  constructor
  intro s a s' hlo hh
  exact (h s.mark hlo).out s a s' hlo (by simpa [Bind.bind, getMark] using hh)
theorem EML.getS_bind {lo : Nat} {f : Sc → S PlAcc} (h : ∀ s0 : Sc, lo ≤ s0.mark.line → EML lo (f s0)) :
    EML lo (getS >>= f) := by
  constructor
  intro s a s' hlo hh
  exact (h s hlo).out s a s' hlo (by simpa [Bind.bind, getS] using hh)
theorem EML.ite {lo : Nat} {c : Prop} [Decidable c] {a b : S PlAcc} (ha : EML lo a) (hb : EML lo b) : EML lo (if c then a else b) := by
  split <;> assumption
theorem EML.err {lo : Nat} (m : Marker) (msg : String) : EML lo (err m msg : S PlAcc) := ⟨fun s a s' _ h => by cases h⟩
theorem EML.panicAt {lo : Nat} (p : Site) : EML lo (panicAt p : S PlAcc) := ⟨fun s a s' _ h => by cases h⟩
theorem EML.pure {lo : Nat} (a : PlAcc) (h : lo ≤ a.endMark.line) : EML lo (Pure.pure a : S PlAcc) :=
  ⟨fun s b s' _ hh => by cases hh; exact h⟩

theorem EML.pure_bind {lo : Nat} {x : α} {f : α → S PlAcc} (h : EML lo (f x)) : EML lo (Pure.pure x >>= f) :=
  ⟨fun s a s' hlo hh => h.out s a s' hlo (by simpa [Bind.bind, Pure.pure] using hh)⟩

macro "eml" : tactic => `(tactic|
  repeat' (first
    | exact EML.err _ _
    | exact EML.panicAt _
    | (guard_target = ML _; ml)
    | (guard_target = EML _ (Pure.pure _); apply EML.pure; dsimp only; omega)
    | (guard_target = EML _ (getMark >>= _); apply EML.getMark_bind)
    | (guard_target = EML _ (getS >>= _); apply EML.getS_bind)
    | (guard_target = EML _ (_ >>= _); apply EML.bindMI)
    | (guard_target = EML _ (ite _ _ _); apply EML.ite)
    | intro _
    | split
    | dsimp only))

theorem EML.plainBlanks (indent : Int) (sm : Marker) (lo : Nat) : ∀ fuel a, lo ≤ a.endMark.line → EML lo (plainBlanks indent sm fuel a) := by
  intro fuel
  induction fuel with
  | zero => intro a _; unfold Sc.plainBlanks; eml
  | succ n ih =>
    intro a ha
    unfold Sc.plainBlanks In.nextIsBlankOrBreak In.nextIsBlank In.nextIsBreakz
    eml
    all_goals first | (apply ih; first | assumption | (dsimp only; omega)) | (apply EML.pure; first | assumption | (dsimp only; omega))

set_option maxHeartbeats 1000000 in
theorem EML.plainLoop (indent : Int) (sm : Marker) (lo : Nat) : ∀ fuel a, lo ≤ a.endMark.line → EML lo (plainLoop indent sm fuel a) := by
  intro fuel
  induction fuel with
  | zero => intro a _; unfold Sc.plainLoop; eml
  | succ n ih =>
    intro a ha
    unfold Sc.plainLoop In.nextIsBlankOrBreakz In.nextIsBlank In.nextIsBreak
    repeat' (first
      | exact EML.err _ _
      | (guard_target = ML _; ml)
      | (apply ih; first | assumption | (dsimp only; omega))
      | (guard_target = EML _ (Pure.pure _); apply EML.pure; first | assumption | (dsimp only; omega))
      | (guard_target = EML _ (Pure.pure _ >>= _); apply EML.pure_bind)
      | (guard_target = EML _ (Sc.plainBlanks _ _ _ _ >>= _);
         apply EML.bindAcc (by ml) (EML.plainBlanks _ _ _ _ _ (by first | assumption | (dsimp only; omega))))
      | (guard_target = EML _ (getMark >>= _); apply EML.getMark_bind)
      | (guard_target = EML _ (getS >>= _); apply EML.getS_bind)
      | (guard_target = EML _ (_ >>= _); apply EML.bindMI)
      | (guard_target = EML _ (ite _ _ _); apply EML.ite)
      | intro _
      | split
      | dsimp only)

theorem TSL.ofEM {lo : Nat} {m : S PlAcc} {f : PlAcc → S Token} (hmi : ML m) (hem : EML lo m)
    (h2 : ∀ a, lo ≤ a.endMark.line → TSL lo (f a)) : TSL lo (m >>= f) := by
  constructor
  intro s tok s' hlo h
  simp only [Bind.bind] at h
  cases hm : m s with
  | ok r =>
    obtain ⟨a, s1⟩ := r
    simp only [hm] at h
    exact (h2 a (hem.out s a s1 hlo hm)).out s1 tok s' (Nat.le_trans hlo (hmi.out s a s1 hm)) h
  | err e => simp [hm] at h
  | panic p => simp [hm] at h

theorem TSL.scanPlainScalarBody (lo : Nat) : TSL lo scanPlainScalarBody := by
  unfold Sc.scanPlainScalarBody
  apply TSL.getS_bind; intro s0 h0
  apply TSL.ite (TSL.err _ _)
  apply TSL.ofEM (ML.plainLoop _ _ _ _) (EML.plainLoop _ _ s0.mark.line _ ⟨[], [], [], [], s0.mark⟩ (Nat.le_refl _))
  intro a ha
  tsl

theorem TSL.scanPlainScalar (lo : Nat) : TSL lo scanPlainScalar := by
  unfold Sc.scanPlainScalar
  exact TSL.bindMI ML.unrollNonBlockIndents (fun _ => TSL.scanPlainScalarBody lo)

-- the queue stays ordered through every function that pushes tokens ------------------------------------------------

syntax "tpl_close" : tactic
macro_rules | `(tactic| tpl_close) => `(tactic| first
    | exact TPLL.err _ _ | exact TPLL.panicAt _ | exact TPLL.pure _)

macro "tpl" : tactic => `(tactic|
  repeat' (first
    | tpl_close
    | (guard_target = ML _; ml)
    | (guard_target = TPLL _ (pushTok _ _); apply TPLL.pushTok; first | exact Nat.le_refl _ | (dsimp only; omega))
    | (guard_target = TPLL _ (insertToken _ _); apply TPLL.insertToken; exact TokOkL.empty _ _)
    | (guard_target = TPLL _ (getMark >>= _); apply TPLL.getMark_bind)
    | (guard_target = TPLL _ (getS >>= _); apply TPLL.getS_bind)
    | (guard_target = TPLL _ (_ >>= _); apply TPLL.bind)
    | (guard_target = TPLL _ (ite _ _ _); apply TPLL.ite)
    | (guard_target = TPLL _ _; refine TPLL.ofNT ?_; nt_close; done)
    | intro _
    | split
    | dsimp only))

theorem TPLL.rollIndentPush (col n tok mark) (lo : Nat) : TPLL lo (rollIndentPush col n tok mark) := by unfold Sc.rollIndentPush; tpl
macro_rules | `(tactic| tpl_close) => `(tactic| exact TPLL.rollIndentPush _ _ _ _ _)
theorem TPLL.rollIndent (col n tok mark) (lo : Nat) : TPLL lo (rollIndent col n tok mark) := by unfold Sc.rollIndent; tpl
macro_rules | `(tactic| tpl_close) => `(tactic| exact TPLL.rollIndent _ _ _ _ _)
theorem TPLL.unrollIndentGo (col : Int) (fuel : Nat) : ∀ lo, TPLL lo (unrollIndentGo col fuel) := by
  induction fuel with
  | zero => intro lo; unfold Sc.unrollIndentGo; tpl
  | succ n ih =>
    intro lo; unfold Sc.unrollIndentGo
    apply TPLL.getS_bind; intro s0 h0
    split
    · split
      · exact TPLL.panicAt _
      · apply TPLL.bind (by ml) (by apply TPLL.modS; intro _; rfl)
        intro _
        dsimp only
        split
        · apply TPLL.getS_bind; intro s1 h1
          apply TPLL.bind (ML.pushTok _ _) (TPLL.pushTok _ _ (Nat.le_refl _))
          intro _; exact ih _
        · exact ih _
    · exact TPLL.pure _
macro_rules | `(tactic| tpl_close) => `(tactic| exact TPLL.unrollIndentGo _ _ _)
theorem TPLL.unrollIndent (col : Int) (lo : Nat) : TPLL lo (unrollIndent col) := by unfold Sc.unrollIndent; tpl
macro_rules | `(tactic| tpl_close) => `(tactic| exact TPLL.unrollIndent _ _)
theorem TPLL.endImplicitMapping (m : Marker) (lo : Nat) : TPLL lo (endImplicitMapping m) := by unfold Sc.endImplicitMapping; tpl
macro_rules | `(tactic| tpl_close) => `(tactic| exact TPLL.endImplicitMapping _ _)

theorem TPLL.fetchStreamStart (lo : Nat) : TPLL lo fetchStreamStart := by unfold Sc.fetchStreamStart; tpl
theorem TPLL.fetchStreamEnd (lo : Nat) : TPLL lo fetchStreamEnd := by unfold Sc.fetchStreamEnd; tpl
theorem TPLL.fetchFlowCollectionStart (t : TokenType) (lo : Nat) : TPLL lo (fetchFlowCollectionStart t) := by
  unfold Sc.fetchFlowCollectionStart; tpl
theorem TPLL.closeFlowState (t : TokenType) (lo : Nat) : TPLL lo (closeFlowState t) := by unfold Sc.closeFlowState; tpl
macro_rules | `(tactic| tpl_close) => `(tactic| exact TPLL.closeFlowState _ _)
theorem TPLL.fetchFlowCollectionEnd (t : TokenType) (lo : Nat) : TPLL lo (fetchFlowCollectionEnd t) := by
  unfold Sc.fetchFlowCollectionEnd; tpl
theorem TPLL.fetchFlowEntry (lo : Nat) : TPLL lo fetchFlowEntry := by unfold Sc.fetchFlowEntry; tpl
theorem TPLL.rollIfBreakOrFlow (lo : Nat) : TPLL lo rollIfBreakOrFlow := by
  unfold Sc.rollIfBreakOrFlow In.nextIsBreak In.nextIsFlow; tpl
macro_rules | `(tactic| tpl_close) => `(tactic| exact TPLL.rollIfBreakOrFlow _)
theorem TPLL.fetchBlockEntryTail (lo : Nat) : TPLL lo fetchBlockEntryTail := by unfold Sc.fetchBlockEntryTail; tpl
macro_rules | `(tactic| tpl_close) => `(tactic| exact TPLL.fetchBlockEntryTail _)
theorem TPLL.fetchBlockEntryBody (s : Sc) (lo : Nat) : TPLL lo (fetchBlockEntryBody s) := by unfold Sc.fetchBlockEntryBody; tpl
macro_rules | `(tactic| tpl_close) => `(tactic| exact TPLL.fetchBlockEntryBody _ _)
theorem TPLL.fetchBlockEntry (lo : Nat) : TPLL lo fetchBlockEntry := by unfold Sc.fetchBlockEntry; tpl
theorem TPLL.fetchDocumentIndicator (t : TokenType) (lo : Nat) : TPLL lo (fetchDocumentIndicator t) := by
  unfold Sc.fetchDocumentIndicator; tpl
macro_rules | `(tactic| tpl_close) => `(tactic| first
  | exact TPLL.fetchStreamStart _ | exact TPLL.fetchStreamEnd _ | exact TPLL.fetchFlowCollectionStart _ _
  | exact TPLL.fetchFlowCollectionEnd _ _ | exact TPLL.fetchFlowEntry _ | exact TPLL.fetchBlockEntry _
  | exact TPLL.fetchDocumentIndicator _ _)

/-- a scalar-like fetch: bookkeeping that leaves the queue alone, a scanner that returns an ordered token, more
    bookkeeping, then the token is appended -/
theorem TPLL.fetchDirective (lo : Nat) : TPLL lo fetchDirective := by
  unfold Sc.fetchDirective
  apply TPLL.bind (by ml) (TPLL.unrollIndent _ _); intro _
  apply TPLL.bind (by ml) (TPLL.ofNT NT.removeSimpleKey); intro _
  apply TPLL.bind (by ml) (TPLL.ofNT NT.disallowSimpleKey); intro _
  apply TPLL.bindTok ML.scanDirective NT.scanDirective (TSL.scanDirective _)
  intro tok htok
  exact TPLL.appendTok tok htok _ (fun _ => rfl)
theorem TPLL.fetchTag (lo : Nat) : TPLL lo fetchTag := by
  unfold Sc.fetchTag
  apply TPLL.bind (by ml) (TPLL.ofNT NT.saveSimpleKey); intro _
  apply TPLL.bind (by ml) (TPLL.ofNT NT.disallowSimpleKey); intro _
  apply TPLL.bindTok ML.scanTag NT.scanTag (TSL.scanTag _)
  intro tok htok
  exact TPLL.appendTok tok htok _ (fun _ => rfl)
theorem TPLL.fetchAnchor (a : Bool) (lo : Nat) : TPLL lo (fetchAnchor a) := by
  unfold Sc.fetchAnchor
  apply TPLL.bind (by ml) (TPLL.ofNT NT.saveSimpleKey); intro _
  apply TPLL.bind (by ml) (TPLL.ofNT NT.disallowSimpleKey); intro _
  apply TPLL.bindTok (ML.scanAnchor _) (NT.scanAnchor _) (TSL.scanAnchor _ _)
  intro tok htok
  exact TPLL.appendTok tok htok _ (fun _ => rfl)
theorem TPLL.fetchBlockScalar (lit : Bool) (lo : Nat) : TPLL lo (fetchBlockScalar lit) := by
  unfold Sc.fetchBlockScalar
  apply TPLL.bind (by ml) (TPLL.ofNT NT.saveSimpleKey); intro _
  apply TPLL.bind (by ml) (TPLL.ofNT NT.allowSimpleKey); intro _
  apply TPLL.bindTok (ML.scanBlockScalar _) (NT.scanBlockScalar _) (TSL.scanBlockScalar _ _)
  intro tok htok
  exact TPLL.appendTok tok htok _ (fun _ => rfl)
theorem TPLL.fetchFlowScalar (single : Bool) (lo : Nat) : TPLL lo (fetchFlowScalar single) := by
  unfold Sc.fetchFlowScalar
  apply TPLL.bind (by ml) (TPLL.ofNT NT.saveSimpleKey); intro _
  apply TPLL.bind (by ml) (TPLL.ofNT NT.disallowSimpleKey); intro _
  apply TPLL.bindTok (ML.scanFlowScalar _) (NT.scanFlowScalar _) (TSL.scanFlowScalar _ _)
  intro tok htok
  apply TPLL.bind (by ml) (TPLL.ofNT NT.skipToNextToken); intro _
  exact TPLL.appendTok tok htok _ (fun _ => rfl)
theorem TPLL.fetchPlainScalar (lo : Nat) : TPLL lo fetchPlainScalar := by
  unfold Sc.fetchPlainScalar
  apply TPLL.bind (by ml) (TPLL.ofNT NT.saveSimpleKey); intro _
  apply TPLL.bind (by ml) (TPLL.ofNT NT.disallowSimpleKey); intro _
  apply TPLL.bindTok ML.scanPlainScalar NT.scanPlainScalar (TSL.scanPlainScalar _)
  intro tok htok
  exact TPLL.appendTok tok htok _ (fun _ => rfl)
macro_rules | `(tactic| tpl_close) => `(tactic| first
  | exact TPLL.fetchDirective _ | exact TPLL.fetchTag _ | exact TPLL.fetchAnchor _ _ | exact TPLL.fetchBlockScalar _ _
  | exact TPLL.fetchFlowScalar _ _ | exact TPLL.fetchPlainScalar _)

theorem TPLL.keyPrologue (s : Sc) (lo : Nat) : TPLL lo (keyPrologue s) := by unfold Sc.keyPrologue; tpl
theorem TPLL.fetchKeyTail (m : Marker) (lo : Nat) (h : m.line ≤ lo) : TPLL lo (fetchKeyTail m) := by unfold Sc.fetchKeyTail; tpl
macro_rules | `(tactic| tpl_close) => `(tactic| exact TPLL.keyPrologue _ _)
theorem TPLL.fetchKey (lo : Nat) : TPLL lo fetchKey := by
  unfold Sc.fetchKey
  apply TPLL.getS_bind; intro s0 h0
  apply TPLL.bind (by ml) (TPLL.keyPrologue _ _); intro _
  apply TPLL.bind (by ml) (TPLL.ofNT NT.removeSimpleKey); intro _
  apply TPLL.bind (by ml) (by tpl); intro _
  exact TPLL.fetchKeyTail _ _ (Nat.le_refl _)
theorem TPLL.valueAfterSimpleKey (sk m i) (lo : Nat) : TPLL lo (valueAfterSimpleKey sk m i) := by unfold Sc.valueAfterSimpleKey; tpl
theorem TPLL.valueAfterComplexKey (m i) (lo : Nat) : TPLL lo (valueAfterComplexKey m i) := by unfold Sc.valueAfterComplexKey; tpl
macro_rules | `(tactic| tpl_close) => `(tactic| first
  | exact TPLL.valueAfterSimpleKey _ _ _ _ | exact TPLL.valueAfterComplexKey _ _ _)


theorem TPLL.fetchValue (lo : Nat) : TPLL lo fetchValue := by
  unfold Sc.fetchValue
  apply TPLL.getS_bind; intro s0 h0
  split
  · exact TPLL.panicAt _
  · dsimp only
    refine TPLL.bind (ML.ite (ML.modS _ (fun _ => Nat.le_refl _)) (ML.pure _)) (TPLL.ite (TPLL.modS _ (fun _ => rfl)) (TPLL.pure _)) ?_
    intro _
    refine TPLL.bind ML.skipNonBlank (TPLL.ofNT NT.skipNonBlank) ?_; intro _
    refine TPLL.bind ML.valueTabCheck (TPLL.ofNT NT.valueTabCheck) ?_; intro tabErr
    split
    · apply TPLL.getMark_bind; intro m hm; exact TPLL.err _ _
    · refine TPLL.bind ?_ ?_ ?_
      · split
        · exact ML.valueAfterSimpleKey _ _ _
        · exact ML.valueAfterComplexKey _ _
      · split
        · exact TPLL.valueAfterSimpleKey _ _ _ _
        · exact TPLL.valueAfterComplexKey _ _ _
      · intro _; exact TPLL.pushTok _ _ (Nat.le_refl _)
macro_rules | `(tactic| tpl_close) => `(tactic| first | exact TPLL.fetchValue _ | exact TPLL.fetchKey _)
theorem TPLL.fetchFlowValue (lo : Nat) : TPLL lo fetchFlowValue := by unfold Sc.fetchFlowValue; tpl
macro_rules | `(tactic| tpl_close) => `(tactic| exact TPLL.fetchFlowValue _)

theorem TPLL.fetchDocumentEndMarker (lo : Nat) : TPLL lo fetchDocumentEndMarker := by
  unfold Sc.fetchDocumentEndMarker In.nextIsBreakz
  refine TPLL.bind (ML.fetchDocumentIndicator _) (TPLL.fetchDocumentIndicator _ _) ?_; intro _
  refine TPLL.bind (ML.skipWsToEol _) (TPLL.ofNT (NT.skipWsToEol _)) ?_; intro _
  refine TPLL.bind (ML.liftI _) (TPLL.ofNT (NT.liftI _)) ?_; intro ok
  apply TPLL.getMark_bind; intro m hm
  exact TPLL.ite (TPLL.err _ _) (TPLL.pure _)

theorem TPLL.fetchSpecial (lo : Nat) : TPLL lo fetchSpecial := by
  unfold Sc.fetchSpecial
  apply TPLL.getS_bind; intro s0 h0
  refine TPLL.ite ?_ (TPLL.pure _)
  refine TPLL.bind (ML.liftI _) (TPLL.ofNT (NT.liftI _)) ?_; intro b1
  refine TPLL.ite ?_ ?_
  · exact TPLL.bind ML.fetchDirective (TPLL.fetchDirective _) (fun _ => TPLL.pure _)
  · refine TPLL.bind (ML.liftI _) (TPLL.ofNT (NT.liftI _)) ?_; intro b2
    refine TPLL.ite ?_ ?_
    · exact TPLL.bind (ML.fetchDocumentIndicator _) (TPLL.fetchDocumentIndicator _ _) (fun _ => TPLL.pure _)
    · refine TPLL.bind (ML.liftI _) (TPLL.ofNT (NT.liftI _)) ?_; intro b3
      exact TPLL.ite (TPLL.fetchDocumentEndMarker _) (TPLL.pure _)

set_option maxHeartbeats 1000000 in
theorem TPLL.fetchDispatch (lo : Nat) : TPLL lo fetchDispatch := by
  unfold Sc.fetchDispatch
  apply TPLL.getS_bind; intro s0 h0
  refine TPLL.ite (TPLL.err _ _) ?_
  refine TPLL.bind ML.peek (TPLL.ofNT NT.peek) ?_; intro c
  refine TPLL.bind (ML.peekNth _) (TPLL.ofNT (NT.peekNth _)) ?_; intro nc
  repeat' (first
    | exact TPLL.err _ _
    | exact TPLL.fetchFlowCollectionStart _ _ | exact TPLL.fetchFlowCollectionEnd _ _ | exact TPLL.fetchFlowEntry _
    | exact TPLL.fetchBlockEntry _ | exact TPLL.fetchKey _ | exact TPLL.fetchValue _ | exact TPLL.fetchFlowValue _
    | exact TPLL.fetchAnchor _ _ | exact TPLL.fetchTag _ | exact TPLL.fetchBlockScalar _ _ | exact TPLL.fetchFlowScalar _ _
    | exact TPLL.fetchPlainScalar _
    | apply TPLL.ite)

theorem TPLL.fetchAfterStart (lo : Nat) : TPLL lo fetchAfterStart := by
  unfold Sc.fetchAfterStart In.nextIsZ
  refine TPLL.bind ML.skipToNextToken (TPLL.ofNT NT.skipToNextToken) ?_; intro _
  refine TPLL.bind ML.staleSimpleKeys (TPLL.ofNT NT.staleSimpleKeys) ?_; intro _
  apply TPLL.getMark_bind; intro mark hmark
  refine TPLL.bind (ML.unrollIndent _) (TPLL.unrollIndent _ _) ?_; intro _
  refine TPLL.bind (ML.lookahead _) (TPLL.ofNT (NT.lookahead _)) ?_; intro _
  refine TPLL.bind (ML.liftI _) (TPLL.ofNT (NT.liftI _)) ?_; intro z
  refine TPLL.ite (TPLL.fetchStreamEnd _) ?_
  refine TPLL.bind ML.fetchSpecial (TPLL.fetchSpecial _) ?_; intro special
  exact TPLL.ite (TPLL.pure _) (TPLL.fetchDispatch _)

theorem TPLL.fetchNextToken (lo : Nat) : TPLL lo fetchNextToken := by
  unfold Sc.fetchNextToken
  refine TPLL.bind (ML.lookahead _) (TPLL.ofNT (NT.lookahead _)) ?_; intro _
  apply TPLL.getS_bind; intro s0 h0
  exact TPLL.ite (TPLL.fetchStreamStart _) (TPLL.fetchAfterStart _)

theorem TPLL.fetchMoreTokens (fuel : Nat) : ∀ lo, TPLL lo (fetchMoreTokens fuel) := by
  induction fuel with
  | zero => intro lo; unfold Sc.fetchMoreTokens; exact TPLL.panicAt _
  | succ n ih =>
    intro lo; unfold Sc.fetchMoreTokens
    refine TPLL.bind ML.needMoreTokens (TPLL.ofNT NT.needMoreTokens) ?_; intro needMore
    refine TPLL.ite ?_ (TPLL.modS _ (fun _ => rfl))
    exact TPLL.bind ML.fetchNextToken (TPLL.fetchNextToken _) (fun _ => ih _)

theorem popToken_ordL (s : Sc) (r : Option Token) (s' : Sc) (ho : TokOrdL s.tokens) (h : popToken s = .ok (r, s')) :
    TokOrdL s'.tokens ∧ ∀ t, r = some t → TokOkL t := by
  unfold Sc.popToken at h
  simp only [Bind.bind, getS] at h
  cases ht : s.tokens with
  | nil => simp [ht, Sc.err, throwE] at h
  | cons t tsl =>
    simp only [ht, modS, Pure.pure] at h
    cases h
    have hall : TokOrdL (t :: tsl) := by rw [← ht]; exact ho
    exact ⟨fun x hx => hall x (by simp [hx]), fun x hx => by cases hx; exact hall t (by simp)⟩

theorem nextToken_ordL (s : Sc) (r : Option Token) (s' : Sc) (ho : TokOrdL s.tokens) (h : nextToken s = .ok (r, s')) :
    TokOrdL s'.tokens ∧ ∀ t, r = some t → TokOkL t := by
  unfold Sc.nextToken at h
  simp only [Bind.bind, getS] at h
  by_cases hse : s.streamEndProduced = true
  · simp only [hse, ↓reduceIte, Pure.pure] at h
    cases h
    exact ⟨ho, fun t ht => by cases ht⟩
  · simp only [hse, Bool.false_eq_true, ↓reduceIte] at h
    by_cases hta : (!s.tokenAvailable) = true
    · simp only [hta, ↓reduceIte] at h
      cases hf : fetchMoreTokens (s.inp.remaining + 4) s with
      | ok q =>
        obtain ⟨_, s1⟩ := q
        simp only [hf] at h
        have h1 := (TPLL.fetchMoreTokens _ 0).out s () s1 (Nat.zero_le _) ho hf
        exact popToken_ordL s1 r s' h1 h
      | err e => simp [hf] at h
      | panic p => simp [hf] at h
    · simp only [hta, Bool.false_eq_true, ↓reduceIte, Pure.pure] at h
      exact popToken_ordL s r s' ho h

/-- **Every token the scanner delivers has a span that starts no later than it ends** — every text, every
    back-end, every capacity, however many tokens are pulled. -/
theorem scanAll_ordL (fuel : Nat) : ∀ (s : Sc) (acc : List Token), TokOrdL s.tokens → TokOrdL acc →
    TokOrdL (scanAll fuel s acc).1 := by
  induction fuel with
  | zero =>
    intro s acc _ ha
    simp only [scanAll]
    intro t ht; exact ha t (by simpa using ht)
  | succ n ih =>
    intro s acc ho ha
    simp only [scanAll]
    cases hn : nextToken s with
    | ok q =>
      obtain ⟨r, s'⟩ := q
      obtain ⟨h1, h2⟩ := nextToken_ordL s r s' ho hn
      cases r with
      | some t =>
        simp only
        apply ih s' (t :: acc) h1
        intro x hx
        rcases List.mem_cons.mp hx with rfl | hx
        · exact h2 _ rfl
        · exact ha x hx
      | none =>
        simp only
        intro t ht; exact ha t (by simpa using ht)
    | err e => simp only; intro t ht; exact ha t (by simpa using ht)
    | panic p => simp only; intro t ht; exact ha t (by simpa using ht)


end SaphyrModel.Sc
