import SaphyrModel.Sc.ML.Dir
import SaphyrModel.Sc.ML.Block
import SaphyrModel.Sc.ML.Flow
import SaphyrModel.Sc.ML.Plain
set_option linter.unusedSimpArgs false
/-! String back-end, part 2: structural functions, the `fetch_*` family, the token loop and the run. -/
namespace SaphyrModel.Sc
open SaphyrModel

theorem ML.insertToken (pos : Nat) (tok : Token) : ML (insertToken pos tok) := by
  apply ML.raw; intro s a s' h; unfold Sc.insertToken at h
  by_cases hp : pos ≤ s.tokens.length
  · rw [if_pos hp] at h; cases h; rfl
  · rw [if_neg hp] at h; cases h
theorem ML.tokenPos (n : Nat) : ML (tokenPos n) := by
  apply ML.raw; intro s a s' h; unfold Sc.tokenPos at h
  by_cases hp : n ≥ s.tokensParsed
  · rw [if_pos hp] at h; cases h; rfl
  · rw [if_neg hp] at h; cases h
macro_rules | `(tactic| ml_close) => `(tactic| first | exact ML.insertToken _ _ | exact ML.tokenPos _)

theorem dropNonBlockTop_markL (col : Nat) (s : Sc) : (dropNonBlockTop col s).mark = s.mark := by
  unfold dropNonBlockTop; repeat' (first | rfl | split)
theorem clearPossibleKeys_markL (s : Sc) : (clearPossibleKeys s).mark = s.mark := rfl
theorem markExplicitKey_markL (s : Sc) : (markExplicitKey s).mark = s.mark := by
  unfold markExplicitKey; repeat' (first | rfl | split)
theorem popExplicitMapping_markL (s : Sc) : (popExplicitMapping s).mark = s.mark := by
  unfold popExplicitMapping; repeat' (first | rfl | split)
theorem pushImplState_markL (st : ImplState) (s : Sc) : (pushImplState st s).mark = s.mark := rfl
theorem ML.modS' (f : Sc → Sc) (h : ∀ s, (f s).mark = s.mark) : ML (Sc.modS f) :=
  ML.modS f (fun s => by rw [h s]; exact Nat.le_refl _)
macro_rules | `(tactic| ml_close) => `(tactic| first
  | exact ML.modS' _ (dropNonBlockTop_markL _) | exact ML.modS' _ clearPossibleKeys_markL
  | exact ML.modS' _ markExplicitKey_markL | exact ML.modS' _ popExplicitMapping_markL
  | exact ML.modS' _ (pushImplState_markL _))

theorem ML.rollIndentPush (col n tok mark) : ML (rollIndentPush col n tok mark) := by unfold Sc.rollIndentPush; ml
macro_rules | `(tactic| ml_close) => `(tactic| exact ML.rollIndentPush _ _ _ _)
theorem ML.rollIndent (col n tok mark) : ML (rollIndent col n tok mark) := by unfold Sc.rollIndent; ml
macro_rules | `(tactic| ml_close) => `(tactic| exact ML.rollIndent _ _ _ _)
theorem ML.unrollIndentGo (col : Int) (fuel : Nat) : ML (unrollIndentGo col fuel) := by
  induction fuel with
  | zero => unfold Sc.unrollIndentGo; ml
  | succ n ih => unfold Sc.unrollIndentGo; ml
macro_rules | `(tactic| ml_close) => `(tactic| exact ML.unrollIndentGo _ _)
theorem ML.unrollIndent (col : Int) : ML (unrollIndent col) := by unfold Sc.unrollIndent; ml
macro_rules | `(tactic| ml_close) => `(tactic| exact ML.unrollIndent _)
theorem ML.rollOneColIndent : ML rollOneColIndent := by unfold Sc.rollOneColIndent; ml
theorem ML.unrollNonBlockIndents : ML unrollNonBlockIndents := by
  unfold Sc.unrollNonBlockIndents; exact ML.modS' _ (fun _ => rfl)
theorem ML.requiredKey (s : Sc) : ML (requiredKey s) := by unfold Sc.requiredKey; ml
macro_rules | `(tactic| ml_close) => `(tactic| first
  | exact ML.rollOneColIndent | exact ML.unrollNonBlockIndents | exact ML.requiredKey _)
theorem ML.saveSimpleKey : ML saveSimpleKey := by unfold Sc.saveSimpleKey; ml
theorem ML.removeSimpleKey : ML removeSimpleKey := by unfold Sc.removeSimpleKey; ml
theorem ML.staleSimpleKeys : ML staleSimpleKeys := by unfold Sc.staleSimpleKeys; ml
theorem ML.increaseFlowLevel : ML increaseFlowLevel := by unfold Sc.increaseFlowLevel; ml
theorem ML.decreaseFlowLevel : ML decreaseFlowLevel := by unfold Sc.decreaseFlowLevel; ml
theorem ML.endImplicitMapping (m : Marker) : ML (endImplicitMapping m) := by unfold Sc.endImplicitMapping; ml
macro_rules | `(tactic| ml_close) => `(tactic| first
  | exact ML.saveSimpleKey | exact ML.removeSimpleKey | exact ML.staleSimpleKeys
  | exact ML.increaseFlowLevel | exact ML.decreaseFlowLevel | exact ML.endImplicitMapping _)

theorem ML.fetchStreamStart : ML fetchStreamStart := by unfold Sc.fetchStreamStart; ml
theorem ML.fetchStreamEnd : ML fetchStreamEnd := by unfold Sc.fetchStreamEnd; ml
theorem ML.fetchDirective : ML fetchDirective := by unfold Sc.fetchDirective; ml
theorem ML.fetchTag : ML fetchTag := by unfold Sc.fetchTag; ml
theorem ML.fetchAnchor (a : Bool) : ML (fetchAnchor a) := by unfold Sc.fetchAnchor; ml
theorem ML.fetchFlowCollectionStart (t : TokenType) : ML (fetchFlowCollectionStart t) := by
  unfold Sc.fetchFlowCollectionStart; ml
theorem ML.closeFlowState (t : TokenType) : ML (closeFlowState t) := by unfold Sc.closeFlowState; ml
macro_rules | `(tactic| ml_close) => `(tactic| exact ML.closeFlowState _)
theorem ML.fetchFlowCollectionEnd (t : TokenType) : ML (fetchFlowCollectionEnd t) := by
  unfold Sc.fetchFlowCollectionEnd; ml
theorem ML.fetchFlowEntry : ML fetchFlowEntry := by unfold Sc.fetchFlowEntry; ml
theorem ML.anchorIndentCheck (s : Sc) : ML (anchorIndentCheck s) := by unfold Sc.anchorIndentCheck; ml
theorem ML.blockEntryTabCheck (r : SkipTabs) : ML (blockEntryTabCheck r) := by unfold Sc.blockEntryTabCheck; ml
theorem ML.rollIfBreakOrFlow : ML rollIfBreakOrFlow := by
  unfold Sc.rollIfBreakOrFlow In.nextIsBreak In.nextIsFlow; ml
macro_rules | `(tactic| ml_close) => `(tactic| first
  | exact ML.anchorIndentCheck _ | exact ML.blockEntryTabCheck _ | exact ML.rollIfBreakOrFlow)
theorem ML.fetchBlockEntryTail : ML fetchBlockEntryTail := by unfold Sc.fetchBlockEntryTail; ml
macro_rules | `(tactic| ml_close) => `(tactic| exact ML.fetchBlockEntryTail)
theorem ML.fetchBlockEntryBody (s : Sc) : ML (fetchBlockEntryBody s) := by unfold Sc.fetchBlockEntryBody; ml
macro_rules | `(tactic| ml_close) => `(tactic| exact ML.fetchBlockEntryBody _)
theorem ML.fetchBlockEntry : ML fetchBlockEntry := by unfold Sc.fetchBlockEntry; ml
theorem ML.fetchDocumentIndicator (t : TokenType) : ML (fetchDocumentIndicator t) := by
  unfold Sc.fetchDocumentIndicator; ml
macro_rules | `(tactic| ml_close) => `(tactic| first
  | exact ML.fetchStreamStart | exact ML.fetchStreamEnd | exact ML.fetchDirective | exact ML.fetchTag
  | exact ML.fetchAnchor _ | exact ML.fetchFlowCollectionStart _ | exact ML.fetchFlowCollectionEnd _
  | exact ML.fetchFlowEntry | exact ML.fetchBlockEntry | exact ML.fetchDocumentIndicator _)

theorem ML.scanBlockScalar (lit : Bool) : ML (scanBlockScalar lit) := by unfold Sc.scanBlockScalar; ml
macro_rules | `(tactic| ml_close) => `(tactic| exact ML.scanBlockScalar _)
theorem ML.fetchBlockScalar (lit : Bool) : ML (fetchBlockScalar lit) := by unfold Sc.fetchBlockScalar; ml
theorem ML.fetchFlowScalar (single : Bool) : ML (fetchFlowScalar single) := by unfold Sc.fetchFlowScalar; ml
theorem ML.scanPlainScalar : ML scanPlainScalar := by unfold Sc.scanPlainScalar; ml
macro_rules | `(tactic| ml_close) => `(tactic| exact ML.scanPlainScalar)
theorem ML.fetchPlainScalar : ML fetchPlainScalar := by unfold Sc.fetchPlainScalar; ml
theorem ML.keyPrologue (s : Sc) : ML (keyPrologue s) := by unfold Sc.keyPrologue; ml
theorem ML.fetchKeyTail (m : Marker) : ML (fetchKeyTail m) := by unfold Sc.fetchKeyTail; ml
macro_rules | `(tactic| ml_close) => `(tactic| first | exact ML.keyPrologue _ | exact ML.fetchKeyTail _)
theorem ML.fetchKey : ML fetchKey := by unfold Sc.fetchKey; ml
theorem ML.valueAfterSimpleKey (sk m i) : ML (valueAfterSimpleKey sk m i) := by unfold Sc.valueAfterSimpleKey; ml
theorem ML.valueAfterComplexKey (m i) : ML (valueAfterComplexKey m i) := by unfold Sc.valueAfterComplexKey; ml
theorem ML.valueTabCheck : ML valueTabCheck := by unfold Sc.valueTabCheck; ml
macro_rules | `(tactic| ml_close) => `(tactic| first
  | exact ML.valueAfterSimpleKey _ _ _ | exact ML.valueAfterComplexKey _ _ | exact ML.valueTabCheck)
theorem ML.fetchValue : ML fetchValue := by unfold Sc.fetchValue; ml
macro_rules | `(tactic| ml_close) => `(tactic| exact ML.fetchValue)
theorem ML.fetchFlowValue : ML fetchFlowValue := by unfold Sc.fetchFlowValue; ml
theorem ML.fetchDocumentEndMarker : ML fetchDocumentEndMarker := by
  unfold Sc.fetchDocumentEndMarker In.nextIsBreakz; ml
macro_rules | `(tactic| ml_close) => `(tactic| first
  | exact ML.fetchBlockScalar _ | exact ML.fetchFlowScalar _ | exact ML.fetchPlainScalar | exact ML.fetchKey
  | exact ML.fetchFlowValue | exact ML.fetchDocumentEndMarker)
theorem ML.fetchSpecial : ML fetchSpecial := by unfold Sc.fetchSpecial; ml
set_option maxHeartbeats 1000000 in
theorem ML.fetchDispatch : ML fetchDispatch := by unfold Sc.fetchDispatch; ml
macro_rules | `(tactic| ml_close) => `(tactic| first | exact ML.fetchSpecial | exact ML.fetchDispatch)
theorem ML.fetchAfterStart : ML fetchAfterStart := by unfold Sc.fetchAfterStart In.nextIsZ; ml
macro_rules | `(tactic| ml_close) => `(tactic| exact ML.fetchAfterStart)
theorem ML.fetchNextToken : ML fetchNextToken := by unfold Sc.fetchNextToken; ml
theorem ML.needMoreTokens : ML needMoreTokens := by unfold Sc.needMoreTokens; ml
macro_rules | `(tactic| ml_close) => `(tactic| first | exact ML.fetchNextToken | exact ML.needMoreTokens)
theorem ML.fetchMoreTokens (fuel : Nat) : ML (fetchMoreTokens fuel) := by
  induction fuel with
  | zero => unfold Sc.fetchMoreTokens; ml
  | succ n ih => unfold Sc.fetchMoreTokens; ml
macro_rules | `(tactic| ml_close) => `(tactic| exact ML.fetchMoreTokens _)
theorem ML.popToken : ML popToken := by unfold Sc.popToken; ml
macro_rules | `(tactic| ml_close) => `(tactic| exact ML.popToken)
theorem ML.nextToken : ML nextToken := by unfold Sc.nextToken; ml


end SaphyrModel.Sc
