import SaphyrModel.Sc.ML.Base2
set_option linter.unusedSimpArgs false
namespace SaphyrModel.Sc
open SaphyrModel

theorem ML.plainChunk  (fuel : Nat) : ∀ str, ML (plainChunk  fuel str) := by
  induction fuel with
  | zero => intro str; unfold Sc.plainChunk; ml
  | succ n ih => intro str; unfold Sc.plainChunk; ml
macro_rules | `(tactic| ml_close) => `(tactic| exact ML.plainChunk _ _)
theorem ML.plainChunks  (fuel : Nat) : ∀ str, ML (plainChunks  fuel str) := by
  induction fuel with
  | zero => intro str; unfold Sc.plainChunks; ml
  | succ n ih => intro str; unfold Sc.plainChunks; ml
macro_rules | `(tactic| ml_close) => `(tactic| exact ML.plainChunks _ _)
theorem ML.plainBlanks (indent : Int) (m : Marker) (fuel : Nat) : ∀ a, ML (plainBlanks indent m fuel a) := by
  induction fuel with
  | zero => intro a; unfold Sc.plainBlanks; ml
  | succ n ih => intro a; unfold Sc.plainBlanks; ml
macro_rules | `(tactic| ml_close) => `(tactic| exact ML.plainBlanks _ _ _ _)
set_option maxHeartbeats 4000000 in
theorem ML.plainLoop (indent : Int) (m : Marker) (fuel : Nat) : ∀ a, ML (plainLoop indent m fuel a) := by
  induction fuel with
  | zero => intro a; unfold Sc.plainLoop; ml
  | succ n ih => intro a; unfold Sc.plainLoop; ml
macro_rules | `(tactic| ml_close) => `(tactic| exact ML.plainLoop _ _ _ _)

set_option maxHeartbeats 4000000 in
theorem ML.scanPlainScalarBody : ML scanPlainScalarBody := by unfold Sc.scanPlainScalarBody; ml
macro_rules | `(tactic| ml_close) => `(tactic| exact ML.scanPlainScalarBody)

end SaphyrModel.Sc
