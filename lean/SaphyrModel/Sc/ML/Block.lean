import SaphyrModel.Sc.ML.Base2
set_option linter.unusedSimpArgs false
namespace SaphyrModel.Sc
open SaphyrModel

theorem ML.readBreak (acc : Str) : ML (readBreak acc) := by
  unfold Sc.readBreak; ml
macro_rules | `(tactic| ml_close) => `(tactic| exact ML.readBreak _)
theorem ML.skipBlockScalarIndentSpaces (indent : Nat) (g : Bool) (fuel : Nat) : ML (skipBlockScalarIndentSpaces indent g fuel ) := by
  induction fuel with
  | zero => unfold Sc.skipBlockScalarIndentSpaces; ml
  | succ n ih => unfold Sc.skipBlockScalarIndentSpaces; ml
macro_rules | `(tactic| ml_close) => `(tactic| exact ML.skipBlockScalarIndentSpaces _ _ _)
theorem ML.skipBlockScalarIndentBig (indent : Nat) (fuel : Nat) : ML (skipBlockScalarIndentBig indent fuel ) := by
  induction fuel with
  | zero => unfold Sc.skipBlockScalarIndentBig; ml
  | succ n ih => unfold Sc.skipBlockScalarIndentBig; ml
macro_rules | `(tactic| ml_close) => `(tactic| exact ML.skipBlockScalarIndentBig _ _)
theorem ML.skipBlockScalarIndent (indent : Nat) (fuel : Nat) : ∀ b, ML (skipBlockScalarIndent indent fuel b) := by
  induction fuel with
  | zero => intro b; unfold Sc.skipBlockScalarIndent; ml
  | succ n ih => intro b; unfold Sc.skipBlockScalarIndent; ml
macro_rules | `(tactic| ml_close) => `(tactic| exact ML.skipBlockScalarIndent _ _ _)
theorem ML.skipSpaces  (fuel : Nat) : ML (skipSpaces  fuel ) := by
  induction fuel with
  | zero => unfold Sc.skipSpaces; ml
  | succ n ih => unfold Sc.skipSpaces; ml
macro_rules | `(tactic| ml_close) => `(tactic| exact ML.skipSpaces _)
theorem ML.skipBlockScalarFirstLineIndentGo  (fuel : Nat) : ∀ m b, ML (skipBlockScalarFirstLineIndentGo  fuel m b) := by
  induction fuel with
  | zero => intro m b; unfold Sc.skipBlockScalarFirstLineIndentGo; ml
  | succ n ih => intro m b; unfold Sc.skipBlockScalarFirstLineIndentGo; ml
macro_rules | `(tactic| ml_close) => `(tactic| exact ML.skipBlockScalarFirstLineIndentGo _ _ _)
theorem ML.skipBlockScalarFirstLineIndent (b : Str) : ML (skipBlockScalarFirstLineIndent b) := by
  unfold Sc.skipBlockScalarFirstLineIndent; ml
macro_rules | `(tactic| ml_close) => `(tactic| exact ML.skipBlockScalarFirstLineIndent _)
theorem ML.contentLineBuffered  (fuel : Nat) : ∀ str, ML (contentLineBuffered  fuel str) := by
  induction fuel with
  | zero => intro str; unfold Sc.contentLineBuffered; ml
  | succ n ih => intro str; unfold Sc.contentLineBuffered; ml
macro_rules | `(tactic| ml_close) => `(tactic| exact ML.contentLineBuffered _ _)
theorem ML.contentLineRaw  (fuel : Nat) : ∀ l, ML (contentLineRaw  fuel l) := by
  induction fuel with
  | zero => intro l; unfold Sc.contentLineRaw; ml
  | succ n ih => intro l; unfold Sc.contentLineRaw; ml
macro_rules | `(tactic| ml_close) => `(tactic| exact ML.contentLineRaw _ _)
theorem ML.scanBlockScalarContentLine (str : Str) : ML (scanBlockScalarContentLine str) := by
  unfold Sc.scanBlockScalarContentLine; ml
macro_rules | `(tactic| ml_close) => `(tactic| exact ML.scanBlockScalarContentLine _)
theorem ML.blockScalarLines (lit : Bool) (indent : Nat) (fuel : Nat) : ∀ a, ML (blockScalarLines lit indent fuel a) := by
  induction fuel with
  | zero => intro a; unfold Sc.blockScalarLines; ml
  | succ n ih => intro a; unfold Sc.blockScalarLines; ml
macro_rules | `(tactic| ml_close) => `(tactic| exact ML.blockScalarLines _ _ _ _)
set_option maxHeartbeats 4000000 in
theorem ML.blockHeaderDigit (m : Marker) (ch : Chomping) : ML (blockHeaderDigit m ch) := by
  unfold Sc.blockHeaderDigit; (try unfold In.nextIsDigit); (try unfold In.nextIsBreakz); (try unfold In.nextIsBreak); (try unfold In.nextIsZ); ml
macro_rules | `(tactic| ml_close) => `(tactic| exact ML.blockHeaderDigit _ _)
set_option maxHeartbeats 4000000 in
theorem ML.blockHeaderChomp (d : Char) : ML (blockHeaderChomp d) := by
  unfold Sc.blockHeaderChomp; (try unfold In.nextIsDigit); (try unfold In.nextIsBreakz); (try unfold In.nextIsBreak); (try unfold In.nextIsZ); ml
macro_rules | `(tactic| ml_close) => `(tactic| exact ML.blockHeaderChomp _)
set_option maxHeartbeats 4000000 in
theorem ML.blockHeader (m : Marker) (c : Char) (b : Bool) : ML (blockHeader m c b) := by
  unfold Sc.blockHeader; (try unfold In.nextIsDigit); (try unfold In.nextIsBreakz); (try unfold In.nextIsBreak); (try unfold In.nextIsZ); ml
macro_rules | `(tactic| ml_close) => `(tactic| exact ML.blockHeader _ _ _)
set_option maxHeartbeats 4000000 in
theorem ML.blockChompingBreak  : ML (blockChompingBreak ) := by
  unfold Sc.blockChompingBreak; (try unfold In.nextIsDigit); (try unfold In.nextIsBreakz); (try unfold In.nextIsBreak); (try unfold In.nextIsZ); ml
macro_rules | `(tactic| ml_close) => `(tactic| exact ML.blockChompingBreak )
set_option maxHeartbeats 4000000 in
theorem ML.blockIndent (inc : Nat) (s : Sc) : ML (blockIndent inc s) := by
  unfold Sc.blockIndent; (try unfold In.nextIsDigit); (try unfold In.nextIsBreakz); (try unfold In.nextIsBreak); (try unfold In.nextIsZ); ml
macro_rules | `(tactic| ml_close) => `(tactic| exact ML.blockIndent _ _)
set_option maxHeartbeats 4000000 in
theorem ML.blockMarkerCheck (ind : Nat) (s : Sc) : ML (blockMarkerCheck ind s) := by
  unfold Sc.blockMarkerCheck; (try unfold In.nextIsDigit); (try unfold In.nextIsBreakz); (try unfold In.nextIsBreak); (try unfold In.nextIsZ); ml
macro_rules | `(tactic| ml_close) => `(tactic| exact ML.blockMarkerCheck _ _)
set_option maxHeartbeats 4000000 in
theorem ML.blockFinish (ch : Chomping) (ind : Nat) (a : BlkAcc) (s : Sc) : ML (blockFinish ch ind a s) := by
  unfold Sc.blockFinish; (try unfold In.nextIsDigit); (try unfold In.nextIsBreakz); (try unfold In.nextIsBreak); (try unfold In.nextIsZ); ml
macro_rules | `(tactic| ml_close) => `(tactic| exact ML.blockFinish _ _ _ _)
set_option maxHeartbeats 4000000 in
theorem ML.blockContent (lit : Bool) (ch : Chomping) (ind : Nat) (tb : Str) (s : Sc) : ML (blockContent lit ch ind tb s) := by
  unfold Sc.blockContent; (try unfold In.nextIsDigit); (try unfold In.nextIsBreakz); (try unfold In.nextIsBreak); (try unfold In.nextIsZ); ml
macro_rules | `(tactic| ml_close) => `(tactic| exact ML.blockContent _ _ _ _ _)
set_option maxHeartbeats 4000000 in
theorem ML.blockAfterHeader (lit : Bool) (m : Marker) (ch : Chomping) (inc : Nat) (cb : Str) : ML (blockAfterHeader lit m ch inc cb) := by
  unfold Sc.blockAfterHeader; (try unfold In.nextIsDigit); (try unfold In.nextIsBreakz); (try unfold In.nextIsBreak); (try unfold In.nextIsZ); ml
macro_rules | `(tactic| ml_close) => `(tactic| exact ML.blockAfterHeader _ _ _ _ _)
set_option maxHeartbeats 4000000 in
theorem ML.scanBlockScalarBody (lit : Bool) (m : Marker) : ML (scanBlockScalarBody lit m) := by
  unfold Sc.scanBlockScalarBody; (try unfold In.nextIsDigit); (try unfold In.nextIsBreakz); (try unfold In.nextIsBreak); (try unfold In.nextIsZ); ml
macro_rules | `(tactic| ml_close) => `(tactic| exact ML.scanBlockScalarBody _ _)

end SaphyrModel.Sc
