import SaphyrModel.Sc.ML.Fetch
/-! C12, "each span starts no later than it ends", for the tokens of quoted scalars, block scalars, anchors and
aliases — every input, every back-end, every state. `TSL lo m`: started with the index at least `lo`, whenever `m`
returns a token its span starts no later than it ends. -/
set_option linter.unusedSimpArgs false
namespace SaphyrModel.Sc
open SaphyrModel

structure TSL (lo : Nat) (m : S Token) : Prop where
  out : ∀ s tok s', lo ≤ s.mark.line → m s = .ok (tok, s') → tok.span.start.line ≤ tok.span.stop.line

theorem TSL.bindMI {lo : Nat} {m : S α} {f : α → S Token} (h1 : ML m) (h2 : ∀ a, TSL lo (f a)) : TSL lo (m >>= f) := by
  constructor
  intro s tok s' hlo h
  simp only [Bind.bind] at h
  cases hm : m s with
  | ok r =>
    obtain ⟨a, s1⟩ := r
    simp only [hm] at h
    exact (h2 a).out s1 tok s' (Nat.le_trans hlo (h1.out s a s1 hm)) h
  | err e => simp [hm] at h
  | panic p => simp [hm] at h

theorem TSL.getMark_bind {lo : Nat} {f : Marker → S Token} (h : ∀ sm : Marker, lo ≤ sm.line → TSL sm.line (f sm)) :
    TSL lo (getMark >>= f) := by
  constructor
  intro s tok s' hlo hh
  exact (h s.mark hlo).out s tok s' (Nat.le_refl _) (by simpa [Bind.bind, getMark] using hh)

theorem TSL.getS_bind {lo : Nat} {f : Sc → S Token} (h : ∀ s0 : Sc, lo ≤ s0.mark.line → TSL s0.mark.line (f s0)) :
    TSL lo (getS >>= f) := by
  constructor
  intro s tok s' hlo hh
  exact (h s hlo).out s tok s' (Nat.le_refl _) (by simpa [Bind.bind, getS] using hh)

theorem TSL.ite {lo : Nat} {c : Prop} [Decidable c] {a b : S Token} (ha : TSL lo a) (hb : TSL lo b) : TSL lo (if c then a else b) := by
  split <;> assumption
theorem TSL.err {lo : Nat} (m : Marker) (msg : String) : TSL lo (err m msg : S Token) := ⟨fun s tok s' _ h => by cases h⟩
theorem TSL.pure {lo : Nat} (tok : Token) (h : tok.span.start.line ≤ tok.span.stop.line) : TSL lo (Pure.pure tok : S Token) :=
  ⟨fun s t s' _ hh => by cases hh; exact h⟩
theorem TSL.mono {lo lo' : Nat} {m : S Token} (h : TSL lo m) (hle : lo ≤ lo') : TSL lo' m :=
  ⟨fun s tok s' hlo hh => h.out s tok s' (Nat.le_trans hle hlo) hh⟩

/-- anchors and aliases -/
theorem TSL.scanAnchor (alias : Bool) (lo : Nat) : TSL lo (scanAnchor alias) := by
  unfold Sc.scanAnchor
  apply TSL.getMark_bind; intro sm hsm
  apply TSL.bindMI ML.skipNonBlank; intro _
  apply TSL.getS_bind; intro s0 h0
  apply TSL.bindMI (ML.scanAnchorGo _ _); intro str
  apply TSL.ite (TSL.err _ _)
  apply TSL.getMark_bind; intro em hem
  exact TSL.pure _ (by show sm.line ≤ em.line; omega)

/-- single- and double-quoted scalars -/
theorem TSL.scanFlowScalar (single : Bool) (lo : Nat) : TSL lo (scanFlowScalar single) := by
  unfold Sc.scanFlowScalar
  apply TSL.getMark_bind; intro sm hsm
  apply TSL.bindMI ML.skipNonBlank; intro _
  apply TSL.getS_bind; intro s0 h0
  apply TSL.bindMI (ML.flowScalarLoop _ _ _ _ _); intro str
  apply TSL.bindMI ML.skipNonBlank; intro _
  apply TSL.bindMI (ML.skipWsToEol _); intro _
  apply TSL.bindMI ML.peek; intro c
  apply TSL.getS_bind; intro s1 h1
  apply TSL.ite (TSL.err _ _)
  exact TSL.pure _ (by show sm.line ≤ s1.mark.line; omega)

/-- block scalars: the content part (the token spans from the first content line to where the scanner stops) -/
theorem TSL.blockContent (lit : Bool) (ch : Chomping) (ind : Nat) (tb : Str) (s : Sc) (lo : Nat) (hs : s.mark.line ≤ lo) :
    TSL lo (blockContent lit ch ind tb s) := by
  unfold Sc.blockContent
  apply TSL.bindMI (ML.blockMarkerCheck _ _); intro marker
  apply TSL.ite (TSL.err _ _)
  apply TSL.bindMI (ML.blockScalarLines _ _ _ _); intro a
  apply TSL.getS_bind; intro s2 h2
  apply TSL.bindMI (ML.blockFinish _ _ _ _); intro str
  exact TSL.pure _ (by show s.mark.line ≤ s2.mark.line; omega)

theorem TSL.blockAfterHeader (lit : Bool) (sm : Marker) (ch : Chomping) (inc : Nat) (cb : Str) (lo : Nat) (hs : sm.line ≤ lo) :
    TSL lo (blockAfterHeader lit sm ch inc cb) := by
  unfold Sc.blockAfterHeader
  apply TSL.bindMI ML.lookCh; intro c
  apply TSL.ite (TSL.err _ _)
  apply TSL.getS_bind; intro s0 h0
  apply TSL.bindMI (ML.blockIndent _ _); intro p
  obtain ⟨indent, trailingBreaks⟩ := p
  apply TSL.bindMI (ML.liftI _); intro z
  apply TSL.ite
  · apply TSL.getS_bind; intro s1 h1
    exact TSL.pure _ (by show sm.line ≤ s1.mark.line; omega)
  · apply TSL.getS_bind; intro s1 h1
    exact TSL.blockContent lit ch indent trailingBreaks s1 _ (Nat.le_refl _)

theorem TSL.scanBlockScalarBody (lit : Bool) (sm : Marker) (lo : Nat) (hs : sm.line ≤ lo) : TSL lo (scanBlockScalarBody lit sm) := by
  unfold Sc.scanBlockScalarBody
  apply TSL.bindMI ML.lookCh; intro c
  apply TSL.bindMI (ML.liftI _); intro isDigit
  apply TSL.bindMI (ML.blockHeader _ _ _); intro p
  obtain ⟨chomping, increment⟩ := p
  apply TSL.bindMI (ML.skipWsToEol _); intro _
  apply TSL.bindMI (ML.lookahead _); intro _
  apply TSL.bindMI (ML.liftI _); intro bz
  apply TSL.ite (TSL.err _ _)
  apply TSL.bindMI ML.blockChompingBreak; intro cb
  exact TSL.blockAfterHeader lit sm chomping increment cb lo hs

/-- literal and folded block scalars -/
theorem TSL.scanBlockScalar (lit : Bool) (lo : Nat) : TSL lo (scanBlockScalar lit) := by
  unfold Sc.scanBlockScalar
  apply TSL.getMark_bind; intro sm hsm
  apply TSL.bindMI ML.skipNonBlank; intro _
  apply TSL.bindMI ML.unrollNonBlockIndents; intro _
  exact TSL.scanBlockScalarBody lit sm sm.line (Nat.le_refl _)

end SaphyrModel.Sc
