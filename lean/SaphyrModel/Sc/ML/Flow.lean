import SaphyrModel.Sc.ML.Base2
set_option linter.unusedSimpArgs false
namespace SaphyrModel.Sc
open SaphyrModel

theorem ML.hexLoop (m : Marker) (n : Nat) (fuel : Nat) : ∀ v, ML (hexLoop m n fuel v) := by
  induction fuel with
  | zero => intro v; unfold Sc.hexLoop; ml
  | succ n ih => intro v; unfold Sc.hexLoop; ml
macro_rules | `(tactic| ml_close) => `(tactic| exact ML.hexLoop _ _ _ _)
theorem ML.resolveEscape (m : Marker) : ML (resolveEscape m) := by
  unfold Sc.resolveEscape; ml
macro_rules | `(tactic| ml_close) => `(tactic| exact ML.resolveEscape _)
theorem ML.consumeNonWs (single : Bool) (m : Marker) (fuel : Nat) : ∀ str lb, ML (consumeNonWs single m fuel str lb) := by
  induction fuel with
  | zero => intro str lb; unfold Sc.consumeNonWs; ml
  | succ n ih => intro str lb; unfold Sc.consumeNonWs; ml
macro_rules | `(tactic| ml_close) => `(tactic| exact ML.consumeNonWs _ _ _ _ _)
theorem ML.consumeBlanks  (fuel : Nat) : ∀ a lb, ML (consumeBlanks  fuel a lb) := by
  induction fuel with
  | zero => intro a lb; unfold Sc.consumeBlanks; ml
  | succ n ih => intro a lb; unfold Sc.consumeBlanks; ml
macro_rules | `(tactic| ml_close) => `(tactic| exact ML.consumeBlanks _ _ _)
theorem ML.flowScalarLoop (single : Bool) (m : Marker) (fuel : Nat) : ∀ str a, ML (flowScalarLoop single m fuel str a) := by
  induction fuel with
  | zero => intro str a; unfold Sc.flowScalarLoop; ml
  | succ n ih => intro str a; unfold Sc.flowScalarLoop; ml
macro_rules | `(tactic| ml_close) => `(tactic| exact ML.flowScalarLoop _ _ _ _ _)
theorem ML.scanFlowScalar (single : Bool) : ML (scanFlowScalar single) := by
  unfold Sc.scanFlowScalar; ml
macro_rules | `(tactic| ml_close) => `(tactic| exact ML.scanFlowScalar _)
end SaphyrModel.Sc
