import SaphyrModel.Sc.Frame
import SaphyrModel.Sc.Scan3
/-! C12, "each span starts no later than it ends": the scanner's index never decreases. `ML m`: whenever `m`
returns normally — on any input back-end, from any state — the index of the scanner's mark is at least what it was. -/
set_option linter.unusedSimpArgs false
namespace SaphyrModel.Sc
open SaphyrModel

structure ML (m : S α) : Prop where
  out : ∀ s a s', m s = .ok (a, s') → s.mark.line ≤ s'.mark.line

theorem ML.pure (a : α) : ML (Pure.pure a : S α) := ⟨fun s b s' h => by cases h; exact Nat.le_refl _⟩
theorem ML.bind {m : S α} {f : α → S β} (h1 : ML m) (h2 : ∀ a, ML (f a)) : ML (m >>= f) := by
  constructor
  intro s b s' h
  simp only [Bind.bind] at h
  cases hm : m s with
  | ok r =>
    obtain ⟨a, s1⟩ := r
    simp only [hm] at h
    exact Nat.le_trans (h1.out s a s1 hm) ((h2 a).out s1 b s' h)
  | err e => simp [hm] at h
  | panic p => simp [hm] at h
theorem ML.ite {c : Prop} [Decidable c] {a b : S α} (ha : ML a) (hb : ML b) : ML (if c then a else b) := by
  split <;> assumption
theorem ML.getS : ML (getS : S Sc) := ⟨fun s b s' h => by cases h; exact Nat.le_refl _⟩
theorem ML.getMark : ML getMark := ⟨fun s b s' h => by cases h; exact Nat.le_refl _⟩
theorem ML.err (m : Marker) (msg : String) : ML (err m msg : S α) := ⟨fun s b s' h => by cases h⟩
theorem ML.panicAt (p : Site) : ML (panicAt p : S α) := ⟨fun s b s' h => by cases h⟩
theorem ML.modS (f : Sc → Sc) (h : ∀ s, s.mark.line ≤ (f s).mark.line) : ML (modS f) :=
  ⟨fun s b s' hh => by cases hh; exact h s⟩
theorem ML.liftI (m : M In α) : ML (liftI m) := by
  constructor
  intro s b s' hh
  simp only [Sc.liftI] at hh
  cases hm : m s.inp with
  | ok r => obtain ⟨a, i'⟩ := r; simp only [hm, Res.ok.injEq, Prod.mk.injEq] at hh; obtain ⟨_, rfl⟩ := hh; exact Nat.le_refl _
  | err e => simp [hm] at hh
  | panic p => simp [hm] at hh
/-- functions written as `fun s => …` that leave the mark alone -/
theorem ML.raw {m : S α} (h : ∀ s a s', m s = .ok (a, s') → s'.mark = s.mark) : ML m :=
  ⟨fun s a s' hh => by rw [h s a s' hh]; exact Nat.le_refl _⟩

syntax "ml_close" : tactic
macro_rules | `(tactic| ml_close) => `(tactic| first
    | exact ML.pure _ | exact ML.getS | exact ML.getMark | exact ML.err _ _ | exact ML.panicAt _ | exact ML.liftI _
    | assumption | apply_assumption)
macro_rules | `(tactic| ml_close) => `(tactic| (apply ML.modS; intro s; first
    | exact Nat.le_refl _ | exact Nat.le_add_right _ _ | (split <;> first | exact Nat.le_refl _ | exact Nat.le_add_right _ _)))

macro "ml" : tactic => `(tactic|
  repeat' (first
    | ml_close
    | apply ML.bind
    | apply ML.ite
    | intro _
    | split))

theorem ML.bufmaxlen : ML bufmaxlen := ML.raw (fun s a s' h => by cases h; rfl)
theorem ML.bufIsEmpty : ML bufIsEmpty := ML.raw (fun s a s' h => by cases h; rfl)
theorem ML.isWithinBlock : ML isWithinBlock := ML.raw (fun s a s' h => by unfold Sc.isWithinBlock at h; cases h; rfl)
macro_rules | `(tactic| ml_close) => `(tactic| first | exact ML.bufmaxlen | exact ML.bufIsEmpty | exact ML.isWithinBlock)

theorem ML.lookahead (n) : ML (lookahead n) := by unfold Sc.lookahead; ml
theorem ML.peek : ML peek := by unfold Sc.peek; ml
theorem ML.peekNth (n) : ML (peekNth n) := by unfold Sc.peekNth; ml
theorem ML.lookCh : ML lookCh := by unfold Sc.lookCh; ml
theorem ML.advance (n) : ML (advance n) := by unfold Sc.advance; ml
theorem ML.pushTok (sp t) : ML (pushTok sp t) := by unfold Sc.pushTok; ml
macro_rules | `(tactic| ml_close) => `(tactic| first
    | exact ML.lookahead _ | exact ML.peek | exact ML.peekNth _ | exact ML.lookCh | exact ML.advance _ | exact ML.pushTok _ _)
theorem ML.skipBlank : ML skipBlank := by unfold Sc.skipBlank; ml
theorem ML.skipNonBlank : ML skipNonBlank := by unfold Sc.skipNonBlank; ml
theorem ML.skipNNonBlank (n) : ML (skipNNonBlank n) := by unfold Sc.skipNNonBlank; ml
theorem ML.skipNl : ML skipNl := by unfold Sc.skipNl; ml
macro_rules | `(tactic| ml_close) => `(tactic| first
    | exact ML.skipBlank | exact ML.skipNonBlank | exact ML.skipNNonBlank _ | exact ML.skipNl)
theorem ML.skipLinebreak : ML skipLinebreak := by unfold Sc.skipLinebreak In.nextIsBreak; ml
theorem ML.skipBreak : ML skipBreak := by unfold Sc.skipBreak; ml
theorem ML.allowSimpleKey : ML allowSimpleKey := by unfold Sc.allowSimpleKey; ml
theorem ML.disallowSimpleKey : ML disallowSimpleKey := by unfold Sc.disallowSimpleKey; ml
theorem ML.skipWsToEol (t) : ML (skipWsToEol t) := by unfold Sc.skipWsToEol; ml
macro_rules | `(tactic| ml_close) => `(tactic| first
    | exact ML.skipLinebreak | exact ML.skipBreak | exact ML.allowSimpleKey | exact ML.disallowSimpleKey
    | exact ML.skipWsToEol _)

end SaphyrModel.Sc
