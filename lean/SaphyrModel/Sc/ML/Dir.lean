import SaphyrModel.Sc.ML.Base2
set_option linter.unusedSimpArgs false
namespace SaphyrModel.Sc
open SaphyrModel

theorem ML.scanDirectiveName : ML (scanDirectiveName) := by
  unfold Sc.scanDirectiveName; ml
macro_rules | `(tactic| ml_close) => `(tactic| exact ML.scanDirectiveName )
theorem ML.scanVersionNumberGo (mark : Marker) (fuel : Nat) : ∀ v l, ML (scanVersionNumberGo mark fuel v l) := by
  induction fuel with
  | zero => intro v l; unfold Sc.scanVersionNumberGo; ml
  | succ n ih => intro v l; unfold Sc.scanVersionNumberGo; ml
macro_rules | `(tactic| ml_close) => `(tactic| exact ML.scanVersionNumberGo _ _ _ _)
theorem ML.scanVersionDirectiveNumber (mark : Marker) : ML (scanVersionDirectiveNumber mark) := by
  unfold Sc.scanVersionDirectiveNumber; ml
macro_rules | `(tactic| ml_close) => `(tactic| exact ML.scanVersionDirectiveNumber _)
theorem ML.scanVersionDirectiveValue (mark : Marker) : ML (scanVersionDirectiveValue mark) := by
  unfold Sc.scanVersionDirectiveValue; ml
macro_rules | `(tactic| ml_close) => `(tactic| exact ML.scanVersionDirectiveValue _)
theorem ML.scanTagHandle (d : Bool) (mark : Marker) : ML (scanTagHandle d mark) := by
  unfold Sc.scanTagHandle; ml
macro_rules | `(tactic| ml_close) => `(tactic| exact ML.scanTagHandle _ _)

theorem ML.scanUriEscapesGo (mark : Marker) (fuel : Nat) : ∀ w c, ML (scanUriEscapesGo mark fuel w c) := by
  induction fuel with
  | zero => intro w c; unfold Sc.scanUriEscapesGo; ml
  | succ n ih => intro w c; unfold Sc.scanUriEscapesGo; ml
macro_rules | `(tactic| ml_close) => `(tactic| exact ML.scanUriEscapesGo _ _ _ _)
theorem ML.scanUriEscapes (mark : Marker) : ML (scanUriEscapes mark) := by
  unfold Sc.scanUriEscapes; ml
macro_rules | `(tactic| ml_close) => `(tactic| exact ML.scanUriEscapes _)
theorem ML.scanUriLoop (p : Char → Bool) (mark : Marker) (fuel : Nat) : ∀ str n, ML (scanUriLoop p mark fuel str n) := by
  induction fuel with
  | zero => intro str n; unfold Sc.scanUriLoop; ml
  | succ n ih => intro str n; unfold Sc.scanUriLoop; ml
macro_rules | `(tactic| ml_close) => `(tactic| exact ML.scanUriLoop _ _ _ _ _)
theorem ML.scanTagPrefix (m : Marker) : ML (scanTagPrefix m) := by
  unfold Sc.scanTagPrefix; ml
macro_rules | `(tactic| ml_close) => `(tactic| exact ML.scanTagPrefix _)
theorem ML.scanTagDirectiveValue (m : Marker) : ML (scanTagDirectiveValue m) := by
  unfold Sc.scanTagDirectiveValue; ml
macro_rules | `(tactic| ml_close) => `(tactic| exact ML.scanTagDirectiveValue _)
theorem ML.scanDirective : ML (scanDirective) := by
  unfold Sc.scanDirective; ml
macro_rules | `(tactic| ml_close) => `(tactic| exact ML.scanDirective )
theorem ML.scanVerbatimTag (m : Marker) : ML (scanVerbatimTag m) := by
  unfold Sc.scanVerbatimTag; ml
macro_rules | `(tactic| ml_close) => `(tactic| exact ML.scanVerbatimTag _)
theorem ML.scanTagShorthandSuffix (h : Str) (m : Marker) : ML (scanTagShorthandSuffix h m) := by
  unfold Sc.scanTagShorthandSuffix; ml
macro_rules | `(tactic| ml_close) => `(tactic| exact ML.scanTagShorthandSuffix _ _)
theorem ML.scanTag : ML (scanTag) := by
  unfold Sc.scanTag; ml
macro_rules | `(tactic| ml_close) => `(tactic| exact ML.scanTag )

end SaphyrModel.Sc
