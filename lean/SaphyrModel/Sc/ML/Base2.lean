import SaphyrModel.Sc.ML.Base
set_option linter.unusedSimpArgs false
namespace SaphyrModel.Sc
open SaphyrModel

theorem ML.scanAnchorGo (fuel : Nat) : ∀ str, ML (scanAnchorGo fuel str) := by
  induction fuel with
  | zero => intro str; unfold Sc.scanAnchorGo; ml
  | succ n ih => intro str; unfold Sc.scanAnchorGo; ml
macro_rules | `(tactic| ml_close) => `(tactic| exact ML.scanAnchorGo _ _)
theorem ML.scanAnchor (alias : Bool) : ML (scanAnchor alias) := by unfold Sc.scanAnchor; ml
macro_rules | `(tactic| ml_close) => `(tactic| exact ML.scanAnchor _)

theorem ML.skipToNextTokenGo (fuel : Nat) : ML (skipToNextTokenGo fuel) := by
  induction fuel with
  | zero => unfold Sc.skipToNextTokenGo; ml
  | succ n ih => unfold Sc.skipToNextTokenGo; ml
theorem ML.skipToNextToken : ML skipToNextToken := by
  unfold Sc.skipToNextToken; have := ML.skipToNextTokenGo; ml
macro_rules | `(tactic| ml_close) => `(tactic| first | exact ML.skipToNextTokenGo _ | exact ML.skipToNextToken)

theorem ML.skipYamlWhitespaceGo (fuel : Nat) : ∀ b, ML (skipYamlWhitespaceGo fuel b) := by
  induction fuel with
  | zero => intro b; unfold Sc.skipYamlWhitespaceGo; ml
  | succ n ih => intro b; unfold Sc.skipYamlWhitespaceGo; ml
theorem ML.skipYamlWhitespace : ML skipYamlWhitespace := by
  unfold Sc.skipYamlWhitespace; have := ML.skipYamlWhitespaceGo; ml
macro_rules | `(tactic| ml_close) => `(tactic| first | exact ML.skipYamlWhitespaceGo _ _ | exact ML.skipYamlWhitespace)


end SaphyrModel.Sc
