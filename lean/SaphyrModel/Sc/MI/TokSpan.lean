import SaphyrModel.Sc.MI.Fetch
/-! C12, "each span starts no later than it ends", for the tokens of quoted scalars, block scalars, anchors and
aliases — every input, every back-end, every state. `TS lo m`: started with the index at least `lo`, whenever `m`
returns a token its span starts no later than it ends. -/
set_option linter.unusedSimpArgs false
namespace SaphyrModel.Sc
open SaphyrModel

structure TS (lo : Nat) (m : S Token) : Prop where
  out : ∀ s tok s', lo ≤ s.mark.index → m s = .ok (tok, s') → tok.span.start.index ≤ tok.span.stop.index

theorem TS.bindMI {lo : Nat} {m : S α} {f : α → S Token} (h1 : MI m) (h2 : ∀ a, TS lo (f a)) : TS lo (m >>= f) := by
  constructor
  intro s tok s' hlo h
  simp only [Bind.bind] at h
  cases hm : m s with
  | ok r =>
    obtain ⟨a, s1⟩ := r
    simp only [hm] at h
    exact (h2 a).out s1 tok s' (Nat.le_trans hlo (h1.out s a s1 hm)) h
  | err e => simp [hm] at h
  | panic p => simp [hm] at h

theorem TS.getMark_bind {lo : Nat} {f : Marker → S Token} (h : ∀ sm : Marker, lo ≤ sm.index → TS sm.index (f sm)) :
    TS lo (getMark >>= f) := by
  constructor
  intro s tok s' hlo hh
  exact (h s.mark hlo).out s tok s' (Nat.le_refl _) (by simpa [Bind.bind, getMark] using hh)

theorem TS.getS_bind {lo : Nat} {f : Sc → S Token} (h : ∀ s0 : Sc, lo ≤ s0.mark.index → TS s0.mark.index (f s0)) :
    TS lo (getS >>= f) := by
  constructor
  intro s tok s' hlo hh
  exact (h s hlo).out s tok s' (Nat.le_refl _) (by simpa [Bind.bind, getS] using hh)

theorem TS.ite {lo : Nat} {c : Prop} [Decidable c] {a b : S Token} (ha : TS lo a) (hb : TS lo b) : TS lo (if c then a else b) := by
  split <;> assumption
theorem TS.err {lo : Nat} (m : Marker) (msg : String) : TS lo (err m msg : S Token) := ⟨fun s tok s' _ h => by cases h⟩
theorem TS.pure {lo : Nat} (tok : Token) (h : tok.span.start.index ≤ tok.span.stop.index) : TS lo (Pure.pure tok : S Token) :=
  ⟨fun s t s' _ hh => by cases hh; exact h⟩
theorem TS.mono {lo lo' : Nat} {m : S Token} (h : TS lo m) (hle : lo ≤ lo') : TS lo' m :=
  ⟨fun s tok s' hlo hh => h.out s tok s' (Nat.le_trans hle hlo) hh⟩

/-- anchors and aliases -/
theorem TS.scanAnchor (alias : Bool) (lo : Nat) : TS lo (scanAnchor alias) := by
  unfold Sc.scanAnchor
  apply TS.getMark_bind; intro sm hsm
  apply TS.bindMI MI.skipNonBlank; intro _
  apply TS.getS_bind; intro s0 h0
  apply TS.bindMI (MI.scanAnchorGo _ _); intro str
  apply TS.ite (TS.err _ _)
  apply TS.getMark_bind; intro em hem
  exact TS.pure _ (by show sm.index ≤ em.index; omega)

/-- single- and double-quoted scalars -/
theorem TS.scanFlowScalar (single : Bool) (lo : Nat) : TS lo (scanFlowScalar single) := by
  unfold Sc.scanFlowScalar
  apply TS.getMark_bind; intro sm hsm
  apply TS.bindMI MI.skipNonBlank; intro _
  apply TS.getS_bind; intro s0 h0
  apply TS.bindMI (MI.flowScalarLoop _ _ _ _ _); intro str
  apply TS.bindMI MI.skipNonBlank; intro _
  apply TS.bindMI (MI.skipWsToEol _); intro _
  apply TS.bindMI MI.peek; intro c
  apply TS.getS_bind; intro s1 h1
  apply TS.ite (TS.err _ _)
  exact TS.pure _ (by show sm.index ≤ s1.mark.index; omega)

/-- block scalars: the content part (the token spans from the first content line to where the scanner stops) -/
theorem TS.blockContent (lit : Bool) (ch : Chomping) (ind : Nat) (tb : Str) (s : Sc) (lo : Nat) (hs : s.mark.index ≤ lo) :
    TS lo (blockContent lit ch ind tb s) := by
  unfold Sc.blockContent
  apply TS.bindMI (MI.blockMarkerCheck _ _); intro marker
  apply TS.ite (TS.err _ _)
  apply TS.bindMI (MI.blockScalarLines _ _ _ _); intro a
  apply TS.getS_bind; intro s2 h2
  apply TS.bindMI (MI.blockFinish _ _ _ _); intro str
  exact TS.pure _ (by show s.mark.index ≤ s2.mark.index; omega)

theorem TS.blockAfterHeader (lit : Bool) (sm : Marker) (ch : Chomping) (inc : Nat) (cb : Str) (lo : Nat) (hs : sm.index ≤ lo) :
    TS lo (blockAfterHeader lit sm ch inc cb) := by
  unfold Sc.blockAfterHeader
  apply TS.bindMI MI.lookCh; intro c
  apply TS.ite (TS.err _ _)
  apply TS.getS_bind; intro s0 h0
  apply TS.bindMI (MI.blockIndent _ _); intro p
  obtain ⟨indent, trailingBreaks⟩ := p
  apply TS.bindMI (MI.liftI _); intro z
  apply TS.ite
  · apply TS.getS_bind; intro s1 h1
    exact TS.pure _ (by show sm.index ≤ s1.mark.index; omega)
  · apply TS.getS_bind; intro s1 h1
    exact TS.blockContent lit ch indent trailingBreaks s1 _ (Nat.le_refl _)

theorem TS.scanBlockScalarBody (lit : Bool) (sm : Marker) (lo : Nat) (hs : sm.index ≤ lo) : TS lo (scanBlockScalarBody lit sm) := by
  unfold Sc.scanBlockScalarBody
  apply TS.bindMI MI.lookCh; intro c
  apply TS.bindMI (MI.liftI _); intro isDigit
  apply TS.bindMI (MI.blockHeader _ _ _); intro p
  obtain ⟨chomping, increment⟩ := p
  apply TS.bindMI (MI.skipWsToEol _); intro _
  apply TS.bindMI (MI.lookahead _); intro _
  apply TS.bindMI (MI.liftI _); intro bz
  apply TS.ite (TS.err _ _)
  apply TS.bindMI MI.blockChompingBreak; intro cb
  exact TS.blockAfterHeader lit sm chomping increment cb lo hs

/-- literal and folded block scalars -/
theorem TS.scanBlockScalar (lit : Bool) (lo : Nat) : TS lo (scanBlockScalar lit) := by
  unfold Sc.scanBlockScalar
  apply TS.getMark_bind; intro sm hsm
  apply TS.bindMI MI.skipNonBlank; intro _
  apply TS.bindMI MI.unrollNonBlockIndents; intro _
  exact TS.scanBlockScalarBody lit sm sm.index (Nat.le_refl _)

end SaphyrModel.Sc
