import SaphyrModel.Sc.MI.Base
set_option linter.unusedSimpArgs false
namespace SaphyrModel.Sc
open SaphyrModel

theorem MI.scanAnchorGo (fuel : Nat) : ∀ str, MI (scanAnchorGo fuel str) := by
  induction fuel with
  | zero => intro str; unfold Sc.scanAnchorGo; mi
  | succ n ih => intro str; unfold Sc.scanAnchorGo; mi
macro_rules | `(tactic| mi_close) => `(tactic| exact MI.scanAnchorGo _ _)
theorem MI.scanAnchor (alias : Bool) : MI (scanAnchor alias) := by unfold Sc.scanAnchor; mi
macro_rules | `(tactic| mi_close) => `(tactic| exact MI.scanAnchor _)

theorem MI.skipToNextTokenGo (fuel : Nat) : MI (skipToNextTokenGo fuel) := by
  induction fuel with
  | zero => unfold Sc.skipToNextTokenGo; mi
  | succ n ih => unfold Sc.skipToNextTokenGo; mi
theorem MI.skipToNextToken : MI skipToNextToken := by
  unfold Sc.skipToNextToken; have := MI.skipToNextTokenGo; mi
macro_rules | `(tactic| mi_close) => `(tactic| first | exact MI.skipToNextTokenGo _ | exact MI.skipToNextToken)

theorem MI.skipYamlWhitespaceGo (fuel : Nat) : ∀ b, MI (skipYamlWhitespaceGo fuel b) := by
  induction fuel with
  | zero => intro b; unfold Sc.skipYamlWhitespaceGo; mi
  | succ n ih => intro b; unfold Sc.skipYamlWhitespaceGo; mi
theorem MI.skipYamlWhitespace : MI skipYamlWhitespace := by
  unfold Sc.skipYamlWhitespace; have := MI.skipYamlWhitespaceGo; mi
macro_rules | `(tactic| mi_close) => `(tactic| first | exact MI.skipYamlWhitespaceGo _ _ | exact MI.skipYamlWhitespace)


end SaphyrModel.Sc
