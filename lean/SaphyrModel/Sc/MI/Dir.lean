import SaphyrModel.Sc.MI.Base2
set_option linter.unusedSimpArgs false
namespace SaphyrModel.Sc
open SaphyrModel

theorem MI.scanDirectiveName : MI (scanDirectiveName) := by
  unfold Sc.scanDirectiveName; mi
macro_rules | `(tactic| mi_close) => `(tactic| exact MI.scanDirectiveName )
theorem MI.scanVersionNumberGo (mark : Marker) (fuel : Nat) : ∀ v l, MI (scanVersionNumberGo mark fuel v l) := by
  induction fuel with
  | zero => intro v l; unfold Sc.scanVersionNumberGo; mi
  | succ n ih => intro v l; unfold Sc.scanVersionNumberGo; mi
macro_rules | `(tactic| mi_close) => `(tactic| exact MI.scanVersionNumberGo _ _ _ _)
theorem MI.scanVersionDirectiveNumber (mark : Marker) : MI (scanVersionDirectiveNumber mark) := by
  unfold Sc.scanVersionDirectiveNumber; mi
macro_rules | `(tactic| mi_close) => `(tactic| exact MI.scanVersionDirectiveNumber _)
theorem MI.scanVersionDirectiveValue (mark : Marker) : MI (scanVersionDirectiveValue mark) := by
  unfold Sc.scanVersionDirectiveValue; mi
macro_rules | `(tactic| mi_close) => `(tactic| exact MI.scanVersionDirectiveValue _)
theorem MI.scanTagHandle (d : Bool) (mark : Marker) : MI (scanTagHandle d mark) := by
  unfold Sc.scanTagHandle; mi
macro_rules | `(tactic| mi_close) => `(tactic| exact MI.scanTagHandle _ _)

theorem MI.scanUriEscapesGo (mark : Marker) (fuel : Nat) : ∀ w c, MI (scanUriEscapesGo mark fuel w c) := by
  induction fuel with
  | zero => intro w c; unfold Sc.scanUriEscapesGo; mi
  | succ n ih => intro w c; unfold Sc.scanUriEscapesGo; mi
macro_rules | `(tactic| mi_close) => `(tactic| exact MI.scanUriEscapesGo _ _ _ _)
theorem MI.scanUriEscapes (mark : Marker) : MI (scanUriEscapes mark) := by
  unfold Sc.scanUriEscapes; mi
macro_rules | `(tactic| mi_close) => `(tactic| exact MI.scanUriEscapes _)
theorem MI.scanUriLoop (p : Char → Bool) (mark : Marker) (fuel : Nat) : ∀ str n, MI (scanUriLoop p mark fuel str n) := by
  induction fuel with
  | zero => intro str n; unfold Sc.scanUriLoop; mi
  | succ n ih => intro str n; unfold Sc.scanUriLoop; mi
macro_rules | `(tactic| mi_close) => `(tactic| exact MI.scanUriLoop _ _ _ _ _)
theorem MI.scanTagPrefix (m : Marker) : MI (scanTagPrefix m) := by
  unfold Sc.scanTagPrefix; mi
macro_rules | `(tactic| mi_close) => `(tactic| exact MI.scanTagPrefix _)
theorem MI.scanTagDirectiveValue (m : Marker) : MI (scanTagDirectiveValue m) := by
  unfold Sc.scanTagDirectiveValue; mi
macro_rules | `(tactic| mi_close) => `(tactic| exact MI.scanTagDirectiveValue _)
theorem MI.scanDirective : MI (scanDirective) := by
  unfold Sc.scanDirective; mi
macro_rules | `(tactic| mi_close) => `(tactic| exact MI.scanDirective )
theorem MI.scanVerbatimTag (m : Marker) : MI (scanVerbatimTag m) := by
  unfold Sc.scanVerbatimTag; mi
macro_rules | `(tactic| mi_close) => `(tactic| exact MI.scanVerbatimTag _)
theorem MI.scanTagShorthandSuffix (h : Str) (m : Marker) : MI (scanTagShorthandSuffix h m) := by
  unfold Sc.scanTagShorthandSuffix; mi
macro_rules | `(tactic| mi_close) => `(tactic| exact MI.scanTagShorthandSuffix _ _)
theorem MI.scanTag : MI (scanTag) := by
  unfold Sc.scanTag; mi
macro_rules | `(tactic| mi_close) => `(tactic| exact MI.scanTag )

end SaphyrModel.Sc
