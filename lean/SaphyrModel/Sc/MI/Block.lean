import SaphyrModel.Sc.MI.Base2
set_option linter.unusedSimpArgs false
namespace SaphyrModel.Sc
open SaphyrModel

theorem MI.readBreak (acc : Str) : MI (readBreak acc) := by
  unfold Sc.readBreak; mi
macro_rules | `(tactic| mi_close) => `(tactic| exact MI.readBreak _)
theorem MI.skipBlockScalarIndentSpaces (indent : Nat) (g : Bool) (fuel : Nat) : MI (skipBlockScalarIndentSpaces indent g fuel ) := by
  induction fuel with
  | zero => unfold Sc.skipBlockScalarIndentSpaces; mi
  | succ n ih => unfold Sc.skipBlockScalarIndentSpaces; mi
macro_rules | `(tactic| mi_close) => `(tactic| exact MI.skipBlockScalarIndentSpaces _ _ _)
theorem MI.skipBlockScalarIndentBig (indent : Nat) (fuel : Nat) : MI (skipBlockScalarIndentBig indent fuel ) := by
  induction fuel with
  | zero => unfold Sc.skipBlockScalarIndentBig; mi
  | succ n ih => unfold Sc.skipBlockScalarIndentBig; mi
macro_rules | `(tactic| mi_close) => `(tactic| exact MI.skipBlockScalarIndentBig _ _)
theorem MI.skipBlockScalarIndent (indent : Nat) (fuel : Nat) : ∀ b, MI (skipBlockScalarIndent indent fuel b) := by
  induction fuel with
  | zero => intro b; unfold Sc.skipBlockScalarIndent; mi
  | succ n ih => intro b; unfold Sc.skipBlockScalarIndent; mi
macro_rules | `(tactic| mi_close) => `(tactic| exact MI.skipBlockScalarIndent _ _ _)
theorem MI.skipSpaces  (fuel : Nat) : MI (skipSpaces  fuel ) := by
  induction fuel with
  | zero => unfold Sc.skipSpaces; mi
  | succ n ih => unfold Sc.skipSpaces; mi
macro_rules | `(tactic| mi_close) => `(tactic| exact MI.skipSpaces _)
theorem MI.skipBlockScalarFirstLineIndentGo  (fuel : Nat) : ∀ m b, MI (skipBlockScalarFirstLineIndentGo  fuel m b) := by
  induction fuel with
  | zero => intro m b; unfold Sc.skipBlockScalarFirstLineIndentGo; mi
  | succ n ih => intro m b; unfold Sc.skipBlockScalarFirstLineIndentGo; mi
macro_rules | `(tactic| mi_close) => `(tactic| exact MI.skipBlockScalarFirstLineIndentGo _ _ _)
theorem MI.skipBlockScalarFirstLineIndent (b : Str) : MI (skipBlockScalarFirstLineIndent b) := by
  unfold Sc.skipBlockScalarFirstLineIndent; mi
macro_rules | `(tactic| mi_close) => `(tactic| exact MI.skipBlockScalarFirstLineIndent _)
theorem MI.contentLineBuffered  (fuel : Nat) : ∀ str, MI (contentLineBuffered  fuel str) := by
  induction fuel with
  | zero => intro str; unfold Sc.contentLineBuffered; mi
  | succ n ih => intro str; unfold Sc.contentLineBuffered; mi
macro_rules | `(tactic| mi_close) => `(tactic| exact MI.contentLineBuffered _ _)
theorem MI.contentLineRaw  (fuel : Nat) : ∀ l, MI (contentLineRaw  fuel l) := by
  induction fuel with
  | zero => intro l; unfold Sc.contentLineRaw; mi
  | succ n ih => intro l; unfold Sc.contentLineRaw; mi
macro_rules | `(tactic| mi_close) => `(tactic| exact MI.contentLineRaw _ _)
theorem MI.scanBlockScalarContentLine (str : Str) : MI (scanBlockScalarContentLine str) := by
  unfold Sc.scanBlockScalarContentLine; mi
macro_rules | `(tactic| mi_close) => `(tactic| exact MI.scanBlockScalarContentLine _)
theorem MI.blockScalarLines (lit : Bool) (indent : Nat) (fuel : Nat) : ∀ a, MI (blockScalarLines lit indent fuel a) := by
  induction fuel with
  | zero => intro a; unfold Sc.blockScalarLines; mi
  | succ n ih => intro a; unfold Sc.blockScalarLines; mi
macro_rules | `(tactic| mi_close) => `(tactic| exact MI.blockScalarLines _ _ _ _)
set_option maxHeartbeats 4000000 in
theorem MI.blockHeaderDigit (m : Marker) (ch : Chomping) : MI (blockHeaderDigit m ch) := by
  unfold Sc.blockHeaderDigit; (try unfold In.nextIsDigit); (try unfold In.nextIsBreakz); (try unfold In.nextIsBreak); (try unfold In.nextIsZ); mi
macro_rules | `(tactic| mi_close) => `(tactic| exact MI.blockHeaderDigit _ _)
set_option maxHeartbeats 4000000 in
theorem MI.blockHeaderChomp (d : Char) : MI (blockHeaderChomp d) := by
  unfold Sc.blockHeaderChomp; (try unfold In.nextIsDigit); (try unfold In.nextIsBreakz); (try unfold In.nextIsBreak); (try unfold In.nextIsZ); mi
macro_rules | `(tactic| mi_close) => `(tactic| exact MI.blockHeaderChomp _)
set_option maxHeartbeats 4000000 in
theorem MI.blockHeader (m : Marker) (c : Char) (b : Bool) : MI (blockHeader m c b) := by
  unfold Sc.blockHeader; (try unfold In.nextIsDigit); (try unfold In.nextIsBreakz); (try unfold In.nextIsBreak); (try unfold In.nextIsZ); mi
macro_rules | `(tactic| mi_close) => `(tactic| exact MI.blockHeader _ _ _)
set_option maxHeartbeats 4000000 in
theorem MI.blockChompingBreak  : MI (blockChompingBreak ) := by
  unfold Sc.blockChompingBreak; (try unfold In.nextIsDigit); (try unfold In.nextIsBreakz); (try unfold In.nextIsBreak); (try unfold In.nextIsZ); mi
macro_rules | `(tactic| mi_close) => `(tactic| exact MI.blockChompingBreak )
set_option maxHeartbeats 4000000 in
theorem MI.blockIndent (inc : Nat) (s : Sc) : MI (blockIndent inc s) := by
  unfold Sc.blockIndent; (try unfold In.nextIsDigit); (try unfold In.nextIsBreakz); (try unfold In.nextIsBreak); (try unfold In.nextIsZ); mi
macro_rules | `(tactic| mi_close) => `(tactic| exact MI.blockIndent _ _)
set_option maxHeartbeats 4000000 in
theorem MI.blockMarkerCheck (ind : Nat) (s : Sc) : MI (blockMarkerCheck ind s) := by
  unfold Sc.blockMarkerCheck; (try unfold In.nextIsDigit); (try unfold In.nextIsBreakz); (try unfold In.nextIsBreak); (try unfold In.nextIsZ); mi
macro_rules | `(tactic| mi_close) => `(tactic| exact MI.blockMarkerCheck _ _)
set_option maxHeartbeats 4000000 in
theorem MI.blockFinish (ch : Chomping) (ind : Nat) (a : BlkAcc) (s : Sc) : MI (blockFinish ch ind a s) := by
  unfold Sc.blockFinish; (try unfold In.nextIsDigit); (try unfold In.nextIsBreakz); (try unfold In.nextIsBreak); (try unfold In.nextIsZ); mi
macro_rules | `(tactic| mi_close) => `(tactic| exact MI.blockFinish _ _ _ _)
set_option maxHeartbeats 4000000 in
theorem MI.blockContent (lit : Bool) (ch : Chomping) (ind : Nat) (tb : Str) (s : Sc) : MI (blockContent lit ch ind tb s) := by
  unfold Sc.blockContent; (try unfold In.nextIsDigit); (try unfold In.nextIsBreakz); (try unfold In.nextIsBreak); (try unfold In.nextIsZ); mi
macro_rules | `(tactic| mi_close) => `(tactic| exact MI.blockContent _ _ _ _ _)
set_option maxHeartbeats 4000000 in
theorem MI.blockAfterHeader (lit : Bool) (m : Marker) (ch : Chomping) (inc : Nat) (cb : Str) : MI (blockAfterHeader lit m ch inc cb) := by
  unfold Sc.blockAfterHeader; (try unfold In.nextIsDigit); (try unfold In.nextIsBreakz); (try unfold In.nextIsBreak); (try unfold In.nextIsZ); mi
macro_rules | `(tactic| mi_close) => `(tactic| exact MI.blockAfterHeader _ _ _ _ _)
set_option maxHeartbeats 4000000 in
theorem MI.scanBlockScalarBody (lit : Bool) (m : Marker) : MI (scanBlockScalarBody lit m) := by
  unfold Sc.scanBlockScalarBody; (try unfold In.nextIsDigit); (try unfold In.nextIsBreakz); (try unfold In.nextIsBreak); (try unfold In.nextIsZ); mi
macro_rules | `(tactic| mi_close) => `(tactic| exact MI.scanBlockScalarBody _ _)

end SaphyrModel.Sc
