import SaphyrModel.Sc.MI.Base2
set_option linter.unusedSimpArgs false
namespace SaphyrModel.Sc
open SaphyrModel

theorem MI.plainChunk  (fuel : Nat) : ∀ str, MI (plainChunk  fuel str) := by
  induction fuel with
  | zero => intro str; unfold Sc.plainChunk; mi
  | succ n ih => intro str; unfold Sc.plainChunk; mi
macro_rules | `(tactic| mi_close) => `(tactic| exact MI.plainChunk _ _)
theorem MI.plainChunks  (fuel : Nat) : ∀ str, MI (plainChunks  fuel str) := by
  induction fuel with
  | zero => intro str; unfold Sc.plainChunks; mi
  | succ n ih => intro str; unfold Sc.plainChunks; mi
macro_rules | `(tactic| mi_close) => `(tactic| exact MI.plainChunks _ _)
theorem MI.plainBlanks (indent : Int) (m : Marker) (fuel : Nat) : ∀ a, MI (plainBlanks indent m fuel a) := by
  induction fuel with
  | zero => intro a; unfold Sc.plainBlanks; mi
  | succ n ih => intro a; unfold Sc.plainBlanks; mi
macro_rules | `(tactic| mi_close) => `(tactic| exact MI.plainBlanks _ _ _ _)
set_option maxHeartbeats 4000000 in
theorem MI.plainLoop (indent : Int) (m : Marker) (fuel : Nat) : ∀ a, MI (plainLoop indent m fuel a) := by
  induction fuel with
  | zero => intro a; unfold Sc.plainLoop; mi
  | succ n ih => intro a; unfold Sc.plainLoop; mi
macro_rules | `(tactic| mi_close) => `(tactic| exact MI.plainLoop _ _ _ _)

set_option maxHeartbeats 4000000 in
theorem MI.scanPlainScalarBody : MI scanPlainScalarBody := by unfold Sc.scanPlainScalarBody; mi
macro_rules | `(tactic| mi_close) => `(tactic| exact MI.scanPlainScalarBody)

end SaphyrModel.Sc
