import SaphyrModel.Sc.Frame
import SaphyrModel.Sc.Scan3
/-! C12, "each span starts no later than it ends": the scanner's index never decreases. `MI m`: whenever `m`
returns normally — on any input back-end, from any state — the index of the scanner's mark is at least what it was. -/
set_option linter.unusedSimpArgs false
namespace SaphyrModel.Sc
open SaphyrModel

structure MI (m : S α) : Prop where
  out : ∀ s a s', m s = .ok (a, s') → s.mark.index ≤ s'.mark.index

theorem MI.pure (a : α) : MI (Pure.pure a : S α) := ⟨fun s b s' h => by cases h; exact Nat.le_refl _⟩
theorem MI.bind {m : S α} {f : α → S β} (h1 : MI m) (h2 : ∀ a, MI (f a)) : MI (m >>= f) := by
  constructor
  intro s b s' h
  simp only [Bind.bind] at h
  cases hm : m s with
  | ok r =>
    obtain ⟨a, s1⟩ := r
    simp only [hm] at h
    exact Nat.le_trans (h1.out s a s1 hm) ((h2 a).out s1 b s' h)
  | err e => simp [hm] at h
  | panic p => simp [hm] at h
theorem MI.ite {c : Prop} [Decidable c] {a b : S α} (ha : MI a) (hb : MI b) : MI (if c then a else b) := by
  split <;> assumption
theorem MI.getS : MI (getS : S Sc) := ⟨fun s b s' h => by cases h; exact Nat.le_refl _⟩
theorem MI.getMark : MI getMark := ⟨fun s b s' h => by cases h; exact Nat.le_refl _⟩
theorem MI.err (m : Marker) (msg : String) : MI (err m msg : S α) := ⟨fun s b s' h => by cases h⟩
theorem MI.panicAt (p : Site) : MI (panicAt p : S α) := ⟨fun s b s' h => by cases h⟩
theorem MI.modS (f : Sc → Sc) (h : ∀ s, s.mark.index ≤ (f s).mark.index) : MI (modS f) :=
  ⟨fun s b s' hh => by cases hh; exact h s⟩
theorem MI.liftI (m : M In α) : MI (liftI m) := by
  constructor
  intro s b s' hh
  simp only [Sc.liftI] at hh
  cases hm : m s.inp with
  | ok r => obtain ⟨a, i'⟩ := r; simp only [hm, Res.ok.injEq, Prod.mk.injEq] at hh; obtain ⟨_, rfl⟩ := hh; exact Nat.le_refl _
  | err e => simp [hm] at hh
  | panic p => simp [hm] at hh
/-- functions written as `fun s => …` that leave the mark alone -/
theorem MI.raw {m : S α} (h : ∀ s a s', m s = .ok (a, s') → s'.mark = s.mark) : MI m :=
  ⟨fun s a s' hh => by rw [h s a s' hh]; exact Nat.le_refl _⟩

syntax "mi_close" : tactic
macro_rules | `(tactic| mi_close) => `(tactic| first
    | exact MI.pure _ | exact MI.getS | exact MI.getMark | exact MI.err _ _ | exact MI.panicAt _ | exact MI.liftI _
    | assumption | apply_assumption)
macro_rules | `(tactic| mi_close) => `(tactic| (apply MI.modS; intro s; first
    | exact Nat.le_refl _ | exact Nat.le_add_right _ _ | (split <;> first | exact Nat.le_refl _ | exact Nat.le_add_right _ _)))

macro "mi" : tactic => `(tactic|
  repeat' (first
    | mi_close
    | apply MI.bind
    | apply MI.ite
    | intro _
    | split))

theorem MI.bufmaxlen : MI bufmaxlen := MI.raw (fun s a s' h => by cases h; rfl)
theorem MI.bufIsEmpty : MI bufIsEmpty := MI.raw (fun s a s' h => by cases h; rfl)
theorem MI.isWithinBlock : MI isWithinBlock := MI.raw (fun s a s' h => by unfold Sc.isWithinBlock at h; cases h; rfl)
macro_rules | `(tactic| mi_close) => `(tactic| first | exact MI.bufmaxlen | exact MI.bufIsEmpty | exact MI.isWithinBlock)

theorem MI.lookahead (n) : MI (lookahead n) := by unfold Sc.lookahead; mi
theorem MI.peek : MI peek := by unfold Sc.peek; mi
theorem MI.peekNth (n) : MI (peekNth n) := by unfold Sc.peekNth; mi
theorem MI.lookCh : MI lookCh := by unfold Sc.lookCh; mi
theorem MI.advance (n) : MI (advance n) := by unfold Sc.advance; mi
theorem MI.pushTok (sp t) : MI (pushTok sp t) := by unfold Sc.pushTok; mi
macro_rules | `(tactic| mi_close) => `(tactic| first
    | exact MI.lookahead _ | exact MI.peek | exact MI.peekNth _ | exact MI.lookCh | exact MI.advance _ | exact MI.pushTok _ _)
theorem MI.skipBlank : MI skipBlank := by unfold Sc.skipBlank; mi
theorem MI.skipNonBlank : MI skipNonBlank := by unfold Sc.skipNonBlank; mi
theorem MI.skipNNonBlank (n) : MI (skipNNonBlank n) := by unfold Sc.skipNNonBlank; mi
theorem MI.skipNl : MI skipNl := by unfold Sc.skipNl; mi
macro_rules | `(tactic| mi_close) => `(tactic| first
    | exact MI.skipBlank | exact MI.skipNonBlank | exact MI.skipNNonBlank _ | exact MI.skipNl)
theorem MI.skipLinebreak : MI skipLinebreak := by unfold Sc.skipLinebreak In.nextIsBreak; mi
theorem MI.skipBreak : MI skipBreak := by unfold Sc.skipBreak; mi
theorem MI.allowSimpleKey : MI allowSimpleKey := by unfold Sc.allowSimpleKey; mi
theorem MI.disallowSimpleKey : MI disallowSimpleKey := by unfold Sc.disallowSimpleKey; mi
theorem MI.skipWsToEol (t) : MI (skipWsToEol t) := by unfold Sc.skipWsToEol; mi
macro_rules | `(tactic| mi_close) => `(tactic| first
    | exact MI.skipLinebreak | exact MI.skipBreak | exact MI.allowSimpleKey | exact MI.disallowSimpleKey
    | exact MI.skipWsToEol _)

end SaphyrModel.Sc
