import SaphyrModel.Sc.MI.Base2
set_option linter.unusedSimpArgs false
namespace SaphyrModel.Sc
open SaphyrModel

theorem MI.hexLoop (m : Marker) (n : Nat) (fuel : Nat) : ∀ v, MI (hexLoop m n fuel v) := by
  induction fuel with
  | zero => intro v; unfold Sc.hexLoop; mi
  | succ n ih => intro v; unfold Sc.hexLoop; mi
macro_rules | `(tactic| mi_close) => `(tactic| exact MI.hexLoop _ _ _ _)
theorem MI.resolveEscape (m : Marker) : MI (resolveEscape m) := by
  unfold Sc.resolveEscape; mi
macro_rules | `(tactic| mi_close) => `(tactic| exact MI.resolveEscape _)
theorem MI.consumeNonWs (single : Bool) (m : Marker) (fuel : Nat) : ∀ str lb, MI (consumeNonWs single m fuel str lb) := by
  induction fuel with
  | zero => intro str lb; unfold Sc.consumeNonWs; mi
  | succ n ih => intro str lb; unfold Sc.consumeNonWs; mi
macro_rules | `(tactic| mi_close) => `(tactic| exact MI.consumeNonWs _ _ _ _ _)
theorem MI.consumeBlanks  (fuel : Nat) : ∀ a lb, MI (consumeBlanks  fuel a lb) := by
  induction fuel with
  | zero => intro a lb; unfold Sc.consumeBlanks; mi
  | succ n ih => intro a lb; unfold Sc.consumeBlanks; mi
macro_rules | `(tactic| mi_close) => `(tactic| exact MI.consumeBlanks _ _ _)
theorem MI.flowScalarLoop (single : Bool) (m : Marker) (fuel : Nat) : ∀ str a, MI (flowScalarLoop single m fuel str a) := by
  induction fuel with
  | zero => intro str a; unfold Sc.flowScalarLoop; mi
  | succ n ih => intro str a; unfold Sc.flowScalarLoop; mi
macro_rules | `(tactic| mi_close) => `(tactic| exact MI.flowScalarLoop _ _ _ _ _)
theorem MI.scanFlowScalar (single : Bool) : MI (scanFlowScalar single) := by
  unfold Sc.scanFlowScalar; mi
macro_rules | `(tactic| mi_close) => `(tactic| exact MI.scanFlowScalar _)
end SaphyrModel.Sc
