import SaphyrModel.Sc.MI.Dir
import SaphyrModel.Sc.MI.Block
import SaphyrModel.Sc.MI.Flow
import SaphyrModel.Sc.MI.Plain
set_option linter.unusedSimpArgs false
/-! String back-end, part 2: structural functions, the `fetch_*` family, the token loop and the run. -/
namespace SaphyrModel.Sc
open SaphyrModel

theorem MI.insertToken (pos : Nat) (tok : Token) : MI (insertToken pos tok) := by
  apply MI.raw; intro s a s' h; unfold Sc.insertToken at h
  by_cases hp : pos ≤ s.tokens.length
  · rw [if_pos hp] at h; cases h; rfl
  · rw [if_neg hp] at h; cases h
theorem MI.tokenPos (n : Nat) : MI (tokenPos n) := by
  apply MI.raw; intro s a s' h; unfold Sc.tokenPos at h
  by_cases hp : n ≥ s.tokensParsed
  · rw [if_pos hp] at h; cases h; rfl
  · rw [if_neg hp] at h; cases h
macro_rules | `(tactic| mi_close) => `(tactic| first | exact MI.insertToken _ _ | exact MI.tokenPos _)

theorem dropNonBlockTop_mark (col : Nat) (s : Sc) : (dropNonBlockTop col s).mark = s.mark := by
  unfold dropNonBlockTop; repeat' (first | rfl | split)
theorem clearPossibleKeys_mark (s : Sc) : (clearPossibleKeys s).mark = s.mark := rfl
theorem markExplicitKey_mark (s : Sc) : (markExplicitKey s).mark = s.mark := by
  unfold markExplicitKey; repeat' (first | rfl | split)
theorem popExplicitMapping_mark (s : Sc) : (popExplicitMapping s).mark = s.mark := by
  unfold popExplicitMapping; repeat' (first | rfl | split)
theorem pushImplState_mark (st : ImplState) (s : Sc) : (pushImplState st s).mark = s.mark := rfl
theorem MI.modS' (f : Sc → Sc) (h : ∀ s, (f s).mark = s.mark) : MI (Sc.modS f) :=
  MI.modS f (fun s => by rw [h s]; exact Nat.le_refl _)
macro_rules | `(tactic| mi_close) => `(tactic| first
  | exact MI.modS' _ (dropNonBlockTop_mark _) | exact MI.modS' _ clearPossibleKeys_mark
  | exact MI.modS' _ markExplicitKey_mark | exact MI.modS' _ popExplicitMapping_mark
  | exact MI.modS' _ (pushImplState_mark _))

theorem MI.rollIndentPush (col n tok mark) : MI (rollIndentPush col n tok mark) := by unfold Sc.rollIndentPush; mi
macro_rules | `(tactic| mi_close) => `(tactic| exact MI.rollIndentPush _ _ _ _)
theorem MI.rollIndent (col n tok mark) : MI (rollIndent col n tok mark) := by unfold Sc.rollIndent; mi
macro_rules | `(tactic| mi_close) => `(tactic| exact MI.rollIndent _ _ _ _)
theorem MI.unrollIndentGo (col : Int) (fuel : Nat) : MI (unrollIndentGo col fuel) := by
  induction fuel with
  | zero => unfold Sc.unrollIndentGo; mi
  | succ n ih => unfold Sc.unrollIndentGo; mi
macro_rules | `(tactic| mi_close) => `(tactic| exact MI.unrollIndentGo _ _)
theorem MI.unrollIndent (col : Int) : MI (unrollIndent col) := by unfold Sc.unrollIndent; mi
macro_rules | `(tactic| mi_close) => `(tactic| exact MI.unrollIndent _)
theorem MI.rollOneColIndent : MI rollOneColIndent := by unfold Sc.rollOneColIndent; mi
theorem MI.unrollNonBlockIndents : MI unrollNonBlockIndents := by
  unfold Sc.unrollNonBlockIndents; exact MI.modS' _ (fun _ => rfl)
theorem MI.requiredKey (s : Sc) : MI (requiredKey s) := by unfold Sc.requiredKey; mi
macro_rules | `(tactic| mi_close) => `(tactic| first
  | exact MI.rollOneColIndent | exact MI.unrollNonBlockIndents | exact MI.requiredKey _)
theorem MI.saveSimpleKey : MI saveSimpleKey := by unfold Sc.saveSimpleKey; mi
theorem MI.removeSimpleKey : MI removeSimpleKey := by unfold Sc.removeSimpleKey; mi
theorem MI.staleSimpleKeys : MI staleSimpleKeys := by unfold Sc.staleSimpleKeys; mi
theorem MI.increaseFlowLevel : MI increaseFlowLevel := by unfold Sc.increaseFlowLevel; mi
theorem MI.decreaseFlowLevel : MI decreaseFlowLevel := by unfold Sc.decreaseFlowLevel; mi
theorem MI.endImplicitMapping (m : Marker) : MI (endImplicitMapping m) := by unfold Sc.endImplicitMapping; mi
macro_rules | `(tactic| mi_close) => `(tactic| first
  | exact MI.saveSimpleKey | exact MI.removeSimpleKey | exact MI.staleSimpleKeys
  | exact MI.increaseFlowLevel | exact MI.decreaseFlowLevel | exact MI.endImplicitMapping _)

theorem MI.fetchStreamStart : MI fetchStreamStart := by unfold Sc.fetchStreamStart; mi
theorem MI.fetchStreamEnd : MI fetchStreamEnd := by unfold Sc.fetchStreamEnd; mi
theorem MI.fetchDirective : MI fetchDirective := by unfold Sc.fetchDirective; mi
theorem MI.fetchTag : MI fetchTag := by unfold Sc.fetchTag; mi
theorem MI.fetchAnchor (a : Bool) : MI (fetchAnchor a) := by unfold Sc.fetchAnchor; mi
theorem MI.fetchFlowCollectionStart (t : TokenType) : MI (fetchFlowCollectionStart t) := by
  unfold Sc.fetchFlowCollectionStart; mi
theorem MI.closeFlowState (t : TokenType) : MI (closeFlowState t) := by unfold Sc.closeFlowState; mi
macro_rules | `(tactic| mi_close) => `(tactic| exact MI.closeFlowState _)
theorem MI.fetchFlowCollectionEnd (t : TokenType) : MI (fetchFlowCollectionEnd t) := by
  unfold Sc.fetchFlowCollectionEnd; mi
theorem MI.fetchFlowEntry : MI fetchFlowEntry := by unfold Sc.fetchFlowEntry; mi
theorem MI.anchorIndentCheck (s : Sc) : MI (anchorIndentCheck s) := by unfold Sc.anchorIndentCheck; mi
theorem MI.blockEntryTabCheck (r : SkipTabs) : MI (blockEntryTabCheck r) := by unfold Sc.blockEntryTabCheck; mi
theorem MI.rollIfBreakOrFlow : MI rollIfBreakOrFlow := by
  unfold Sc.rollIfBreakOrFlow In.nextIsBreak In.nextIsFlow; mi
macro_rules | `(tactic| mi_close) => `(tactic| first
  | exact MI.anchorIndentCheck _ | exact MI.blockEntryTabCheck _ | exact MI.rollIfBreakOrFlow)
theorem MI.fetchBlockEntryTail : MI fetchBlockEntryTail := by unfold Sc.fetchBlockEntryTail; mi
macro_rules | `(tactic| mi_close) => `(tactic| exact MI.fetchBlockEntryTail)
theorem MI.fetchBlockEntryBody (s : Sc) : MI (fetchBlockEntryBody s) := by unfold Sc.fetchBlockEntryBody; mi
macro_rules | `(tactic| mi_close) => `(tactic| exact MI.fetchBlockEntryBody _)
theorem MI.fetchBlockEntry : MI fetchBlockEntry := by unfold Sc.fetchBlockEntry; mi
theorem MI.fetchDocumentIndicator (t : TokenType) : MI (fetchDocumentIndicator t) := by
  unfold Sc.fetchDocumentIndicator; mi
macro_rules | `(tactic| mi_close) => `(tactic| first
  | exact MI.fetchStreamStart | exact MI.fetchStreamEnd | exact MI.fetchDirective | exact MI.fetchTag
  | exact MI.fetchAnchor _ | exact MI.fetchFlowCollectionStart _ | exact MI.fetchFlowCollectionEnd _
  | exact MI.fetchFlowEntry | exact MI.fetchBlockEntry | exact MI.fetchDocumentIndicator _)

theorem MI.scanBlockScalar (lit : Bool) : MI (scanBlockScalar lit) := by unfold Sc.scanBlockScalar; mi
macro_rules | `(tactic| mi_close) => `(tactic| exact MI.scanBlockScalar _)
theorem MI.fetchBlockScalar (lit : Bool) : MI (fetchBlockScalar lit) := by unfold Sc.fetchBlockScalar; mi
theorem MI.fetchFlowScalar (single : Bool) : MI (fetchFlowScalar single) := by unfold Sc.fetchFlowScalar; mi
theorem MI.scanPlainScalar : MI scanPlainScalar := by unfold Sc.scanPlainScalar; mi
macro_rules | `(tactic| mi_close) => `(tactic| exact MI.scanPlainScalar)
theorem MI.fetchPlainScalar : MI fetchPlainScalar := by unfold Sc.fetchPlainScalar; mi
theorem MI.keyPrologue (s : Sc) : MI (keyPrologue s) := by unfold Sc.keyPrologue; mi
theorem MI.fetchKeyTail (m : Marker) : MI (fetchKeyTail m) := by unfold Sc.fetchKeyTail; mi
macro_rules | `(tactic| mi_close) => `(tactic| first | exact MI.keyPrologue _ | exact MI.fetchKeyTail _)
theorem MI.fetchKey : MI fetchKey := by unfold Sc.fetchKey; mi
theorem MI.valueAfterSimpleKey (sk m i) : MI (valueAfterSimpleKey sk m i) := by unfold Sc.valueAfterSimpleKey; mi
theorem MI.valueAfterComplexKey (m i) : MI (valueAfterComplexKey m i) := by unfold Sc.valueAfterComplexKey; mi
theorem MI.valueTabCheck : MI valueTabCheck := by unfold Sc.valueTabCheck; mi
macro_rules | `(tactic| mi_close) => `(tactic| first
  | exact MI.valueAfterSimpleKey _ _ _ | exact MI.valueAfterComplexKey _ _ | exact MI.valueTabCheck)
theorem MI.fetchValue : MI fetchValue := by unfold Sc.fetchValue; mi
macro_rules | `(tactic| mi_close) => `(tactic| exact MI.fetchValue)
theorem MI.fetchFlowValue : MI fetchFlowValue := by unfold Sc.fetchFlowValue; mi
theorem MI.fetchDocumentEndMarker : MI fetchDocumentEndMarker := by
  unfold Sc.fetchDocumentEndMarker In.nextIsBreakz; mi
macro_rules | `(tactic| mi_close) => `(tactic| first
  | exact MI.fetchBlockScalar _ | exact MI.fetchFlowScalar _ | exact MI.fetchPlainScalar | exact MI.fetchKey
  | exact MI.fetchFlowValue | exact MI.fetchDocumentEndMarker)
theorem MI.fetchSpecial : MI fetchSpecial := by unfold Sc.fetchSpecial; mi
set_option maxHeartbeats 1000000 in
theorem MI.fetchDispatch : MI fetchDispatch := by unfold Sc.fetchDispatch; mi
macro_rules | `(tactic| mi_close) => `(tactic| first | exact MI.fetchSpecial | exact MI.fetchDispatch)
theorem MI.fetchAfterStart : MI fetchAfterStart := by unfold Sc.fetchAfterStart In.nextIsZ; mi
macro_rules | `(tactic| mi_close) => `(tactic| exact MI.fetchAfterStart)
theorem MI.fetchNextToken : MI fetchNextToken := by unfold Sc.fetchNextToken; mi
theorem MI.needMoreTokens : MI needMoreTokens := by unfold Sc.needMoreTokens; mi
macro_rules | `(tactic| mi_close) => `(tactic| first | exact MI.fetchNextToken | exact MI.needMoreTokens)
theorem MI.fetchMoreTokens (fuel : Nat) : MI (fetchMoreTokens fuel) := by
  induction fuel with
  | zero => unfold Sc.fetchMoreTokens; mi
  | succ n ih => unfold Sc.fetchMoreTokens; mi
macro_rules | `(tactic| mi_close) => `(tactic| exact MI.fetchMoreTokens _)
theorem MI.popToken : MI popToken := by unfold Sc.popToken; mi
macro_rules | `(tactic| mi_close) => `(tactic| exact MI.popToken)
theorem MI.nextToken : MI nextToken := by unfold Sc.nextToken; mi


end SaphyrModel.Sc
