import SaphyrModel.Sc.Scan1
namespace SaphyrModel.Sc
open SaphyrModel

-- block scalars ---------------------------------------------------------------------------------

def readBreak (acc : Str) : S Str := do skipBreak; pure (acc ++ ['\n'])

/-- `skip_block_scalar_indent`; returns the accumulated breaks -/
def skipBlockScalarIndentSpaces (indent : Nat) (guardEmpty : Bool) : Nat → S Unit
  | 0 => panicAt .fuel
  | fuel + 1 => do
    let s ← getS
    if guardEmpty && s.inp.bufIsEmpty then pure ()
    else if s.mark.col < indent then do
      if (← peek) == ' ' then do skipBlank; skipBlockScalarIndentSpaces indent guardEmpty fuel
      else pure ()
    else pure ()

def skipBlockScalarIndentBig (indent : Nat) : Nat → S Unit
  | 0 => panicAt .fuel
  | fuel + 1 => do
    let cap ← bufmaxlen
    lookahead cap
    let s ← getS
    skipBlockScalarIndentSpaces indent true (s.inp.remaining + 2)
    let s ← getS
    if s.mark.col == indent then pure ()
    else if s.inp.bufIsEmpty then skipBlockScalarIndentBig indent fuel
    else if (← peek) != ' ' then pure ()
    else skipBlockScalarIndentBig indent fuel

def skipBlockScalarIndent (indent : Nat) : Nat → Str → S Str
  | 0, _ => panicAt .fuel
  | fuel + 1, breaks => do
    let cap ← bufmaxlen
    let s ← getS
    if indent + 2 < cap then do    -- `indent < bufmaxlen - 2` on usize (bufmaxlen ≥ 2)
      lookahead cap
      skipBlockScalarIndentSpaces indent false (s.inp.remaining + 2)
    else do
      skipBlockScalarIndentBig indent (s.inp.remaining + 2)
      lookahead 2
    if ← liftI In.nextIsBreak then do
      let breaks ← readBreak breaks
      skipBlockScalarIndent indent fuel breaks
    else pure breaks

def skipSpaces : Nat → S Unit
  | 0 => panicAt .fuel
  | fuel + 1 => do
    if (← lookCh) == ' ' then do skipBlank; skipSpaces fuel else pure ()

/-- `skip_block_scalar_first_line_indent`; returns (indent, breaks) -/
def skipBlockScalarFirstLineIndentGo : Nat → Nat → Str → S (Nat × Str)
  | 0, _, _ => panicAt .fuel
  | fuel + 1, maxIndent, breaks => do
    let s ← getS
    skipSpaces (s.inp.remaining + 2)
    let s ← getS
    let maxIndent := if s.mark.col > maxIndent then s.mark.col else maxIndent
    if ← liftI In.nextIsBreak then do
      lookahead 2
      let breaks ← readBreak breaks
      skipBlockScalarFirstLineIndentGo fuel maxIndent breaks
    else pure (maxIndent, breaks)

def skipBlockScalarFirstLineIndent (breaks : Str) : S (Nat × Str) := do
  let s ← getS
  let (maxIndent, breaks) ← skipBlockScalarFirstLineIndentGo (s.inp.remaining + 2) 0 breaks
  let s ← getS
  let ind := max maxIndent (s.indent + 1).toNat
  let ind := if s.indent > 0 then max ind 1 else ind
  pure (ind, breaks)

def contentLineBuffered : Nat → Str → S Str
  | 0, _ => panicAt .fuel
  | fuel + 1, str => do
    let s ← getS
    if s.inp.bufIsEmpty then pure str
    else if ← liftI In.nextIsBreakz then pure str
    else do
      let c ← peek
      skipBlank
      contentLineBuffered fuel (str ++ [c])

def contentLineRaw : Nat → Str → S Str
  | 0, _ => panicAt .fuel
  | fuel + 1, line => do
    match ← liftI In.rawReadNonBreakzCh with
    | some c => contentLineRaw fuel (line ++ [c])
    | none => pure line

def scanBlockScalarContentLine (str : Str) : S Str := do
  let s ← getS
  let str ← contentLineBuffered (s.inp.remaining + 2) str
  let s ← getS
  if s.inp.bufIsEmpty then do
    let line ← contentLineRaw (s.inp.remaining + 2) []
    advance line.length
    pure (str ++ line)
  else pure str

structure BlkAcc where
  str : Str
  leadingBreak : Str
  trailingBreaks : Str
  leadingBlank : Bool

def blockScalarLines (literal : Bool) (indent : Nat) : Nat → BlkAcc → S BlkAcc
  | 0, _ => panicAt .fuel
  | fuel + 1, a => do
    let s ← getS
    if s.mark.col != indent then pure a
    else if ← liftI In.nextIsZ then pure a
    else do
      let stop ← if indent == 0 then do lookahead 4; liftI In.nextIsDocumentIndicator else pure false
      if stop then pure a
      else do
        let trailingBlank ← liftI In.nextIsBlank
        let str :=
          if !literal && !a.leadingBreak.isEmpty && !a.leadingBlank && !trailingBlank then
            if a.trailingBreaks.isEmpty then a.str ++ a.trailingBreaks ++ [' '] else a.str ++ a.trailingBreaks
          else a.str ++ a.leadingBreak ++ a.trailingBreaks
        let leadingBlank ← liftI In.nextIsBlank
        let str ← scanBlockScalarContentLine str
        lookahead 2
        if ← liftI In.nextIsZ then pure ⟨str, [], [], leadingBlank⟩
        else do
          let lb ← readBreak []
          let s ← getS
          let tb ← skipBlockScalarIndent indent (s.inp.remaining + 2) []
          blockScalarLines literal indent fuel ⟨str, lb, tb, leadingBlank⟩

/-- the indentation digit after a chomping indicator (or none): `(chomping, increment)` -/
def blockHeaderDigit (startMark : Marker) (ch : Chomping) : S (Chomping × Nat) := do
  if ← liftI In.nextIsDigit then do
    let d ← peek
    if d == '0' then
      err startMark "while scanning a block scalar, found an indentation indicator equal to 0"
    else do skipNonBlank; pure (ch, d.toNat - '0'.toNat)
  else pure (ch, 0)

/-- the chomping indicator after an indentation digit (or none) -/
def blockHeaderChomp (d : Char) : S (Chomping × Nat) := do
  let c2 ← peek
  if c2 == '+' || c2 == '-' then do
    skipNonBlank
    pure (if c2 == '+' then Chomping.keep else Chomping.strip, d.toNat - '0'.toNat)
  else pure (Chomping.clip, d.toNat - '0'.toNat)

/-- the header of a block scalar: chomping and indentation indicators in either order. `isDigit` is
    what `next_is_digit` answered before the first indicator was looked at. -/
def blockHeader (startMark : Marker) (c : Char) (isDigit : Bool) : S (Chomping × Nat) :=
  if c == '+' || c == '-' then do
    skipNonBlank
    lookahead 1
    blockHeaderDigit startMark (if c == '+' then Chomping.keep else Chomping.strip)
  else if isDigit then do
    let d ← peek
    if d == '0' then
      err startMark "while scanning a block scalar, found an indentation indicator equal to 0"
    else do
      skipNonBlank
      lookahead 1
      blockHeaderChomp d
  else pure (Chomping.clip, 0)

/-- the break that ends the header line (kept for clip/keep chomping of a content-less scalar) -/
def blockChompingBreak : S Str := do
  if ← liftI In.nextIsBreak then do lookahead 2; readBreak [] else pure []

/-- content indentation: the explicit indicator relative to the parent, or that of the first
    non-empty line; returns it together with the leading breaks -/
def blockIndent (increment : Nat) (s : Sc) : S (Nat × Str) :=
  let indent0 : Nat :=
    if increment > 0 then (if s.indent ≥ 0 then (s.indent + increment).toNat else increment) else 0
  if indent0 == 0 then skipBlockScalarFirstLineIndent []
  else do
    let tb ← skipBlockScalarIndent indent0 (s.inp.remaining + 2) []
    pure (indent0, tb)

/-- the value of a block scalar without content lines that ends the stream -/
def blockEmptyContents (chomping : Chomping) (startMark : Marker) (chompingBreak trailingBreaks : Str) (s : Sc) : Str :=
  match chomping with
  | .strip => []
  | _ => if s.mark.line == startMark.line then []
         else match chomping with
           | .clip => chompingBreak
           | _ => if trailingBreaks.isEmpty then chompingBreak else trailingBreaks

/-- a line that is less indented than the content but deeper than the parent is an error — unless it
    is a document marker in the first column, which ends the (empty) scalar -/
def blockMarkerCheck (indent : Nat) (s : Sc) : S Bool :=
  if s.mark.col < indent && (s.mark.col : Int) > s.indent then do
    lookahead 4
    if s.mark.col == 0 then liftI In.nextIsDocumentIndicator else pure false
  else pure true

/-- chomping: what is appended after the last content line -/
def blockFinish (chomping : Chomping) (indent : Nat) (a : BlkAcc) (s : Sc) : S Str :=
  if chomping != .strip then do
    let z ← liftI In.nextIsZ
    let str := if z && s.mark.col ≥ max indent 1 then a.str ++ a.leadingBreak ++ ['\n'] else a.str ++ a.leadingBreak
    pure (if chomping == .keep then str ++ a.trailingBreaks else str)
  else pure (if chomping == .keep then a.str ++ a.trailingBreaks else a.str)

/-- the content lines and the chomped tail, from the first content line on -/
def blockContent (literal : Bool) (chomping : Chomping) (indent : Nat) (trailingBreaks : Str) (s : Sc) : S Token := do
  let marker ← blockMarkerCheck indent s
  if !marker then err s.mark "wrongly indented line in block scalar"
  else do
    let a ← blockScalarLines literal indent (s.inp.remaining + 2) ⟨[], [], trailingBreaks, false⟩
    let s2 ← getS
    let str ← blockFinish chomping indent a s2
    pure ⟨⟨s.mark, s2.mark⟩, .scalar (if literal then ScalarStyle.literal else ScalarStyle.folded) str⟩

/-- after the header line: indentation detection, then either the end of the stream or the content -/
def blockAfterHeader (literal : Bool) (startMark : Marker) (chomping : Chomping) (increment : Nat) (chompingBreak : Str) : S Token := do
  if (← lookCh) == '\t' then err startMark "a block scalar content cannot start with a tab"
  else do
    let s ← getS
    let (indent, trailingBreaks) ← blockIndent increment s
    if ← liftI In.nextIsZ then do
      let s ← getS
      pure ⟨⟨startMark, s.mark⟩, .scalar (if literal then ScalarStyle.literal else ScalarStyle.folded)
        (blockEmptyContents chomping startMark chompingBreak trailingBreaks s)⟩
    else do
      let s ← getS
      blockContent literal chomping indent trailingBreaks s

/-- `scan_block_scalar` after the indicator has been skipped and the non-block indents unrolled:
    header, indentation detection, content lines, chomping (touches only input, mark and flags) -/
def scanBlockScalarBody (literal : Bool) (startMark : Marker) : S Token := do
  let c ← lookCh
  let isDigit ← liftI In.nextIsDigit
  let (chomping, increment) ← blockHeader startMark c isDigit
  let _ ← skipWsToEol .yes
  lookahead 1
  if !(← liftI In.nextIsBreakz) then
    err startMark "while scanning a block scalar, did not find expected comment or line break"
  else do
    let chompingBreak ← blockChompingBreak
    blockAfterHeader literal startMark chomping increment chompingBreak

def scanBlockScalar (literal : Bool) : S Token := do
  let startMark ← getMark
  skipNonBlank
  unrollNonBlockIndents
  scanBlockScalarBody literal startMark

def fetchBlockScalar (literal : Bool) : S Unit := do
  saveSimpleKey
  allowSimpleKey
  let tok ← scanBlockScalar literal
  modS fun s => { s with tokens := s.tokens ++ [tok] }

end SaphyrModel.Sc
