import SaphyrModel.Sc.Scan1
namespace SaphyrModel.Sc
open SaphyrModel

-- block scalars ---------------------------------------------------------------------------------

def readBreak (acc : Str) : S Str := do skipBreak; pure (acc ++ ['\n'])

/-- `skip_block_scalar_indent`; returns the accumulated breaks -/
def skipBlockScalarIndentSpaces (indent : Nat) (guardEmpty : Bool) : Nat → S Unit
  | 0 => panicAt .fuel
  | fuel + 1 => do
    let s ← getS
    if guardEmpty && s.inp.bufIsEmpty then pure ()
    else if s.mark.col < indent then do
      if (← peek) == ' ' then do skipBlank; skipBlockScalarIndentSpaces indent guardEmpty fuel
      else pure ()
    else pure ()

def skipBlockScalarIndentBig (indent : Nat) : Nat → S Unit
  | 0 => panicAt .fuel
  | fuel + 1 => do
    let cap ← bufmaxlen
    lookahead cap
    let s ← getS
    skipBlockScalarIndentSpaces indent true (s.inp.remaining + 2)
    let s ← getS
    if s.mark.col == indent then pure ()
    else if s.inp.bufIsEmpty then skipBlockScalarIndentBig indent fuel
    else if (← peek) != ' ' then pure ()
    else skipBlockScalarIndentBig indent fuel

def skipBlockScalarIndent (indent : Nat) : Nat → Str → S Str
  | 0, _ => panicAt .fuel
  | fuel + 1, breaks => do
    let cap ← bufmaxlen
    let s ← getS
    if indent + 2 < cap then do    -- `indent < bufmaxlen - 2` on usize (bufmaxlen ≥ 2)
      lookahead cap
      skipBlockScalarIndentSpaces indent false (s.inp.remaining + 2)
    else do
      skipBlockScalarIndentBig indent (s.inp.remaining + 2)
      lookahead 2
    if ← liftI In.nextIsBreak then do
      let breaks ← readBreak breaks
      skipBlockScalarIndent indent fuel breaks
    else pure breaks

def skipSpaces : Nat → S Unit
  | 0 => panicAt .fuel
  | fuel + 1 => do
    if (← lookCh) == ' ' then do skipBlank; skipSpaces fuel else pure ()

/-- `skip_block_scalar_first_line_indent`; returns (indent, breaks) -/
def skipBlockScalarFirstLineIndentGo : Nat → Nat → Str → S (Nat × Str)
  | 0, _, _ => panicAt .fuel
  | fuel + 1, maxIndent, breaks => do
    let s ← getS
    skipSpaces (s.inp.remaining + 2)
    let s ← getS
    let maxIndent := if s.mark.col > maxIndent then s.mark.col else maxIndent
    if ← liftI In.nextIsBreak then do
      lookahead 2
      let breaks ← readBreak breaks
      skipBlockScalarFirstLineIndentGo fuel maxIndent breaks
    else pure (maxIndent, breaks)

def skipBlockScalarFirstLineIndent (breaks : Str) : S (Nat × Str) := do
  let s ← getS
  let (maxIndent, breaks) ← skipBlockScalarFirstLineIndentGo (s.inp.remaining + 2) 0 breaks
  let s ← getS
  let ind := max maxIndent (s.indent + 1).toNat
  let ind := if s.indent > 0 then max ind 1 else ind
  pure (ind, breaks)

def contentLineBuffered : Nat → Str → S Str
  | 0, _ => panicAt .fuel
  | fuel + 1, str => do
    let s ← getS
    if s.inp.bufIsEmpty then pure str
    else if ← liftI In.nextIsBreakz then pure str
    else do
      let c ← peek
      skipBlank
      contentLineBuffered fuel (str ++ [c])

def contentLineRaw : Nat → Str → S Str
  | 0, _ => panicAt .fuel
  | fuel + 1, line => do
    match ← liftI In.rawReadNonBreakzCh with
    | some c => contentLineRaw fuel (line ++ [c])
    | none => pure line

def scanBlockScalarContentLine (str : Str) : S Str := do
  let s ← getS
  let str ← contentLineBuffered (s.inp.remaining + 2) str
  let s ← getS
  if s.inp.bufIsEmpty then do
    let line ← contentLineRaw (s.inp.remaining + 2) []
    advance line.length
    pure (str ++ line)
  else pure str

structure BlkAcc where
  str : Str
  leadingBreak : Str
  trailingBreaks : Str
  leadingBlank : Bool

def blockScalarLines (literal : Bool) (indent : Nat) : Nat → BlkAcc → S BlkAcc
  | 0, _ => panicAt .fuel
  | fuel + 1, a => do
    let s ← getS
    if s.mark.col != indent then pure a
    else if ← liftI In.nextIsZ then pure a
    else do
      let stop ← if indent == 0 then do lookahead 4; liftI In.nextIsDocumentIndicator else pure false
      if stop then pure a
      else do
        let trailingBlank ← liftI In.nextIsBlank
        let str :=
          if !literal && !a.leadingBreak.isEmpty && !a.leadingBlank && !trailingBlank then
            if a.trailingBreaks.isEmpty then a.str ++ a.trailingBreaks ++ [' '] else a.str ++ a.trailingBreaks
          else a.str ++ a.leadingBreak ++ a.trailingBreaks
        let leadingBlank ← liftI In.nextIsBlank
        let str ← scanBlockScalarContentLine str
        lookahead 2
        if ← liftI In.nextIsZ then pure ⟨str, [], [], leadingBlank⟩
        else do
          let lb ← readBreak []
          let s ← getS
          let tb ← skipBlockScalarIndent indent (s.inp.remaining + 2) []
          blockScalarLines literal indent fuel ⟨str, lb, tb, leadingBlank⟩

/-- `scan_block_scalar` after the indicator has been skipped and the non-block indents unrolled:
    header, indentation detection, content lines, chomping (touches only input, mark and flags) -/
def scanBlockScalarBody (literal : Bool) (startMark : Marker) : S Token := do
  let style := if literal then ScalarStyle.literal else ScalarStyle.folded
  -- header
  let c ← lookCh
  let (chomping, increment) ←
    if c == '+' || c == '-' then do
      let ch := if c == '+' then Chomping.keep else Chomping.strip
      skipNonBlank
      lookahead 1
      if ← liftI In.nextIsDigit then do
        let d ← peek
        if d == '0' then
          err startMark "while scanning a block scalar, found an indentation indicator equal to 0"
        else do skipNonBlank; pure (ch, d.toNat - '0'.toNat)
      else pure (ch, 0)
    else if ← liftI In.nextIsDigit then do
      let d ← peek
      if d == '0' then
        err startMark "while scanning a block scalar, found an indentation indicator equal to 0"
      else do
        skipNonBlank
        lookahead 1
        let c2 ← peek
        if c2 == '+' || c2 == '-' then do
          skipNonBlank
          pure (if c2 == '+' then Chomping.keep else Chomping.strip, d.toNat - '0'.toNat)
        else pure (Chomping.clip, d.toNat - '0'.toNat)
    else pure (Chomping.clip, 0)
  let _ ← skipWsToEol .yes
  lookahead 1
  if !(← liftI In.nextIsBreakz) then
    err startMark "while scanning a block scalar, did not find expected comment or line break"
  else do
    let chompingBreak ← if ← liftI In.nextIsBreak then do lookahead 2; readBreak [] else pure []
    if (← lookCh) == '\t' then err startMark "a block scalar content cannot start with a tab"
    else do
      let s ← getS
      let indent0 : Nat :=
        if increment > 0 then (if s.indent ≥ 0 then (s.indent + increment).toNat else increment) else 0
      let (indent, trailingBreaks) ←
        if indent0 == 0 then skipBlockScalarFirstLineIndent []
        else do
          let tb ← skipBlockScalarIndent indent0 (s.inp.remaining + 2) []
          pure (indent0, tb)
      if ← liftI In.nextIsZ then do
        let s ← getS
        let contents :=
          match chomping with
          | .strip => []
          | _ => if s.mark.line == startMark.line then []
                 else match chomping with
                   | .clip => chompingBreak
                   | _ => if trailingBreaks.isEmpty then chompingBreak else trailingBreaks
        pure ⟨⟨startMark, s.mark⟩, .scalar style contents⟩
      else do
        let s ← getS
        -- a document marker in the first column ends the (empty) scalar
        let marker ←
          if s.mark.col < indent && (s.mark.col : Int) > s.indent then do
            lookahead 4
            if s.mark.col == 0 then liftI In.nextIsDocumentIndicator else pure false
          else pure true
        if !marker then
          err s.mark "wrongly indented line in block scalar"
        else do
          let startMark2 := s.mark
          let a ← blockScalarLines literal indent (s.inp.remaining + 2) ⟨[], [], trailingBreaks, false⟩
          let s ← getS
          let str := a.str
          let str ←
            if chomping != .strip then do
              let str := str ++ a.leadingBreak
              if (← liftI In.nextIsZ) && s.mark.col ≥ max indent 1 then pure (str ++ ['\n']) else pure str
            else pure str
          let str := if chomping == .keep then str ++ a.trailingBreaks else str
          pure ⟨⟨startMark2, s.mark⟩, .scalar style str⟩

def scanBlockScalar (literal : Bool) : S Token := do
  let startMark ← getMark
  skipNonBlank
  unrollNonBlockIndents
  scanBlockScalarBody literal startMark

def fetchBlockScalar (literal : Bool) : S Unit := do
  saveSimpleKey
  allowSimpleKey
  let tok ← scanBlockScalar literal
  modS fun s => { s with tokens := s.tokens ++ [tok] }

end SaphyrModel.Sc
