import SaphyrModel.Sc.State
namespace SaphyrModel.Sc
open SaphyrModel

-- whitespace ------------------------------------------------------------------------------------

def skipToNextTokenGo : Nat → S Unit
  | 0 => panicAt .fuel
  | fuel + 1 => do
    let c ← lookCh
    let s ← getS
    if c == '\t' && !s.indents.isEmpty && s.leadingWhitespace && (s.mark.col : Int) < s.indent then do
      let _ ← skipWsToEol .yes
      if !(← liftI In.nextIsBreakz) then
        err (← getMark) "tabs disallowed within this context (block indentation)"
      else skipToNextTokenGo fuel
    else if c == '\t' || c == ' ' then do skipBlank; skipToNextTokenGo fuel
    else if c == '\n' || c == '\r' then do
      lookahead 2
      skipLinebreak
      if s.flowLevel == 0 then allowSimpleKey
      skipToNextTokenGo fuel
    else if c == '#' then do
      let n ← liftI In.skipWhileNonBreakz
      advance n
      skipToNextTokenGo fuel
    else pure ()

def skipToNextToken : S Unit := do
  let s ← getS
  skipToNextTokenGo (s.inp.remaining + 2)

def skipYamlWhitespaceGo : Nat → Bool → S Bool
  | 0, _ => panicAt .fuel
  | fuel + 1, need => do
    let c ← lookCh
    if c == ' ' then do skipBlank; skipYamlWhitespaceGo fuel false
    else if c == '\n' || c == '\r' then do
      lookahead 2
      skipLinebreak
      if (← getS).flowLevel == 0 then allowSimpleKey
      skipYamlWhitespaceGo fuel false
    else if c == '#' then do
      let n ← liftI In.skipWhileNonBreakz
      advance n
      skipYamlWhitespaceGo fuel need
    else pure need

def skipYamlWhitespace : S Unit := do
  let s ← getS
  if ← skipYamlWhitespaceGo (s.inp.remaining + 2) true then
    -- the end of the input separates as well as a blank does
    if !(← liftI In.nextIsZ) then err (← getMark) "expected whitespace"

-- stream ----------------------------------------------------------------------------------------

def fetchStreamStart : S Unit := do
  let mark ← getMark
  modS fun s => { s with indent := -1, streamStartProduced := true, simpleKeyAllowed := true }
  pushTok (Span.empty mark) .streamStart
  modS fun s => { s with simpleKeys := (⟨false, false, 0, ⟨0, 0, 0⟩⟩ : SimpleKey) :: s.simpleKeys }

/-- at the end of the stream no key is possible any more -/
def clearPossibleKeys (s : Sc) : Sc :=
  { s with simpleKeys := s.simpleKeys.map fun sk => { sk with possible := false } }

def fetchStreamEnd : S Unit := do
  modS fun s => if s.mark.col != 0 then { s with mark := ⟨s.mark.index, s.mark.line + 1, 0⟩ } else s
  let s ← getS
  (if s.simpleKeys.any (fun sk => sk.required && sk.possible) then err s.mark "simple key expected" else pure ())
  modS clearPossibleKeys
  unrollIndent (-1)
  removeSimpleKey
  disallowSimpleKey
  pushTok (Span.empty (← getMark)) .streamEnd

-- directives ------------------------------------------------------------------------------------

def scanDirectiveName : S Str := do
  let startMark ← getMark
  let (n, str) ← liftI (In.fetchWhileIsAlpha [])
  advance n
  if str.isEmpty then
    err startMark "while scanning a directive, could not find expected directive name"
  else if !isBlankOrBreakz (← peek) then
    err startMark "while scanning a directive, found unexpected non-alphabetical character"
  else pure str

def scanVersionNumberGo (mark : Marker) : Nat → Nat → Nat → S (Nat × Nat)
  | 0, _, _ => panicAt .fuel
  | fuel + 1, val, len => do
    let c ← lookCh
    if isDigit c then
      if len + 1 > 9 then err mark "while scanning a YAML directive, found extremely long version number"
      else do skipNonBlank; scanVersionNumberGo mark fuel (val * 10 + (c.toNat - '0'.toNat)) (len + 1)
    else pure (val, len)

def scanVersionDirectiveNumber (mark : Marker) : S Nat := do
  let (v, len) ← scanVersionNumberGo mark 12 0 0
  if len == 0 then err mark "while scanning a YAML directive, did not find expected version number"
  else pure v

def scanVersionDirectiveValue (mark : Marker) : S Token := do
  let n ← liftI In.skipWhileBlank
  advance n
  let major ← scanVersionDirectiveNumber mark
  if (← peek) != '.' then
    err mark "while scanning a YAML directive, did not find expected digit or '.' character"
  else do
    skipNonBlank
    let minor ← scanVersionDirectiveNumber mark
    pure ⟨⟨mark, ← getMark⟩, .versionDirective major minor⟩

def scanTagHandle (directive : Bool) (mark : Marker) : S Str := do
  if (← lookCh) != '!' then err mark "while scanning a tag, did not find expected '!'"
  else do
    skipNonBlank
    let (n, str) ← liftI (In.fetchWhileIsAlpha ['!'])
    advance n
    if (← peek) == '!' then do skipNonBlank; pure (str ++ ['!'])
    else if directive && str != ['!'] then
      err mark "while parsing a tag directive, did not find expected '!'"
    else pure str

def scanUriEscapesGo (mark : Marker) : Nat → Nat → Nat → S Char
  | 0, _, _ => panicAt .fuel
  | fuel + 1, width, code => do
    lookahead 3
    let c ← peekNth 1
    let nc ← peekNth 2
    if !((← peek) == '%' && isHex c && isHex nc) then
      err mark "while parsing a tag, found an invalid escape sequence"
    else do
      let byte := asHex c * 16 + asHex nc
      let step (width code : Nat) : S Char := do
        skipNNonBlank 3
        if width - 1 == 0 then
          match (if h : code.isValidChar then some (Char.ofNatAux code h) else none) with
          | some ch => pure ch
          | none => err mark "while parsing a tag, found an invalid UTF-8 codepoint"
        else scanUriEscapesGo mark fuel (width - 1) code
      if width == 0 then
        if byte &&& 0x80 == 0 then step 1 byte
        else if byte &&& 0xE0 == 0xC0 then step 2 (byte &&& 0x1F)
        else if byte &&& 0xF0 == 0xE0 then step 3 (byte &&& 0x0F)
        else if byte &&& 0xF8 == 0xF0 then step 4 (byte &&& 0x07)
        else err mark "while parsing a tag, found an incorrect leading UTF-8 byte"
      else if byte &&& 0xC0 != 0x80 then
        err mark "while parsing a tag, found an incorrect trailing UTF-8 byte"
      else step width ((code <<< 6) + (byte &&& 0x3F))

def scanUriEscapes (mark : Marker) : S Char := scanUriEscapesGo mark 5 0 0

/-- `while is_X(look_ch) { if '%' escape else push; }` shared by prefix / verbatim / suffix -/
def scanUriLoop (p : Char → Bool) (mark : Marker) : Nat → Str → Nat → S (Str × Nat)
  | 0, _, _ => panicAt .fuel
  | fuel + 1, str, n => do
    let c ← lookCh
    if p c then
      if c == '%' then do
        let ch ← scanUriEscapes mark
        scanUriLoop p mark fuel (str ++ [ch]) (n + 1)
      else do
        skipNonBlank
        scanUriLoop p mark fuel (str ++ [c]) (n + 1)
    else pure (str, n)

def scanTagPrefix (startMark : Marker) : S Str := do
  let c ← lookCh
  let first ←
    if c == '!' then do skipNonBlank; pure ['!']
    else if !isTagChar c then err startMark "invalid global tag character"
    else if c == '%' then do let ch ← scanUriEscapes startMark; pure [ch]
    else do skipNonBlank; pure [c]
  let s ← getS
  let (str, _) ← scanUriLoop isUriChar startMark (s.inp.remaining + 2) first 0
  pure str

def scanTagDirectiveValue (mark : Marker) : S Token := do
  let n ← liftI In.skipWhileBlank
  advance n
  let handle ← scanTagHandle true mark
  let n ← liftI In.skipWhileBlank
  advance n
  let pfx ← scanTagPrefix mark
  lookahead 1
  if ← liftI In.nextIsBlankOrBreakz then pure ⟨⟨mark, ← getMark⟩, .tagDirective handle pfx⟩
  else err mark "while scanning TAG, did not find expected whitespace or line break"

def scanDirective : S Token := do
  let startMark ← getMark
  skipNonBlank
  let name ← scanDirectiveName
  let tok ←
    if name == "YAML".toList then scanVersionDirectiveValue startMark
    else if name == "TAG".toList then scanTagDirectiveValue startMark
    else do
      let n ← liftI In.skipWhileNonBreakz
      advance n
      pure ⟨⟨startMark, ← getMark⟩, .tagDirective [] []⟩
  let _ ← skipWsToEol .yes
  if ← liftI In.nextIsBreakz then do
    lookahead 2
    skipLinebreak
    pure tok
  else err startMark "while scanning a directive, did not find expected comment or line break"

def fetchDirective : S Unit := do
  unrollIndent (-1)
  removeSimpleKey
  disallowSimpleKey
  let tok ← scanDirective
  modS fun s => { s with tokens := s.tokens ++ [tok] }

-- tags, anchors ---------------------------------------------------------------------------------

def scanVerbatimTag (startMark : Marker) : S Str := do
  skipNonBlank
  skipNonBlank
  let s ← getS
  let (str, _) ← scanUriLoop isUriChar startMark (s.inp.remaining + 2) [] 0
  if (← peek) != '>' then err startMark "while scanning a verbatim tag, did not find the expected '>'"
  else do skipNonBlank; pure str

def scanTagShorthandSuffix (head : Str) (mark : Marker) : S Str := do
  let init := if head.length > 1 then head.drop 1 else []
  let s ← getS
  let (str, n) ← scanUriLoop isTagChar mark (s.inp.remaining + 2) init 0
  if head.length + n == 0 then err mark "while parsing a tag, did not find expected tag URI"
  else pure str

def scanTag : S Token := do
  let startMark ← getMark
  lookahead 2
  let (handle, suffix) ←
    if ← liftI (In.nthCharIs 1 '<') then do
      let sfx ← scanVerbatimTag startMark
      pure (([] : Str), sfx)
    else do
      let handle ← scanTagHandle false startMark
      if handle.length ≥ 2 && handle.head? == some '!' && handle.getLast? == some '!' then do
        let sfx ← scanTagShorthandSuffix [] startMark
        pure (handle, sfx)
      else do
        let sfx ← scanTagShorthandSuffix handle startMark
        if sfx.isEmpty then pure (([] : Str), ['!']) else pure (['!'], sfx)
  let c ← lookCh
  let s ← getS
  let flowOk ← if s.flowLevel > 0 then liftI In.nextIsFlow else pure false
  if isBlankOrBreakz c || flowOk then pure ⟨⟨startMark, ← getMark⟩, .tag handle suffix⟩
  else err startMark "while scanning a tag, did not find expected whitespace or line break"

def fetchTag : S Unit := do
  saveSimpleKey
  disallowSimpleKey
  let tok ← scanTag
  modS fun s => { s with tokens := s.tokens ++ [tok] }

def scanAnchorGo : Nat → Str → S Str
  | 0, _ => panicAt .fuel
  | fuel + 1, str => do
    let c ← lookCh
    if isAnchorChar c then do skipNonBlank; scanAnchorGo fuel (str ++ [c]) else pure str

def scanAnchor (alias : Bool) : S Token := do
  let startMark ← getMark
  skipNonBlank
  let s ← getS
  let str ← scanAnchorGo (s.inp.remaining + 2) []
  if str.isEmpty then
    err startMark "while scanning an anchor or alias, did not find expected alphabetic or numeric character"
  else pure ⟨⟨startMark, ← getMark⟩, if alias then .alias str else .anchor str⟩

def fetchAnchor (alias : Bool) : S Unit := do
  saveSimpleKey
  disallowSimpleKey
  let tok ← scanAnchor alias
  modS fun s => { s with tokens := s.tokens ++ [tok] }

-- flow collections, block entry, document indicators ---------------------------------------------

def pushImplState (st : ImplState) (s : Sc) : Sc := { s with implStates := st :: s.implStates }

def fetchFlowCollectionStart (tok : TokenType) : S Unit := do
  saveSimpleKey
  rollOneColIndent
  increaseFlowLevel
  allowSimpleKey
  let startMark ← getMark
  skipNonBlank
  modS (pushImplState (if tok == .flowMappingStart then .explicitMapping else .possible))
  let _ ← skipWsToEol .yes
  pushTok ⟨startMark, ← getMark⟩ tok

/-- `}`: leave the explicit-mapping entry of the state stack (if it is on top) -/
def popExplicitMapping (s : Sc) : Sc :=
  match s.implStates with
  | .explicitMapping :: r => { s with implStates := r }
  | _ => s

/-- the state-stack part of a closing bracket: `]` ends a pending implicit mapping and leaves the
    sequence level; `}` leaves the explicit-mapping level -/
def closeFlowState (tok : TokenType) : S Unit :=
  if tok == .flowSequenceEnd then do
    let m ← getMark
    endImplicitMapping m
    modS fun s => { s with implStates := s.implStates.tail }
  else modS popExplicitMapping

def fetchFlowCollectionEnd (tok : TokenType) : S Unit := do
  removeSimpleKey
  decreaseFlowLevel
  disallowSimpleKey
  closeFlowState tok
  let startMark ← getMark
  skipNonBlank
  let _ ← skipWsToEol .yes
  modS fun s => if s.flowLevel > 0 then { s with adjacentValueAllowedAt := s.mark.index } else s
  pushTok ⟨startMark, ← getMark⟩ tok

def fetchFlowEntry : S Unit := do
  removeSimpleKey
  allowSimpleKey
  endImplicitMapping (← getMark)
  let startMark ← getMark
  skipNonBlank
  let _ ← skipWsToEol .yes
  pushTok ⟨startMark, ← getMark⟩ .flowEntry

/-- "???, fixes test G9HC": an anchor or tag in column 0 directly before a `-` in column 0 -/
def anchorIndentCheck (s : Sc) : S Unit :=
  match s.tokens.getLast? with
  | some ⟨span, .anchor _⟩ | some ⟨span, .tag _ _⟩ =>
    if s.mark.col == 0 && span.start.col == 0 && s.indent > -1 then
      err span.start "invalid indentation for anchor"
    else pure ()
  | _ => pure ()

/-- after `-` and tabs: a second `-` followed by a blank -/
def blockEntryTabCheck (r : SkipTabs) : S Bool := do
  if r.foundTabs then
    if ← liftI (In.nextCharIs '-') then do
      let nc ← peekNth 1
      pure (isBlankOrBreakz nc)
    else pure false
  else pure false

/-- `- ` directly followed by a break or a flow indicator opens a one-column indent -/
def rollIfBreakOrFlow : S Unit := do
  if ← liftI In.nextIsBreak then rollOneColIndent
  else if ← liftI In.nextIsFlow then rollOneColIndent
  else pure ()

def fetchBlockEntryTail : S Unit := do
  let _ ← skipWsToEol .no
  lookahead 1
  rollIfBreakOrFlow
  removeSimpleKey
  allowSimpleKey
  let m ← getMark
  pushTok (Span.empty m) .blockEntry

def fetchBlockEntryBody (s : Sc) : S Unit := do
  anchorIndentCheck s
  skipNonBlank
  rollIndent s.mark.col none .blockSequenceStart s.mark
  let r ← skipWsToEol .yes
  lookahead 2
  let bad ← blockEntryTabCheck r
  if bad then do
    let m ← getMark
    err m "'-' must be followed by a valid YAML whitespace"
  else fetchBlockEntryTail

def fetchBlockEntry : S Unit := do
  let s ← getS
  if s.flowLevel > 0 then err s.mark "\"-\" is only valid inside a block"
  else if !s.simpleKeyAllowed then err s.mark "block sequence entries are not allowed in this context"
  else fetchBlockEntryBody s

def fetchDocumentIndicator (t : TokenType) : S Unit := do
  unrollIndent (-1)
  removeSimpleKey
  disallowSimpleKey
  let mark ← getMark
  skipNNonBlank 3
  pushTok ⟨mark, ← getMark⟩ t

end SaphyrModel.Sc
