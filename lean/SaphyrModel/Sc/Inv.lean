import SaphyrModel.Sc.Frame
namespace SaphyrModel.Sc
open SaphyrModel

def WFInd : Int → List Indent → Prop
  | i, [] => i = -1
  | i, x :: xs => x.indent < i ∧ WFInd x.indent xs

theorem WFInd_ge : ∀ (l : List Indent) (i : Int), WFInd i l → -1 ≤ i := by
  intro l; induction l with
  | nil => intro i h; simp [WFInd] at h; omega
  | cons x xs ih => intro i h; simp [WFInd] at h; have := ih _ h.2; omega

structure Inv (s : Sc) : Prop where
  ind : WFInd s.indent s.indents
  keys : s.streamStartProduced = true → s.simpleKeys.length = s.flowLevel + 1
  nums : ∀ sk ∈ s.simpleKeys, sk.possible = true →
    s.tokensParsed ≤ sk.tokenNumber ∧ sk.tokenNumber ≤ s.tokensParsed + s.tokens.length

theorem Inv.frame {s s' : Sc} (h : Inv s) (f : Frame s s') : Inv s' := by
  obtain ⟨extra, he⟩ := f.toks
  refine ⟨by rw [f.indent, f.indents]; exact h.ind, ?_, ?_⟩
  · rw [f.started, f.keys, f.flow]; exact h.keys
  · intro sk hsk hp
    rw [f.keys] at hsk
    have := h.nums sk hsk hp
    rw [f.parsed, he, List.length_append]; omega

/-- `m` preserves the structural invariant and never hits a structural panic site -/
structure Pres (m : S α) : Prop where
  out : ∀ s, Inv s → match m s with
    | .ok (_, s') => Inv s'
    | .err _ => True
    | .panic p => ¬ StructSite p

theorem Frames.pres {m : S α} (h : Frames m) : Pres m := by
  constructor
  intro s hs
  have := h.out s
  cases hm : m s with
  | ok r => obtain ⟨a, s'⟩ := r; simp only [hm] at this ⊢; exact hs.frame this
  | err e => trivial
  | panic p => simp only [hm] at this ⊢; exact this

theorem Pres.bind {m : S α} {f : α → S β} (h1 : Pres m) (h2 : ∀ a, Pres (f a)) : Pres (m >>= f) := by
  constructor
  intro s hs
  have := h1.out s hs
  simp only [Bind.bind]
  cases hm : m s with
  | ok r =>
    obtain ⟨a, s'⟩ := r
    simp only [hm] at this ⊢
    exact (h2 a).out s' this
  | err e => trivial
  | panic p => simp only [hm] at this ⊢; exact this

theorem Pres.ite {c : Prop} [Decidable c] {a b : S α} (ha : Pres a) (hb : Pres b) :
    Pres (if c then a else b) := by split <;> assumption
theorem Pres.pure (a : α) : Pres (Pure.pure a : S α) := (Frames.pure a).pres

-- TODO (build phase): structural functions (unrollIndent, rollIndent, saveSimpleKey, fetchValue, …) via
-- Hoare triples `Tr P m Q` with `Tr.getS_bind`, as in the first probe (DESIGN §5.1); direct unfolding of the
-- monadic code is unreadable because the goal itself is a `match` on the result.

end SaphyrModel.Sc
