import SaphyrModel.Sc.NT.Base2
set_option linter.unusedSimpArgs false
namespace SaphyrModel.Sc
open SaphyrModel

theorem NT.plainChunk  (fuel : Nat) : ∀ str, NT (plainChunk  fuel str) := by
  induction fuel with
  | zero => intro str; unfold Sc.plainChunk; nt
  | succ n ih => intro str; unfold Sc.plainChunk; nt
macro_rules | `(tactic| nt_close) => `(tactic| exact NT.plainChunk _ _)
theorem NT.plainChunks  (fuel : Nat) : ∀ str, NT (plainChunks  fuel str) := by
  induction fuel with
  | zero => intro str; unfold Sc.plainChunks; nt
  | succ n ih => intro str; unfold Sc.plainChunks; nt
macro_rules | `(tactic| nt_close) => `(tactic| exact NT.plainChunks _ _)
theorem NT.plainBlanks (indent : Int) (m : Marker) (fuel : Nat) : ∀ a, NT (plainBlanks indent m fuel a) := by
  induction fuel with
  | zero => intro a; unfold Sc.plainBlanks; nt
  | succ n ih => intro a; unfold Sc.plainBlanks; nt
macro_rules | `(tactic| nt_close) => `(tactic| exact NT.plainBlanks _ _ _ _)
set_option maxHeartbeats 4000000 in
theorem NT.plainLoop (indent : Int) (m : Marker) (fuel : Nat) : ∀ a, NT (plainLoop indent m fuel a) := by
  induction fuel with
  | zero => intro a; unfold Sc.plainLoop; nt
  | succ n ih => intro a; unfold Sc.plainLoop; nt
macro_rules | `(tactic| nt_close) => `(tactic| exact NT.plainLoop _ _ _ _)

set_option maxHeartbeats 4000000 in
theorem NT.scanPlainScalarBody : NT scanPlainScalarBody := by unfold Sc.scanPlainScalarBody; nt
macro_rules | `(tactic| nt_close) => `(tactic| exact NT.scanPlainScalarBody)

end SaphyrModel.Sc
