import SaphyrModel.Sc.NT.Dir
import SaphyrModel.Sc.NT.Block
import SaphyrModel.Sc.NT.Flow
import SaphyrModel.Sc.NT.Plain
import SaphyrModel.Sc.MI.TokSpan
/-! C12: every token the scanner queues has a span that starts no later than it ends — every input, every back-end.
`TPL lo m`: started with the index at least `lo` and an ordered queue, `m` leaves an ordered queue. -/
set_option linter.unusedSimpArgs false
namespace SaphyrModel.Sc
open SaphyrModel

def TokOk (t : Token) : Prop := t.span.start.index ≤ t.span.stop.index
def TokOrd (l : List Token) : Prop := ∀ t ∈ l, TokOk t

theorem TokOrd.append {a b : List Token} (ha : TokOrd a) (hb : TokOrd b) : TokOrd (a ++ b) := by
  intro t ht
  rcases List.mem_append.mp ht with h | h
  · exact ha t h
  · exact hb t h
theorem TokOrd.single {t : Token} (h : TokOk t) : TokOrd [t] := by
  intro x hx; simp at hx; subst hx; exact h
theorem TokOrd.take {l : List Token} (h : TokOrd l) (n : Nat) : TokOrd (l.take n) :=
  fun t ht => h t (List.mem_of_mem_take ht)
theorem TokOrd.drop {l : List Token} (h : TokOrd l) (n : Nat) : TokOrd (l.drop n) :=
  fun t ht => h t (List.mem_of_mem_drop ht)
theorem TokOk.empty (m : Marker) (ty : TokenType) : TokOk ⟨Span.empty m, ty⟩ := Nat.le_refl _

structure TPL (lo : Nat) (m : S α) : Prop where
  out : ∀ s a s', lo ≤ s.mark.index → TokOrd s.tokens → m s = .ok (a, s') → TokOrd s'.tokens

theorem TPL.ofNT {lo : Nat} {m : S α} (h : NT m) : TPL lo m :=
  ⟨fun s a s' _ ho hh => by rw [h.out s a s' hh]; exact ho⟩
theorem TPL.pure {lo : Nat} (a : α) : TPL lo (Pure.pure a : S α) := ⟨fun s b s' _ ho hh => by cases hh; exact ho⟩
theorem TPL.err {lo : Nat} (m : Marker) (msg : String) : TPL lo (err m msg : S α) := ⟨fun s b s' _ _ hh => by cases hh⟩
theorem TPL.panicAt {lo : Nat} (p : Site) : TPL lo (panicAt p : S α) := ⟨fun s b s' _ _ hh => by cases hh⟩
theorem TPL.bind {lo : Nat} {m : S α} {f : α → S β} (hmi : MI m) (h1 : TPL lo m) (h2 : ∀ a, TPL lo (f a)) : TPL lo (m >>= f) := by
  constructor
  intro s b s' hlo ho h
  simp only [Bind.bind] at h
  cases hm : m s with
  | ok r =>
    obtain ⟨a, s1⟩ := r
    simp only [hm] at h
    exact (h2 a).out s1 b s' (Nat.le_trans hlo (hmi.out s a s1 hm)) (h1.out s a s1 hlo ho hm) h
  | err e => simp [hm] at h
  | panic p => simp [hm] at h
theorem TPL.ite {lo : Nat} {c : Prop} [Decidable c] {a b : S α} (ha : TPL lo a) (hb : TPL lo b) : TPL lo (if c then a else b) := by
  split <;> assumption
theorem TPL.getMark_bind {lo : Nat} {f : Marker → S β} (h : ∀ sm : Marker, lo ≤ sm.index → TPL sm.index (f sm)) :
    TPL lo (getMark >>= f) := by
  constructor
  intro s b s' hlo ho hh
  exact (h s.mark hlo).out s b s' (Nat.le_refl _) ho (by simpa [Bind.bind, getMark] using hh)
theorem TPL.getS_bind {lo : Nat} {f : Sc → S β} (h : ∀ s0 : Sc, lo ≤ s0.mark.index → TPL s0.mark.index (f s0)) :
    TPL lo (getS >>= f) := by
  constructor
  intro s b s' hlo ho hh
  exact (h s hlo).out s b s' (Nat.le_refl _) ho (by simpa [Bind.bind, getS] using hh)
theorem TPL.pushTok {lo : Nat} (sp : Span) (t : TokenType) (h : sp.start.index ≤ sp.stop.index) : TPL lo (pushTok sp t) :=
  ⟨fun s b s' _ ho hh => by
    simp only [Sc.pushTok, modS] at hh; cases hh
    exact ho.append (TokOrd.single h)⟩
theorem TPL.appendTok {lo : Nat} (tok : Token) (h : TokOk tok) (g : Sc → Sc) (hg : ∀ s, (g s).tokens = s.tokens ++ [tok]) :
    TPL lo (modS g) :=
  ⟨fun s b s' _ ho hh => by
    simp only [modS] at hh; cases hh
    rw [hg s]; exact ho.append (TokOrd.single h)⟩
theorem TPL.insertToken {lo : Nat} (pos : Nat) (tok : Token) (h : TokOk tok) : TPL lo (insertToken pos tok) :=
  ⟨fun s b s' _ ho hh => by
    unfold Sc.insertToken at hh
    by_cases hp : pos ≤ s.tokens.length
    · rw [if_pos hp] at hh; cases hh
      exact ((ho.take pos).append (TokOrd.single h)).append (ho.drop pos)
    · rw [if_neg hp] at hh; cases hh⟩
theorem TPL.modS {lo : Nat} (f : Sc → Sc) (h : ∀ s, (f s).tokens = s.tokens) : TPL lo (Sc.modS f) :=
  TPL.ofNT (NT.modS f h)
/-- a scanner that returns a token and leaves the queue alone, followed by something that may use the token -/
theorem TPL.bindTok {lo : Nat} {m : S Token} {f : Token → S β} (hmi : MI m) (hnt : NT m) (hts : TS lo m)
    (h2 : ∀ tok, TokOk tok → TPL lo (f tok)) : TPL lo (m >>= f) := by
  constructor
  intro s b s' hlo ho h
  simp only [Bind.bind] at h
  cases hm : m s with
  | ok r =>
    obtain ⟨tok, s1⟩ := r
    simp only [hm] at h
    refine (h2 tok (hts.out s tok s1 hlo hm)).out s1 b s' (Nat.le_trans hlo (hmi.out s tok s1 hm)) ?_ h
    rw [hnt.out s tok s1 hm]; exact ho
  | err e => simp [hm] at h
  | panic p => simp [hm] at h

theorem TS.bindTok {lo : Nat} {m : S Token} {f : Token → S Token} (hmi : MI m) (hts : TS lo m)
    (h2 : ∀ tok, TokOk tok → TS lo (f tok)) : TS lo (m >>= f) := by
  constructor
  intro s tok s' hlo h
  simp only [Bind.bind] at h
  cases hm : m s with
  | ok r =>
    obtain ⟨t1, s1⟩ := r
    simp only [hm] at h
    exact (h2 t1 (hts.out s t1 s1 hlo hm)).out s1 tok s' (Nat.le_trans hlo (hmi.out s t1 s1 hm)) h
  | err e => simp [hm] at h
  | panic p => simp [hm] at h

macro "ts" : tactic => `(tactic|
  repeat' (first
    | exact TS.err _ _
    | (guard_target = MI _; mi)
    | (guard_target = TS _ (Pure.pure _); first | exact TS.pure _ (by assumption) | (apply TS.pure; dsimp only; omega))
    | (guard_target = TS _ (getMark >>= _); apply TS.getMark_bind)
    | (guard_target = TS _ (getS >>= _); apply TS.getS_bind)
    | (guard_target = TS _ (_ >>= _); apply TS.bindMI)
    | (guard_target = TS _ (ite _ _ _); apply TS.ite)
    | intro _
    | split
    | dsimp only))

theorem TS.scanVersionDirectiveValue (mark : Marker) (lo : Nat) (h : mark.index ≤ lo) : TS lo (scanVersionDirectiveValue mark) := by
  unfold Sc.scanVersionDirectiveValue; ts
theorem TS.scanTagDirectiveValue (mark : Marker) (lo : Nat) (h : mark.index ≤ lo) : TS lo (scanTagDirectiveValue mark) := by
  unfold Sc.scanTagDirectiveValue In.nextIsBlankOrBreakz; ts
theorem TS.scanDirective (lo : Nat) : TS lo scanDirective := by
  unfold Sc.scanDirective In.nextIsBreakz
  apply TS.getMark_bind; intro sm hsm
  apply TS.bindMI MI.skipNonBlank; intro _
  apply TS.bindMI MI.scanDirectiveName; intro name
  dsimp only
  split
  · apply TS.bindTok (by mi) (TS.scanVersionDirectiveValue sm _ (Nat.le_refl _))
    intro tok htok; ts
  · split
    · apply TS.bindTok (by mi) (TS.scanTagDirectiveValue sm _ (Nat.le_refl _))
      intro tok htok; ts
    · apply TS.bindMI (MI.liftI _); intro n
      apply TS.bindMI (MI.advance _); intro _
      apply TS.getMark_bind; intro em hem
      apply TS.bindTok (MI.pure _) (TS.pure _ (by dsimp only; omega))
      intro tok htok; ts

theorem TS.scanTag (lo : Nat) : TS lo scanTag := by
  unfold Sc.scanTag In.nextIsFlow
  apply TS.getMark_bind; intro sm hsm
  apply TS.bindMI (MI.lookahead _); intro _
  apply TS.bindMI
  · mi
  · intro p
    ts

-- plain scalars: the end mark travels in the accumulator ---------------------------------------------------------

structure EM (lo : Nat) (m : S PlAcc) : Prop where
  out : ∀ s a s', lo ≤ s.mark.index → m s = .ok (a, s') → lo ≤ a.endMark.index

theorem EM.bindMI {lo : Nat} {m : S α} {f : α → S PlAcc} (h1 : MI m) (h2 : ∀ a, EM lo (f a)) : EM lo (m >>= f) := by
  constructor
  intro s a s' hlo h
  simp only [Bind.bind] at h
  cases hm : m s with
  | ok r =>
    obtain ⟨x, s1⟩ := r
    simp only [hm] at h
    exact (h2 x).out s1 a s' (Nat.le_trans hlo (h1.out s x s1 hm)) h
  | err e => simp [hm] at h
  | panic p => simp [hm] at h
theorem EM.bindAcc {lo : Nat} {m : S PlAcc} {f : PlAcc → S PlAcc} (hmi : MI m) (h1 : EM lo m)
    (h2 : ∀ a, lo ≤ a.endMark.index → EM lo (f a)) : EM lo (m >>= f) := by
  constructor
  intro s a s' hlo h
  simp only [Bind.bind] at h
  cases hm : m s with
  | ok r =>
    obtain ⟨x, s1⟩ := r
    simp only [hm] at h
    exact (h2 x (h1.out s x s1 hlo hm)).out s1 a s' (Nat.le_trans hlo (hmi.out s x s1 hm)) h
  | err e => simp [hm] at h
  | panic p => simp [hm] at h
theorem EM.getMark_bind {lo : Nat} {f : Marker → S PlAcc} (h : ∀ sm : Marker, lo ≤ sm.index → EM lo (f sm)) :
    EM lo (getMark >>= f) := by
  constructor
  intro s a s' hlo hh
  exact (h s.mark hlo).out s a s' hlo (by simpa [Bind.bind, getMark] using hh)
theorem EM.getS_bind {lo : Nat} {f : Sc → S PlAcc} (h : ∀ s0 : Sc, lo ≤ s0.mark.index → EM lo (f s0)) :
    EM lo (getS >>= f) := by
  constructor
  intro s a s' hlo hh
  exact (h s hlo).out s a s' hlo (by simpa [Bind.bind, getS] using hh)
theorem EM.ite {lo : Nat} {c : Prop} [Decidable c] {a b : S PlAcc} (ha : EM lo a) (hb : EM lo b) : EM lo (if c then a else b) := by
  split <;> assumption
theorem EM.err {lo : Nat} (m : Marker) (msg : String) : EM lo (err m msg : S PlAcc) := ⟨fun s a s' _ h => by cases h⟩
theorem EM.panicAt {lo : Nat} (p : Site) : EM lo (panicAt p : S PlAcc) := ⟨fun s a s' _ h => by cases h⟩
theorem EM.pure {lo : Nat} (a : PlAcc) (h : lo ≤ a.endMark.index) : EM lo (Pure.pure a : S PlAcc) :=
  ⟨fun s b s' _ hh => by cases hh; exact h⟩

theorem EM.pure_bind {lo : Nat} {x : α} {f : α → S PlAcc} (h : EM lo (f x)) : EM lo (Pure.pure x >>= f) :=
  ⟨fun s a s' hlo hh => h.out s a s' hlo (by simpa [Bind.bind, Pure.pure] using hh)⟩

macro "em" : tactic => `(tactic|
  repeat' (first
    | exact EM.err _ _
    | exact EM.panicAt _
    | (guard_target = MI _; mi)
    | (guard_target = EM _ (Pure.pure _); apply EM.pure; dsimp only; omega)
    | (guard_target = EM _ (getMark >>= _); apply EM.getMark_bind)
    | (guard_target = EM _ (getS >>= _); apply EM.getS_bind)
    | (guard_target = EM _ (_ >>= _); apply EM.bindMI)
    | (guard_target = EM _ (ite _ _ _); apply EM.ite)
    | intro _
    | split
    | dsimp only))

theorem EM.plainBlanks (indent : Int) (sm : Marker) (lo : Nat) : ∀ fuel a, lo ≤ a.endMark.index → EM lo (plainBlanks indent sm fuel a) := by
  intro fuel
  induction fuel with
  | zero => intro a _; unfold Sc.plainBlanks; em
  | succ n ih =>
    intro a ha
    unfold Sc.plainBlanks In.nextIsBlankOrBreak In.nextIsBlank In.nextIsBreakz
    em
    all_goals first | (apply ih; first | assumption | (dsimp only; omega)) | (apply EM.pure; first | assumption | (dsimp only; omega))

set_option maxHeartbeats 1000000 in
theorem EM.plainLoop (indent : Int) (sm : Marker) (lo : Nat) : ∀ fuel a, lo ≤ a.endMark.index → EM lo (plainLoop indent sm fuel a) := by
  intro fuel
  induction fuel with
  | zero => intro a _; unfold Sc.plainLoop; em
  | succ n ih =>
    intro a ha
    unfold Sc.plainLoop In.nextIsBlankOrBreakz In.nextIsBlank In.nextIsBreak
    repeat' (first
      | exact EM.err _ _
      | (guard_target = MI _; mi)
      | (apply ih; first | assumption | (dsimp only; omega))
      | (guard_target = EM _ (Pure.pure _); apply EM.pure; first | assumption | (dsimp only; omega))
      | (guard_target = EM _ (Pure.pure _ >>= _); apply EM.pure_bind)
      | (guard_target = EM _ (Sc.plainBlanks _ _ _ _ >>= _);
         apply EM.bindAcc (by mi) (EM.plainBlanks _ _ _ _ _ (by first | assumption | (dsimp only; omega))))
      | (guard_target = EM _ (getMark >>= _); apply EM.getMark_bind)
      | (guard_target = EM _ (getS >>= _); apply EM.getS_bind)
      | (guard_target = EM _ (_ >>= _); apply EM.bindMI)
      | (guard_target = EM _ (ite _ _ _); apply EM.ite)
      | intro _
      | split
      | dsimp only)

theorem TS.ofEM {lo : Nat} {m : S PlAcc} {f : PlAcc → S Token} (hmi : MI m) (hem : EM lo m)
    (h2 : ∀ a, lo ≤ a.endMark.index → TS lo (f a)) : TS lo (m >>= f) := by
  constructor
  intro s tok s' hlo h
  simp only [Bind.bind] at h
  cases hm : m s with
  | ok r =>
    obtain ⟨a, s1⟩ := r
    simp only [hm] at h
    exact (h2 a (hem.out s a s1 hlo hm)).out s1 tok s' (Nat.le_trans hlo (hmi.out s a s1 hm)) h
  | err e => simp [hm] at h
  | panic p => simp [hm] at h

theorem TS.scanPlainScalarBody (lo : Nat) : TS lo scanPlainScalarBody := by
  unfold Sc.scanPlainScalarBody
  apply TS.getS_bind; intro s0 h0
  apply TS.ite (TS.err _ _)
  apply TS.ofEM (MI.plainLoop _ _ _ _) (EM.plainLoop _ _ s0.mark.index _ ⟨[], [], [], [], s0.mark⟩ (Nat.le_refl _))
  intro a ha
  ts

theorem TS.scanPlainScalar (lo : Nat) : TS lo scanPlainScalar := by
  unfold Sc.scanPlainScalar
  exact TS.bindMI MI.unrollNonBlockIndents (fun _ => TS.scanPlainScalarBody lo)

theorem NT.unrollNonBlockIndents : NT unrollNonBlockIndents := by
  unfold Sc.unrollNonBlockIndents; exact NT.modS _ (fun _ => rfl)
theorem NT.scanBlockScalar (lit : Bool) : NT (scanBlockScalar lit) := by
  unfold Sc.scanBlockScalar
  exact NT.bind NT.getMark (fun _ => NT.bind NT.skipNonBlank (fun _ => NT.bind NT.unrollNonBlockIndents (fun _ => NT.scanBlockScalarBody _ _)))
theorem NT.scanPlainScalar : NT scanPlainScalar := by
  unfold Sc.scanPlainScalar
  exact NT.bind NT.unrollNonBlockIndents (fun _ => NT.scanPlainScalarBody)

-- the queue stays ordered through every function that pushes tokens ------------------------------------------------

syntax "tp_close" : tactic
macro_rules | `(tactic| tp_close) => `(tactic| first
    | exact TPL.err _ _ | exact TPL.panicAt _ | exact TPL.pure _)

macro "tp" : tactic => `(tactic|
  repeat' (first
    | tp_close
    | (guard_target = MI _; mi)
    | (guard_target = TPL _ (pushTok _ _); apply TPL.pushTok; first | exact Nat.le_refl _ | (dsimp only; omega))
    | (guard_target = TPL _ (insertToken _ _); apply TPL.insertToken; exact TokOk.empty _ _)
    | (guard_target = TPL _ (getMark >>= _); apply TPL.getMark_bind)
    | (guard_target = TPL _ (getS >>= _); apply TPL.getS_bind)
    | (guard_target = TPL _ (_ >>= _); apply TPL.bind)
    | (guard_target = TPL _ (ite _ _ _); apply TPL.ite)
    | (guard_target = TPL _ _; refine TPL.ofNT ?_; nt_close; done)
    | intro _
    | split
    | dsimp only))

theorem NT.tokenPos (n : Nat) : NT (tokenPos n) := by
  apply NT.raw; intro s a s' h; unfold Sc.tokenPos at h
  by_cases hp : n ≥ s.tokensParsed
  · rw [if_pos hp] at h; cases h; rfl
  · rw [if_neg hp] at h; cases h
macro_rules | `(tactic| nt_close) => `(tactic| exact NT.tokenPos _)
theorem dropNonBlockTop_tokens (col : Nat) (s : Sc) : (dropNonBlockTop col s).tokens = s.tokens := by
  unfold dropNonBlockTop; repeat' (first | rfl | split)
theorem markExplicitKey_tokens (s : Sc) : (markExplicitKey s).tokens = s.tokens := by
  unfold markExplicitKey; repeat' (first | rfl | split)
theorem popExplicitMapping_tokens (s : Sc) : (popExplicitMapping s).tokens = s.tokens := by
  unfold popExplicitMapping; repeat' (first | rfl | split)
macro_rules | `(tactic| nt_close) => `(tactic| first
  | exact NT.modS _ (dropNonBlockTop_tokens _) | exact NT.modS _ (fun _ => rfl)
  | exact NT.modS _ markExplicitKey_tokens | exact NT.modS _ popExplicitMapping_tokens | exact NT.unrollNonBlockIndents)

theorem TPL.rollIndentPush (col n tok mark) (lo : Nat) : TPL lo (rollIndentPush col n tok mark) := by unfold Sc.rollIndentPush; tp
macro_rules | `(tactic| tp_close) => `(tactic| exact TPL.rollIndentPush _ _ _ _ _)
theorem TPL.rollIndent (col n tok mark) (lo : Nat) : TPL lo (rollIndent col n tok mark) := by unfold Sc.rollIndent; tp
macro_rules | `(tactic| tp_close) => `(tactic| exact TPL.rollIndent _ _ _ _ _)
theorem TPL.unrollIndentGo (col : Int) (fuel : Nat) : ∀ lo, TPL lo (unrollIndentGo col fuel) := by
  induction fuel with
  | zero => intro lo; unfold Sc.unrollIndentGo; tp
  | succ n ih =>
    intro lo; unfold Sc.unrollIndentGo
    apply TPL.getS_bind; intro s0 h0
    split
    · split
      · exact TPL.panicAt _
      · apply TPL.bind (by mi) (by apply TPL.modS; intro _; rfl)
        intro _
        dsimp only
        split
        · apply TPL.getS_bind; intro s1 h1
          apply TPL.bind (MI.pushTok _ _) (TPL.pushTok _ _ (Nat.le_refl _))
          intro _; exact ih _
        · exact ih _
    · exact TPL.pure _
macro_rules | `(tactic| tp_close) => `(tactic| exact TPL.unrollIndentGo _ _ _)
theorem TPL.unrollIndent (col : Int) (lo : Nat) : TPL lo (unrollIndent col) := by unfold Sc.unrollIndent; tp
macro_rules | `(tactic| tp_close) => `(tactic| exact TPL.unrollIndent _ _)
theorem TPL.endImplicitMapping (m : Marker) (lo : Nat) : TPL lo (endImplicitMapping m) := by unfold Sc.endImplicitMapping; tp
macro_rules | `(tactic| tp_close) => `(tactic| exact TPL.endImplicitMapping _ _)

theorem NT.rollOneColIndent : NT rollOneColIndent := by unfold Sc.rollOneColIndent; nt
theorem NT.requiredKey (s : Sc) : NT (requiredKey s) := by unfold Sc.requiredKey; nt
macro_rules | `(tactic| nt_close) => `(tactic| first | exact NT.rollOneColIndent | exact NT.requiredKey _)
theorem NT.saveSimpleKey : NT saveSimpleKey := by unfold Sc.saveSimpleKey; nt
theorem NT.removeSimpleKey : NT removeSimpleKey := by unfold Sc.removeSimpleKey; nt
theorem NT.staleSimpleKeys : NT staleSimpleKeys := by unfold Sc.staleSimpleKeys; nt
theorem NT.increaseFlowLevel : NT increaseFlowLevel := by unfold Sc.increaseFlowLevel; nt
theorem NT.decreaseFlowLevel : NT decreaseFlowLevel := by unfold Sc.decreaseFlowLevel; nt
theorem NT.anchorIndentCheck (s : Sc) : NT (anchorIndentCheck s) := by unfold Sc.anchorIndentCheck; nt
theorem NT.blockEntryTabCheck (r : SkipTabs) : NT (blockEntryTabCheck r) := by unfold Sc.blockEntryTabCheck; nt
theorem NT.valueTabCheck : NT valueTabCheck := by unfold Sc.valueTabCheck; nt
macro_rules | `(tactic| nt_close) => `(tactic| first
  | exact NT.saveSimpleKey | exact NT.removeSimpleKey | exact NT.staleSimpleKeys | exact NT.increaseFlowLevel
  | exact NT.decreaseFlowLevel | exact NT.anchorIndentCheck _ | exact NT.blockEntryTabCheck _ | exact NT.valueTabCheck)
theorem NT.needMoreTokens : NT needMoreTokens := by unfold Sc.needMoreTokens; nt
macro_rules | `(tactic| nt_close) => `(tactic| exact NT.needMoreTokens)

theorem TPL.fetchStreamStart (lo : Nat) : TPL lo fetchStreamStart := by unfold Sc.fetchStreamStart; tp
theorem TPL.fetchStreamEnd (lo : Nat) : TPL lo fetchStreamEnd := by unfold Sc.fetchStreamEnd; tp
theorem TPL.fetchFlowCollectionStart (t : TokenType) (lo : Nat) : TPL lo (fetchFlowCollectionStart t) := by
  unfold Sc.fetchFlowCollectionStart; tp
theorem TPL.closeFlowState (t : TokenType) (lo : Nat) : TPL lo (closeFlowState t) := by unfold Sc.closeFlowState; tp
macro_rules | `(tactic| tp_close) => `(tactic| exact TPL.closeFlowState _ _)
theorem TPL.fetchFlowCollectionEnd (t : TokenType) (lo : Nat) : TPL lo (fetchFlowCollectionEnd t) := by
  unfold Sc.fetchFlowCollectionEnd; tp
theorem TPL.fetchFlowEntry (lo : Nat) : TPL lo fetchFlowEntry := by unfold Sc.fetchFlowEntry; tp
theorem TPL.rollIfBreakOrFlow (lo : Nat) : TPL lo rollIfBreakOrFlow := by
  unfold Sc.rollIfBreakOrFlow In.nextIsBreak In.nextIsFlow; tp
macro_rules | `(tactic| tp_close) => `(tactic| exact TPL.rollIfBreakOrFlow _)
theorem TPL.fetchBlockEntryTail (lo : Nat) : TPL lo fetchBlockEntryTail := by unfold Sc.fetchBlockEntryTail; tp
macro_rules | `(tactic| tp_close) => `(tactic| exact TPL.fetchBlockEntryTail _)
theorem TPL.fetchBlockEntryBody (s : Sc) (lo : Nat) : TPL lo (fetchBlockEntryBody s) := by unfold Sc.fetchBlockEntryBody; tp
macro_rules | `(tactic| tp_close) => `(tactic| exact TPL.fetchBlockEntryBody _ _)
theorem TPL.fetchBlockEntry (lo : Nat) : TPL lo fetchBlockEntry := by unfold Sc.fetchBlockEntry; tp
theorem TPL.fetchDocumentIndicator (t : TokenType) (lo : Nat) : TPL lo (fetchDocumentIndicator t) := by
  unfold Sc.fetchDocumentIndicator; tp
macro_rules | `(tactic| tp_close) => `(tactic| first
  | exact TPL.fetchStreamStart _ | exact TPL.fetchStreamEnd _ | exact TPL.fetchFlowCollectionStart _ _
  | exact TPL.fetchFlowCollectionEnd _ _ | exact TPL.fetchFlowEntry _ | exact TPL.fetchBlockEntry _
  | exact TPL.fetchDocumentIndicator _ _)

/-- a scalar-like fetch: bookkeeping that leaves the queue alone, a scanner that returns an ordered token, more
    bookkeeping, then the token is appended -/
theorem TPL.fetchDirective (lo : Nat) : TPL lo fetchDirective := by
  unfold Sc.fetchDirective
  apply TPL.bind (by mi) (TPL.unrollIndent _ _); intro _
  apply TPL.bind (by mi) (TPL.ofNT NT.removeSimpleKey); intro _
  apply TPL.bind (by mi) (TPL.ofNT NT.disallowSimpleKey); intro _
  apply TPL.bindTok MI.scanDirective NT.scanDirective (TS.scanDirective _)
  intro tok htok
  exact TPL.appendTok tok htok _ (fun _ => rfl)
theorem TPL.fetchTag (lo : Nat) : TPL lo fetchTag := by
  unfold Sc.fetchTag
  apply TPL.bind (by mi) (TPL.ofNT NT.saveSimpleKey); intro _
  apply TPL.bind (by mi) (TPL.ofNT NT.disallowSimpleKey); intro _
  apply TPL.bindTok MI.scanTag NT.scanTag (TS.scanTag _)
  intro tok htok
  exact TPL.appendTok tok htok _ (fun _ => rfl)
theorem TPL.fetchAnchor (a : Bool) (lo : Nat) : TPL lo (fetchAnchor a) := by
  unfold Sc.fetchAnchor
  apply TPL.bind (by mi) (TPL.ofNT NT.saveSimpleKey); intro _
  apply TPL.bind (by mi) (TPL.ofNT NT.disallowSimpleKey); intro _
  apply TPL.bindTok (MI.scanAnchor _) (NT.scanAnchor _) (TS.scanAnchor _ _)
  intro tok htok
  exact TPL.appendTok tok htok _ (fun _ => rfl)
theorem TPL.fetchBlockScalar (lit : Bool) (lo : Nat) : TPL lo (fetchBlockScalar lit) := by
  unfold Sc.fetchBlockScalar
  apply TPL.bind (by mi) (TPL.ofNT NT.saveSimpleKey); intro _
  apply TPL.bind (by mi) (TPL.ofNT NT.allowSimpleKey); intro _
  apply TPL.bindTok (MI.scanBlockScalar _) (NT.scanBlockScalar _) (TS.scanBlockScalar _ _)
  intro tok htok
  exact TPL.appendTok tok htok _ (fun _ => rfl)
theorem TPL.fetchFlowScalar (single : Bool) (lo : Nat) : TPL lo (fetchFlowScalar single) := by
  unfold Sc.fetchFlowScalar
  apply TPL.bind (by mi) (TPL.ofNT NT.saveSimpleKey); intro _
  apply TPL.bind (by mi) (TPL.ofNT NT.disallowSimpleKey); intro _
  apply TPL.bindTok (MI.scanFlowScalar _) (NT.scanFlowScalar _) (TS.scanFlowScalar _ _)
  intro tok htok
  apply TPL.bind (by mi) (TPL.ofNT NT.skipToNextToken); intro _
  exact TPL.appendTok tok htok _ (fun _ => rfl)
theorem TPL.fetchPlainScalar (lo : Nat) : TPL lo fetchPlainScalar := by
  unfold Sc.fetchPlainScalar
  apply TPL.bind (by mi) (TPL.ofNT NT.saveSimpleKey); intro _
  apply TPL.bind (by mi) (TPL.ofNT NT.disallowSimpleKey); intro _
  apply TPL.bindTok MI.scanPlainScalar NT.scanPlainScalar (TS.scanPlainScalar _)
  intro tok htok
  exact TPL.appendTok tok htok _ (fun _ => rfl)
macro_rules | `(tactic| tp_close) => `(tactic| first
  | exact TPL.fetchDirective _ | exact TPL.fetchTag _ | exact TPL.fetchAnchor _ _ | exact TPL.fetchBlockScalar _ _
  | exact TPL.fetchFlowScalar _ _ | exact TPL.fetchPlainScalar _)

theorem TPL.keyPrologue (s : Sc) (lo : Nat) : TPL lo (keyPrologue s) := by unfold Sc.keyPrologue; tp
theorem TPL.fetchKeyTail (m : Marker) (lo : Nat) (h : m.index ≤ lo) : TPL lo (fetchKeyTail m) := by unfold Sc.fetchKeyTail; tp
macro_rules | `(tactic| tp_close) => `(tactic| exact TPL.keyPrologue _ _)
theorem TPL.fetchKey (lo : Nat) : TPL lo fetchKey := by
  unfold Sc.fetchKey
  apply TPL.getS_bind; intro s0 h0
  apply TPL.bind (by mi) (TPL.keyPrologue _ _); intro _
  apply TPL.bind (by mi) (TPL.ofNT NT.removeSimpleKey); intro _
  apply TPL.bind (by mi) (by tp); intro _
  exact TPL.fetchKeyTail _ _ (Nat.le_refl _)
theorem TPL.valueAfterSimpleKey (sk m i) (lo : Nat) : TPL lo (valueAfterSimpleKey sk m i) := by unfold Sc.valueAfterSimpleKey; tp
theorem TPL.valueAfterComplexKey (m i) (lo : Nat) : TPL lo (valueAfterComplexKey m i) := by unfold Sc.valueAfterComplexKey; tp
macro_rules | `(tactic| tp_close) => `(tactic| first
  | exact TPL.valueAfterSimpleKey _ _ _ _ | exact TPL.valueAfterComplexKey _ _ _)

end SaphyrModel.Sc
