import SaphyrModel.Sc.NT.Base2
set_option linter.unusedSimpArgs false
namespace SaphyrModel.Sc
open SaphyrModel

theorem NT.readBreak (acc : Str) : NT (readBreak acc) := by
  unfold Sc.readBreak; nt
macro_rules | `(tactic| nt_close) => `(tactic| exact NT.readBreak _)
theorem NT.skipBlockScalarIndentSpaces (indent : Nat) (g : Bool) (fuel : Nat) : NT (skipBlockScalarIndentSpaces indent g fuel ) := by
  induction fuel with
  | zero => unfold Sc.skipBlockScalarIndentSpaces; nt
  | succ n ih => unfold Sc.skipBlockScalarIndentSpaces; nt
macro_rules | `(tactic| nt_close) => `(tactic| exact NT.skipBlockScalarIndentSpaces _ _ _)
theorem NT.skipBlockScalarIndentBig (indent : Nat) (fuel : Nat) : NT (skipBlockScalarIndentBig indent fuel ) := by
  induction fuel with
  | zero => unfold Sc.skipBlockScalarIndentBig; nt
  | succ n ih => unfold Sc.skipBlockScalarIndentBig; nt
macro_rules | `(tactic| nt_close) => `(tactic| exact NT.skipBlockScalarIndentBig _ _)
theorem NT.skipBlockScalarIndent (indent : Nat) (fuel : Nat) : ∀ b, NT (skipBlockScalarIndent indent fuel b) := by
  induction fuel with
  | zero => intro b; unfold Sc.skipBlockScalarIndent; nt
  | succ n ih => intro b; unfold Sc.skipBlockScalarIndent; nt
macro_rules | `(tactic| nt_close) => `(tactic| exact NT.skipBlockScalarIndent _ _ _)
theorem NT.skipSpaces  (fuel : Nat) : NT (skipSpaces  fuel ) := by
  induction fuel with
  | zero => unfold Sc.skipSpaces; nt
  | succ n ih => unfold Sc.skipSpaces; nt
macro_rules | `(tactic| nt_close) => `(tactic| exact NT.skipSpaces _)
theorem NT.skipBlockScalarFirstLineIndentGo  (fuel : Nat) : ∀ m b, NT (skipBlockScalarFirstLineIndentGo  fuel m b) := by
  induction fuel with
  | zero => intro m b; unfold Sc.skipBlockScalarFirstLineIndentGo; nt
  | succ n ih => intro m b; unfold Sc.skipBlockScalarFirstLineIndentGo; nt
macro_rules | `(tactic| nt_close) => `(tactic| exact NT.skipBlockScalarFirstLineIndentGo _ _ _)
theorem NT.skipBlockScalarFirstLineIndent (b : Str) : NT (skipBlockScalarFirstLineIndent b) := by
  unfold Sc.skipBlockScalarFirstLineIndent; nt
macro_rules | `(tactic| nt_close) => `(tactic| exact NT.skipBlockScalarFirstLineIndent _)
theorem NT.contentLineBuffered  (fuel : Nat) : ∀ str, NT (contentLineBuffered  fuel str) := by
  induction fuel with
  | zero => intro str; unfold Sc.contentLineBuffered; nt
  | succ n ih => intro str; unfold Sc.contentLineBuffered; nt
macro_rules | `(tactic| nt_close) => `(tactic| exact NT.contentLineBuffered _ _)
theorem NT.contentLineRaw  (fuel : Nat) : ∀ l, NT (contentLineRaw  fuel l) := by
  induction fuel with
  | zero => intro l; unfold Sc.contentLineRaw; nt
  | succ n ih => intro l; unfold Sc.contentLineRaw; nt
macro_rules | `(tactic| nt_close) => `(tactic| exact NT.contentLineRaw _ _)
theorem NT.scanBlockScalarContentLine (str : Str) : NT (scanBlockScalarContentLine str) := by
  unfold Sc.scanBlockScalarContentLine; nt
macro_rules | `(tactic| nt_close) => `(tactic| exact NT.scanBlockScalarContentLine _)
theorem NT.blockScalarLines (lit : Bool) (indent : Nat) (fuel : Nat) : ∀ a, NT (blockScalarLines lit indent fuel a) := by
  induction fuel with
  | zero => intro a; unfold Sc.blockScalarLines; nt
  | succ n ih => intro a; unfold Sc.blockScalarLines; nt
macro_rules | `(tactic| nt_close) => `(tactic| exact NT.blockScalarLines _ _ _ _)
set_option maxHeartbeats 4000000 in
theorem NT.blockHeaderDigit (m : Marker) (ch : Chomping) : NT (blockHeaderDigit m ch) := by
  unfold Sc.blockHeaderDigit; (try unfold In.nextIsDigit); (try unfold In.nextIsBreakz); (try unfold In.nextIsBreak); (try unfold In.nextIsZ); nt
macro_rules | `(tactic| nt_close) => `(tactic| exact NT.blockHeaderDigit _ _)
set_option maxHeartbeats 4000000 in
theorem NT.blockHeaderChomp (d : Char) : NT (blockHeaderChomp d) := by
  unfold Sc.blockHeaderChomp; (try unfold In.nextIsDigit); (try unfold In.nextIsBreakz); (try unfold In.nextIsBreak); (try unfold In.nextIsZ); nt
macro_rules | `(tactic| nt_close) => `(tactic| exact NT.blockHeaderChomp _)
set_option maxHeartbeats 4000000 in
theorem NT.blockHeader (m : Marker) (c : Char) (b : Bool) : NT (blockHeader m c b) := by
  unfold Sc.blockHeader; (try unfold In.nextIsDigit); (try unfold In.nextIsBreakz); (try unfold In.nextIsBreak); (try unfold In.nextIsZ); nt
macro_rules | `(tactic| nt_close) => `(tactic| exact NT.blockHeader _ _ _)
set_option maxHeartbeats 4000000 in
theorem NT.blockChompingBreak  : NT (blockChompingBreak ) := by
  unfold Sc.blockChompingBreak; (try unfold In.nextIsDigit); (try unfold In.nextIsBreakz); (try unfold In.nextIsBreak); (try unfold In.nextIsZ); nt
macro_rules | `(tactic| nt_close) => `(tactic| exact NT.blockChompingBreak )
set_option maxHeartbeats 4000000 in
theorem NT.blockIndent (inc : Nat) (s : Sc) : NT (blockIndent inc s) := by
  unfold Sc.blockIndent; (try unfold In.nextIsDigit); (try unfold In.nextIsBreakz); (try unfold In.nextIsBreak); (try unfold In.nextIsZ); nt
macro_rules | `(tactic| nt_close) => `(tactic| exact NT.blockIndent _ _)
set_option maxHeartbeats 4000000 in
theorem NT.blockMarkerCheck (ind : Nat) (s : Sc) : NT (blockMarkerCheck ind s) := by
  unfold Sc.blockMarkerCheck; (try unfold In.nextIsDigit); (try unfold In.nextIsBreakz); (try unfold In.nextIsBreak); (try unfold In.nextIsZ); nt
macro_rules | `(tactic| nt_close) => `(tactic| exact NT.blockMarkerCheck _ _)
set_option maxHeartbeats 4000000 in
theorem NT.blockFinish (ch : Chomping) (ind : Nat) (a : BlkAcc) (s : Sc) : NT (blockFinish ch ind a s) := by
  unfold Sc.blockFinish; (try unfold In.nextIsDigit); (try unfold In.nextIsBreakz); (try unfold In.nextIsBreak); (try unfold In.nextIsZ); nt
macro_rules | `(tactic| nt_close) => `(tactic| exact NT.blockFinish _ _ _ _)
set_option maxHeartbeats 4000000 in
theorem NT.blockContent (lit : Bool) (ch : Chomping) (ind : Nat) (tb : Str) (s : Sc) : NT (blockContent lit ch ind tb s) := by
  unfold Sc.blockContent; (try unfold In.nextIsDigit); (try unfold In.nextIsBreakz); (try unfold In.nextIsBreak); (try unfold In.nextIsZ); nt
macro_rules | `(tactic| nt_close) => `(tactic| exact NT.blockContent _ _ _ _ _)
set_option maxHeartbeats 4000000 in
theorem NT.blockAfterHeader (lit : Bool) (m : Marker) (ch : Chomping) (inc : Nat) (cb : Str) : NT (blockAfterHeader lit m ch inc cb) := by
  unfold Sc.blockAfterHeader; (try unfold In.nextIsDigit); (try unfold In.nextIsBreakz); (try unfold In.nextIsBreak); (try unfold In.nextIsZ); nt
macro_rules | `(tactic| nt_close) => `(tactic| exact NT.blockAfterHeader _ _ _ _ _)
set_option maxHeartbeats 4000000 in
theorem NT.scanBlockScalarBody (lit : Bool) (m : Marker) : NT (scanBlockScalarBody lit m) := by
  unfold Sc.scanBlockScalarBody; (try unfold In.nextIsDigit); (try unfold In.nextIsBreakz); (try unfold In.nextIsBreak); (try unfold In.nextIsZ); nt
macro_rules | `(tactic| nt_close) => `(tactic| exact NT.scanBlockScalarBody _ _)

end SaphyrModel.Sc
