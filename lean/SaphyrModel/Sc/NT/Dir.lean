import SaphyrModel.Sc.NT.Base2
set_option linter.unusedSimpArgs false
namespace SaphyrModel.Sc
open SaphyrModel

theorem NT.scanDirectiveName : NT (scanDirectiveName) := by
  unfold Sc.scanDirectiveName; nt
macro_rules | `(tactic| nt_close) => `(tactic| exact NT.scanDirectiveName )
theorem NT.scanVersionNumberGo (mark : Marker) (fuel : Nat) : ∀ v l, NT (scanVersionNumberGo mark fuel v l) := by
  induction fuel with
  | zero => intro v l; unfold Sc.scanVersionNumberGo; nt
  | succ n ih => intro v l; unfold Sc.scanVersionNumberGo; nt
macro_rules | `(tactic| nt_close) => `(tactic| exact NT.scanVersionNumberGo _ _ _ _)
theorem NT.scanVersionDirectiveNumber (mark : Marker) : NT (scanVersionDirectiveNumber mark) := by
  unfold Sc.scanVersionDirectiveNumber; nt
macro_rules | `(tactic| nt_close) => `(tactic| exact NT.scanVersionDirectiveNumber _)
theorem NT.scanVersionDirectiveValue (mark : Marker) : NT (scanVersionDirectiveValue mark) := by
  unfold Sc.scanVersionDirectiveValue; nt
macro_rules | `(tactic| nt_close) => `(tactic| exact NT.scanVersionDirectiveValue _)
theorem NT.scanTagHandle (d : Bool) (mark : Marker) : NT (scanTagHandle d mark) := by
  unfold Sc.scanTagHandle; nt
macro_rules | `(tactic| nt_close) => `(tactic| exact NT.scanTagHandle _ _)

theorem NT.scanUriEscapesGo (mark : Marker) (fuel : Nat) : ∀ w c, NT (scanUriEscapesGo mark fuel w c) := by
  induction fuel with
  | zero => intro w c; unfold Sc.scanUriEscapesGo; nt
  | succ n ih => intro w c; unfold Sc.scanUriEscapesGo; nt
macro_rules | `(tactic| nt_close) => `(tactic| exact NT.scanUriEscapesGo _ _ _ _)
theorem NT.scanUriEscapes (mark : Marker) : NT (scanUriEscapes mark) := by
  unfold Sc.scanUriEscapes; nt
macro_rules | `(tactic| nt_close) => `(tactic| exact NT.scanUriEscapes _)
theorem NT.scanUriLoop (p : Char → Bool) (mark : Marker) (fuel : Nat) : ∀ str n, NT (scanUriLoop p mark fuel str n) := by
  induction fuel with
  | zero => intro str n; unfold Sc.scanUriLoop; nt
  | succ n ih => intro str n; unfold Sc.scanUriLoop; nt
macro_rules | `(tactic| nt_close) => `(tactic| exact NT.scanUriLoop _ _ _ _ _)
theorem NT.scanTagPrefix (m : Marker) : NT (scanTagPrefix m) := by
  unfold Sc.scanTagPrefix; nt
macro_rules | `(tactic| nt_close) => `(tactic| exact NT.scanTagPrefix _)
theorem NT.scanTagDirectiveValue (m : Marker) : NT (scanTagDirectiveValue m) := by
  unfold Sc.scanTagDirectiveValue; nt
macro_rules | `(tactic| nt_close) => `(tactic| exact NT.scanTagDirectiveValue _)
theorem NT.scanDirective : NT (scanDirective) := by
  unfold Sc.scanDirective; nt
macro_rules | `(tactic| nt_close) => `(tactic| exact NT.scanDirective )
theorem NT.scanVerbatimTag (m : Marker) : NT (scanVerbatimTag m) := by
  unfold Sc.scanVerbatimTag; nt
macro_rules | `(tactic| nt_close) => `(tactic| exact NT.scanVerbatimTag _)
theorem NT.scanTagShorthandSuffix (h : Str) (m : Marker) : NT (scanTagShorthandSuffix h m) := by
  unfold Sc.scanTagShorthandSuffix; nt
macro_rules | `(tactic| nt_close) => `(tactic| exact NT.scanTagShorthandSuffix _ _)
theorem NT.scanTag : NT (scanTag) := by
  unfold Sc.scanTag; nt
macro_rules | `(tactic| nt_close) => `(tactic| exact NT.scanTag )

end SaphyrModel.Sc
