import SaphyrModel.Sc.NT.Base2
set_option linter.unusedSimpArgs false
namespace SaphyrModel.Sc
open SaphyrModel

theorem NT.hexLoop (m : Marker) (n : Nat) (fuel : Nat) : ∀ v, NT (hexLoop m n fuel v) := by
  induction fuel with
  | zero => intro v; unfold Sc.hexLoop; nt
  | succ n ih => intro v; unfold Sc.hexLoop; nt
macro_rules | `(tactic| nt_close) => `(tactic| exact NT.hexLoop _ _ _ _)
theorem NT.resolveEscape (m : Marker) : NT (resolveEscape m) := by
  unfold Sc.resolveEscape; nt
macro_rules | `(tactic| nt_close) => `(tactic| exact NT.resolveEscape _)
theorem NT.consumeNonWs (single : Bool) (m : Marker) (fuel : Nat) : ∀ str lb, NT (consumeNonWs single m fuel str lb) := by
  induction fuel with
  | zero => intro str lb; unfold Sc.consumeNonWs; nt
  | succ n ih => intro str lb; unfold Sc.consumeNonWs; nt
macro_rules | `(tactic| nt_close) => `(tactic| exact NT.consumeNonWs _ _ _ _ _)
theorem NT.consumeBlanks  (fuel : Nat) : ∀ a lb, NT (consumeBlanks  fuel a lb) := by
  induction fuel with
  | zero => intro a lb; unfold Sc.consumeBlanks; nt
  | succ n ih => intro a lb; unfold Sc.consumeBlanks; nt
macro_rules | `(tactic| nt_close) => `(tactic| exact NT.consumeBlanks _ _ _)
theorem NT.flowScalarLoop (single : Bool) (m : Marker) (fuel : Nat) : ∀ str a, NT (flowScalarLoop single m fuel str a) := by
  induction fuel with
  | zero => intro str a; unfold Sc.flowScalarLoop; nt
  | succ n ih => intro str a; unfold Sc.flowScalarLoop; nt
macro_rules | `(tactic| nt_close) => `(tactic| exact NT.flowScalarLoop _ _ _ _ _)
theorem NT.scanFlowScalar (single : Bool) : NT (scanFlowScalar single) := by
  unfold Sc.scanFlowScalar; nt
macro_rules | `(tactic| nt_close) => `(tactic| exact NT.scanFlowScalar _)
end SaphyrModel.Sc
