import SaphyrModel.Sc.Frame
import SaphyrModel.Sc.Scan3
/-! `NT m`: `m` leaves the token queue as it is (the scanning functions; the `fetch_*` functions are the ones that push). -/
set_option linter.unusedSimpArgs false
namespace SaphyrModel.Sc
open SaphyrModel

structure NT (m : S α) : Prop where
  out : ∀ s a s', m s = .ok (a, s') → s'.tokens = s.tokens

theorem NT.pure (a : α) : NT (Pure.pure a : S α) := ⟨fun s b s' h => by cases h; rfl⟩
theorem NT.bind {m : S α} {f : α → S β} (h1 : NT m) (h2 : ∀ a, NT (f a)) : NT (m >>= f) := by
  constructor
  intro s b s' h
  simp only [Bind.bind] at h
  cases hm : m s with
  | ok r =>
    obtain ⟨a, s1⟩ := r
    simp only [hm] at h
    exact ((h2 a).out s1 b s' h).trans (h1.out s a s1 hm)
  | err e => simp [hm] at h
  | panic p => simp [hm] at h
theorem NT.ite {c : Prop} [Decidable c] {a b : S α} (ha : NT a) (hb : NT b) : NT (if c then a else b) := by
  split <;> assumption
theorem NT.getS : NT (getS : S Sc) := ⟨fun s b s' h => by cases h; rfl⟩
theorem NT.getMark : NT getMark := ⟨fun s b s' h => by cases h; rfl⟩
theorem NT.err (m : Marker) (msg : String) : NT (err m msg : S α) := ⟨fun s b s' h => by cases h⟩
theorem NT.panicAt (p : Site) : NT (panicAt p : S α) := ⟨fun s b s' h => by cases h⟩
theorem NT.modS (f : Sc → Sc) (h : ∀ s, (f s).tokens = s.tokens) : NT (modS f) :=
  ⟨fun s b s' hh => by cases hh; exact h s⟩
theorem NT.liftI (m : M In α) : NT (liftI m) := by
  constructor
  intro s b s' hh
  simp only [Sc.liftI] at hh
  cases hm : m s.inp with
  | ok r => obtain ⟨a, i'⟩ := r; simp only [hm, Res.ok.injEq, Prod.mk.injEq] at hh; obtain ⟨_, rfl⟩ := hh; rfl
  | err e => simp [hm] at hh
  | panic p => simp [hm] at hh
/-- functions written as `fun s => …` that leave the mark alone -/
theorem NT.raw {m : S α} (h : ∀ s a s', m s = .ok (a, s') → s'.tokens = s.tokens) : NT m :=
  ⟨fun s a s' hh => h s a s' hh⟩

syntax "nt_close" : tactic
macro_rules | `(tactic| nt_close) => `(tactic| first
    | exact NT.pure _ | exact NT.getS | exact NT.getMark | exact NT.err _ _ | exact NT.panicAt _ | exact NT.liftI _
    | assumption | apply_assumption)
macro_rules | `(tactic| nt_close) => `(tactic| (apply NT.modS; intro s; first | rfl | (split <;> rfl)))

macro "nt" : tactic => `(tactic|
  repeat' (first
    | nt_close
    | apply NT.bind
    | apply NT.ite
    | intro _
    | split))

theorem NT.bufmaxlen : NT bufmaxlen := NT.raw (fun s a s' h => by cases h; rfl)
theorem NT.bufIsEmpty : NT bufIsEmpty := NT.raw (fun s a s' h => by cases h; rfl)
theorem NT.isWithinBlock : NT isWithinBlock := NT.raw (fun s a s' h => by unfold Sc.isWithinBlock at h; cases h; rfl)
macro_rules | `(tactic| nt_close) => `(tactic| first | exact NT.bufmaxlen | exact NT.bufIsEmpty | exact NT.isWithinBlock)

theorem NT.lookahead (n) : NT (lookahead n) := by unfold Sc.lookahead; nt
theorem NT.peek : NT peek := by unfold Sc.peek; nt
theorem NT.peekNth (n) : NT (peekNth n) := by unfold Sc.peekNth; nt
theorem NT.lookCh : NT lookCh := by unfold Sc.lookCh; nt
theorem NT.advance (n) : NT (advance n) := by unfold Sc.advance; nt
macro_rules | `(tactic| nt_close) => `(tactic| first
    | exact NT.lookahead _ | exact NT.peek | exact NT.peekNth _ | exact NT.lookCh | exact NT.advance _)
theorem NT.skipBlank : NT skipBlank := by unfold Sc.skipBlank; nt
theorem NT.skipNonBlank : NT skipNonBlank := by unfold Sc.skipNonBlank; nt
theorem NT.skipNNonBlank (n) : NT (skipNNonBlank n) := by unfold Sc.skipNNonBlank; nt
theorem NT.skipNl : NT skipNl := by unfold Sc.skipNl; nt
macro_rules | `(tactic| nt_close) => `(tactic| first
    | exact NT.skipBlank | exact NT.skipNonBlank | exact NT.skipNNonBlank _ | exact NT.skipNl)
theorem NT.skipLinebreak : NT skipLinebreak := by unfold Sc.skipLinebreak In.nextIsBreak; nt
theorem NT.skipBreak : NT skipBreak := by unfold Sc.skipBreak; nt
theorem NT.allowSimpleKey : NT allowSimpleKey := by unfold Sc.allowSimpleKey; nt
theorem NT.disallowSimpleKey : NT disallowSimpleKey := by unfold Sc.disallowSimpleKey; nt
theorem NT.skipWsToEol (t) : NT (skipWsToEol t) := by unfold Sc.skipWsToEol; nt
macro_rules | `(tactic| nt_close) => `(tactic| first
    | exact NT.skipLinebreak | exact NT.skipBreak | exact NT.allowSimpleKey | exact NT.disallowSimpleKey
    | exact NT.skipWsToEol _)

end SaphyrModel.Sc
