import SaphyrModel.Sc.NT.Base
set_option linter.unusedSimpArgs false
namespace SaphyrModel.Sc
open SaphyrModel

theorem NT.scanAnchorGo (fuel : Nat) : ∀ str, NT (scanAnchorGo fuel str) := by
  induction fuel with
  | zero => intro str; unfold Sc.scanAnchorGo; nt
  | succ n ih => intro str; unfold Sc.scanAnchorGo; nt
macro_rules | `(tactic| nt_close) => `(tactic| exact NT.scanAnchorGo _ _)
theorem NT.scanAnchor (alias : Bool) : NT (scanAnchor alias) := by unfold Sc.scanAnchor; nt
macro_rules | `(tactic| nt_close) => `(tactic| exact NT.scanAnchor _)

theorem NT.skipToNextTokenGo (fuel : Nat) : NT (skipToNextTokenGo fuel) := by
  induction fuel with
  | zero => unfold Sc.skipToNextTokenGo; nt
  | succ n ih => unfold Sc.skipToNextTokenGo; nt
theorem NT.skipToNextToken : NT skipToNextToken := by
  unfold Sc.skipToNextToken; have := NT.skipToNextTokenGo; nt
macro_rules | `(tactic| nt_close) => `(tactic| first | exact NT.skipToNextTokenGo _ | exact NT.skipToNextToken)

theorem NT.skipYamlWhitespaceGo (fuel : Nat) : ∀ b, NT (skipYamlWhitespaceGo fuel b) := by
  induction fuel with
  | zero => intro b; unfold Sc.skipYamlWhitespaceGo; nt
  | succ n ih => intro b; unfold Sc.skipYamlWhitespaceGo; nt
theorem NT.skipYamlWhitespace : NT skipYamlWhitespace := by
  unfold Sc.skipYamlWhitespace; have := NT.skipYamlWhitespaceGo; nt
macro_rules | `(tactic| nt_close) => `(tactic| first | exact NT.skipYamlWhitespaceGo _ _ | exact NT.skipYamlWhitespace)


end SaphyrModel.Sc
