import SaphyrModel.Sc.NT.TokOrd
set_option linter.unusedSimpArgs false
namespace SaphyrModel.Sc
open SaphyrModel

theorem TPL.fetchValue (lo : Nat) : TPL lo fetchValue := by
  unfold Sc.fetchValue
  apply TPL.getS_bind; intro s0 h0
  split
  · exact TPL.panicAt _
  · dsimp only
    refine TPL.bind (MI.ite (MI.modS _ (fun _ => Nat.le_refl _)) (MI.pure _)) (TPL.ite (TPL.modS _ (fun _ => rfl)) (TPL.pure _)) ?_
    intro _
    refine TPL.bind MI.skipNonBlank (TPL.ofNT NT.skipNonBlank) ?_; intro _
    refine TPL.bind MI.valueTabCheck (TPL.ofNT NT.valueTabCheck) ?_; intro tabErr
    split
    · apply TPL.getMark_bind; intro m hm; exact TPL.err _ _
    · refine TPL.bind ?_ ?_ ?_
      · split
        · exact MI.valueAfterSimpleKey _ _ _
        · exact MI.valueAfterComplexKey _ _
      · split
        · exact TPL.valueAfterSimpleKey _ _ _ _
        · exact TPL.valueAfterComplexKey _ _ _
      · intro _; exact TPL.pushTok _ _ (Nat.le_refl _)
macro_rules | `(tactic| tp_close) => `(tactic| first | exact TPL.fetchValue _ | exact TPL.fetchKey _)
theorem TPL.fetchFlowValue (lo : Nat) : TPL lo fetchFlowValue := by unfold Sc.fetchFlowValue; tp
macro_rules | `(tactic| tp_close) => `(tactic| exact TPL.fetchFlowValue _)

macro_rules | `(tactic| nt_close) => `(tactic| first | exact NT.skipToNextToken | exact NT.scanAnchorGo _ _)

theorem TPL.fetchDocumentEndMarker (lo : Nat) : TPL lo fetchDocumentEndMarker := by
  unfold Sc.fetchDocumentEndMarker In.nextIsBreakz
  refine TPL.bind (MI.fetchDocumentIndicator _) (TPL.fetchDocumentIndicator _ _) ?_; intro _
  refine TPL.bind (MI.skipWsToEol _) (TPL.ofNT (NT.skipWsToEol _)) ?_; intro _
  refine TPL.bind (MI.liftI _) (TPL.ofNT (NT.liftI _)) ?_; intro ok
  apply TPL.getMark_bind; intro m hm
  exact TPL.ite (TPL.err _ _) (TPL.pure _)

theorem TPL.fetchSpecial (lo : Nat) : TPL lo fetchSpecial := by
  unfold Sc.fetchSpecial
  apply TPL.getS_bind; intro s0 h0
  refine TPL.ite ?_ (TPL.pure _)
  refine TPL.bind (MI.liftI _) (TPL.ofNT (NT.liftI _)) ?_; intro b1
  refine TPL.ite ?_ ?_
  · exact TPL.bind MI.fetchDirective (TPL.fetchDirective _) (fun _ => TPL.pure _)
  · refine TPL.bind (MI.liftI _) (TPL.ofNT (NT.liftI _)) ?_; intro b2
    refine TPL.ite ?_ ?_
    · exact TPL.bind (MI.fetchDocumentIndicator _) (TPL.fetchDocumentIndicator _ _) (fun _ => TPL.pure _)
    · refine TPL.bind (MI.liftI _) (TPL.ofNT (NT.liftI _)) ?_; intro b3
      exact TPL.ite (TPL.fetchDocumentEndMarker _) (TPL.pure _)

set_option maxHeartbeats 1000000 in
theorem TPL.fetchDispatch (lo : Nat) : TPL lo fetchDispatch := by
  unfold Sc.fetchDispatch
  apply TPL.getS_bind; intro s0 h0
  refine TPL.ite (TPL.err _ _) ?_
  refine TPL.bind MI.peek (TPL.ofNT NT.peek) ?_; intro c
  refine TPL.bind (MI.peekNth _) (TPL.ofNT (NT.peekNth _)) ?_; intro nc
  repeat' (first
    | exact TPL.err _ _
    | exact TPL.fetchFlowCollectionStart _ _ | exact TPL.fetchFlowCollectionEnd _ _ | exact TPL.fetchFlowEntry _
    | exact TPL.fetchBlockEntry _ | exact TPL.fetchKey _ | exact TPL.fetchValue _ | exact TPL.fetchFlowValue _
    | exact TPL.fetchAnchor _ _ | exact TPL.fetchTag _ | exact TPL.fetchBlockScalar _ _ | exact TPL.fetchFlowScalar _ _
    | exact TPL.fetchPlainScalar _
    | apply TPL.ite)

theorem TPL.fetchAfterStart (lo : Nat) : TPL lo fetchAfterStart := by
  unfold Sc.fetchAfterStart In.nextIsZ
  refine TPL.bind MI.skipToNextToken (TPL.ofNT NT.skipToNextToken) ?_; intro _
  refine TPL.bind MI.staleSimpleKeys (TPL.ofNT NT.staleSimpleKeys) ?_; intro _
  apply TPL.getMark_bind; intro mark hmark
  refine TPL.bind (MI.unrollIndent _) (TPL.unrollIndent _ _) ?_; intro _
  refine TPL.bind (MI.lookahead _) (TPL.ofNT (NT.lookahead _)) ?_; intro _
  refine TPL.bind (MI.liftI _) (TPL.ofNT (NT.liftI _)) ?_; intro z
  refine TPL.ite (TPL.fetchStreamEnd _) ?_
  refine TPL.bind MI.fetchSpecial (TPL.fetchSpecial _) ?_; intro special
  exact TPL.ite (TPL.pure _) (TPL.fetchDispatch _)

theorem TPL.fetchNextToken (lo : Nat) : TPL lo fetchNextToken := by
  unfold Sc.fetchNextToken
  refine TPL.bind (MI.lookahead _) (TPL.ofNT (NT.lookahead _)) ?_; intro _
  apply TPL.getS_bind; intro s0 h0
  exact TPL.ite (TPL.fetchStreamStart _) (TPL.fetchAfterStart _)

theorem TPL.fetchMoreTokens (fuel : Nat) : ∀ lo, TPL lo (fetchMoreTokens fuel) := by
  induction fuel with
  | zero => intro lo; unfold Sc.fetchMoreTokens; exact TPL.panicAt _
  | succ n ih =>
    intro lo; unfold Sc.fetchMoreTokens
    refine TPL.bind MI.needMoreTokens (TPL.ofNT NT.needMoreTokens) ?_; intro needMore
    refine TPL.ite ?_ (TPL.modS _ (fun _ => rfl))
    exact TPL.bind MI.fetchNextToken (TPL.fetchNextToken _) (fun _ => ih _)

theorem popToken_ord (s : Sc) (r : Option Token) (s' : Sc) (ho : TokOrd s.tokens) (h : popToken s = .ok (r, s')) :
    TokOrd s'.tokens ∧ ∀ t, r = some t → TokOk t := by
  unfold Sc.popToken at h
  simp only [Bind.bind, getS] at h
  cases ht : s.tokens with
  | nil => simp [ht, Sc.err, throwE] at h
  | cons t ts =>
    simp only [ht, modS, Pure.pure] at h
    cases h
    have hall : TokOrd (t :: ts) := by rw [← ht]; exact ho
    exact ⟨fun x hx => hall x (by simp [hx]), fun x hx => by cases hx; exact hall t (by simp)⟩

theorem nextToken_ord (s : Sc) (r : Option Token) (s' : Sc) (ho : TokOrd s.tokens) (h : nextToken s = .ok (r, s')) :
    TokOrd s'.tokens ∧ ∀ t, r = some t → TokOk t := by
  unfold Sc.nextToken at h
  simp only [Bind.bind, getS] at h
  by_cases hse : s.streamEndProduced = true
  · simp only [hse, ↓reduceIte, Pure.pure] at h
    cases h
    exact ⟨ho, fun t ht => by cases ht⟩
  · simp only [hse, Bool.false_eq_true, ↓reduceIte] at h
    by_cases hta : (!s.tokenAvailable) = true
    · simp only [hta, ↓reduceIte] at h
      cases hf : fetchMoreTokens (s.inp.remaining + 4) s with
      | ok q =>
        obtain ⟨_, s1⟩ := q
        simp only [hf] at h
        have h1 := (TPL.fetchMoreTokens _ 0).out s () s1 (Nat.zero_le _) ho hf
        exact popToken_ord s1 r s' h1 h
      | err e => simp [hf] at h
      | panic p => simp [hf] at h
    · simp only [hta, Bool.false_eq_true, ↓reduceIte, Pure.pure] at h
      exact popToken_ord s r s' ho h

/-- **Every token the scanner delivers has a span that starts no later than it ends** — every text, every
    back-end, every capacity, however many tokens are pulled. -/
theorem scanAll_ord (fuel : Nat) : ∀ (s : Sc) (acc : List Token), TokOrd s.tokens → TokOrd acc →
    TokOrd (scanAll fuel s acc).1 := by
  induction fuel with
  | zero =>
    intro s acc _ ha
    simp only [scanAll]
    intro t ht; exact ha t (by simpa using ht)
  | succ n ih =>
    intro s acc ho ha
    simp only [scanAll]
    cases hn : nextToken s with
    | ok q =>
      obtain ⟨r, s'⟩ := q
      obtain ⟨h1, h2⟩ := nextToken_ord s r s' ho hn
      cases r with
      | some t =>
        simp only
        apply ih s' (t :: acc) h1
        intro x hx
        rcases List.mem_cons.mp hx with rfl | hx
        · exact h2 _ rfl
        · exact ha x hx
      | none =>
        simp only
        intro t ht; exact ha t (by simpa using ht)
    | err e => simp only; intro t ht; exact ha t (by simpa using ht)
    | panic p => simp only; intro t ht; exact ha t (by simpa using ht)

end SaphyrModel.Sc
