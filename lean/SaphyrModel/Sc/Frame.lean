import SaphyrModel.Sc.Scan3
/-! Calibration: frame reasoning for scanner functions that do not touch the structural state. -/
namespace SaphyrModel.Sc
open SaphyrModel

/-- panic sites whose safety depends on the structural invariants I1–I3 -/
def StructSite : Site → Prop
  | .indentsPopUnwrap | .indentsLastUnwrap | .simpleKeysLastUnwrap | .simpleKeysPopUnwrap
  | .insertTokenAssert | .tokenNumberUnderflow => True
  | _ => False

/-- `s'` differs from `s` only in input, mark, flags, and by tokens appended at the back -/
structure Frame (s s' : Sc) : Prop where
  indent : s'.indent = s.indent
  indents : s'.indents = s.indents
  keys : s'.simpleKeys = s.simpleKeys
  flow : s'.flowLevel = s.flowLevel
  parsed : s'.tokensParsed = s.tokensParsed
  started : s'.streamStartProduced = s.streamStartProduced
  toks : ∃ extra, s'.tokens = s.tokens ++ extra

theorem Frame.refl (s : Sc) : Frame s s := ⟨rfl, rfl, rfl, rfl, rfl, rfl, ⟨[], by simp⟩⟩
theorem Frame.trans {a b c : Sc} (h1 : Frame a b) (h2 : Frame b c) : Frame a c := by
  obtain ⟨e1, he1⟩ := h1.toks; obtain ⟨e2, he2⟩ := h2.toks
  exact ⟨h2.indent.trans h1.indent, h2.indents.trans h1.indents, h2.keys.trans h1.keys,
    h2.flow.trans h1.flow, h2.parsed.trans h1.parsed, h2.started.trans h1.started,
    ⟨e1 ++ e2, by rw [he2, he1, List.append_assoc]⟩⟩

/-- input-level: panics of input operations are never structural sites -/
structure NoStruct (m : M In α) : Prop where
  out : ∀ i p, m i = .panic p → ¬ StructSite p

/-- `m` only frames the state and never hits a structural panic site -/
structure Frames (m : S α) : Prop where
  out : ∀ s, match m s with
    | .ok (_, s') => Frame s s'
    | .err _ => True
    | .panic p => ¬ StructSite p

theorem Frames.pure (a : α) : Frames (Pure.pure a : S α) := ⟨fun s => Frame.refl s⟩

theorem Frames.bind {m : S α} {f : α → S β} (h1 : Frames m) (h2 : ∀ a, Frames (f a)) :
    Frames (m >>= f) := by
  constructor
  intro s
  have := h1.out s
  simp only [Bind.bind]
  cases hm : m s with
  | ok r =>
    obtain ⟨a, s'⟩ := r
    simp only [hm] at this ⊢
    have h := (h2 a).out s'
    cases hf : f a s' with
    | ok r2 => obtain ⟨b, s''⟩ := r2; simp only [hf] at h ⊢; exact this.trans h
    | err e => trivial
    | panic p => simp only [hf] at h ⊢; exact h
  | err e => trivial
  | panic p => simp only [hm] at this ⊢; exact this

theorem Frames.ite {c : Prop} [Decidable c] {a b : S α} (ha : Frames a) (hb : Frames b) :
    Frames (if c then a else b) := by split <;> assumption

theorem Frames.getS : Frames (getS : S Sc) := ⟨fun s => Frame.refl s⟩
theorem Frames.err (m : Marker) (msg : String) : Frames (err m msg : S α) := ⟨fun _ => trivial⟩
theorem Frames.panicFuel : Frames (panicAt .fuel : S α) := ⟨fun _ => by simp [panicAt, StructSite]⟩

theorem Frames.liftI (m : M In α) (h : NoStruct m) : Frames (liftI m) := by
  constructor
  intro s
  unfold Sc.liftI
  cases hm : m s.inp with
  | ok r => exact ⟨rfl, rfl, rfl, rfl, rfl, rfl, ⟨[], (List.append_nil _).symm⟩⟩
  | err e => trivial
  | panic p => exact h.out _ _ hm

/-- a state update that leaves the structural fields alone -/
theorem Frames.modS (f : Sc → Sc) (h : ∀ s, Frame s (f s)) : Frames (modS f) := ⟨fun s => h s⟩

theorem Frames.getMark : Frames getMark := ⟨fun s => Frame.refl s⟩
theorem Frames.advance (n : Nat) : Frames (advance n) :=
  Frames.modS _ fun _ => ⟨rfl, rfl, rfl, rfl, rfl, rfl, ⟨[], by simp⟩⟩
theorem Frames.pushTok (sp : Span) (t : TokenType) : Frames (pushTok sp t) :=
  Frames.modS _ fun _ => ⟨rfl, rfl, rfl, rfl, rfl, rfl, ⟨[_], rfl⟩⟩

end SaphyrModel.Sc

namespace SaphyrModel.Sc
open SaphyrModel

theorem NoStruct.pure (a : α) : NoStruct (Pure.pure a : M In α) := by
  constructor; intro i p h; simp [Pure.pure] at h
theorem NoStruct.bind {m : M In α} {f : α → M In β} (h1 : NoStruct m) (h2 : ∀ a, NoStruct (f a)) :
    NoStruct (m >>= f) := by
  constructor
  intro i p h
  simp only [Bind.bind] at h
  cases hm : m i with
  | ok r => obtain ⟨a, i'⟩ := r; simp only [hm] at h; exact (h2 a).out i' p h
  | err e => simp [hm] at h
  | panic q => simp only [hm, Res.panic.injEq] at h; subst h; exact h1.out i q hm
theorem NoStruct.ite {c : Prop} [Decidable c] {a b : M In α} (ha : NoStruct a) (hb : NoStruct b) :
    NoStruct (if c then a else b) := by split <;> assumption
theorem NoStruct.panicAt {s : Site} (h : ¬ StructSite s) : NoStruct (panicAt s : M In α) := by
  constructor; intro i p hp; simp [Sc.panicAt] at hp; subst hp; exact h

/-- every primitive input operation: by unfolding and inspecting the (few) panic constructors -/
macro "nostruct_prim" f:ident : tactic =>
  `(tactic| (constructor; intro i p h; unfold $f at h; (repeat' split at h) <;> (first | (simp at h; done) | (cases h; simp [StructSite]) | skip)))

theorem NoStruct.lookahead (n) : NoStruct (In.lookahead n) := by nostruct_prim In.lookahead
theorem NoStruct.skip : NoStruct In.skip := by nostruct_prim In.skip
theorem NoStruct.skipN (n) : NoStruct (In.skipN n) := by nostruct_prim In.skipN
theorem NoStruct.peek : NoStruct In.peek := by nostruct_prim In.peek
theorem NoStruct.peekNth (n) : NoStruct (In.peekNth n) := by nostruct_prim In.peekNth
theorem NoStruct.rawRead : NoStruct In.rawReadNonBreakzCh := by nostruct_prim In.rawReadNonBreakzCh
theorem NoStruct.assertBuflen (n s) (hs : ¬ StructSite s) : NoStruct (In.assertBuflen n s) := by
  constructor; intro i p h; unfold In.assertBuflen at h; (repeat' split at h) <;> first | (simp at h; done) | (cases h; exact hs)

end SaphyrModel.Sc

namespace SaphyrModel.Sc
open SaphyrModel

macro "nostruct" : tactic => `(tactic|
  repeat' (first
    | exact NoStruct.pure _
    | exact NoStruct.lookahead _ | exact NoStruct.skip | exact NoStruct.skipN _ | exact NoStruct.peek
    | exact NoStruct.peekNth _ | exact NoStruct.rawRead
    | exact NoStruct.assertBuflen _ _ (by simp [StructSite])
    | exact NoStruct.panicAt (by simp [StructSite])
    | assumption
    | apply_assumption
    | apply NoStruct.bind
    | apply NoStruct.ite
    | intro _
    | split))

theorem NoStruct.lookCh : NoStruct In.lookCh := by unfold In.lookCh; nostruct
theorem NoStruct.nextCharIs (c) : NoStruct (In.nextCharIs c) := by unfold In.nextCharIs; nostruct
theorem NoStruct.nthCharIs (n c) : NoStruct (In.nthCharIs n c) := by unfold In.nthCharIs; nostruct

/-- operations written as `fun i => match i.kind with | .str => .ok … | .buf => (do …) i` -/
theorem NoStruct.kindSplit {f : In → Res (α × In)} {g : M In α}
    (hf : ∀ i p, f i ≠ .panic p ∨ ¬ StructSite p) (hg : NoStruct g) :
    NoStruct (fun i => match i.kind with | .str => f i | .buf => g i) := by
  constructor
  intro i p h
  try dsimp only at h
  split at h
  · rcases hf i p with h' | h'
    · exact absurd h h'
    · exact h'
  · exact hg.out i p h

theorem NoStruct.next2Are (a b) : NoStruct (In.next2Are a b) := by
  unfold In.next2Are
  apply NoStruct.kindSplit
  · intro i p; left; simp
  · nostruct

theorem NoStruct.nextIs (q : Char → Bool) (e : Bool) : NoStruct (In.nextIs q e) := by
  unfold In.nextIs
  apply NoStruct.kindSplit
  · intro i p; left; split <;> simp
  · nostruct

-- scanner level ---------------------------------------------------------------------------------

macro "frames" : tactic => `(tactic|
  repeat' (first
    | exact Frames.pure _
    | exact Frames.getS | exact Frames.getMark | exact Frames.advance _ | exact Frames.pushTok _ _
    | exact Frames.err _ _ | exact Frames.panicFuel
    | (apply Frames.liftI; first
        | exact NoStruct.lookahead _ | exact NoStruct.skip | exact NoStruct.skipN _ | exact NoStruct.peek
        | exact NoStruct.peekNth _ | exact NoStruct.lookCh | exact NoStruct.next2Are _ _
        | exact NoStruct.nextIs _ _ | exact NoStruct.nextCharIs _ | exact NoStruct.nthCharIs _ _
        | exact NoStruct.rawRead)
    | (apply Frames.modS; intro s; exact ⟨rfl, rfl, rfl, rfl, rfl, rfl, ⟨[], (List.append_nil _).symm⟩⟩)
    | assumption
    | apply_assumption
    | apply Frames.bind
    | apply Frames.ite
    | intro _
    | split))

theorem Frames.lookahead (n) : Frames (lookahead n) := by unfold Sc.lookahead; frames
theorem Frames.peek : Frames peek := by unfold Sc.peek; frames
theorem Frames.peekNth (n) : Frames (peekNth n) := by unfold Sc.peekNth; frames
theorem Frames.lookCh : Frames lookCh := by unfold Sc.lookCh; frames
theorem Frames.skipBlank : Frames skipBlank := by unfold Sc.skipBlank; frames
theorem Frames.skipNonBlank : Frames skipNonBlank := by unfold Sc.skipNonBlank; frames
theorem Frames.skipNNonBlank (n) : Frames (skipNNonBlank n) := by unfold Sc.skipNNonBlank; frames
theorem Frames.skipNl : Frames skipNl := by unfold Sc.skipNl; frames
theorem Frames.skipLinebreak : Frames skipLinebreak := by
  unfold Sc.skipLinebreak In.nextIsBreak
  have := Frames.skipBlank; have := Frames.skipNl
  frames
theorem Frames.skipBreak : Frames skipBreak := by
  unfold Sc.skipBreak
  have := Frames.skipBlank; have := Frames.skipNl; have := Frames.peek; have := Frames.peekNth 1
  frames

theorem Frames.scanAnchorGo (fuel : Nat) (str : Str) : Frames (scanAnchorGo fuel str) := by
  induction fuel generalizing str with
  | zero => unfold Sc.scanAnchorGo; frames
  | succ n ih =>
    unfold Sc.scanAnchorGo
    have := Frames.lookCh; have := Frames.skipNonBlank
    have := fun s => ih s
    frames

theorem Frames.scanAnchor (alias : Bool) : Frames (scanAnchor alias) := by
  unfold Sc.scanAnchor
  have := Frames.skipNonBlank
  have := fun f s => Frames.scanAnchorGo f s
  frames

end SaphyrModel.Sc
