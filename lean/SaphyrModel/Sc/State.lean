import SaphyrModel.Sc.Basic
namespace SaphyrModel.Sc
open SaphyrModel

structure SimpleKey where
  possible : Bool
  required : Bool
  tokenNumber : Nat
  mark : Marker
deriving Repr

structure Indent where
  indent : Int
  needsBlockEnd : Bool
deriving Repr

inductive ImplState | possible | inside | explicitMapping | explicitKey
deriving Repr, DecidableEq

inductive Chomping | strip | clip | keep
deriving Repr, DecidableEq

structure Sc where
  inp : In
  mark : Marker
  tokens : List Token
  streamStartProduced : Bool
  streamEndProduced : Bool
  adjacentValueAllowedAt : Nat
  simpleKeyAllowed : Bool
  simpleKeys : List SimpleKey        -- head = top of the Vec
  indent : Int
  indents : List Indent              -- head = top of the Vec
  flowLevel : Nat
  tokensParsed : Nat
  tokenAvailable : Bool
  leadingWhitespace : Bool
  implStates : List ImplState        -- head = top
deriving Repr

abbrev S := M Sc

def mkSc (kind : InKind) (cap : Nat) (text : Str) : Sc :=
  { inp := { kind, cap, buf := [], iter := text, la := 0 }
    mark := ⟨0, 1, 0⟩, tokens := [], streamStartProduced := false, streamEndProduced := false
    adjacentValueAllowedAt := 0, simpleKeyAllowed := true, simpleKeys := [], indent := -1
    indents := [], flowLevel := 0, tokensParsed := 0, tokenAvailable := false
    leadingWhitespace := true, implStates := [] }

/-- lift an input operation -/
def liftI (m : M In α) : S α := fun s =>
  match m s.inp with
  | .ok (a, i) => .ok (a, { s with inp := i })
  | .err e => .err e
  | .panic p => .panic p

def err (m : Marker) (msg : String) : S α := throwE ⟨m, msg⟩
def getMark : S Marker := fun s => .ok (s.mark, s)
def advance (n : Nat) : S Unit :=
  modS fun s => { s with mark := ⟨s.mark.index + n, s.mark.line, s.mark.col + n⟩ }
def pushTok (sp : Span) (t : TokenType) : S Unit := modS fun s => { s with tokens := s.tokens ++ [⟨sp, t⟩] }

def lookahead (n : Nat) : S Unit := liftI (In.lookahead n)
def peek : S Char := liftI In.peek
def peekNth (n : Nat) : S Char := liftI (In.peekNth n)
def lookCh : S Char := liftI In.lookCh
def bufmaxlen : S Nat := fun s => .ok (s.inp.bufmaxlen, s)
def bufIsEmpty : S Bool := fun s => .ok (s.inp.bufIsEmpty, s)

def skipBlank : S Unit := do liftI In.skip; advance 1
def skipNonBlank : S Unit := do liftI In.skip; advance 1; modS fun s => { s with leadingWhitespace := false }
def skipNNonBlank (n : Nat) : S Unit := do
  liftI (In.skipN n); advance n; modS fun s => { s with leadingWhitespace := false }
def skipNl : S Unit := do
  liftI In.skip
  modS fun s => { s with mark := ⟨s.mark.index + 1, s.mark.line + 1, 0⟩, leadingWhitespace := true }

def skipLinebreak : S Unit := do
  if ← liftI (In.next2Are '\r' '\n') then do skipBlank; skipNl
  else if ← liftI In.nextIsBreak then skipNl
  else pure ()

def skipBreak : S Unit := do
  let c ← peek
  let nc ← peekNth 1
  if c == '\r' && nc == '\n' then skipBlank
  skipNl

def allowSimpleKey : S Unit := modS fun s => { s with simpleKeyAllowed := true }
def disallowSimpleKey : S Unit := modS fun s => { s with simpleKeyAllowed := false }

def insertToken (pos : Nat) (tok : Token) : S Unit := fun s =>
  if pos ≤ s.tokens.length then
    .ok ((), { s with tokens := s.tokens.take pos ++ [tok] ++ s.tokens.drop pos })
  else .panic .insertTokenAssert

/-- `sk.token_number - self.tokens_parsed` on `usize` -/
def tokenPos (tokenNumber : Nat) : S Nat := fun s =>
  if tokenNumber ≥ s.tokensParsed then .ok (tokenNumber - s.tokensParsed, s) else .panic .tokenNumberUnderflow

def skipWsToEol (t : SkipTabs) : S SkipTabs := do
  let (n, r) ← liftI (In.skipWsToEol t)
  advance n
  match r with
  | .ok v => pure v
  | .error msg => do err (← getMark) msg

def SkipTabs.foundTabs : SkipTabs → Bool | .result true _ => true | _ => false
def SkipTabs.hasValidYamlWs : SkipTabs → Bool | .result _ true => true | _ => false

-- indentation -----------------------------------------------------------------------------------

/-- first half of `roll_indent`: remove a trailing non-block indent when `indent <= col` -/
def dropNonBlockTop (col : Nat) (s : Sc) : Sc :=
  if s.indent ≤ (col : Int) then
    match s.indents with
    | i :: is => if !i.needsBlockEnd then { s with indent := i.indent, indents := is } else s
    | [] => s
  else s

/-- second half of `roll_indent`: open a block at `col` and emit / back-insert its start token -/
def rollIndentPush (col : Nat) (number : Option Nat) (tok : TokenType) (mark : Marker) : S Unit := do
  let s ← getS
  if s.indent < (col : Int) then do
    modS fun s => { s with indents := ⟨s.indent, true⟩ :: s.indents, indent := col }
    match number with
    | some n => do let pos ← tokenPos n; insertToken pos ⟨Span.empty mark, tok⟩
    | none => pushTok (Span.empty mark) tok
  else pure ()

def rollIndent (col : Nat) (number : Option Nat) (tok : TokenType) (mark : Marker) : S Unit := do
  let s ← getS
  if s.flowLevel > 0 then pure ()
  else do
    modS (dropNonBlockTop col)
    rollIndentPush col number tok mark

def unrollIndentGo (col : Int) : Nat → S Unit
  | 0 => panicAt .fuel
  | fuel + 1 => do
    let s ← getS
    if s.indent > col then
      match s.indents with
      | [] => panicAt .indentsPopUnwrap
      | i :: is => do
        modS fun s => { s with indent := i.indent, indents := is }
        if i.needsBlockEnd then do
          let s ← getS
          pushTok (Span.empty s.mark) .blockEnd
        unrollIndentGo col fuel
    else pure ()

def unrollIndent (col : Int) : S Unit := do
  let s ← getS
  if s.flowLevel > 0 then return ()
  unrollIndentGo col (s.indents.length + 2)

def rollOneColIndent : S Unit := do
  let s ← getS
  if s.flowLevel == 0 && (match s.indents with | i :: _ => i.needsBlockEnd | [] => false) then
    modS fun s => { s with indents := ⟨s.indent, false⟩ :: s.indents, indent := s.indent + 1 }

def unrollNonBlockIndents : S Unit := modS fun s =>
  let rec go (indent : Int) : List Indent → Int × List Indent
    | i :: is => if i.needsBlockEnd then (indent, i :: is) else go i.indent is
    | [] => (indent, [])
  let (ind, is) := go s.indent s.indents
  { s with indent := ind, indents := is }

-- simple keys -----------------------------------------------------------------------------------

/-- `flow_level == 0 && indent == col && indents.last().unwrap().needs_block_end` -/
def requiredKey (s : Sc) : S Bool :=
  if s.flowLevel == 0 && s.indent == (s.mark.col : Int) then
    match s.indents with
    | i :: _ => pure i.needsBlockEnd
    | [] => panicAt .indentsLastUnwrap
  else pure false

def saveSimpleKey : S Unit := do
  let s ← getS
  if s.simpleKeyAllowed then do
    let required ← requiredKey s
    modS fun s => { s with simpleKeys :=
      (⟨true, required, s.tokensParsed + s.tokens.length, s.mark⟩ : SimpleKey) :: s.simpleKeys.tail }

def removeSimpleKey : S Unit := do
  let s ← getS
  match s.simpleKeys with
  | [] => panicAt .simpleKeysLastUnwrap
  | k :: ks =>
    if k.possible && k.required then err s.mark "simple key expected"
    else modS fun s => { s with simpleKeys := { k with possible := false } :: ks }

def staleSimpleKeys : S Unit := do
  let s ← getS
  let stale (sk : SimpleKey) : Bool :=
    sk.possible && s.flowLevel == 0 && (sk.mark.line < s.mark.line || sk.mark.index + 1024 < s.mark.index)
  if s.simpleKeys.any (fun sk => stale sk && sk.required) then
    -- NB: keys are visited bottom-up in Rust; the error does not depend on which one fires,
    -- but keys *before* it have been staled — irrelevant since the error is latched.
    err s.mark "simple key expect ':'"
  else modS fun s => { s with simpleKeys := s.simpleKeys.map fun sk => if stale sk then { sk with possible := false } else sk }

def increaseFlowLevel : S Unit := do
  modS fun s => { s with simpleKeys := ⟨false, false, 0, ⟨0, 0, 0⟩⟩ :: s.simpleKeys }
  let s ← getS
  if s.flowLevel ≥ 255 then err s.mark "recursion limit exceeded"
  else modS fun s => { s with flowLevel := s.flowLevel + 1 }

def decreaseFlowLevel : S Unit := do
  let s ← getS
  if s.flowLevel > 0 then
    match s.simpleKeys with
    | [] => panicAt .simpleKeysPopUnwrap
    | _ :: ks => modS fun s => { s with flowLevel := s.flowLevel - 1, simpleKeys := ks }

def endImplicitMapping (mark : Marker) : S Unit := do
  let s ← getS
  match s.implStates with
  | .inside :: r => do
    modS fun s => { s with implStates := .possible :: r }
    pushTok (Span.empty mark) .flowMappingEnd
  | .explicitKey :: r => modS fun s => { s with implStates := .possible :: r }
  | _ => pure ()

def isWithinBlock : S Bool := fun s => .ok (!s.indents.isEmpty, s)

end SaphyrModel.Sc
