import SaphyrModel.Sc.Frames2
/-! Assembling invariant preservation (`PresS`) over the `fetch_*` functions of the scanner. -/
namespace SaphyrModel.Sc
open SaphyrModel

syntax "pres_close" : tactic
macro_rules | `(tactic| pres_close) => `(tactic| first
    | exact PresS.pure _ | exact PresS.err _ _ | exact PresS.panicFuel | assumption | apply_assumption)
macro_rules | `(tactic| pres_close) => `(tactic| (apply Frames.presS; frames_close))
macro_rules | `(tactic| pres_close) => `(tactic| first
    | exact rollOneColIndent_pres | exact unrollNonBlockIndents_pres | exact removeSimpleKey_pres
    | exact saveSimpleKey_pres | exact staleSimpleKeys_pres | exact increaseFlowLevel_pres
    | exact decreaseFlowLevel_pres | exact rollIndent_none_pres _ _ _
    | exact unrollIndent_pres _ (by omega) | exact pushTok_pres _ _
    | exact valueAfterComplexKey_pres _ _)

/-- state edits that touch only flags / append tokens are frames -/
macro_rules | `(tactic| frames_close) => `(tactic|
  (apply Frames.modS; intro s; refine ⟨?_, ?_, ?_, ?_, ?_, ?_, ?_⟩ <;> (try split) <;>
    first | rfl | exact ⟨[], (List.append_nil _).symm⟩ | exact ⟨[_], rfl⟩))

macro "pres2" : tactic => `(tactic|
  repeat' (first
    | pres_close
    | apply PresS.getS_bind
    | apply PresS.bind
    | apply PresS.ite
    | intro _
    | split))

theorem endImplicitMapping_frames (m : Marker) : Frames (endImplicitMapping m) := by
  unfold endImplicitMapping; frames2
macro_rules | `(tactic| frames_close) => `(tactic| exact endImplicitMapping_frames _)

theorem appendTok_frames (tok : Token) : Frames (modS fun s => { s with tokens := s.tokens ++ [tok] }) :=
  Frames.modS _ fun _ => ⟨rfl, rfl, rfl, rfl, rfl, rfl, ⟨[tok], rfl⟩⟩
macro_rules | `(tactic| frames_close) => `(tactic| exact appendTok_frames _)

theorem fetchDirective_pres : PresS fetchDirective := by unfold fetchDirective; pres2
theorem fetchTag_pres : PresS fetchTag := by unfold fetchTag; pres2
theorem fetchAnchor_pres (a : Bool) : PresS (fetchAnchor a) := by unfold fetchAnchor; pres2
theorem fetchFlowEntry_pres : PresS fetchFlowEntry := by unfold fetchFlowEntry; pres2
theorem fetchDocumentIndicator_pres (t : TokenType) : PresS (fetchDocumentIndicator t) := by
  unfold fetchDocumentIndicator; pres2

set_option maxHeartbeats 4000000 in
theorem scanBlockScalarBody_frames (lit : Bool) (m : Marker) : Frames (scanBlockScalarBody lit m) := by
  unfold scanBlockScalarBody; frames2
macro_rules | `(tactic| frames_close) => `(tactic| exact scanBlockScalarBody_frames _ _)

set_option maxHeartbeats 4000000 in
theorem scanPlainScalarBody_frames : Frames scanPlainScalarBody := by
  unfold scanPlainScalarBody; frames2
macro_rules | `(tactic| frames_close) => `(tactic| exact scanPlainScalarBody_frames)

theorem scanBlockScalar_pres (lit : Bool) : PresS (scanBlockScalar lit) := by
  unfold scanBlockScalar; pres2
theorem scanPlainScalar_pres : PresS scanPlainScalar := by
  unfold scanPlainScalar; pres2
macro_rules | `(tactic| pres_close) => `(tactic| first | exact scanBlockScalar_pres _ | exact scanPlainScalar_pres)

theorem fetchBlockScalar_pres (l : Bool) : PresS (fetchBlockScalar l) := by unfold fetchBlockScalar; pres2
theorem fetchPlainScalar_pres : PresS fetchPlainScalar := by unfold fetchPlainScalar; pres2
theorem fetchFlowScalar_pres (single : Bool) : PresS (fetchFlowScalar single) := by unfold fetchFlowScalar; pres2

end SaphyrModel.Sc
