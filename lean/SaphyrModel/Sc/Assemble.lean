import SaphyrModel.Sc.FramesBody
/-! Assembling invariant preservation (`PresS`) over the `fetch_*` functions of the scanner. -/
namespace SaphyrModel.Sc
open SaphyrModel

syntax "pres_close" : tactic
macro_rules | `(tactic| pres_close) => `(tactic| first
    | exact PresS.pure _ | exact PresS.err _ _ | exact PresS.panicFuel | assumption | apply_assumption)
macro_rules | `(tactic| pres_close) => `(tactic| (apply Frames.presS; frames_close))
macro_rules | `(tactic| pres_close) => `(tactic| first
    | exact rollOneColIndent_pres | exact unrollNonBlockIndents_pres | exact removeSimpleKey_pres
    | exact saveSimpleKey_pres | exact staleSimpleKeys_pres | exact increaseFlowLevel_pres
    | exact decreaseFlowLevel_pres | exact rollIndent_none_pres _ _ _
    | exact unrollIndent_pres _ (by omega) | exact pushTok_pres _ _
    | exact valueAfterComplexKey_pres _ _)

/-- state edits that touch only flags / append tokens are frames -/
macro_rules | `(tactic| frames_close) => `(tactic|
  (apply Frames.modS; intro s; refine ⟨?_, ?_, ?_, ?_, ?_, ?_, ?_⟩ <;> (try split) <;>
    first | rfl | exact ⟨[], (List.append_nil _).symm⟩ | exact ⟨[_], rfl⟩))

macro "pres2" : tactic => `(tactic|
  repeat' (first
    | pres_close
    | apply PresS.getS_bind
    | apply PresS.bind
    | apply PresS.ite
    | intro _
    | split))

theorem endImplicitMapping_frames (m : Marker) : Frames (endImplicitMapping m) := by
  unfold endImplicitMapping; frames2
macro_rules | `(tactic| frames_close) => `(tactic| exact endImplicitMapping_frames _)

theorem appendTok_frames (tok : Token) : Frames (modS fun s => { s with tokens := s.tokens ++ [tok] }) :=
  Frames.modS _ fun _ => ⟨rfl, rfl, rfl, rfl, rfl, rfl, ⟨[tok], rfl⟩⟩
macro_rules | `(tactic| frames_close) => `(tactic| exact appendTok_frames _)

theorem fetchDirective_pres : PresS fetchDirective := by unfold fetchDirective; pres2
theorem fetchTag_pres : PresS fetchTag := by unfold fetchTag; pres2
theorem fetchAnchor_pres (a : Bool) : PresS (fetchAnchor a) := by unfold fetchAnchor; pres2
theorem fetchFlowEntry_pres : PresS fetchFlowEntry := by unfold fetchFlowEntry; pres2
theorem fetchDocumentIndicator_pres (t : TokenType) : PresS (fetchDocumentIndicator t) := by
  unfold fetchDocumentIndicator; pres2

theorem scanBlockScalar_pres (lit : Bool) : PresS (scanBlockScalar lit) := by
  unfold scanBlockScalar; pres2
theorem scanPlainScalar_pres : PresS scanPlainScalar := by
  unfold scanPlainScalar; pres2
macro_rules | `(tactic| pres_close) => `(tactic| first | exact scanBlockScalar_pres _ | exact scanPlainScalar_pres)

theorem fetchBlockScalar_pres (l : Bool) : PresS (fetchBlockScalar l) := by unfold fetchBlockScalar; pres2
theorem fetchPlainScalar_pres : PresS fetchPlainScalar := by unfold fetchPlainScalar; pres2
theorem fetchFlowScalar_pres (single : Bool) : PresS (fetchFlowScalar single) := by unfold fetchFlowScalar; pres2

theorem popExplicitMapping_frames : Frames (modS popExplicitMapping) := by
  apply Frames.modS; intro s
  unfold popExplicitMapping
  split <;> exact ⟨rfl, rfl, rfl, rfl, rfl, rfl, ⟨[], (List.append_nil _).symm⟩⟩
macro_rules | `(tactic| frames_close) => `(tactic| exact popExplicitMapping_frames)

/-- `m >>= f` preserves the invariant when `m` does and `f` does for every result -/
macro "pb " h:term : tactic => `(tactic| (apply PresS.bind $h; intro _))
/-- the same for a step that only frames the state -/
macro "fb " h:term : tactic => `(tactic| (apply PresS.bind (Frames.presS $h); intro _))

theorem pushImplState_frames (st : ImplState) : Frames (modS (pushImplState st)) :=
  Frames.modS _ fun _ => ⟨rfl, rfl, rfl, rfl, rfl, rfl, ⟨[], (List.append_nil _).symm⟩⟩

theorem fetchFlowCollectionStart_pres (t : TokenType) : PresS (fetchFlowCollectionStart t) := by
  unfold fetchFlowCollectionStart
  pb saveSimpleKey_pres
  pb rollOneColIndent_pres
  pb increaseFlowLevel_pres
  fb allowSimpleKey_frames
  apply PresS.bind (Frames.presS Frames.getMark); intro startMark
  fb Frames.skipNonBlank
  fb (pushImplState_frames _)
  fb (Frames.skipWsToEol _)
  apply PresS.bind (Frames.presS Frames.getMark); intro m
  exact pushTok_pres _ _

theorem tailImplStates_frames : Frames (modS fun s => { s with implStates := s.implStates.tail }) :=
  Frames.modS _ fun _ => ⟨rfl, rfl, rfl, rfl, rfl, rfl, ⟨[], (List.append_nil _).symm⟩⟩

theorem adjacentAt_frames :
    Frames (modS fun s => if s.flowLevel > 0 then { s with adjacentValueAllowedAt := s.mark.index } else s) := by
  apply Frames.modS; intro s
  split <;> exact ⟨rfl, rfl, rfl, rfl, rfl, rfl, ⟨[], (List.append_nil _).symm⟩⟩

theorem closeFlowState_frames (t : TokenType) : Frames (closeFlowState t) := by
  unfold closeFlowState
  split
  · apply Frames.bind Frames.getMark; intro m
    apply Frames.bind (endImplicitMapping_frames m); intro _
    exact tailImplStates_frames
  · exact popExplicitMapping_frames

theorem fetchFlowCollectionEnd_pres (t : TokenType) : PresS (fetchFlowCollectionEnd t) := by
  unfold fetchFlowCollectionEnd
  pb removeSimpleKey_pres
  pb decreaseFlowLevel_pres
  fb disallowSimpleKey_frames
  fb (closeFlowState_frames t)
  apply PresS.bind (Frames.presS Frames.getMark); intro startMark
  fb Frames.skipNonBlank
  fb (Frames.skipWsToEol _)
  fb adjacentAt_frames
  apply PresS.bind (Frames.presS Frames.getMark); intro m
  exact pushTok_pres _ _

-- block entry -------------------------------------------------------------------------------------

theorem anchorIndentCheck_frames (s : Sc) : Frames (anchorIndentCheck s) := by
  unfold anchorIndentCheck
  repeat' (first | exact Frames.pure _ | exact Frames.err _ _ | split)

theorem blockEntryTabCheck_frames (r : SkipTabs) : Frames (blockEntryTabCheck r) := by
  unfold blockEntryTabCheck; frames2

theorem rollIfBreakOrFlow_pres : PresS rollIfBreakOrFlow := by
  unfold rollIfBreakOrFlow
  apply PresS.bind (Frames.presS (Frames.liftI _ (NoStruct.nextIs _ _))); intro b
  apply PresS.ite rollOneColIndent_pres
  apply PresS.bind (Frames.presS (Frames.liftI _ (NoStruct.nextIs _ _))); intro b2
  exact PresS.ite rollOneColIndent_pres (PresS.pure _)

theorem fetchBlockEntryTail_pres : PresS fetchBlockEntryTail := by
  unfold fetchBlockEntryTail
  fb (Frames.skipWsToEol _)
  fb (Frames.lookahead _)
  pb rollIfBreakOrFlow_pres
  pb removeSimpleKey_pres
  fb allowSimpleKey_frames
  apply PresS.bind (Frames.presS Frames.getMark); intro m
  exact pushTok_pres _ _

theorem fetchBlockEntryBody_pres (s : Sc) : PresS (fetchBlockEntryBody s) := by
  unfold fetchBlockEntryBody
  fb (anchorIndentCheck_frames s)
  fb Frames.skipNonBlank
  pb (rollIndent_none_pres _ _ _)
  apply PresS.bind (Frames.presS (Frames.skipWsToEol _)); intro r
  fb (Frames.lookahead _)
  apply PresS.bind (Frames.presS (blockEntryTabCheck_frames r)); intro bad
  apply PresS.ite
  · apply PresS.bind (Frames.presS Frames.getMark); intro m
    exact PresS.err _ _
  · exact fetchBlockEntryTail_pres

theorem fetchBlockEntry_pres : PresS fetchBlockEntry := by
  unfold fetchBlockEntry
  apply PresS.getS_bind; intro s
  apply PresS.ite (PresS.err _ _)
  apply PresS.ite (PresS.err _ _)
  exact fetchBlockEntryBody_pres s

-- key -----------------------------------------------------------------------------------------------

theorem markExplicitKey_frames : Frames (modS markExplicitKey) := by
  apply Frames.modS; intro s
  unfold markExplicitKey
  repeat' (first | exact ⟨rfl, rfl, rfl, rfl, rfl, rfl, ⟨[], (List.append_nil _).symm⟩⟩ | split)

theorem keyPrologue_pres (s : Sc) : PresS (keyPrologue s) := by
  unfold keyPrologue
  apply PresS.ite
  · exact PresS.ite (PresS.err _ _) (rollIndent_none_pres _ _ _)
  · exact markExplicitKey_frames.presS

theorem fetchKeyTail_pres (m0 : Marker) : PresS (fetchKeyTail m0) := by
  unfold fetchKeyTail
  fb Frames.skipNonBlank
  fb Frames.skipYamlWhitespace
  apply PresS.bind (Frames.presS Frames.peek); intro c
  apply PresS.bind (Frames.presS Frames.getMark); intro m
  exact PresS.ite (PresS.err _ _) (pushTok_pres _ _)

theorem fetchKey_pres : PresS fetchKey := by
  unfold fetchKey
  apply PresS.getS_bind; intro s
  pb (keyPrologue_pres s)
  pb removeSimpleKey_pres
  apply PresS.bind
  · exact PresS.ite allowSimpleKey_frames.presS disallowSimpleKey_frames.presS
  · intro _; exact fetchKeyTail_pres _

-- value ---------------------------------------------------------------------------------------------

theorem HeadKey.stable (sk : SimpleKey) : Stable (HeadKey sk) := by
  intro s s' h f
  exact ⟨InvS.stable s s' h.1 f, by rw [f.keys]; exact h.2⟩

theorem valueTabCheck_frames : Frames valueTabCheck := by
  unfold valueTabCheck; frames2

theorem setInside_frames : Frames (modS fun s => { s with implStates := .inside :: s.implStates.tail }) :=
  Frames.modS _ fun _ => ⟨rfl, rfl, rfl, rfl, rfl, rfl, ⟨[], (List.append_nil _).symm⟩⟩

theorem fetchValue_pres : PresS fetchValue := by
  unfold fetchValue
  apply Tr.getS_bind; intro s0
  split
  · -- `simple_keys.last().unwrap()`: the key stack is never empty once the stream has started
    rename_i hk
    apply Tr.panicAt
    rintro s ⟨hs, rfl⟩
    exact hs.keys_ne hk
  · rename_i sk rest hk
    -- from here on the head key is `sk`
    have hpre : ∀ s, (InvS s ∧ s = s0) → HeadKey sk s := by
      rintro s ⟨hs, rfl⟩; exact ⟨hs, by simp [hk]⟩
    apply Tr.conseq (P := HeadKey sk) ?_ hpre (fun _ _ h => h)
    apply Tr.bind (R := fun _ => HeadKey sk)
    · apply Tr.ite
      · intro _; exact setInside_frames.tr (HeadKey.stable sk)
      · intro _; exact Tr.pure _ (fun _ h => h)
    · intro _
      apply Tr.bind (Frames.skipNonBlank.tr (HeadKey.stable sk)); intro _
      apply Tr.bind (valueTabCheck_frames.tr (HeadKey.stable sk)); intro tabErr
      apply Tr.ite
      · intro _
        apply Tr.bind (Frames.getMark.tr (HeadKey.stable sk)); intro m
        exact Tr.err _ _
      · intro _
        apply Tr.bind (R := fun _ => InvS)
        · apply Tr.ite
          · intro hp; exact valueAfterSimpleKey_pres sk hp _ _
          · intro _; exact Tr.conseq (valueAfterComplexKey_pres _ _) (fun _ h => h.1) (fun _ _ h => h)
        · intro _; exact pushTok_pres _ _

theorem fetchFlowValue_pres : PresS fetchFlowValue := by
  unfold fetchFlowValue
  apply PresS.bind (Frames.presS (Frames.peekNth _)); intro nc
  apply PresS.getS_bind; intro s
  exact PresS.ite (PresS.err _ _) fetchValue_pres

-- stream start / end ----------------------------------------------------------------------------------

/-- the scanner state before the first token was fetched -/
structure Init (s : Sc) : Prop where
  started : s.streamStartProduced = false
  keys : s.simpleKeys = []
  flow : s.flowLevel = 0
  indents : s.indents = []
  toks : s.tokens = []

/-- an input operation keeps every property that does not look at the input -/
theorem liftI_tr {m : M In α} (h : NoStruct m) {P : Sc → Prop} (hP : ∀ s i, P s → P { s with inp := i }) :
    Tr P (liftI m) (fun _ => P) := by
  intro s hs
  simp only [liftI]
  cases hm : m s.inp with
  | ok r => obtain ⟨a, i⟩ := r; exact hP s i hs
  | err e => trivial
  | panic p => exact h.out _ _ hm

theorem fetchStreamStart_tr : Tr Init fetchStreamStart (fun _ => InvS) := by
  intro s h
  simp only [fetchStreamStart, Bind.bind, getMark, Sc.modS, pushTok]
  refine ⟨⟨?_, ?_, ?_⟩, rfl⟩
  · simp [h.indents, WFInd]
  · intro _; simp [h.keys, h.flow]
  · intro sk hsk hp
    simp [h.keys] at hsk
    subst hsk
    simp at hp

theorem clearPossibleKeys_inv (s : Sc) (h : InvS s) : InvS (clearPossibleKeys s) := by
  refine ⟨⟨h.ind, ?_, ?_⟩, h.started⟩
  · intro hs; simpa [clearPossibleKeys] using h.keys hs
  · intro sk hsk hp
    simp only [clearPossibleKeys, List.mem_map] at hsk
    obtain ⟨sk0, _, rfl⟩ := hsk
    simp at hp

theorem forceNewLine_frames :
    Frames (modS fun s => if s.mark.col != 0 then { s with mark := ⟨s.mark.index, s.mark.line + 1, 0⟩ } else s) := by
  apply Frames.modS; intro s
  split <;> exact ⟨rfl, rfl, rfl, rfl, rfl, rfl, ⟨[], (List.append_nil _).symm⟩⟩

theorem fetchStreamEnd_pres : PresS fetchStreamEnd := by
  unfold fetchStreamEnd
  fb forceNewLine_frames
  apply PresS.getS_bind; intro s
  apply PresS.bind
  · exact PresS.ite (PresS.err _ _) (PresS.pure _)
  · intro _
    apply PresS.bind (m := modS clearPossibleKeys)
    · intro s hs; exact clearPossibleKeys_inv s hs
    · intro _
      pb (unrollIndent_pres _ (by omega))
      pb removeSimpleKey_pres
      fb disallowSimpleKey_frames
      apply PresS.bind (Frames.presS Frames.getMark); intro m
      exact pushTok_pres _ _

-- the fetch loop --------------------------------------------------------------------------------------

theorem fetchDocumentEndMarker_pres : PresS fetchDocumentEndMarker := by
  unfold fetchDocumentEndMarker
  pb (fetchDocumentIndicator_pres _)
  fb (Frames.skipWsToEol _)
  apply PresS.bind (Frames.presS (Frames.liftI _ (NoStruct.nextIs _ _))); intro ok
  apply PresS.bind (Frames.presS Frames.getMark); intro m
  exact PresS.ite (PresS.err _ _) (PresS.pure _)

theorem fetchSpecial_pres : PresS fetchSpecial := by
  unfold fetchSpecial
  apply PresS.getS_bind; intro s
  apply PresS.ite
  · apply PresS.bind (Frames.presS (Frames.liftI _ (NoStruct.nextCharIs _))); intro b
    apply PresS.ite
    · pb fetchDirective_pres; exact PresS.pure _
    · apply PresS.bind (Frames.presS (Frames.liftI _ NoStruct.docStart)); intro b2
      apply PresS.ite
      · pb (fetchDocumentIndicator_pres _); exact PresS.pure _
      · apply PresS.bind (Frames.presS (Frames.liftI _ NoStruct.docEnd)); intro b3
        exact PresS.ite fetchDocumentEndMarker_pres (PresS.pure _)
  · exact PresS.pure _

theorem fetchDispatch_pres : PresS fetchDispatch := by
  unfold fetchDispatch
  apply PresS.getS_bind; intro s
  apply PresS.ite (PresS.err _ _)
  apply PresS.bind (Frames.presS Frames.peek); intro c
  apply PresS.bind (Frames.presS (Frames.peekNth _)); intro nc
  apply PresS.ite (fetchFlowCollectionStart_pres _)
  apply PresS.ite (fetchFlowCollectionStart_pres _)
  apply PresS.ite (fetchFlowCollectionEnd_pres _)
  apply PresS.ite (fetchFlowCollectionEnd_pres _)
  apply PresS.ite fetchFlowEntry_pres
  apply PresS.ite fetchBlockEntry_pres
  apply PresS.ite fetchKey_pres
  apply PresS.ite fetchValue_pres
  apply PresS.ite fetchFlowValue_pres
  apply PresS.ite (fetchAnchor_pres _)
  apply PresS.ite (fetchAnchor_pres _)
  apply PresS.ite fetchTag_pres
  apply PresS.ite (fetchBlockScalar_pres _)
  apply PresS.ite (fetchBlockScalar_pres _)
  apply PresS.ite (fetchFlowScalar_pres _)
  apply PresS.ite (fetchFlowScalar_pres _)
  apply PresS.ite fetchPlainScalar_pres
  apply PresS.ite fetchPlainScalar_pres
  apply PresS.ite (PresS.err _ _)
  exact fetchPlainScalar_pres

theorem fetchAfterStart_pres : PresS fetchAfterStart := by
  unfold fetchAfterStart
  fb Frames.skipToNextToken
  pb staleSimpleKeys_pres
  apply PresS.bind (Frames.presS Frames.getMark); intro mark
  pb (unrollIndent_pres _ (by omega))
  fb (Frames.lookahead _)
  apply PresS.bind (Frames.presS (Frames.liftI _ (NoStruct.nextIs _ _))); intro z
  apply PresS.ite fetchStreamEnd_pres
  apply PresS.bind fetchSpecial_pres; intro special
  exact PresS.ite (PresS.pure _) fetchDispatch_pres

/-- before or after the stream start -/
def Pre (s : Sc) : Prop := InvS s ∨ Init s

theorem Pre.inp (s : Sc) (i : In) (h : Pre s) : Pre { s with inp := i } := by
  rcases h with h | h
  · exact Or.inl ⟨⟨h.ind, h.keys, h.nums⟩, h.started⟩
  · exact Or.inr ⟨h.started, h.keys, h.flow, h.indents, h.toks⟩

/-- `fetch_next_token` establishes the structural invariant (first call) and preserves it (later calls) -/
theorem fetchNextToken_tr : Tr Pre fetchNextToken (fun _ => InvS) := by
  unfold fetchNextToken
  apply Tr.bind (liftI_tr (NoStruct.lookahead 1) Pre.inp); intro _
  apply Tr.getS_bind; intro s0
  apply Tr.ite
  · intro hns
    apply Tr.conseq fetchStreamStart_tr ?_ (fun _ _ h => h)
    rintro s ⟨hp, rfl⟩
    rcases hp with h | h
    · have := h.started; simp [this] at hns
    · exact h
  · intro hs
    apply Tr.conseq fetchAfterStart_pres ?_ (fun _ _ h => h)
    rintro s ⟨hp, rfl⟩
    rcases hp with h | h
    · exact h
    · have := h.started; simp [this] at hs

/-- no possible simple key refers to the token at the front of the queue -/
def Front (s : Sc) : Prop := ∀ sk ∈ s.simpleKeys, sk.possible = true → sk.tokenNumber ≠ s.tokensParsed

theorem staleSimpleKeys_toks :
    Tr (fun s => InvS s ∧ s.tokens ≠ []) staleSimpleKeys (fun _ s => InvS s ∧ s.tokens ≠ []) := by
  unfold staleSimpleKeys
  apply Tr.getS_bind; intro s0
  simp only
  apply Tr.ite
  · intro _; exact Tr.err _ _
  · intro _
    apply Tr.modS'
    rintro s ⟨⟨hs, ht⟩, rfl⟩
    refine ⟨⟨⟨hs.ind, ?_, ?_⟩, hs.started⟩, ht⟩
    · intro _; simpa using hs.keysLen
    · intro sk hsk hp
      simp only [List.mem_map] at hsk
      obtain ⟨sk0, hsk0, rfl⟩ := hsk
      split at hp
      · simp at hp
      · rename_i hc
        simp only [hc, if_false]
        exact hs.nums sk0 hsk0 hp

/-- `needMoreTokens` answers `false` only in a state where the front token can be delivered -/
theorem needMoreTokens_tr :
    Tr Pre needMoreTokens (fun needMore s => Pre s ∧ (needMore = false → InvS s ∧ Front s ∧ s.tokens ≠ [])) := by
  unfold needMoreTokens
  apply Tr.getS_bind; intro s0
  apply Tr.ite
  · intro _; exact Tr.pure _ (fun s h => ⟨h.1, by simp⟩)
  · intro hne
    apply Tr.bind (R := fun _ s => InvS s ∧ s.tokens ≠ [])
    · apply Tr.conseq staleSimpleKeys_toks ?_ (fun _ _ h => h)
      rintro s ⟨hp, rfl⟩
      have ht : s.tokens ≠ [] := by
        intro h; apply hne; simp [h]
      rcases hp with h | h
      · exact ⟨h, ht⟩
      · -- tokens are queued, so the stream has started
        exact absurd h.toks ht
    · intro _
      apply Tr.getS_bind; intro s1
      apply Tr.pure
      rintro s ⟨⟨hs, ht⟩, rfl⟩
      refine ⟨Or.inl hs, fun hf => ⟨hs, ?_, ht⟩⟩
      intro sk hsk hp heq
      have : (s.simpleKeys.any fun sk => sk.possible && sk.tokenNumber == s.tokensParsed) = true := by
        rw [List.any_eq_true]; exact ⟨sk, hsk, by simp [hp, heq]⟩
      rw [this] at hf; exact Bool.noConfusion hf

theorem fetchMoreTokens_tr (fuel : Nat) :
    Tr Pre (fetchMoreTokens fuel) (fun _ s => InvS s ∧ Front s ∧ s.tokens ≠ [] ∧ s.tokenAvailable = true) := by
  induction fuel with
  | zero => unfold fetchMoreTokens; exact Tr.panicFuel
  | succ n ih =>
    unfold fetchMoreTokens
    apply Tr.bind needMoreTokens_tr; intro needMore
    apply Tr.ite
    · intro _
      apply Tr.bind (Tr.conseq fetchNextToken_tr (fun _ h => h.1) (fun _ _ h => h)); intro _
      exact Tr.conseq ih (fun _ h => Or.inl h) (fun _ _ h => h)
    · intro hn
      apply Tr.modS'
      intro s hs
      have h2 := hs.2 (by simpa using hn)
      exact ⟨⟨⟨h2.1.ind, h2.1.keys, h2.1.nums⟩, h2.1.started⟩, h2.2.1, h2.2.2, rfl⟩

/-- delivering the front token keeps the invariant, because no possible key points at it -/
theorem popToken_tr :
    Tr (fun s => InvS s ∧ Front s ∧ s.tokens ≠ []) popToken (fun _ s => InvS s ∧ s.tokenAvailable = false) := by
  unfold popToken
  apply Tr.getS_bind; intro s0
  split
  · exact Tr.err _ _
  · rename_i t ts ht
    apply Tr.bind (R := fun _ s => InvS s ∧ s.tokenAvailable = false)
    · apply Tr.modS'
      rintro s ⟨⟨hs, hf, _⟩, rfl⟩
      refine ⟨⟨⟨hs.ind, hs.keys, ?_⟩, hs.started⟩, rfl⟩
      intro sk hsk hp
      have h1 := hs.nums sk hsk hp
      have h2 := hf sk hsk hp
      simp only [ht, List.length_cons] at h1
      show s.tokensParsed + 1 ≤ sk.tokenNumber ∧ sk.tokenNumber ≤ s.tokensParsed + 1 + ts.length
      constructor <;> omega
    · intro _; exact Tr.pure _ (fun _ h => h)

/-- what holds between two calls of `Scanner::next` -/
def Between (s : Sc) : Prop := Pre s ∧ s.tokenAvailable = false

theorem nextToken_tr : Tr Between nextToken (fun _ => Between) := by
  unfold nextToken
  apply Tr.getS_bind; intro s0
  apply Tr.ite
  · intro _; exact Tr.pure _ (fun _ h => h.1)
  · intro _
    apply Tr.bind (R := fun _ s => InvS s ∧ Front s ∧ s.tokens ≠ [])
    · apply Tr.ite
      · intro _
        exact Tr.conseq (fetchMoreTokens_tr _) (fun _ h => h.1.1) (fun _ _ h => ⟨h.1, h.2.1, h.2.2.1⟩)
      · intro hta
        intro s hs
        obtain ⟨⟨_, hf⟩, rfl⟩ := hs
        simp [hf] at hta
    · intro _
      exact Tr.conseq popToken_tr (fun _ h => h) (fun _ _ h => ⟨Or.inl h.1, h.2⟩)

theorem mkSc_between (kind : InKind) (cap : Nat) (text : Str) : Between (mkSc kind cap text) :=
  ⟨Or.inr ⟨rfl, rfl, rfl, rfl, rfl⟩, rfl⟩

/-- **No structural panic.**  Whatever the input, the back-end and its capacity, the scanner never reaches
`indents.pop().unwrap()`, `indents.last().unwrap()`, `simple_keys.last().unwrap()`, `simple_keys.pop().unwrap()`,
the `assert!` of `insert_token` or the subtraction `token_number - tokens_parsed`. -/
theorem scanAll_no_struct_panic (fuel : Nat) (s : Sc) (acc : List Token) (h : Between s) (p : Site)
    (hp : (scanAll fuel s acc).2.1 = .panic p) : ¬ StructSite p := by
  induction fuel generalizing s acc with
  | zero => simp only [scanAll] at hp; cases hp; simp [StructSite]
  | succ n ih =>
    have h1 := nextToken_tr s h
    simp only [scanAll] at hp
    cases hn : nextToken s with
    | ok r =>
      obtain ⟨o, s'⟩ := r
      simp only [hn] at h1 hp
      cases o with
      | some t => exact ih s' _ h1 hp
      | none => simp at hp
    | err e => simp [hn] at hp
    | panic q =>
      simp only [hn] at h1 hp
      cases hp; exact h1

end SaphyrModel.Sc
