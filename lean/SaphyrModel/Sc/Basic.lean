import SaphyrModel.Parser
/-! Scanner prototype: result monad, char classes, input models (StrInput / BufferedInput). -/
namespace SaphyrModel.Sc
open SaphyrModel

inductive Site
  | lookaheadOverflow | pushBackFull | peekEmpty | peekNthOOB | skipNOOB | skipEmpty
  | assertBuflen2 | assertBuflen3 | assertBuflen4
  | strPlainEmpty | strSkipWsAssert
  | indentsPopUnwrap | indentsLastUnwrap | simpleKeysLastUnwrap | simpleKeysPopUnwrap
  | implicitStatesLastUnwrap | insertTokenAssert | tokenNumberUnderflow | asHexUnreachable
  | fuel
deriving Repr, DecidableEq

inductive Res (α : Type) where
  | ok (a : α)
  | err (e : ScanError)
  | panic (p : Site)
deriving Repr

def M (σ α : Type) := σ → Res (α × σ)

instance : Monad (M σ) where
  pure a := fun s => .ok (a, s)
  bind m f := fun s => match m s with
    | .ok (a, s') => f a s'
    | .err e => .err e
    | .panic p => .panic p

@[inline] def getS : M σ σ := fun s => .ok (s, s)
@[inline] def setS (s : σ) : M σ Unit := fun _ => .ok ((), s)
@[inline] def modS (f : σ → σ) : M σ Unit := fun s => .ok ((), f s)
@[inline] def throwE (e : ScanError) : M σ α := fun _ => .err e
@[inline] def panicAt (p : Site) : M σ α := fun _ => .panic p

-- char_traits.rs
def isZ (c : Char) : Bool := c == '\x00'
def isBreak (c : Char) : Bool := c == '\n' || c == '\r'
def isBreakz (c : Char) : Bool := isBreak c || isZ c
def isBlank (c : Char) : Bool := c == ' ' || c == '\t'
def isBlankOrBreakz (c : Char) : Bool := isBlank c || isBreakz c
def isDigit (c : Char) : Bool := '0' ≤ c && c ≤ '9'
def isAlpha (c : Char) : Bool :=
  ('0' ≤ c && c ≤ '9') || ('a' ≤ c && c ≤ 'z') || ('A' ≤ c && c ≤ 'Z') || c == '_' || c == '-'
def isHex (c : Char) : Bool := ('0' ≤ c && c ≤ '9') || ('a' ≤ c && c ≤ 'f') || ('A' ≤ c && c ≤ 'F')
def asHex (c : Char) : Nat :=
  if '0' ≤ c && c ≤ '9' then c.toNat - '0'.toNat
  else if 'a' ≤ c && c ≤ 'f' then c.toNat - 'a'.toNat + 10
  else c.toNat - 'A'.toNat + 10
def isFlow (c : Char) : Bool := c == ',' || c == '[' || c == ']' || c == '{' || c == '}'
def isBom (c : Char) : Bool := c == '﻿'
def isYamlNonBreak (c : Char) : Bool := !isBreak c && !isBom c
def isYamlNonSpace (c : Char) : Bool := isYamlNonBreak c && !isBlank c
def isAnchorChar (c : Char) : Bool := isYamlNonSpace c && !isFlow c && !isZ c
def isWordChar (c : Char) : Bool := isAlpha c && c != '_'
def isUriChar (c : Char) : Bool := isWordChar c || "#;/?:@&=+$,_.!~*'()[]%".toList.contains c
def isTagChar (c : Char) : Bool := isUriChar c && !isFlow c && c != '!'

inductive InKind | str | buf
deriving Repr, DecidableEq

/-- Model of an `Input`. `.buf`: `buf` is the ring buffer, `iter` the not-yet-pulled characters.
    `.str`: `iter` is the remaining string, `la` the max look-ahead requested, `buf` unused. -/
structure In where
  kind : InKind
  cap : Nat
  buf : Str
  iter : Str
  la : Nat
deriving Repr

inductive SkipTabs | yes | no | result (tabs ws : Bool)
deriving Repr, DecidableEq

namespace In

def lookahead (n : Nat) : M In Unit := fun i =>
  match i.kind with
  | .str => .ok ((), { i with la := max i.la n })
  | .buf =>
    if i.buf.length ≥ n then .ok ((), i)
    else if n > i.cap then .panic .lookaheadOverflow
    else
      let k := n - i.buf.length
      let pulled := i.iter.take k
      let pad := List.replicate (k - pulled.length) '\x00'
      .ok ((), { i with buf := i.buf ++ pulled ++ pad, iter := i.iter.drop k })

def buflen (i : In) : Nat := match i.kind with | .str => i.la | .buf => i.buf.length
def bufmaxlen (i : In) : Nat := i.cap
def bufIsEmpty (i : In) : Bool := i.buflen == 0

/-- `skip`. On a buffered input the `Input` contract demands a look-ahead request before every
    consumption; `BufferedInput::skip` on an empty ring is a silent `pop_front` of nothing. The model
    stops there (`skipEmpty`): no theorem may lean on that silent no-op, and if the scanner ever did it
    the token correspondence would show the model stopping where the implementation goes on. -/
def skip : M In Unit := fun i =>
  match i.kind with
  | .str => .ok ((), { i with iter := i.iter.tail })
  | .buf => match i.buf with
    | [] => .panic .skipEmpty
    | _ :: r => .ok ((), { i with buf := r })

def skipN (n : Nat) : M In Unit := fun i =>
  match i.kind with
  | .str => .ok ((), { i with iter := i.iter.drop n })
  | .buf => if n > i.buf.length then .panic .skipNOOB else .ok ((), { i with buf := i.buf.drop n })

def peek : M In Char := fun i =>
  match i.kind with
  | .str => .ok (i.iter.headD '\x00', i)
  | .buf => match i.buf with | c :: _ => .ok (c, i) | [] => .panic .peekEmpty

def peekNth (n : Nat) : M In Char := fun i =>
  match i.kind with
  | .str => .ok (i.iter.getD n '\x00', i)
  | .buf => if h : n < i.buf.length then .ok (i.buf[n], i) else .panic .peekNthOOB

def lookCh : M In Char := do lookahead 1; peek

def rawReadNonBreakzCh : M In (Option Char) := fun i =>
  match i.iter with
  | [] => .ok (none, i)
  | c :: r =>
    if isBreakz c then
      match i.kind with
      | .str => .ok (none, i)
      | .buf => if i.buf.length ≥ i.cap then .panic .pushBackFull
                else .ok (none, { i with buf := i.buf ++ [c], iter := r })
    else .ok (some c, { i with iter := r })

def assertBuflen (n : Nat) (s : Site) : M In Unit := fun i =>
  match i.kind with
  | .str => .ok ((), i)           -- StrInput overrides these without the assert
  | .buf => if i.buf.length ≥ n then .ok ((), i) else .panic s

def nextCharIs (c : Char) : M In Bool := do return (← peek) == c
def nthCharIs (n : Nat) (c : Char) : M In Bool := do return (← peekNth n) == c

/-- StrInput reads straight from the string (no padding); the generic version peeks with asserts. -/
def next2Are (c1 c2 : Char) : M In Bool := fun i =>
  match i.kind with
  | .str => .ok (i.iter.head? == some c1 && i.iter.tail.head? == some c2, i)
  | .buf => (do assertBuflen 2 .assertBuflen2; return (← peek) == c1 && (← peekNth 1) == c2) i

def next3Are (c1 c2 c3 : Char) : M In Bool := fun i =>
  match i.kind with
  | .str => .ok (i.iter.head? == some c1 && i.iter.tail.head? == some c2 && i.iter.tail.tail.head? == some c3, i)
  | .buf => (do assertBuflen 3 .assertBuflen3
                return (← peek) == c1 && (← peekNth 1) == c2 && (← peekNth 2) == c3) i

/-- byte-level test of `StrInput`: the 4th *byte* (if any) must be blank/breakz -/
def strDocIndicator (s : Str) (p : Char → Bool) : Bool :=
  match s with
  | a :: b :: c :: r =>
    -- all three are ASCII when the test can succeed; the 4th byte is the first byte of the 4th char
    let fourthOk := match r with
      | [] => true
      | d :: _ => if d.toNat < 0x80 then isBlankOrBreakz d else false
    -- `buffer.len() < 3` is a byte length test; with three chars present it is ≥ 3
    fourthOk && p a && a == b && b == c
  | _ => false

def nextIsDocumentIndicator : M In Bool := fun i =>
  match i.kind with
  | .str => .ok (strDocIndicator i.iter (fun a => a == '.' || a == '-'), i)
  | .buf => (do assertBuflen 4 .assertBuflen4
                let c3 ← peekNth 3
                let a ← next3Are '.' '.' '.'
                let b ← next3Are '-' '-' '-'
                return isBlankOrBreakz c3 && (a || b)) i

def nextIsDocumentStart : M In Bool := fun i =>
  match i.kind with
  | .str => .ok (strDocIndicator i.iter (fun a => a == '-'), i)
  | .buf => (do assertBuflen 4 .assertBuflen4
                let a ← next3Are '-' '-' '-'
                let c3 ← peekNth 3
                return a && isBlankOrBreakz c3) i

def nextIsDocumentEnd : M In Bool := fun i =>
  match i.kind with
  | .str => .ok (strDocIndicator i.iter (fun a => a == '.'), i)
  | .buf => (do assertBuflen 4 .assertBuflen4
                let a ← next3Are '.' '.' '.'
                let c3 ← peekNth 3
                return a && isBlankOrBreakz c3) i

/-- predicate on the next char. StrInput tests the first byte and answers `emptyAns` on an empty
    string; all predicates used are ASCII-only, so byte test = char test. -/
def nextIs (p : Char → Bool) (emptyAns : Bool) : M In Bool := fun i =>
  match i.kind with
  | .str => match i.iter with
    | [] => .ok (emptyAns, i)
    | c :: _ => .ok (p c, i)
  | .buf => (do return p (← peek)) i

def nextIsBlankOrBreak : M In Bool := nextIs (fun c => isBlank c || isBreak c) false
def nextIsBlankOrBreakz : M In Bool := nextIs isBlankOrBreakz true
def nextIsBlank : M In Bool := nextIs isBlank false
def nextIsBreak : M In Bool := nextIs isBreak false
def nextIsBreakz : M In Bool := nextIs isBreakz true
def nextIsZ : M In Bool := nextIs isZ true
def nextIsFlow : M In Bool := nextIs isFlow false
def nextIsDigit : M In Bool := nextIs isDigit false
def nextIsAlpha : M In Bool := nextIs isAlpha false

def nextCanBePlainScalar (inFlow : Bool) : M In Bool := fun i =>
  match i.kind with
  | .str =>
    match i.iter with
    | [] => .panic .strPlainEmpty
    | c :: r =>
      -- `nc` is the second *byte*; when `c` is ':' (ASCII) it is the first byte of the next char
      match r with
      | nc :: _ =>
        if c == ':' && ((nc.toNat < 0x80 && isBlankOrBreakz nc) || (inFlow && isFlow nc)) then .ok (false, i)
        else if inFlow && isFlow c then .ok (false, i) else .ok (true, i)
      | [] =>
        if c.toNat ≥ 0x80 then .ok (true, i)   -- multi-byte: len > 1, second byte is a continuation byte
        else if c == ':' then .ok (false, i)
        else if inFlow && isFlow c then .ok (false, i) else .ok (true, i)
  | .buf => (do
      let nc ← peekNth 1
      let c ← peek
      if c == ':' && (isBlankOrBreakz nc || (inFlow && isFlow nc)) then return false
      else if inFlow && isFlow c then return false else return true) i

def spanWhile (p : Char → Bool) : Str → Nat × Str
  | [] => (0, [])
  | c :: r => if p c then let (n, r') := spanWhile p r; (n + 1, r') else (0, c :: r)

/-- default trait loop `while p(look_ch()) { skip }`, counting -/
def dfltSkipWhile (p : Char → Bool) : Nat → Nat → M In Nat
  | 0, _ => panicAt .fuel
  | fuel + 1, n => do
    let c ← lookCh
    if p c then do skip; dfltSkipWhile p fuel (n + 1) else return n

def remaining (i : In) : Nat := i.buf.length + i.iter.length

def skipWhileNonBreakz : M In Nat := fun i =>
  match i.kind with
  | .str => let (n, r) := spanWhile (fun c => !isBreakz c) i.iter; .ok (n, { i with iter := r })
  | .buf => dfltSkipWhile (fun c => !isBreakz c) (i.remaining + 2) 0 i

def skipWhileBlank : M In Nat := fun i =>
  match i.kind with
  | .str => let (n, r) := spanWhile isBlank i.iter; .ok (n, { i with iter := r })
  | .buf => dfltSkipWhile isBlank (i.remaining + 2) 0 i

def dfltFetchAlpha : Nat → Nat → Str → M In (Nat × Str)
  | 0, _, _ => panicAt .fuel
  | fuel + 1, n, out => do
    let c ← lookCh
    if isAlpha c then do skip; dfltFetchAlpha fuel (n + 1) (out ++ [c]) else return (n, out)

def fetchWhileIsAlpha (out : Str) : M In (Nat × Str) := fun i =>
  match i.kind with
  | .str =>
    let (n, r) := spanWhile isAlpha i.iter
    .ok ((n, out ++ i.iter.take n), { i with iter := r })
  | .buf => dfltFetchAlpha (i.remaining + 2) 0 out i

/-- default `skip_ws_to_eol` -/
def dfltSkipWs (skipTabs : SkipTabs) : Nat → Nat → Bool → Bool → M In (Nat × Except String SkipTabs)
  | 0, _, _, _ => panicAt .fuel
  | fuel + 1, n, tab, ws => do
    let c ← lookCh
    if c == ' ' then do skip; dfltSkipWs skipTabs fuel (n + 1) tab true
    else if c == '\t' && skipTabs != .no then do skip; dfltSkipWs skipTabs fuel (n + 1) true ws
    else if c == '#' && !tab && !ws then
      return (n, .error "comments must be separated from other tokens by whitespace")
    else if c == '#' then do
      skip
      let k ← dfltSkipWhile (fun c => !isBreakz c) (fuel + 1) 0
      dfltSkipWs skipTabs fuel (n + k + 1) tab ws
    else return (n, .ok (.result tab ws))

def strSkipBlanks (tabs : Bool) : Str → Nat → Bool → Bool → Nat × Bool × Bool × Str
  | ' ' :: r, n, tab, _ => strSkipBlanks tabs r (n + 1) tab true
  | '\t' :: r, n, tab, ws => if tabs then strSkipBlanks tabs r (n + 1) true ws else (n, tab, ws, '\t' :: r)
  | r, n, tab, ws => (n, tab, ws, r)

def skipWsToEol (skipTabs : SkipTabs) : M In (Nat × Except String SkipTabs) := fun i =>
  match i.kind with
  | .str =>
    match skipTabs with
    | .result .. => .panic .strSkipWsAssert
    | _ =>
      let (n, tab, ws, r) := strSkipBlanks (skipTabs == .yes) i.iter 0 false false
      match r with
      | '#' :: _ =>
        if !tab && !ws then
          -- NB: the Rust code returns *without* storing `new_str`: nothing is consumed
          .ok ((n, .error "comments must be separated from other tokens by whitespace"), i)
        else
          let (k, r') := spanWhile (fun c => !isBreakz c) r
          .ok ((n + k, .ok (.result tab ws)), { i with iter := r' })
      | _ => .ok ((n, .ok (.result tab ws)), { i with iter := r })
  | .buf => dfltSkipWs skipTabs (i.remaining + 2) 0 false false i

end In
end SaphyrModel.Sc
