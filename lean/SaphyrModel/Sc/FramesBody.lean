import SaphyrModel.Sc.Frames2
/-! Frame lemmas for the bodies of the block- and plain-scalar scanners (slow: kept in their own
module so that the assembly can be edited without re-checking them). -/
namespace SaphyrModel.Sc
open SaphyrModel

set_option maxHeartbeats 4000000 in
theorem scanBlockScalarBody_frames (lit : Bool) (m : Marker) : Frames (scanBlockScalarBody lit m) := by
  unfold scanBlockScalarBody; frames2
macro_rules | `(tactic| frames_close) => `(tactic| exact scanBlockScalarBody_frames _ _)

set_option maxHeartbeats 4000000 in
theorem scanPlainScalarBody_frames : Frames scanPlainScalarBody := by
  unfold scanPlainScalarBody; frames2
macro_rules | `(tactic| frames_close) => `(tactic| exact scanPlainScalarBody_frames)


end SaphyrModel.Sc
