import SaphyrModel.Sc.Frames2
/-! Frame lemmas for the bodies of the block- and plain-scalar scanners (slow: kept in their own
module so that the assembly can be edited without re-checking them). -/
namespace SaphyrModel.Sc
open SaphyrModel

set_option maxHeartbeats 4000000 in
theorem blockHeaderDigit_frames (m : Marker) (ch : Chomping) : Frames (blockHeaderDigit m ch) := by
  unfold blockHeaderDigit; frames2
macro_rules | `(tactic| frames_close) => `(tactic| exact blockHeaderDigit_frames _ _)
set_option maxHeartbeats 4000000 in
theorem blockHeaderChomp_frames (d : Char) : Frames (blockHeaderChomp d) := by
  unfold blockHeaderChomp; frames2
macro_rules | `(tactic| frames_close) => `(tactic| exact blockHeaderChomp_frames _)
set_option maxHeartbeats 4000000 in
theorem blockHeader_frames (m : Marker) (c : Char) (b : Bool) : Frames (blockHeader m c b) := by
  unfold blockHeader; frames2
macro_rules | `(tactic| frames_close) => `(tactic| exact blockHeader_frames _ _ _)
set_option maxHeartbeats 4000000 in
theorem blockChompingBreak_frames  : Frames (blockChompingBreak ) := by
  unfold blockChompingBreak; frames2
macro_rules | `(tactic| frames_close) => `(tactic| exact blockChompingBreak_frames )
set_option maxHeartbeats 4000000 in
theorem blockIndent_frames (inc : Nat) (s : Sc) : Frames (blockIndent inc s) := by
  unfold blockIndent; frames2
macro_rules | `(tactic| frames_close) => `(tactic| exact blockIndent_frames _ _)
set_option maxHeartbeats 4000000 in
theorem blockMarkerCheck_frames (ind : Nat) (s : Sc) : Frames (blockMarkerCheck ind s) := by
  unfold blockMarkerCheck; frames2
macro_rules | `(tactic| frames_close) => `(tactic| exact blockMarkerCheck_frames _ _)
set_option maxHeartbeats 4000000 in
theorem blockFinish_frames (ch : Chomping) (ind : Nat) (a : BlkAcc) (s : Sc) : Frames (blockFinish ch ind a s) := by
  unfold blockFinish; frames2
macro_rules | `(tactic| frames_close) => `(tactic| exact blockFinish_frames _ _ _ _)
set_option maxHeartbeats 4000000 in
theorem blockContent_frames (lit : Bool) (ch : Chomping) (ind : Nat) (tb : Str) (s : Sc) : Frames (blockContent lit ch ind tb s) := by
  unfold blockContent; frames2
macro_rules | `(tactic| frames_close) => `(tactic| exact blockContent_frames _ _ _ _ _)
set_option maxHeartbeats 4000000 in
theorem blockAfterHeader_frames (lit : Bool) (m : Marker) (ch : Chomping) (inc : Nat) (cb : Str) : Frames (blockAfterHeader lit m ch inc cb) := by
  unfold blockAfterHeader; frames2
macro_rules | `(tactic| frames_close) => `(tactic| exact blockAfterHeader_frames _ _ _ _ _)
set_option maxHeartbeats 4000000 in
theorem scanBlockScalarBody_frames (lit : Bool) (m : Marker) : Frames (scanBlockScalarBody lit m) := by
  unfold scanBlockScalarBody; frames2
macro_rules | `(tactic| frames_close) => `(tactic| exact scanBlockScalarBody_frames _ _)

set_option maxHeartbeats 4000000 in
theorem scanPlainScalarBody_frames : Frames scanPlainScalarBody := by
  unfold scanPlainScalarBody; frames2
macro_rules | `(tactic| frames_close) => `(tactic| exact scanPlainScalarBody_frames)


end SaphyrModel.Sc
