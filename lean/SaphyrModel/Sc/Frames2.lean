import SaphyrModel.Sc.Struct
/-! Calibration: framing lemmas for the remaining input operations and all non-structural scanner functions. -/
namespace SaphyrModel.Sc
open SaphyrModel

theorem NoStruct.next3Are (a b c) : NoStruct (In.next3Are a b c) := by
  unfold In.next3Are
  apply NoStruct.kindSplit
  · intro i p; left; simp
  · nostruct

theorem NoStruct.docInd : NoStruct In.nextIsDocumentIndicator := by
  unfold In.nextIsDocumentIndicator
  apply NoStruct.kindSplit
  · intro i p; left; simp
  · have := NoStruct.next3Are; nostruct
theorem NoStruct.docStart : NoStruct In.nextIsDocumentStart := by
  unfold In.nextIsDocumentStart
  apply NoStruct.kindSplit
  · intro i p; left; simp
  · have := NoStruct.next3Are; nostruct
theorem NoStruct.docEnd : NoStruct In.nextIsDocumentEnd := by
  unfold In.nextIsDocumentEnd
  apply NoStruct.kindSplit
  · intro i p; left; simp
  · have := NoStruct.next3Are; nostruct

theorem NoStruct.kindSplit' {f : In → Res (α × In)} {g : M In α}
    (hf : ∀ i p, f i = .panic p → ¬ StructSite p) (hg : NoStruct g) :
    NoStruct (fun i => match i.kind with | .str => f i | .buf => g i) := by
  constructor
  intro i p h
  try dsimp only at h
  split at h
  · exact hf i p h
  · exact hg.out i p h

theorem NoStruct.canBePlain (f : Bool) : NoStruct (In.nextCanBePlainScalar f) := by
  unfold In.nextCanBePlainScalar
  apply NoStruct.kindSplit'
  · intro i p h
    (repeat' split at h) <;> first | (simp at h; done) | (cases h; simp [StructSite])
  · nostruct

theorem NoStruct.skipWhileNonBreakz : NoStruct In.skipWhileNonBreakz := by
  unfold In.skipWhileNonBreakz
  apply NoStruct.kindSplit'
  · intro i p h; simp at h
  · exact ⟨fun i p h => (NoStruct.dfltSkipWhile _ _ 0).out i p h⟩

theorem NoStruct.skipWhileBlank : NoStruct In.skipWhileBlank := by
  unfold In.skipWhileBlank
  apply NoStruct.kindSplit'
  · intro i p h; simp at h
  · exact ⟨fun i p h => (NoStruct.dfltSkipWhile _ _ 0).out i p h⟩

theorem NoStruct.fetchWhileIsAlpha (out : Str) : NoStruct (In.fetchWhileIsAlpha out) := by
  unfold In.fetchWhileIsAlpha
  apply NoStruct.kindSplit'
  · intro i p h; simp at h
  · exact ⟨fun i p h => (NoStruct.dfltFetchAlpha _ 0 out).out i p h⟩

end SaphyrModel.Sc

namespace SaphyrModel.Sc
open SaphyrModel

/-- extensible closer: every proved `Frames` lemma registers itself with a `macro_rules` line -/
syntax "frames_close" : tactic
macro_rules | `(tactic| frames_close) => `(tactic| exact Frames.pure _)
macro_rules | `(tactic| frames_close) => `(tactic| first
    | exact Frames.getS | exact Frames.getMark | exact Frames.advance _ | exact Frames.pushTok _ _
    | exact Frames.err _ _ | exact Frames.panicFuel | assumption | apply_assumption)
macro_rules | `(tactic| frames_close) => `(tactic| (apply Frames.liftI; first
        | exact NoStruct.lookahead _ | exact NoStruct.skip | exact NoStruct.skipN _ | exact NoStruct.peek
        | exact NoStruct.peekNth _ | exact NoStruct.lookCh | exact NoStruct.next2Are _ _
        | exact NoStruct.nextIs _ _ | exact NoStruct.nextCharIs _ | exact NoStruct.nthCharIs _ _
        | exact NoStruct.rawRead | exact NoStruct.next3Are _ _ _ | exact NoStruct.docInd
        | exact NoStruct.docStart | exact NoStruct.docEnd | exact NoStruct.canBePlain _
        | exact NoStruct.skipWhileNonBreakz | exact NoStruct.skipWhileBlank
        | exact NoStruct.fetchWhileIsAlpha _ | exact NoStruct.skipWsToEol _))
macro_rules | `(tactic| frames_close) => `(tactic| (apply Frames.modS; intro s; exact ⟨rfl, rfl, rfl, rfl, rfl, rfl, ⟨[], (List.append_nil _).symm⟩⟩))
macro_rules | `(tactic| frames_close) => `(tactic| first
    | exact Frames.lookahead _ | exact Frames.peek | exact Frames.peekNth _ | exact Frames.lookCh
    | exact Frames.skipBlank | exact Frames.skipNonBlank | exact Frames.skipNNonBlank _ | exact Frames.skipNl
    | exact Frames.skipLinebreak | exact Frames.skipBreak | exact Frames.skipWsToEol _
    | exact allowSimpleKey_frames | exact disallowSimpleKey_frames
    | exact Frames.scanAnchorGo _ _ | exact Frames.scanAnchor _)

macro "frames2" : tactic => `(tactic|
  repeat' (first
    | frames_close
    | apply Frames.bind
    | apply Frames.ite
    | intro _
    | split))

theorem Frames.bufmaxlen : Frames bufmaxlen := ⟨fun s => Frame.refl s⟩
theorem Frames.bufIsEmpty : Frames bufIsEmpty := ⟨fun s => Frame.refl s⟩
macro_rules | `(tactic| frames_close) => `(tactic| first | exact Frames.bufmaxlen | exact Frames.bufIsEmpty)

theorem Frames.skipToNextTokenGo (fuel : Nat) : Frames (skipToNextTokenGo fuel) := by
  induction fuel with
  | zero => unfold Sc.skipToNextTokenGo; frames2
  | succ n ih => unfold Sc.skipToNextTokenGo; frames2
theorem Frames.skipToNextToken : Frames skipToNextToken := by
  unfold Sc.skipToNextToken; have := Frames.skipToNextTokenGo; frames2
macro_rules | `(tactic| frames_close) => `(tactic| first | exact Frames.skipToNextTokenGo _ | exact Frames.skipToNextToken)

theorem Frames.skipYamlWhitespaceGo (fuel : Nat) : ∀ b, Frames (skipYamlWhitespaceGo fuel b) := by
  induction fuel with
  | zero => intro b; unfold Sc.skipYamlWhitespaceGo; frames2
  | succ n ih => intro b; unfold Sc.skipYamlWhitespaceGo; frames2
theorem Frames.skipYamlWhitespace : Frames skipYamlWhitespace := by
  unfold Sc.skipYamlWhitespace; have := Frames.skipYamlWhitespaceGo; frames2
macro_rules | `(tactic| frames_close) => `(tactic| first | exact Frames.skipYamlWhitespaceGo _ _ | exact Frames.skipYamlWhitespace)

theorem Frames.scanDirectiveName : Frames (scanDirectiveName) := by
  unfold Sc.scanDirectiveName; frames2
macro_rules | `(tactic| frames_close) => `(tactic| exact Frames.scanDirectiveName )
theorem Frames.scanVersionNumberGo (mark : Marker) (fuel : Nat) : ∀ v l, Frames (scanVersionNumberGo mark fuel v l) := by
  induction fuel with
  | zero => intro v l; unfold Sc.scanVersionNumberGo; frames2
  | succ n ih => intro v l; unfold Sc.scanVersionNumberGo; frames2
macro_rules | `(tactic| frames_close) => `(tactic| exact Frames.scanVersionNumberGo _ _ _ _)
theorem Frames.scanVersionDirectiveNumber (mark : Marker) : Frames (scanVersionDirectiveNumber mark) := by
  unfold Sc.scanVersionDirectiveNumber; frames2
macro_rules | `(tactic| frames_close) => `(tactic| exact Frames.scanVersionDirectiveNumber _)
theorem Frames.scanVersionDirectiveValue (mark : Marker) : Frames (scanVersionDirectiveValue mark) := by
  unfold Sc.scanVersionDirectiveValue; frames2
macro_rules | `(tactic| frames_close) => `(tactic| exact Frames.scanVersionDirectiveValue _)
theorem Frames.scanTagHandle (d : Bool) (mark : Marker) : Frames (scanTagHandle d mark) := by
  unfold Sc.scanTagHandle; frames2
macro_rules | `(tactic| frames_close) => `(tactic| exact Frames.scanTagHandle _ _)

theorem Frames.scanUriEscapesGo (mark : Marker) (fuel : Nat) : ∀ w c, Frames (scanUriEscapesGo mark fuel w c) := by
  induction fuel with
  | zero => intro w c; unfold Sc.scanUriEscapesGo; frames2
  | succ n ih => intro w c; unfold Sc.scanUriEscapesGo; frames2
macro_rules | `(tactic| frames_close) => `(tactic| exact Frames.scanUriEscapesGo _ _ _ _)
theorem Frames.scanUriEscapes (mark : Marker) : Frames (scanUriEscapes mark) := by
  unfold Sc.scanUriEscapes; frames2
macro_rules | `(tactic| frames_close) => `(tactic| exact Frames.scanUriEscapes _)
theorem Frames.scanUriLoop (p : Char → Bool) (mark : Marker) (fuel : Nat) : ∀ str n, Frames (scanUriLoop p mark fuel str n) := by
  induction fuel with
  | zero => intro str n; unfold Sc.scanUriLoop; frames2
  | succ n ih => intro str n; unfold Sc.scanUriLoop; frames2
macro_rules | `(tactic| frames_close) => `(tactic| exact Frames.scanUriLoop _ _ _ _ _)
theorem Frames.scanTagPrefix (m : Marker) : Frames (scanTagPrefix m) := by
  unfold Sc.scanTagPrefix; frames2
macro_rules | `(tactic| frames_close) => `(tactic| exact Frames.scanTagPrefix _)
theorem Frames.scanTagDirectiveValue (m : Marker) : Frames (scanTagDirectiveValue m) := by
  unfold Sc.scanTagDirectiveValue; frames2
macro_rules | `(tactic| frames_close) => `(tactic| exact Frames.scanTagDirectiveValue _)
theorem Frames.scanDirective : Frames (scanDirective) := by
  unfold Sc.scanDirective; frames2
macro_rules | `(tactic| frames_close) => `(tactic| exact Frames.scanDirective )
theorem Frames.scanVerbatimTag (m : Marker) : Frames (scanVerbatimTag m) := by
  unfold Sc.scanVerbatimTag; frames2
macro_rules | `(tactic| frames_close) => `(tactic| exact Frames.scanVerbatimTag _)
theorem Frames.scanTagShorthandSuffix (h : Str) (m : Marker) : Frames (scanTagShorthandSuffix h m) := by
  unfold Sc.scanTagShorthandSuffix; frames2
macro_rules | `(tactic| frames_close) => `(tactic| exact Frames.scanTagShorthandSuffix _ _)
theorem Frames.scanTag : Frames (scanTag) := by
  unfold Sc.scanTag; frames2
macro_rules | `(tactic| frames_close) => `(tactic| exact Frames.scanTag )

theorem Frames.readBreak (acc : Str) : Frames (readBreak acc) := by
  unfold Sc.readBreak; frames2
macro_rules | `(tactic| frames_close) => `(tactic| exact Frames.readBreak _)
theorem Frames.skipBlockScalarIndentSpaces (indent : Nat) (g : Bool) (fuel : Nat) : Frames (skipBlockScalarIndentSpaces indent g fuel ) := by
  induction fuel with
  | zero => unfold Sc.skipBlockScalarIndentSpaces; frames2
  | succ n ih => unfold Sc.skipBlockScalarIndentSpaces; frames2
macro_rules | `(tactic| frames_close) => `(tactic| exact Frames.skipBlockScalarIndentSpaces _ _ _)
theorem Frames.skipBlockScalarIndentBig (indent : Nat) (fuel : Nat) : Frames (skipBlockScalarIndentBig indent fuel ) := by
  induction fuel with
  | zero => unfold Sc.skipBlockScalarIndentBig; frames2
  | succ n ih => unfold Sc.skipBlockScalarIndentBig; frames2
macro_rules | `(tactic| frames_close) => `(tactic| exact Frames.skipBlockScalarIndentBig _ _)
theorem Frames.skipBlockScalarIndent (indent : Nat) (fuel : Nat) : ∀ b, Frames (skipBlockScalarIndent indent fuel b) := by
  induction fuel with
  | zero => intro b; unfold Sc.skipBlockScalarIndent; frames2
  | succ n ih => intro b; unfold Sc.skipBlockScalarIndent; frames2
macro_rules | `(tactic| frames_close) => `(tactic| exact Frames.skipBlockScalarIndent _ _ _)
theorem Frames.skipSpaces  (fuel : Nat) : Frames (skipSpaces  fuel ) := by
  induction fuel with
  | zero => unfold Sc.skipSpaces; frames2
  | succ n ih => unfold Sc.skipSpaces; frames2
macro_rules | `(tactic| frames_close) => `(tactic| exact Frames.skipSpaces _)
theorem Frames.skipBlockScalarFirstLineIndentGo  (fuel : Nat) : ∀ m b, Frames (skipBlockScalarFirstLineIndentGo  fuel m b) := by
  induction fuel with
  | zero => intro m b; unfold Sc.skipBlockScalarFirstLineIndentGo; frames2
  | succ n ih => intro m b; unfold Sc.skipBlockScalarFirstLineIndentGo; frames2
macro_rules | `(tactic| frames_close) => `(tactic| exact Frames.skipBlockScalarFirstLineIndentGo _ _ _)
theorem Frames.skipBlockScalarFirstLineIndent (b : Str) : Frames (skipBlockScalarFirstLineIndent b) := by
  unfold Sc.skipBlockScalarFirstLineIndent; frames2
macro_rules | `(tactic| frames_close) => `(tactic| exact Frames.skipBlockScalarFirstLineIndent _)
theorem Frames.contentLineBuffered  (fuel : Nat) : ∀ str, Frames (contentLineBuffered  fuel str) := by
  induction fuel with
  | zero => intro str; unfold Sc.contentLineBuffered; frames2
  | succ n ih => intro str; unfold Sc.contentLineBuffered; frames2
macro_rules | `(tactic| frames_close) => `(tactic| exact Frames.contentLineBuffered _ _)
theorem Frames.contentLineRaw  (fuel : Nat) : ∀ l, Frames (contentLineRaw  fuel l) := by
  induction fuel with
  | zero => intro l; unfold Sc.contentLineRaw; frames2
  | succ n ih => intro l; unfold Sc.contentLineRaw; frames2
macro_rules | `(tactic| frames_close) => `(tactic| exact Frames.contentLineRaw _ _)
theorem Frames.scanBlockScalarContentLine (str : Str) : Frames (scanBlockScalarContentLine str) := by
  unfold Sc.scanBlockScalarContentLine; frames2
macro_rules | `(tactic| frames_close) => `(tactic| exact Frames.scanBlockScalarContentLine _)
theorem Frames.blockScalarLines (lit : Bool) (indent : Nat) (fuel : Nat) : ∀ a, Frames (blockScalarLines lit indent fuel a) := by
  induction fuel with
  | zero => intro a; unfold Sc.blockScalarLines; frames2
  | succ n ih => intro a; unfold Sc.blockScalarLines; frames2
macro_rules | `(tactic| frames_close) => `(tactic| exact Frames.blockScalarLines _ _ _ _)
theorem Frames.hexLoop (m : Marker) (n : Nat) (fuel : Nat) : ∀ v, Frames (hexLoop m n fuel v) := by
  induction fuel with
  | zero => intro v; unfold Sc.hexLoop; frames2
  | succ n ih => intro v; unfold Sc.hexLoop; frames2
macro_rules | `(tactic| frames_close) => `(tactic| exact Frames.hexLoop _ _ _ _)
theorem Frames.resolveEscape (m : Marker) : Frames (resolveEscape m) := by
  unfold Sc.resolveEscape; frames2
macro_rules | `(tactic| frames_close) => `(tactic| exact Frames.resolveEscape _)
theorem Frames.consumeNonWs (single : Bool) (m : Marker) (fuel : Nat) : ∀ str lb, Frames (consumeNonWs single m fuel str lb) := by
  induction fuel with
  | zero => intro str lb; unfold Sc.consumeNonWs; frames2
  | succ n ih => intro str lb; unfold Sc.consumeNonWs; frames2
macro_rules | `(tactic| frames_close) => `(tactic| exact Frames.consumeNonWs _ _ _ _ _)
theorem Frames.consumeBlanks  (fuel : Nat) : ∀ a lb, Frames (consumeBlanks  fuel a lb) := by
  induction fuel with
  | zero => intro a lb; unfold Sc.consumeBlanks; frames2
  | succ n ih => intro a lb; unfold Sc.consumeBlanks; frames2
macro_rules | `(tactic| frames_close) => `(tactic| exact Frames.consumeBlanks _ _ _)
theorem Frames.flowScalarLoop (single : Bool) (m : Marker) (fuel : Nat) : ∀ str a, Frames (flowScalarLoop single m fuel str a) := by
  induction fuel with
  | zero => intro str a; unfold Sc.flowScalarLoop; frames2
  | succ n ih => intro str a; unfold Sc.flowScalarLoop; frames2
macro_rules | `(tactic| frames_close) => `(tactic| exact Frames.flowScalarLoop _ _ _ _ _)
theorem Frames.scanFlowScalar (single : Bool) : Frames (scanFlowScalar single) := by
  unfold Sc.scanFlowScalar; frames2
macro_rules | `(tactic| frames_close) => `(tactic| exact Frames.scanFlowScalar _)
theorem Frames.plainChunk  (fuel : Nat) : ∀ str, Frames (plainChunk  fuel str) := by
  induction fuel with
  | zero => intro str; unfold Sc.plainChunk; frames2
  | succ n ih => intro str; unfold Sc.plainChunk; frames2
macro_rules | `(tactic| frames_close) => `(tactic| exact Frames.plainChunk _ _)
theorem Frames.plainChunks  (fuel : Nat) : ∀ str, Frames (plainChunks  fuel str) := by
  induction fuel with
  | zero => intro str; unfold Sc.plainChunks; frames2
  | succ n ih => intro str; unfold Sc.plainChunks; frames2
macro_rules | `(tactic| frames_close) => `(tactic| exact Frames.plainChunks _ _)
theorem Frames.plainBlanks (indent : Int) (m : Marker) (fuel : Nat) : ∀ a, Frames (plainBlanks indent m fuel a) := by
  induction fuel with
  | zero => intro a; unfold Sc.plainBlanks; frames2
  | succ n ih => intro a; unfold Sc.plainBlanks; frames2
macro_rules | `(tactic| frames_close) => `(tactic| exact Frames.plainBlanks _ _ _ _)
set_option maxHeartbeats 2000000 in
theorem Frames.plainLoop (indent : Int) (m : Marker) (fuel : Nat) : ∀ a, Frames (plainLoop indent m fuel a) := by
  induction fuel with
  | zero => intro a; unfold Sc.plainLoop; frames2
  | succ n ih => intro a; unfold Sc.plainLoop; frames2
macro_rules | `(tactic| frames_close) => `(tactic| exact Frames.plainLoop _ _ _ _)

end SaphyrModel.Sc
