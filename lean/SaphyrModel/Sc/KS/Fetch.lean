import SaphyrModel.Sc.KS.Dir
import SaphyrModel.Sc.KS.Block
import SaphyrModel.Sc.KS.Flow
import SaphyrModel.Sc.KS.Plain
/-! String back-end, part 2: structural functions, the `fetch_*` family, the token loop and the run. -/
namespace SaphyrModel.Sc
open SaphyrModel

theorem KS.insertToken (pos : Nat) (tok : Token) : KS (insertToken pos tok) := by
  constructor; intro s hk; unfold Sc.insertToken
  by_cases h : pos ≤ s.tokens.length
  · rw [if_pos h]; exact hk
  · rw [if_neg h]; exact Or.inr (by simp [StructSite])
theorem KS.tokenPos (n : Nat) : KS (tokenPos n) := by
  constructor; intro s hk; unfold Sc.tokenPos
  by_cases h : n ≥ s.tokensParsed
  · rw [if_pos h]; exact hk
  · rw [if_neg h]; exact Or.inr (by simp [StructSite])
macro_rules | `(tactic| ks_close) => `(tactic| first | exact KS.insertToken _ _ | exact KS.tokenPos _)

theorem dropNonBlockTop_inp (col : Nat) (s : Sc) : (dropNonBlockTop col s).inp = s.inp := by
  unfold dropNonBlockTop; repeat' (first | rfl | split)
theorem clearPossibleKeys_inp (s : Sc) : (clearPossibleKeys s).inp = s.inp := rfl
theorem markExplicitKey_inp (s : Sc) : (markExplicitKey s).inp = s.inp := by
  unfold markExplicitKey; repeat' (first | rfl | split)
theorem popExplicitMapping_inp (s : Sc) : (popExplicitMapping s).inp = s.inp := by
  unfold popExplicitMapping; repeat' (first | rfl | split)
theorem pushImplState_inp (st : ImplState) (s : Sc) : (pushImplState st s).inp = s.inp := rfl
macro_rules | `(tactic| ks_close) => `(tactic| first
  | exact KS.modS _ (dropNonBlockTop_inp _) | exact KS.modS _ clearPossibleKeys_inp
  | exact KS.modS _ markExplicitKey_inp | exact KS.modS _ popExplicitMapping_inp
  | exact KS.modS _ (pushImplState_inp _))

theorem KS.rollIndentPush (col n tok mark) : KS (rollIndentPush col n tok mark) := by unfold Sc.rollIndentPush; ks
macro_rules | `(tactic| ks_close) => `(tactic| exact KS.rollIndentPush _ _ _ _)
theorem KS.rollIndent (col n tok mark) : KS (rollIndent col n tok mark) := by unfold Sc.rollIndent; ks
macro_rules | `(tactic| ks_close) => `(tactic| exact KS.rollIndent _ _ _ _)
theorem KS.unrollIndentGo (col : Int) (fuel : Nat) : KS (unrollIndentGo col fuel) := by
  induction fuel with
  | zero => unfold Sc.unrollIndentGo; ks
  | succ n ih => unfold Sc.unrollIndentGo; ks
macro_rules | `(tactic| ks_close) => `(tactic| exact KS.unrollIndentGo _ _)
theorem KS.unrollIndent (col : Int) : KS (unrollIndent col) := by unfold Sc.unrollIndent; ks
macro_rules | `(tactic| ks_close) => `(tactic| exact KS.unrollIndent _)
theorem KS.rollOneColIndent : KS rollOneColIndent := by unfold Sc.rollOneColIndent; ks
theorem KS.unrollNonBlockIndents : KS unrollNonBlockIndents := by
  unfold Sc.unrollNonBlockIndents; exact KS.modS _ (fun _ => rfl)
theorem KS.requiredKey (s : Sc) : KS (requiredKey s) := by unfold Sc.requiredKey; ks
macro_rules | `(tactic| ks_close) => `(tactic| first
  | exact KS.rollOneColIndent | exact KS.unrollNonBlockIndents | exact KS.requiredKey _)
theorem KS.saveSimpleKey : KS saveSimpleKey := by unfold Sc.saveSimpleKey; ks
theorem KS.removeSimpleKey : KS removeSimpleKey := by unfold Sc.removeSimpleKey; ks
theorem KS.staleSimpleKeys : KS staleSimpleKeys := by unfold Sc.staleSimpleKeys; ks
theorem KS.increaseFlowLevel : KS increaseFlowLevel := by unfold Sc.increaseFlowLevel; ks
theorem KS.decreaseFlowLevel : KS decreaseFlowLevel := by unfold Sc.decreaseFlowLevel; ks
theorem KS.endImplicitMapping (m : Marker) : KS (endImplicitMapping m) := by unfold Sc.endImplicitMapping; ks
macro_rules | `(tactic| ks_close) => `(tactic| first
  | exact KS.saveSimpleKey | exact KS.removeSimpleKey | exact KS.staleSimpleKeys
  | exact KS.increaseFlowLevel | exact KS.decreaseFlowLevel | exact KS.endImplicitMapping _)

theorem KS.fetchStreamStart : KS fetchStreamStart := by unfold Sc.fetchStreamStart; ks
theorem KS.fetchStreamEnd : KS fetchStreamEnd := by unfold Sc.fetchStreamEnd; ks
theorem KS.fetchDirective : KS fetchDirective := by unfold Sc.fetchDirective; ks
theorem KS.fetchTag : KS fetchTag := by unfold Sc.fetchTag; ks
theorem KS.fetchAnchor (a : Bool) : KS (fetchAnchor a) := by unfold Sc.fetchAnchor; ks
theorem KS.fetchFlowCollectionStart (t : TokenType) : KS (fetchFlowCollectionStart t) := by
  unfold Sc.fetchFlowCollectionStart; ks
theorem KS.closeFlowState (t : TokenType) : KS (closeFlowState t) := by unfold Sc.closeFlowState; ks
macro_rules | `(tactic| ks_close) => `(tactic| exact KS.closeFlowState _)
theorem KS.fetchFlowCollectionEnd (t : TokenType) : KS (fetchFlowCollectionEnd t) := by
  unfold Sc.fetchFlowCollectionEnd; ks
theorem KS.fetchFlowEntry : KS fetchFlowEntry := by unfold Sc.fetchFlowEntry; ks
theorem KS.anchorIndentCheck (s : Sc) : KS (anchorIndentCheck s) := by unfold Sc.anchorIndentCheck; ks
theorem KS.blockEntryTabCheck (r : SkipTabs) : KS (blockEntryTabCheck r) := by unfold Sc.blockEntryTabCheck; ks
theorem KS.rollIfBreakOrFlow : KS rollIfBreakOrFlow := by
  unfold Sc.rollIfBreakOrFlow In.nextIsBreak In.nextIsFlow; ks
macro_rules | `(tactic| ks_close) => `(tactic| first
  | exact KS.anchorIndentCheck _ | exact KS.blockEntryTabCheck _ | exact KS.rollIfBreakOrFlow)
theorem KS.fetchBlockEntryTail : KS fetchBlockEntryTail := by unfold Sc.fetchBlockEntryTail; ks
macro_rules | `(tactic| ks_close) => `(tactic| exact KS.fetchBlockEntryTail)
theorem KS.fetchBlockEntryBody (s : Sc) : KS (fetchBlockEntryBody s) := by unfold Sc.fetchBlockEntryBody; ks
macro_rules | `(tactic| ks_close) => `(tactic| exact KS.fetchBlockEntryBody _)
theorem KS.fetchBlockEntry : KS fetchBlockEntry := by unfold Sc.fetchBlockEntry; ks
theorem KS.fetchDocumentIndicator (t : TokenType) : KS (fetchDocumentIndicator t) := by
  unfold Sc.fetchDocumentIndicator; ks
macro_rules | `(tactic| ks_close) => `(tactic| first
  | exact KS.fetchStreamStart | exact KS.fetchStreamEnd | exact KS.fetchDirective | exact KS.fetchTag
  | exact KS.fetchAnchor _ | exact KS.fetchFlowCollectionStart _ | exact KS.fetchFlowCollectionEnd _
  | exact KS.fetchFlowEntry | exact KS.fetchBlockEntry | exact KS.fetchDocumentIndicator _)

theorem KS.scanBlockScalar (lit : Bool) : KS (scanBlockScalar lit) := by unfold Sc.scanBlockScalar; ks
macro_rules | `(tactic| ks_close) => `(tactic| exact KS.scanBlockScalar _)
theorem KS.fetchBlockScalar (lit : Bool) : KS (fetchBlockScalar lit) := by unfold Sc.fetchBlockScalar; ks
theorem KS.fetchFlowScalar (single : Bool) : KS (fetchFlowScalar single) := by unfold Sc.fetchFlowScalar; ks
theorem KS.scanPlainScalar : KS scanPlainScalar := by unfold Sc.scanPlainScalar; ks
macro_rules | `(tactic| ks_close) => `(tactic| exact KS.scanPlainScalar)
theorem KS.fetchPlainScalar : KS fetchPlainScalar := by unfold Sc.fetchPlainScalar; ks
theorem KS.keyPrologue (s : Sc) : KS (keyPrologue s) := by unfold Sc.keyPrologue; ks
theorem KS.fetchKeyTail (m : Marker) : KS (fetchKeyTail m) := by unfold Sc.fetchKeyTail; ks
macro_rules | `(tactic| ks_close) => `(tactic| first | exact KS.keyPrologue _ | exact KS.fetchKeyTail _)
theorem KS.fetchKey : KS fetchKey := by unfold Sc.fetchKey; ks
theorem KS.valueAfterSimpleKey (sk m i) : KS (valueAfterSimpleKey sk m i) := by unfold Sc.valueAfterSimpleKey; ks
theorem KS.valueAfterComplexKey (m i) : KS (valueAfterComplexKey m i) := by unfold Sc.valueAfterComplexKey; ks
theorem KS.valueTabCheck : KS valueTabCheck := by unfold Sc.valueTabCheck; ks
macro_rules | `(tactic| ks_close) => `(tactic| first
  | exact KS.valueAfterSimpleKey _ _ _ | exact KS.valueAfterComplexKey _ _ | exact KS.valueTabCheck)
theorem KS.fetchValue : KS fetchValue := by unfold Sc.fetchValue; ks
macro_rules | `(tactic| ks_close) => `(tactic| exact KS.fetchValue)
theorem KS.fetchFlowValue : KS fetchFlowValue := by unfold Sc.fetchFlowValue; ks
theorem KS.fetchDocumentEndMarker : KS fetchDocumentEndMarker := by
  unfold Sc.fetchDocumentEndMarker In.nextIsBreakz; ks
macro_rules | `(tactic| ks_close) => `(tactic| first
  | exact KS.fetchBlockScalar _ | exact KS.fetchFlowScalar _ | exact KS.fetchPlainScalar | exact KS.fetchKey
  | exact KS.fetchFlowValue | exact KS.fetchDocumentEndMarker)
theorem KS.fetchSpecial : KS fetchSpecial := by unfold Sc.fetchSpecial; ks
set_option maxHeartbeats 1000000 in
theorem KS.fetchDispatch : KS fetchDispatch := by unfold Sc.fetchDispatch; ks
macro_rules | `(tactic| ks_close) => `(tactic| first | exact KS.fetchSpecial | exact KS.fetchDispatch)
theorem KS.fetchAfterStart : KS fetchAfterStart := by unfold Sc.fetchAfterStart In.nextIsZ; ks
macro_rules | `(tactic| ks_close) => `(tactic| exact KS.fetchAfterStart)
theorem KS.fetchNextToken : KS fetchNextToken := by unfold Sc.fetchNextToken; ks
theorem KS.needMoreTokens : KS needMoreTokens := by unfold Sc.needMoreTokens; ks
macro_rules | `(tactic| ks_close) => `(tactic| first | exact KS.fetchNextToken | exact KS.needMoreTokens)
theorem KS.fetchMoreTokens (fuel : Nat) : KS (fetchMoreTokens fuel) := by
  induction fuel with
  | zero => unfold Sc.fetchMoreTokens; ks
  | succ n ih => unfold Sc.fetchMoreTokens; ks
macro_rules | `(tactic| ks_close) => `(tactic| exact KS.fetchMoreTokens _)
theorem KS.popToken : KS popToken := by unfold Sc.popToken; ks
macro_rules | `(tactic| ks_close) => `(tactic| exact KS.popToken)
theorem KS.nextToken : KS nextToken := by unfold Sc.nextToken; ks

/-- on a string input the run can only stop at `fuel` or at a structural site -/
theorem scanAll_str (fuel : Nat) (s : Sc) (acc : List Token) (hk : s.inp.kind = .str) (p : Site)
    (hp : (scanAll fuel s acc).2.1 = .panic p) : OkSite p := by
  induction fuel generalizing s acc with
  | zero => simp only [scanAll] at hp; cases hp; exact Or.inl rfl
  | succ n ih =>
    have h1 := KS.nextToken.out s hk
    simp only [scanAll] at hp
    cases hn : nextToken s with
    | ok r =>
      obtain ⟨o, s'⟩ := r
      simp only [hn] at h1 hp
      cases o with
      | some t => exact ih s' _ h1 hp
      | none => simp at hp
    | err e => simp [hn] at hp
    | panic q =>
      simp only [hn] at h1 hp
      cases hp; exact h1


end SaphyrModel.Sc
