import SaphyrModel.Sc.KS.Fetch
import SaphyrModel.Sc.Assemble
namespace SaphyrModel.Sc
open SaphyrModel

/-- **StrInput: no panic site at all.** Scanning a string slice, the only way the model run can
stop abnormally is by exhausting its fuel: no `unwrap`, `assert!`, index or subtraction site of the
scanner or of `StrInput` is reachable, for any text. -/
theorem scanAll_str_only_fuel (cap : Nat) (text : Str) (fuel : Nat) (p : Site)
    (hp : (scanAll fuel (mkSc .str cap text) []).2.1 = .panic p) : p = .fuel := by
  rcases scanAll_str fuel _ [] rfl p hp with h | h
  · exact h
  · exact absurd h (scanAll_no_struct_panic fuel _ [] (mkSc_between .str cap text) p hp)

end SaphyrModel.Sc
