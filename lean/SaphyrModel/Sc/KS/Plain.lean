import SaphyrModel.Sc.KS.Base
namespace SaphyrModel.Sc
open SaphyrModel

theorem KS.plainChunk  (fuel : Nat) : ∀ str, KS (plainChunk  fuel str) := by
  induction fuel with
  | zero => intro str; unfold Sc.plainChunk; ks
  | succ n ih => intro str; unfold Sc.plainChunk; ks
macro_rules | `(tactic| ks_close) => `(tactic| exact KS.plainChunk _ _)
theorem KS.plainChunks  (fuel : Nat) : ∀ str, KS (plainChunks  fuel str) := by
  induction fuel with
  | zero => intro str; unfold Sc.plainChunks; ks
  | succ n ih => intro str; unfold Sc.plainChunks; ks
macro_rules | `(tactic| ks_close) => `(tactic| exact KS.plainChunks _ _)
theorem KS.plainBlanks (indent : Int) (m : Marker) (fuel : Nat) : ∀ a, KS (plainBlanks indent m fuel a) := by
  induction fuel with
  | zero => intro a; unfold Sc.plainBlanks; ks
  | succ n ih => intro a; unfold Sc.plainBlanks; ks
macro_rules | `(tactic| ks_close) => `(tactic| exact KS.plainBlanks _ _ _ _)
set_option maxHeartbeats 4000000 in
theorem KS.plainLoop (indent : Int) (m : Marker) (fuel : Nat) : ∀ a, KS (plainLoop indent m fuel a) := by
  induction fuel with
  | zero => intro a; unfold Sc.plainLoop; ks
  | succ n ih => intro a; unfold Sc.plainLoop; ks
macro_rules | `(tactic| ks_close) => `(tactic| exact KS.plainLoop _ _ _ _)

set_option maxHeartbeats 4000000 in
theorem KS.scanPlainScalarBody : KS scanPlainScalarBody := by unfold Sc.scanPlainScalarBody; ks
macro_rules | `(tactic| ks_close) => `(tactic| exact KS.scanPlainScalarBody)

end SaphyrModel.Sc
