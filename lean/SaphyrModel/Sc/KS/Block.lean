import SaphyrModel.Sc.KS.Base
namespace SaphyrModel.Sc
open SaphyrModel

theorem KS.readBreak (acc : Str) : KS (readBreak acc) := by
  unfold Sc.readBreak; ks
macro_rules | `(tactic| ks_close) => `(tactic| exact KS.readBreak _)
theorem KS.skipBlockScalarIndentSpaces (indent : Nat) (g : Bool) (fuel : Nat) : KS (skipBlockScalarIndentSpaces indent g fuel ) := by
  induction fuel with
  | zero => unfold Sc.skipBlockScalarIndentSpaces; ks
  | succ n ih => unfold Sc.skipBlockScalarIndentSpaces; ks
macro_rules | `(tactic| ks_close) => `(tactic| exact KS.skipBlockScalarIndentSpaces _ _ _)
theorem KS.skipBlockScalarIndentBig (indent : Nat) (fuel : Nat) : KS (skipBlockScalarIndentBig indent fuel ) := by
  induction fuel with
  | zero => unfold Sc.skipBlockScalarIndentBig; ks
  | succ n ih => unfold Sc.skipBlockScalarIndentBig; ks
macro_rules | `(tactic| ks_close) => `(tactic| exact KS.skipBlockScalarIndentBig _ _)
theorem KS.skipBlockScalarIndent (indent : Nat) (fuel : Nat) : ∀ b, KS (skipBlockScalarIndent indent fuel b) := by
  induction fuel with
  | zero => intro b; unfold Sc.skipBlockScalarIndent; ks
  | succ n ih => intro b; unfold Sc.skipBlockScalarIndent; ks
macro_rules | `(tactic| ks_close) => `(tactic| exact KS.skipBlockScalarIndent _ _ _)
theorem KS.skipSpaces  (fuel : Nat) : KS (skipSpaces  fuel ) := by
  induction fuel with
  | zero => unfold Sc.skipSpaces; ks
  | succ n ih => unfold Sc.skipSpaces; ks
macro_rules | `(tactic| ks_close) => `(tactic| exact KS.skipSpaces _)
theorem KS.skipBlockScalarFirstLineIndentGo  (fuel : Nat) : ∀ m b, KS (skipBlockScalarFirstLineIndentGo  fuel m b) := by
  induction fuel with
  | zero => intro m b; unfold Sc.skipBlockScalarFirstLineIndentGo; ks
  | succ n ih => intro m b; unfold Sc.skipBlockScalarFirstLineIndentGo; ks
macro_rules | `(tactic| ks_close) => `(tactic| exact KS.skipBlockScalarFirstLineIndentGo _ _ _)
theorem KS.skipBlockScalarFirstLineIndent (b : Str) : KS (skipBlockScalarFirstLineIndent b) := by
  unfold Sc.skipBlockScalarFirstLineIndent; ks
macro_rules | `(tactic| ks_close) => `(tactic| exact KS.skipBlockScalarFirstLineIndent _)
theorem KS.contentLineBuffered  (fuel : Nat) : ∀ str, KS (contentLineBuffered  fuel str) := by
  induction fuel with
  | zero => intro str; unfold Sc.contentLineBuffered; ks
  | succ n ih => intro str; unfold Sc.contentLineBuffered; ks
macro_rules | `(tactic| ks_close) => `(tactic| exact KS.contentLineBuffered _ _)
theorem KS.contentLineRaw  (fuel : Nat) : ∀ l, KS (contentLineRaw  fuel l) := by
  induction fuel with
  | zero => intro l; unfold Sc.contentLineRaw; ks
  | succ n ih => intro l; unfold Sc.contentLineRaw; ks
macro_rules | `(tactic| ks_close) => `(tactic| exact KS.contentLineRaw _ _)
theorem KS.scanBlockScalarContentLine (str : Str) : KS (scanBlockScalarContentLine str) := by
  unfold Sc.scanBlockScalarContentLine; ks
macro_rules | `(tactic| ks_close) => `(tactic| exact KS.scanBlockScalarContentLine _)
theorem KS.blockScalarLines (lit : Bool) (indent : Nat) (fuel : Nat) : ∀ a, KS (blockScalarLines lit indent fuel a) := by
  induction fuel with
  | zero => intro a; unfold Sc.blockScalarLines; ks
  | succ n ih => intro a; unfold Sc.blockScalarLines; ks
macro_rules | `(tactic| ks_close) => `(tactic| exact KS.blockScalarLines _ _ _ _)
set_option maxHeartbeats 4000000 in
theorem KS.blockHeaderDigit (m : Marker) (ch : Chomping) : KS (blockHeaderDigit m ch) := by
  unfold Sc.blockHeaderDigit; (try unfold In.nextIsDigit); (try unfold In.nextIsBreakz); (try unfold In.nextIsBreak); (try unfold In.nextIsZ); ks
macro_rules | `(tactic| ks_close) => `(tactic| exact KS.blockHeaderDigit _ _)
set_option maxHeartbeats 4000000 in
theorem KS.blockHeaderChomp (d : Char) : KS (blockHeaderChomp d) := by
  unfold Sc.blockHeaderChomp; (try unfold In.nextIsDigit); (try unfold In.nextIsBreakz); (try unfold In.nextIsBreak); (try unfold In.nextIsZ); ks
macro_rules | `(tactic| ks_close) => `(tactic| exact KS.blockHeaderChomp _)
set_option maxHeartbeats 4000000 in
theorem KS.blockHeader (m : Marker) (c : Char) (b : Bool) : KS (blockHeader m c b) := by
  unfold Sc.blockHeader; (try unfold In.nextIsDigit); (try unfold In.nextIsBreakz); (try unfold In.nextIsBreak); (try unfold In.nextIsZ); ks
macro_rules | `(tactic| ks_close) => `(tactic| exact KS.blockHeader _ _ _)
set_option maxHeartbeats 4000000 in
theorem KS.blockChompingBreak  : KS (blockChompingBreak ) := by
  unfold Sc.blockChompingBreak; (try unfold In.nextIsDigit); (try unfold In.nextIsBreakz); (try unfold In.nextIsBreak); (try unfold In.nextIsZ); ks
macro_rules | `(tactic| ks_close) => `(tactic| exact KS.blockChompingBreak )
set_option maxHeartbeats 4000000 in
theorem KS.blockIndent (inc : Nat) (s : Sc) : KS (blockIndent inc s) := by
  unfold Sc.blockIndent; (try unfold In.nextIsDigit); (try unfold In.nextIsBreakz); (try unfold In.nextIsBreak); (try unfold In.nextIsZ); ks
macro_rules | `(tactic| ks_close) => `(tactic| exact KS.blockIndent _ _)
set_option maxHeartbeats 4000000 in
theorem KS.blockMarkerCheck (ind : Nat) (s : Sc) : KS (blockMarkerCheck ind s) := by
  unfold Sc.blockMarkerCheck; (try unfold In.nextIsDigit); (try unfold In.nextIsBreakz); (try unfold In.nextIsBreak); (try unfold In.nextIsZ); ks
macro_rules | `(tactic| ks_close) => `(tactic| exact KS.blockMarkerCheck _ _)
set_option maxHeartbeats 4000000 in
theorem KS.blockFinish (ch : Chomping) (ind : Nat) (a : BlkAcc) (s : Sc) : KS (blockFinish ch ind a s) := by
  unfold Sc.blockFinish; (try unfold In.nextIsDigit); (try unfold In.nextIsBreakz); (try unfold In.nextIsBreak); (try unfold In.nextIsZ); ks
macro_rules | `(tactic| ks_close) => `(tactic| exact KS.blockFinish _ _ _ _)
set_option maxHeartbeats 4000000 in
theorem KS.blockContent (lit : Bool) (ch : Chomping) (ind : Nat) (tb : Str) (s : Sc) : KS (blockContent lit ch ind tb s) := by
  unfold Sc.blockContent; (try unfold In.nextIsDigit); (try unfold In.nextIsBreakz); (try unfold In.nextIsBreak); (try unfold In.nextIsZ); ks
macro_rules | `(tactic| ks_close) => `(tactic| exact KS.blockContent _ _ _ _ _)
set_option maxHeartbeats 4000000 in
theorem KS.blockAfterHeader (lit : Bool) (m : Marker) (ch : Chomping) (inc : Nat) (cb : Str) : KS (blockAfterHeader lit m ch inc cb) := by
  unfold Sc.blockAfterHeader; (try unfold In.nextIsDigit); (try unfold In.nextIsBreakz); (try unfold In.nextIsBreak); (try unfold In.nextIsZ); ks
macro_rules | `(tactic| ks_close) => `(tactic| exact KS.blockAfterHeader _ _ _ _ _)
set_option maxHeartbeats 4000000 in
theorem KS.scanBlockScalarBody (lit : Bool) (m : Marker) : KS (scanBlockScalarBody lit m) := by
  unfold Sc.scanBlockScalarBody; (try unfold In.nextIsDigit); (try unfold In.nextIsBreakz); (try unfold In.nextIsBreak); (try unfold In.nextIsZ); ks
macro_rules | `(tactic| ks_close) => `(tactic| exact KS.scanBlockScalarBody _ _)

end SaphyrModel.Sc
