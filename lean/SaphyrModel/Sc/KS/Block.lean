import SaphyrModel.Sc.KS.Base
namespace SaphyrModel.Sc
open SaphyrModel

theorem KS.readBreak (acc : Str) : KS (readBreak acc) := by
  unfold Sc.readBreak; ks
macro_rules | `(tactic| ks_close) => `(tactic| exact KS.readBreak _)
theorem KS.skipBlockScalarIndentSpaces (indent : Nat) (g : Bool) (fuel : Nat) : KS (skipBlockScalarIndentSpaces indent g fuel ) := by
  induction fuel with
  | zero => unfold Sc.skipBlockScalarIndentSpaces; ks
  | succ n ih => unfold Sc.skipBlockScalarIndentSpaces; ks
macro_rules | `(tactic| ks_close) => `(tactic| exact KS.skipBlockScalarIndentSpaces _ _ _)
theorem KS.skipBlockScalarIndentBig (indent : Nat) (fuel : Nat) : KS (skipBlockScalarIndentBig indent fuel ) := by
  induction fuel with
  | zero => unfold Sc.skipBlockScalarIndentBig; ks
  | succ n ih => unfold Sc.skipBlockScalarIndentBig; ks
macro_rules | `(tactic| ks_close) => `(tactic| exact KS.skipBlockScalarIndentBig _ _)
theorem KS.skipBlockScalarIndent (indent : Nat) (fuel : Nat) : ∀ b, KS (skipBlockScalarIndent indent fuel b) := by
  induction fuel with
  | zero => intro b; unfold Sc.skipBlockScalarIndent; ks
  | succ n ih => intro b; unfold Sc.skipBlockScalarIndent; ks
macro_rules | `(tactic| ks_close) => `(tactic| exact KS.skipBlockScalarIndent _ _ _)
theorem KS.skipSpaces  (fuel : Nat) : KS (skipSpaces  fuel ) := by
  induction fuel with
  | zero => unfold Sc.skipSpaces; ks
  | succ n ih => unfold Sc.skipSpaces; ks
macro_rules | `(tactic| ks_close) => `(tactic| exact KS.skipSpaces _)
theorem KS.skipBlockScalarFirstLineIndentGo  (fuel : Nat) : ∀ m b, KS (skipBlockScalarFirstLineIndentGo  fuel m b) := by
  induction fuel with
  | zero => intro m b; unfold Sc.skipBlockScalarFirstLineIndentGo; ks
  | succ n ih => intro m b; unfold Sc.skipBlockScalarFirstLineIndentGo; ks
macro_rules | `(tactic| ks_close) => `(tactic| exact KS.skipBlockScalarFirstLineIndentGo _ _ _)
theorem KS.skipBlockScalarFirstLineIndent (b : Str) : KS (skipBlockScalarFirstLineIndent b) := by
  unfold Sc.skipBlockScalarFirstLineIndent; ks
macro_rules | `(tactic| ks_close) => `(tactic| exact KS.skipBlockScalarFirstLineIndent _)
theorem KS.contentLineBuffered  (fuel : Nat) : ∀ str, KS (contentLineBuffered  fuel str) := by
  induction fuel with
  | zero => intro str; unfold Sc.contentLineBuffered; ks
  | succ n ih => intro str; unfold Sc.contentLineBuffered; ks
macro_rules | `(tactic| ks_close) => `(tactic| exact KS.contentLineBuffered _ _)
theorem KS.contentLineRaw  (fuel : Nat) : ∀ l, KS (contentLineRaw  fuel l) := by
  induction fuel with
  | zero => intro l; unfold Sc.contentLineRaw; ks
  | succ n ih => intro l; unfold Sc.contentLineRaw; ks
macro_rules | `(tactic| ks_close) => `(tactic| exact KS.contentLineRaw _ _)
theorem KS.scanBlockScalarContentLine (str : Str) : KS (scanBlockScalarContentLine str) := by
  unfold Sc.scanBlockScalarContentLine; ks
macro_rules | `(tactic| ks_close) => `(tactic| exact KS.scanBlockScalarContentLine _)
theorem KS.blockScalarLines (lit : Bool) (indent : Nat) (fuel : Nat) : ∀ a, KS (blockScalarLines lit indent fuel a) := by
  induction fuel with
  | zero => intro a; unfold Sc.blockScalarLines; ks
  | succ n ih => intro a; unfold Sc.blockScalarLines; ks
macro_rules | `(tactic| ks_close) => `(tactic| exact KS.blockScalarLines _ _ _ _)
set_option maxHeartbeats 4000000 in
theorem KS.scanBlockScalarBody (lit : Bool) (m : Marker) : KS (scanBlockScalarBody lit m) := by
  unfold Sc.scanBlockScalarBody In.nextIsDigit In.nextIsBreakz In.nextIsBreak In.nextIsZ; ks
macro_rules | `(tactic| ks_close) => `(tactic| exact KS.scanBlockScalarBody _ _)

end SaphyrModel.Sc
