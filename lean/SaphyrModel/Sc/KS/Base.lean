import SaphyrModel.Sc.Frame
/-! String back-end: on a `StrInput` the scanner reaches no input-level panic site at all.
`KS m`: started on a string input, `m` leaves a string input and can only stop at `fuel` or at a
structural site (those are excluded separately by `scanAll_no_struct_panic`). -/
namespace SaphyrModel.Sc
open SaphyrModel

def OkSite (p : Site) : Prop := p = .fuel ∨ StructSite p

structure KI (m : M In α) : Prop where
  out : ∀ i, i.kind = .str → match m i with
    | .ok (_, i') => i'.kind = .str
    | .err _ => True
    | .panic p => OkSite p

structure KS (m : S α) : Prop where
  out : ∀ s, s.inp.kind = .str → match m s with
    | .ok (_, s') => s'.inp.kind = .str
    | .err _ => True
    | .panic p => OkSite p

theorem KI.pure (a : α) : KI (Pure.pure a : M In α) := ⟨fun _ h => h⟩
theorem KI.bind {m : M In α} {f : α → M In β} (h1 : KI m) (h2 : ∀ a, KI (f a)) : KI (m >>= f) := by
  constructor
  intro i hk
  have := h1.out i hk
  simp only [Bind.bind]
  cases hm : m i with
  | ok r => obtain ⟨a, i'⟩ := r; simp only [hm] at this ⊢; exact (h2 a).out i' this
  | err e => trivial
  | panic p => simp only [hm] at this ⊢; exact this

theorem KS.pure (a : α) : KS (Pure.pure a : S α) := ⟨fun _ h => h⟩
theorem KS.bind {m : S α} {f : α → S β} (h1 : KS m) (h2 : ∀ a, KS (f a)) : KS (m >>= f) := by
  constructor
  intro s hk
  have := h1.out s hk
  simp only [Bind.bind]
  cases hm : m s with
  | ok r => obtain ⟨a, s'⟩ := r; simp only [hm] at this ⊢; exact (h2 a).out s' this
  | err e => trivial
  | panic p => simp only [hm] at this ⊢; exact this
theorem KS.ite {c : Prop} [Decidable c] {a b : S α} (ha : KS a) (hb : KS b) : KS (if c then a else b) := by
  split <;> assumption
theorem KS.getS : KS (getS : S Sc) := ⟨fun _ h => h⟩
theorem KS.getMark : KS getMark := ⟨fun _ h => h⟩
theorem KS.err (m : Marker) (msg : String) : KS (err m msg : S α) := ⟨fun _ _ => trivial⟩
theorem KS.panicFuel : KS (panicAt .fuel : S α) := ⟨fun _ _ => Or.inl rfl⟩
theorem KS.panicStruct (p : Site) (h : StructSite p) : KS (panicAt p : S α) := ⟨fun _ _ => Or.inr h⟩
theorem KS.modS (f : Sc → Sc) (h : ∀ s, (f s).inp = s.inp) : KS (modS f) :=
  ⟨fun s hk => by show (f s).inp.kind = .str; rw [h s]; exact hk⟩
theorem KS.liftI {m : M In α} (h : KI m) : KS (liftI m) := by
  constructor
  intro s hk
  have := h.out s.inp hk
  simp only [Sc.liftI]
  cases hm : m s.inp with
  | ok r => obtain ⟨a, i'⟩ := r; simp only [hm] at this ⊢; exact this
  | err e => trivial
  | panic p => simp only [hm] at this ⊢; exact this

/-- an operation whose string branch is a plain value -/
theorem KI.kindSplit {f : In → Res (α × In)} {g : M In α}
    (hf : ∀ i, i.kind = .str → match f i with | .ok (_, i') => i'.kind = .str | .err _ => True | .panic p => OkSite p) :
    KI (fun i => match i.kind with | .str => f i | .buf => g i) := by
  constructor
  intro i hk
  have := hf i hk
  simp only [hk]
  exact this

theorem KI.mk' {m : M In α}
    (h1 : ∀ i a i', i.kind = .str → m i = .ok (a, i') → i'.kind = .str)
    (h2 : ∀ i p, i.kind = .str → m i = .panic p → OkSite p) : KI m := by
  constructor
  intro i hk
  cases hm : m i with
  | ok r => obtain ⟨a, i'⟩ := r; exact h1 i a i' hk hm
  | err e => trivial
  | panic p => exact h2 i p hk hm

macro "ki_prim" f:ident : tactic =>
  `(tactic| (apply KI.mk'
             · intro i a i' hk h; unfold $f at h; simp only [hk] at h
               (repeat' split at h) <;> (first | (simp at h; done) | (cases h; first | exact hk | rfl | simp_all))
             · intro i p hk h; unfold $f at h; simp only [hk] at h
               (repeat' split at h) <;> (first | (simp at h; done) | (cases h; simp [OkSite, StructSite]))))

theorem KI.lookahead (n) : KI (In.lookahead n) := by ki_prim In.lookahead
theorem KI.skip : KI In.skip := by ki_prim In.skip
theorem KI.skipN (n) : KI (In.skipN n) := by ki_prim In.skipN
theorem KI.peek : KI In.peek := by ki_prim In.peek
theorem KI.peekNth (n) : KI (In.peekNth n) := by ki_prim In.peekNth
theorem KI.assertBuflen (n s) : KI (In.assertBuflen n s) := by ki_prim In.assertBuflen
theorem KI.lookCh : KI In.lookCh := KI.bind (KI.lookahead 1) (fun _ => KI.peek)
theorem KI.nextCharIs (c) : KI (In.nextCharIs c) := KI.bind KI.peek (fun _ => KI.pure _)
theorem KI.nthCharIs (n c) : KI (In.nthCharIs n c) := KI.bind (KI.peekNth n) (fun _ => KI.pure _)
theorem KI.next2Are (a b) : KI (In.next2Are a b) := by ki_prim In.next2Are
theorem KI.next3Are (a b c) : KI (In.next3Are a b c) := by ki_prim In.next3Are
theorem KI.docInd : KI In.nextIsDocumentIndicator := by ki_prim In.nextIsDocumentIndicator
theorem KI.docStart : KI In.nextIsDocumentStart := by ki_prim In.nextIsDocumentStart
theorem KI.docEnd : KI In.nextIsDocumentEnd := by ki_prim In.nextIsDocumentEnd
theorem KI.nextIs (q : Char → Bool) (e : Bool) : KI (In.nextIs q e) := by ki_prim In.nextIs
theorem KI.skipWhileNonBreakz : KI In.skipWhileNonBreakz := by ki_prim In.skipWhileNonBreakz
theorem KI.skipWhileBlank : KI In.skipWhileBlank := by ki_prim In.skipWhileBlank
theorem KI.fetchWhileIsAlpha (out : Str) : KI (In.fetchWhileIsAlpha out) := by ki_prim In.fetchWhileIsAlpha
theorem KI.rawRead : KI In.rawReadNonBreakzCh := by ki_prim In.rawReadNonBreakzCh
theorem KI.skipWsToEol_yes : KI (In.skipWsToEol .yes) := by ki_prim In.skipWsToEol
theorem KI.skipWsToEol_no : KI (In.skipWsToEol .no) := by ki_prim In.skipWsToEol

theorem liftI_nextIs_str (q : Char → Bool) (e : Bool) (s : Sc) (hk : s.inp.kind = .str) :
    Sc.liftI (In.nextIs q e) s = .ok ((match s.inp.iter with | [] => e | c :: _ => q c), s) := by
  simp only [Sc.liftI, In.nextIs, hk]
  cases s.inp.iter <;> rfl

theorem KI.canBePlain_cons (fl : Bool) (i : In) (hk : i.kind = .str) (c : Char) (r : Str) (hi : i.iter = c :: r) :
    ∃ b, In.nextCanBePlainScalar fl i = .ok (b, i) := by
  unfold In.nextCanBePlainScalar
  simp only [hk, hi]
  (repeat' split) <;> exact ⟨_, rfl⟩

theorem liftI_canBePlain_str (fl : Bool) (s : Sc) (hk : s.inp.kind = .str) (c : Char) (r : Str)
    (hi : s.inp.iter = c :: r) : ∃ b, Sc.liftI (In.nextCanBePlainScalar fl) s = .ok (b, s) := by
  obtain ⟨b, hb⟩ := KI.canBePlain_cons fl s.inp hk c r hi
  exact ⟨b, by simp only [Sc.liftI, hb]⟩

theorem bind_ok {m : S α} {f : α → S β} {s s' : Sc} {a : α} (h : m s = .ok (a, s')) :
    (m >>= f) s = f a s' := by simp only [Bind.bind, h]

/-- sequencing with an intermediate assertion about the input -/
theorem KS.bind' {m : S α} {f : α → S β} (R : α → Sc → Prop)
    (h1 : ∀ s, s.inp.kind = .str → ∃ a, m s = .ok (a, s) ∧ R a s)
    (h2 : ∀ a s, s.inp.kind = .str → R a s → match f a s with
      | .ok (_, s') => s'.inp.kind = .str | .err _ => True | .panic p => OkSite p) : KS (m >>= f) := by
  constructor
  intro s hk
  obtain ⟨a, hm, hr⟩ := h1 s hk
  rw [bind_ok hm]
  exact h2 a s hk hr

theorem nextIsBBz_str (s : Sc) (hk : s.inp.kind = .str) :
    ∃ a, Sc.liftI In.nextIsBlankOrBreakz s = .ok (a, s) ∧ (a = false → ∃ c r, s.inp.iter = c :: r) := by
  refine ⟨_, liftI_nextIs_str _ _ s hk, ?_⟩
  cases s.inp.iter with
  | nil => intro h; simp at h
  | cons c r => intro _; exact ⟨c, r, rfl⟩

/-- `next_can_be_plain_scalar` is only asked after `next_is_blank_or_breakz` said no: the string is not empty -/
theorem KS.plainGuard {fl : Bool} {A : S α} {f : Bool → S α} (hA : KS A) (hf : ∀ c, KS (f c)) :
    KS (Sc.liftI In.nextIsBlankOrBreakz >>= fun b =>
      if b = true then A else (Sc.liftI (In.nextCanBePlainScalar fl) >>= f)) := by
  apply KS.bind' (fun a s => a = false → ∃ c r, s.inp.iter = c :: r) nextIsBBz_str
  intro a s hk hr
  cases a
  · obtain ⟨c, r, hi⟩ := hr rfl
    obtain ⟨b, hb⟩ := liftI_canBePlain_str fl s hk c r hi
    show match (Sc.liftI (In.nextCanBePlainScalar fl) >>= f) s with
        | .ok (_, s') => s'.inp.kind = .str | .err _ => True | .panic p => OkSite p
    rw [bind_ok hb]; exact (hf b).out s hk
  · exact hA.out s hk

theorem KS.plainGuard2 {fl : Bool} {f : Bool → S α} (hf : ∀ c, KS (f c)) :
    KS (Sc.liftI In.nextIsBlankOrBreakz >>= fun isBz =>
      (if isBz = true then (Pure.pure false : S Bool) else Sc.liftI (In.nextCanBePlainScalar fl)) >>= f) := by
  apply KS.bind' (fun a s => a = false → ∃ c r, s.inp.iter = c :: r) nextIsBBz_str
  intro a s hk hr
  cases a
  · obtain ⟨c, r, hi⟩ := hr rfl
    obtain ⟨b, hb⟩ := liftI_canBePlain_str fl s hk c r hi
    show match (Sc.liftI (In.nextCanBePlainScalar fl) >>= f) s with
        | .ok (_, s') => s'.inp.kind = .str | .err _ => True | .panic p => OkSite p
    rw [bind_ok hb]; exact (hf b).out s hk
  · exact (hf false).out s hk

syntax "ks_close" : tactic
macro_rules | `(tactic| ks_close) => `(tactic| first
    | exact KS.pure _ | exact KS.getS | exact KS.getMark | exact KS.err _ _ | exact KS.panicFuel
    | exact KS.panicStruct _ (by simp [StructSite]) | assumption | apply_assumption)
macro_rules | `(tactic| ks_close) => `(tactic| (apply KS.liftI; first
        | exact KI.lookahead _ | exact KI.skip | exact KI.skipN _ | exact KI.peek
        | exact KI.peekNth _ | exact KI.lookCh | exact KI.next2Are _ _
        | exact KI.nextIs _ _ | exact KI.nextCharIs _ | exact KI.nthCharIs _ _
        | exact KI.rawRead | exact KI.next3Are _ _ _ | exact KI.docInd
        | exact KI.docStart | exact KI.docEnd
        | exact KI.skipWhileNonBreakz | exact KI.skipWhileBlank
        | exact KI.fetchWhileIsAlpha _ | exact KI.skipWsToEol_yes | exact KI.skipWsToEol_no))
macro_rules | `(tactic| ks_close) => `(tactic| (apply KS.modS; intro s; first | rfl | (split <;> rfl)))

macro "ks" : tactic => `(tactic|
  repeat' (first
    | ks_close
    | apply KS.plainGuard
    | apply KS.plainGuard2
    | apply KS.bind
    | apply KS.ite
    | intro _
    | split))

theorem KS.bufmaxlen : KS bufmaxlen := ⟨fun _ h => h⟩
theorem KS.bufIsEmpty : KS bufIsEmpty := ⟨fun _ h => h⟩
theorem KS.isWithinBlock : KS isWithinBlock := ⟨fun _ h => h⟩
macro_rules | `(tactic| ks_close) => `(tactic| first | exact KS.bufmaxlen | exact KS.bufIsEmpty | exact KS.isWithinBlock)

theorem KS.lookahead (n) : KS (lookahead n) := by unfold Sc.lookahead; ks
theorem KS.peek : KS peek := by unfold Sc.peek; ks
theorem KS.peekNth (n) : KS (peekNth n) := by unfold Sc.peekNth; ks
theorem KS.lookCh : KS lookCh := by unfold Sc.lookCh; ks
theorem KS.advance (n) : KS (advance n) := by unfold Sc.advance; ks
theorem KS.pushTok (sp t) : KS (pushTok sp t) := by unfold Sc.pushTok; ks
macro_rules | `(tactic| ks_close) => `(tactic| first
    | exact KS.lookahead _ | exact KS.peek | exact KS.peekNth _ | exact KS.lookCh | exact KS.advance _ | exact KS.pushTok _ _)
theorem KS.skipBlank : KS skipBlank := by unfold Sc.skipBlank; ks
theorem KS.skipNonBlank : KS skipNonBlank := by unfold Sc.skipNonBlank; ks
theorem KS.skipNNonBlank (n) : KS (skipNNonBlank n) := by unfold Sc.skipNNonBlank; ks
theorem KS.skipNl : KS skipNl := by unfold Sc.skipNl; ks
macro_rules | `(tactic| ks_close) => `(tactic| first
    | exact KS.skipBlank | exact KS.skipNonBlank | exact KS.skipNNonBlank _ | exact KS.skipNl)
theorem KS.skipLinebreak : KS skipLinebreak := by unfold Sc.skipLinebreak In.nextIsBreak; ks
theorem KS.skipBreak : KS skipBreak := by unfold Sc.skipBreak; ks
theorem KS.allowSimpleKey : KS allowSimpleKey := by unfold Sc.allowSimpleKey; ks
theorem KS.disallowSimpleKey : KS disallowSimpleKey := by unfold Sc.disallowSimpleKey; ks
theorem KS.skipWsToEol_yes : KS (skipWsToEol .yes) := by unfold Sc.skipWsToEol; ks
theorem KS.skipWsToEol_no : KS (skipWsToEol .no) := by unfold Sc.skipWsToEol; ks
macro_rules | `(tactic| ks_close) => `(tactic| first
    | exact KS.skipLinebreak | exact KS.skipBreak | exact KS.allowSimpleKey | exact KS.disallowSimpleKey
    | exact KS.skipWsToEol_yes | exact KS.skipWsToEol_no)
theorem KS.scanAnchorGo (fuel : Nat) : ∀ str, KS (scanAnchorGo fuel str) := by
  induction fuel with
  | zero => intro str; unfold Sc.scanAnchorGo; ks
  | succ n ih => intro str; unfold Sc.scanAnchorGo; ks
macro_rules | `(tactic| ks_close) => `(tactic| exact KS.scanAnchorGo _ _)
theorem KS.scanAnchor (alias : Bool) : KS (scanAnchor alias) := by unfold Sc.scanAnchor; ks
macro_rules | `(tactic| ks_close) => `(tactic| exact KS.scanAnchor _)

theorem KS.skipToNextTokenGo (fuel : Nat) : KS (skipToNextTokenGo fuel) := by
  induction fuel with
  | zero => unfold Sc.skipToNextTokenGo; ks
  | succ n ih => unfold Sc.skipToNextTokenGo; ks
theorem KS.skipToNextToken : KS skipToNextToken := by
  unfold Sc.skipToNextToken; have := KS.skipToNextTokenGo; ks
macro_rules | `(tactic| ks_close) => `(tactic| first | exact KS.skipToNextTokenGo _ | exact KS.skipToNextToken)

theorem KS.skipYamlWhitespaceGo (fuel : Nat) : ∀ b, KS (skipYamlWhitespaceGo fuel b) := by
  induction fuel with
  | zero => intro b; unfold Sc.skipYamlWhitespaceGo; ks
  | succ n ih => intro b; unfold Sc.skipYamlWhitespaceGo; ks
theorem KS.skipYamlWhitespace : KS skipYamlWhitespace := by
  unfold Sc.skipYamlWhitespace; have := KS.skipYamlWhitespaceGo; ks
macro_rules | `(tactic| ks_close) => `(tactic| first | exact KS.skipYamlWhitespaceGo _ _ | exact KS.skipYamlWhitespace)

end SaphyrModel.Sc
