import SaphyrModel.Sc.KS.Base
namespace SaphyrModel.Sc
open SaphyrModel

theorem KS.scanDirectiveName : KS (scanDirectiveName) := by
  unfold Sc.scanDirectiveName; ks
macro_rules | `(tactic| ks_close) => `(tactic| exact KS.scanDirectiveName )
theorem KS.scanVersionNumberGo (mark : Marker) (fuel : Nat) : ∀ v l, KS (scanVersionNumberGo mark fuel v l) := by
  induction fuel with
  | zero => intro v l; unfold Sc.scanVersionNumberGo; ks
  | succ n ih => intro v l; unfold Sc.scanVersionNumberGo; ks
macro_rules | `(tactic| ks_close) => `(tactic| exact KS.scanVersionNumberGo _ _ _ _)
theorem KS.scanVersionDirectiveNumber (mark : Marker) : KS (scanVersionDirectiveNumber mark) := by
  unfold Sc.scanVersionDirectiveNumber; ks
macro_rules | `(tactic| ks_close) => `(tactic| exact KS.scanVersionDirectiveNumber _)
theorem KS.scanVersionDirectiveValue (mark : Marker) : KS (scanVersionDirectiveValue mark) := by
  unfold Sc.scanVersionDirectiveValue; ks
macro_rules | `(tactic| ks_close) => `(tactic| exact KS.scanVersionDirectiveValue _)
theorem KS.scanTagHandle (d : Bool) (mark : Marker) : KS (scanTagHandle d mark) := by
  unfold Sc.scanTagHandle; ks
macro_rules | `(tactic| ks_close) => `(tactic| exact KS.scanTagHandle _ _)

theorem KS.scanUriEscapesGo (mark : Marker) (fuel : Nat) : ∀ w c, KS (scanUriEscapesGo mark fuel w c) := by
  induction fuel with
  | zero => intro w c; unfold Sc.scanUriEscapesGo; ks
  | succ n ih => intro w c; unfold Sc.scanUriEscapesGo; ks
macro_rules | `(tactic| ks_close) => `(tactic| exact KS.scanUriEscapesGo _ _ _ _)
theorem KS.scanUriEscapes (mark : Marker) : KS (scanUriEscapes mark) := by
  unfold Sc.scanUriEscapes; ks
macro_rules | `(tactic| ks_close) => `(tactic| exact KS.scanUriEscapes _)
theorem KS.scanUriLoop (p : Char → Bool) (mark : Marker) (fuel : Nat) : ∀ str n, KS (scanUriLoop p mark fuel str n) := by
  induction fuel with
  | zero => intro str n; unfold Sc.scanUriLoop; ks
  | succ n ih => intro str n; unfold Sc.scanUriLoop; ks
macro_rules | `(tactic| ks_close) => `(tactic| exact KS.scanUriLoop _ _ _ _ _)
theorem KS.scanTagPrefix (m : Marker) : KS (scanTagPrefix m) := by
  unfold Sc.scanTagPrefix; ks
macro_rules | `(tactic| ks_close) => `(tactic| exact KS.scanTagPrefix _)
theorem KS.scanTagDirectiveValue (m : Marker) : KS (scanTagDirectiveValue m) := by
  unfold Sc.scanTagDirectiveValue; ks
macro_rules | `(tactic| ks_close) => `(tactic| exact KS.scanTagDirectiveValue _)
theorem KS.scanDirective : KS (scanDirective) := by
  unfold Sc.scanDirective; ks
macro_rules | `(tactic| ks_close) => `(tactic| exact KS.scanDirective )
theorem KS.scanVerbatimTag (m : Marker) : KS (scanVerbatimTag m) := by
  unfold Sc.scanVerbatimTag; ks
macro_rules | `(tactic| ks_close) => `(tactic| exact KS.scanVerbatimTag _)
theorem KS.scanTagShorthandSuffix (h : Str) (m : Marker) : KS (scanTagShorthandSuffix h m) := by
  unfold Sc.scanTagShorthandSuffix; ks
macro_rules | `(tactic| ks_close) => `(tactic| exact KS.scanTagShorthandSuffix _ _)
theorem KS.scanTag : KS (scanTag) := by
  unfold Sc.scanTag; ks
macro_rules | `(tactic| ks_close) => `(tactic| exact KS.scanTag )

end SaphyrModel.Sc
