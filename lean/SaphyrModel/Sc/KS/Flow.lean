import SaphyrModel.Sc.KS.Base
namespace SaphyrModel.Sc
open SaphyrModel

theorem KS.hexLoop (m : Marker) (n : Nat) (fuel : Nat) : ∀ v, KS (hexLoop m n fuel v) := by
  induction fuel with
  | zero => intro v; unfold Sc.hexLoop; ks
  | succ n ih => intro v; unfold Sc.hexLoop; ks
macro_rules | `(tactic| ks_close) => `(tactic| exact KS.hexLoop _ _ _ _)
theorem KS.resolveEscape (m : Marker) : KS (resolveEscape m) := by
  unfold Sc.resolveEscape; ks
macro_rules | `(tactic| ks_close) => `(tactic| exact KS.resolveEscape _)
theorem KS.consumeNonWs (single : Bool) (m : Marker) (fuel : Nat) : ∀ str lb, KS (consumeNonWs single m fuel str lb) := by
  induction fuel with
  | zero => intro str lb; unfold Sc.consumeNonWs; ks
  | succ n ih => intro str lb; unfold Sc.consumeNonWs; ks
macro_rules | `(tactic| ks_close) => `(tactic| exact KS.consumeNonWs _ _ _ _ _)
theorem KS.consumeBlanks  (fuel : Nat) : ∀ a lb, KS (consumeBlanks  fuel a lb) := by
  induction fuel with
  | zero => intro a lb; unfold Sc.consumeBlanks; ks
  | succ n ih => intro a lb; unfold Sc.consumeBlanks; ks
macro_rules | `(tactic| ks_close) => `(tactic| exact KS.consumeBlanks _ _ _)
theorem KS.flowScalarLoop (single : Bool) (m : Marker) (fuel : Nat) : ∀ str a, KS (flowScalarLoop single m fuel str a) := by
  induction fuel with
  | zero => intro str a; unfold Sc.flowScalarLoop; ks
  | succ n ih => intro str a; unfold Sc.flowScalarLoop; ks
macro_rules | `(tactic| ks_close) => `(tactic| exact KS.flowScalarLoop _ _ _ _ _)
theorem KS.scanFlowScalar (single : Bool) : KS (scanFlowScalar single) := by
  unfold Sc.scanFlowScalar; ks
macro_rules | `(tactic| ks_close) => `(tactic| exact KS.scanFlowScalar _)
end SaphyrModel.Sc
