import SaphyrModel.Sc.Scan2
namespace SaphyrModel.Sc
open SaphyrModel

-- flow scalars ----------------------------------------------------------------------------------

def namedEscape : Char → Option Char
  | '0' => some '\x00' | 'a' => some '\x07' | 'b' => some '\x08' | 't' => some '\t' | '\t' => some '\t'
  | 'n' => some '\n' | 'v' => some '\x0b' | 'f' => some '\x0c' | 'r' => some '\x0d' | 'e' => some '\x1b'
  | ' ' => some ' ' | '"' => some '"' | '/' => some '/' | '\\' => some '\\'
  | 'N' => some (Char.ofNat 0x85) | '_' => some (Char.ofNat 0xA0)
  | 'L' => some (Char.ofNat 0x2028) | 'P' => some (Char.ofNat 0x2029)
  | _ => none

def hexLoop (startMark : Marker) (n : Nat) : Nat → Nat → S Nat
  | 0, v => pure v
  | k + 1, v => do
    let c ← peekNth (n - (k + 1))
    if !isHex c then
      err startMark "while parsing a quoted scalar, did not find expected hexadecimal number"
    else hexLoop startMark n k (v * 16 + asHex c)

def resolveEscape (startMark : Marker) : S Char := do
  let e ← peekNth 1
  match namedEscape e with
  | some c => do skipNNonBlank 2; pure c
  | none =>
    let n := if e == 'x' then 2 else if e == 'u' then 4 else if e == 'U' then 8 else 0
    if n == 0 then err startMark "while parsing a quoted scalar, found unknown escape character"
    else do
      skipNNonBlank 2
      lookahead n
      let v ← hexLoop startMark n n 0
      -- `value` is a u32: 8 hex digits cannot overflow it
      if h : v.isValidChar then do skipNNonBlank n; pure (Char.ofNatAux v h)
      else err startMark "while parsing a quoted scalar, found invalid Unicode character escape code"

def consumeNonWs (single : Bool) (startMark : Marker) : Nat → Str → Bool → S (Str × Bool)
  | 0, _, _ => panicAt .fuel
  | fuel + 1, str, lb => do
    let c ← peek
    if isBlankOrBreakz c then pure (str, lb)
    else if c == '\'' && single then do
      if (← peekNth 1) == '\'' then do
        skipNNonBlank 2; lookahead 2
        consumeNonWs single startMark fuel (str ++ ['\'']) lb
      else pure (str, lb)
    else if c == '"' && !single then pure (str, lb)
    else if c == '\\' && !single then do
      if isBreak (← peekNth 1) then do
        lookahead 3
        skipNonBlank
        skipLinebreak
        pure (str, true)
      else do
        let ch ← resolveEscape startMark
        lookahead 2
        consumeNonWs single startMark fuel (str ++ [ch]) lb
    else do
      skipNonBlank; lookahead 2
      consumeNonWs single startMark fuel (str ++ [c]) lb

structure WsAcc where
  whitespaces : Str
  leadingBreak : Str
  trailingBreaks : Str

def consumeBlanks : Nat → WsAcc → Bool → S (WsAcc × Bool)
  | 0, _, _ => panicAt .fuel
  | fuel + 1, a, lb => do
    if ← liftI In.nextIsBlank then do
      if lb then do
        let s ← getS
        if (← peek) == '\t' && (s.mark.col : Int) < s.indent then
          err s.mark "tab cannot be used as indentation"
        else do skipBlank; lookahead 1; consumeBlanks fuel a lb
      else do
        let c ← peek
        skipBlank; lookahead 1
        consumeBlanks fuel { a with whitespaces := a.whitespaces ++ [c] } lb
    else if ← liftI In.nextIsBreak then do
      lookahead 2
      if lb then do
        let tb ← readBreak a.trailingBreaks
        lookahead 1
        consumeBlanks fuel { a with trailingBreaks := tb } lb
      else do
        let l ← readBreak a.leadingBreak
        lookahead 1
        consumeBlanks fuel { a with whitespaces := [], leadingBreak := l } true
    else pure (a, lb)

def flowScalarLoop (single : Bool) (startMark : Marker) : Nat → Str → WsAcc → S Str
  | 0, _, _ => panicAt .fuel
  | fuel + 1, str, a => do
    lookahead 4
    let s ← getS
    let docInd ← if s.mark.col == 0 then liftI In.nextIsDocumentIndicator else pure false
    if docInd then err startMark "while scanning a quoted scalar, found unexpected document indicator"
    else if ← liftI In.nextIsZ then
      err startMark "while scanning a quoted scalar, found unexpected end of stream"
    else if (s.mark.col : Int) < s.indent then err startMark "invalid indentation in quoted scalar"
    else do
      lookahead 2
      let (str, lb) ← consumeNonWs single startMark (s.inp.remaining + 2) str false
      let c ← lookCh
      if (c == '\'' && single) || (c == '"' && !single) then pure str
      else do
        let s ← getS
        let (a, lb) ← consumeBlanks (s.inp.remaining + 2) a lb
        if lb then
          if a.leadingBreak.isEmpty then
            flowScalarLoop single startMark fuel (str ++ a.leadingBreak ++ a.trailingBreaks)
              { a with trailingBreaks := [], leadingBreak := [] }
          else if a.trailingBreaks.isEmpty then
            flowScalarLoop single startMark fuel (str ++ [' ']) { a with leadingBreak := [] }
          else
            flowScalarLoop single startMark fuel (str ++ a.trailingBreaks)
              { a with trailingBreaks := [], leadingBreak := [] }
        else flowScalarLoop single startMark fuel (str ++ a.whitespaces) { a with whitespaces := [] }

def scanFlowScalar (single : Bool) : S Token := do
  let startMark ← getMark
  skipNonBlank
  let s ← getS
  let str ← flowScalarLoop single startMark (s.inp.remaining + 2) [] ⟨[], [], []⟩
  skipNonBlank
  let _ ← skipWsToEol .yes
  let c ← peek
  let s ← getS
  let ok :=
    ((c == ',' || c == '}' || c == ']') && s.flowLevel > 0) || isBreakz c ||
    (c == ':' && s.flowLevel == 0 && startMark.line == s.mark.line) || (c == ':' && s.flowLevel > 0)
  if !ok then err s.mark "invalid trailing content after double-quoted scalar"
  else pure ⟨⟨startMark, s.mark⟩, .scalar (if single then .singleQuoted else .doubleQuoted) str⟩

def fetchFlowScalar (single : Bool) : S Unit := do
  saveSimpleKey
  disallowSimpleKey
  let tok ← scanFlowScalar single
  skipToNextToken
  modS fun s => { s with adjacentValueAllowedAt := s.mark.index, tokens := s.tokens ++ [tok] }

-- plain scalars ---------------------------------------------------------------------------------

structure PlAcc where
  str : Str
  whitespaces : Str
  leadingBreak : Str
  trailingBreaks : Str
  endMark : Marker

/-- inner chunk loop: `for _ in 0..bufmaxlen-1` -/
def plainChunk : Nat → Str → S (Str × Bool)
  | 0, str => pure (str, false)
  | k + 1, str => do
    let s ← getS
    if ← liftI In.nextIsBlankOrBreakz then pure (str, true)
    else if !(← liftI (In.nextCanBePlainScalar (s.flowLevel > 0))) then pure (str, true)
    else do
      let c ← peek
      skipNonBlank
      plainChunk k (str ++ [c])

def plainChunks : Nat → Str → S Str
  | 0, _ => panicAt .fuel
  | fuel + 1, str => do
    let cap ← bufmaxlen
    lookahead cap
    let (str, fin) ← plainChunk (cap - 1) str
    if fin then pure str else plainChunks fuel str

def plainBlanks (indent : Int) (startMark : Marker) : Nat → PlAcc → S PlAcc
  | 0, _ => panicAt .fuel
  | fuel + 1, a => do
    if ← liftI In.nextIsBlankOrBreak then do
      if ← liftI In.nextIsBlank then do
        let s ← getS
        if !s.leadingWhitespace then do
          let c ← peek
          skipBlank; lookahead 2
          plainBlanks indent startMark fuel { a with whitespaces := a.whitespaces ++ [c] }
        else if (s.mark.col : Int) < indent && (← peek) == '\t' then do
          let _ ← skipWsToEol .yes
          if !(← liftI In.nextIsBreakz) then err startMark "while scanning a plain scalar, found a tab"
          else do lookahead 2; plainBlanks indent startMark fuel a
        else do skipBlank; lookahead 2; plainBlanks indent startMark fuel a
      else do
        let s ← getS
        if s.leadingWhitespace then do
          skipBreak; lookahead 2
          plainBlanks indent startMark fuel { a with trailingBreaks := a.trailingBreaks ++ ['\n'] }
        else do
          skipBreak
          modS fun s => { s with leadingWhitespace := true }
          lookahead 2
          plainBlanks indent startMark fuel { a with whitespaces := [], leadingBreak := a.leadingBreak ++ ['\n'] }
    else pure a

def plainLoop (indent : Int) (startMark : Marker) : Nat → PlAcc → S PlAcc
  | 0, _ => panicAt .fuel
  | fuel + 1, a => do
    lookahead 4
    let s ← getS
    let docInd ← if s.leadingWhitespace then liftI In.nextIsDocumentIndicator else pure false
    if docInd || (← peek) == '#' then pure a
    else if s.flowLevel > 0 && (← peek) == '-' && isFlow (← peekNth 1) then
      err s.mark "plain scalar cannot start with '-' followed by ,[]{}"
    else do
      let isBz ← liftI In.nextIsBlankOrBreakz
      let can ← if isBz then pure false else liftI (In.nextCanBePlainScalar (s.flowLevel > 0))
      let a ←
        if can then do
          let a :=
            if s.leadingWhitespace then
              if a.leadingBreak.isEmpty then
                { a with str := a.str ++ a.leadingBreak ++ a.trailingBreaks, trailingBreaks := [], leadingBreak := [] }
              else if a.trailingBreaks.isEmpty then { a with str := a.str ++ [' '], leadingBreak := [] }
              else { a with str := a.str ++ a.trailingBreaks, trailingBreaks := [], leadingBreak := [] }
            else if !a.whitespaces.isEmpty then { a with str := a.str ++ a.whitespaces, whitespaces := [] }
            else a
          if s.leadingWhitespace then modS fun s => { s with leadingWhitespace := false }
          let c ← peek
          skipNonBlank
          let s ← getS
          let str ← plainChunks (s.inp.remaining + 2) (a.str ++ [c])
          pure { a with str := str, endMark := (← getMark) }
        else pure a
      let isBlank ← liftI In.nextIsBlank
      let isBrk ← if isBlank then pure true else liftI In.nextIsBreak
      if !isBrk then pure a
      else do
        lookahead 2
        let s ← getS
        let a ← plainBlanks indent startMark (s.inp.remaining + 2) a
        let s ← getS
        if s.flowLevel == 0 && (s.mark.col : Int) < indent then pure a
        else plainLoop indent startMark fuel a

/-- `scan_plain_scalar` after the non-block indents have been unrolled -/
def scanPlainScalarBody : S Token := do
  let s ← getS
  let indent := s.indent + 1
  let startMark := s.mark
  if s.flowLevel > 0 && (startMark.col : Int) < indent then
    err startMark "invalid indentation in flow construct"
  else do
    let a ← plainLoop indent startMark (s.inp.remaining + 2) ⟨[], [], [], [], s.mark⟩
    let s ← getS
    if s.leadingWhitespace then allowSimpleKey
    if a.str.isEmpty then err startMark "unexpected end of plain scalar"
    else pure ⟨⟨startMark, a.endMark⟩, .scalar .plain a.str⟩

def scanPlainScalar : S Token := do
  unrollNonBlockIndents
  scanPlainScalarBody

def fetchPlainScalar : S Unit := do
  saveSimpleKey
  disallowSimpleKey
  let tok ← scanPlainScalar
  modS fun s => { s with tokens := s.tokens ++ [tok] }

-- keys and values -------------------------------------------------------------------------------

/-- `?` in a flow sequence entry: remember that the entry has an explicit key -/
def markExplicitKey (s : Sc) : Sc :=
  match s.implStates with
  | .possible :: r => { s with implStates := .explicitKey :: r }
  | _ => s

/-- block context: open the mapping (if allowed); flow context: mark the entry -/
def keyPrologue (s : Sc) : S Unit :=
  if s.flowLevel == 0 then
    (if !s.simpleKeyAllowed then err s.mark "mapping keys are not allowed in this context"
     else rollIndent s.mark.col none .blockMappingStart s.mark)
  else modS markExplicitKey

def fetchKeyTail (startMark : Marker) : S Unit := do
  skipNonBlank
  skipYamlWhitespace
  let c ← peek
  let m ← getMark
  if c == '\t' then err m "tabs disallowed in this context"
  else pushTok ⟨startMark, m⟩ .key

def fetchKey : S Unit := do
  let s ← getS
  keyPrologue s
  removeSimpleKey
  (if s.flowLevel == 0 then allowSimpleKey else disallowSimpleKey)
  fetchKeyTail s.mark

/-- `':'` after a possible simple key: back-insert `Key` (and `FlowMappingStart`), open the block mapping -/
def valueAfterSimpleKey (sk : SimpleKey) (startMark : Marker) (isImplicit : Bool) : S Unit := do
  let pos ← tokenPos sk.tokenNumber
  insertToken pos ⟨Span.empty sk.mark, .key⟩
  (if isImplicit then
    (if sk.mark.line < startMark.line then err startMark "illegal placement of ':' indicator"
     else do
      let pos ← tokenPos sk.tokenNumber
      insertToken pos ⟨Span.empty sk.mark, .flowMappingStart⟩)
   else pure ())
  rollIndent sk.mark.col (some sk.tokenNumber) .blockMappingStart sk.mark
  rollOneColIndent
  modS fun s => match s.simpleKeys with
    | k :: ks => { s with simpleKeys := { k with possible := false } :: ks }
    | [] => s
  disallowSimpleKey

/-- `':'` after a complex key (or with no key at all) -/
def valueAfterComplexKey (startMark : Marker) (isImplicit : Bool) : S Unit := do
  (if isImplicit then pushTok (Span.empty startMark) .flowMappingStart else pure ())
  let s ← getS
  (if s.flowLevel == 0 then
    (if !s.simpleKeyAllowed then err startMark "mapping values are not allowed in this context"
     else rollIndent startMark.col none .blockMappingStart startMark)
   else pure ())
  rollOneColIndent
  if s.flowLevel == 0 then allowSimpleKey else disallowSimpleKey

/-- the tab check after `':'`; returns whether the error applies -/
def valueTabCheck : S Bool := do
  if (← lookCh) == '\t' then do
    let r ← skipWsToEol .yes
    if !r.hasValidYamlWs then do
      if (← getS).flowLevel != 0 then pure false
      else if (← peek) == '-' then pure true else liftI In.nextIsAlpha
    else pure false
  else pure false

def fetchValue : S Unit := do
  let s ← getS
  match s.simpleKeys with
  | [] => panicAt .simpleKeysLastUnwrap
  | sk :: _ => do
    let startMark := s.mark
    let isImplicit := (match s.implStates with
      | .possible :: _ | .inside :: _ => true
      | _ => false)
    (if isImplicit then modS fun s => { s with implStates := .inside :: s.implStates.tail } else pure ())
    skipNonBlank
    let tabErr ← valueTabCheck
    if tabErr then err (← getMark) "':' must be followed by a valid YAML whitespace"
    else do
      (if sk.possible then valueAfterSimpleKey sk startMark isImplicit
       else valueAfterComplexKey startMark isImplicit)
      pushTok (Span.empty startMark) .value

def fetchFlowValue : S Unit := do
  let nc ← peekNth 1
  let s ← getS
  if s.mark.index != s.adjacentValueAllowedAt && (nc == '[' || nc == '{') then
    err s.mark "':' may not precede any of `[{` in flow mapping"
  else fetchValue

-- the fetch loop --------------------------------------------------------------------------------

/-- after `...`: only blanks and a comment may follow on the line -/
def fetchDocumentEndMarker : S Bool := do
  fetchDocumentIndicator .documentEnd
  let _ ← skipWsToEol .yes
  let ok ← liftI In.nextIsBreakz
  let m ← getMark
  if !ok then err m "invalid content after document end marker" else pure true

/-- column-0 constructs: directives and document markers; returns whether one was fetched -/
def fetchSpecial : S Bool := do
  let s ← getS
  if s.mark.col == 0 then do
    if ← liftI (In.nextCharIs '%') then do fetchDirective; pure true
    else if ← liftI In.nextIsDocumentStart then do fetchDocumentIndicator .documentStart; pure true
    else if ← liftI In.nextIsDocumentEnd then fetchDocumentEndMarker
    else pure false
  else pure false

/-- dispatch on the next one or two characters -/
def fetchDispatch : S Unit := do
  let s ← getS
  if (s.mark.col : Int) < s.indent then err s.mark "invalid indentation"
  else do
    let c ← peek
    let nc ← peekNth 1
    if c == '[' then fetchFlowCollectionStart .flowSequenceStart
    else if c == '{' then fetchFlowCollectionStart .flowMappingStart
    else if c == ']' then fetchFlowCollectionEnd .flowSequenceEnd
    else if c == '}' then fetchFlowCollectionEnd .flowMappingEnd
    else if c == ',' then fetchFlowEntry
    else if c == '-' && isBlankOrBreakz nc then fetchBlockEntry
    else if c == '?' && isBlankOrBreakz nc then fetchKey
    else if c == ':' && isBlankOrBreakz nc then fetchValue
    else if c == ':' && s.flowLevel > 0 && (isFlow nc || s.mark.index == s.adjacentValueAllowedAt) then
      fetchFlowValue
    else if c == '*' then fetchAnchor true
    else if c == '&' then fetchAnchor false
    else if c == '!' then fetchTag
    else if c == '|' && s.flowLevel == 0 then fetchBlockScalar true
    else if c == '>' && s.flowLevel == 0 then fetchBlockScalar false
    else if c == '\'' then fetchFlowScalar true
    else if c == '"' then fetchFlowScalar false
    else if c == '-' && !isBlankOrBreakz nc then fetchPlainScalar
    else if (c == ':' || c == '?') && !isBlankOrBreakz nc && s.flowLevel == 0 then fetchPlainScalar
    else if c == '%' || c == '@' || c == '`' then
      err s.mark s!"unexpected character: `{c}'"
    else fetchPlainScalar

/-- `fetch_next_token` once the stream has started -/
def fetchAfterStart : S Unit := do
  skipToNextToken
  staleSimpleKeys
  let mark ← getMark
  unrollIndent mark.col
  lookahead 4
  if ← liftI In.nextIsZ then fetchStreamEnd
  else do
    let special ← fetchSpecial
    if special then pure () else fetchDispatch

def fetchNextToken : S Unit := do
  lookahead 1
  let s ← getS
  if !s.streamStartProduced then fetchStreamStart else fetchAfterStart

/-- whether the queue cannot deliver its first token yet: it is empty, or a possible simple key
    still points at the first token (a `Key` may have to be inserted before it) -/
def needMoreTokens : S Bool := do
  let s ← getS
  if s.tokens.isEmpty then pure true
  else do
    staleSimpleKeys
    let s ← getS
    pure (s.simpleKeys.any fun sk => sk.possible && sk.tokenNumber == s.tokensParsed)

def fetchMoreTokens : Nat → S Unit
  | 0 => panicAt .fuel
  | fuel + 1 => do
    let needMore ← needMoreTokens
    if needMore then do fetchNextToken; fetchMoreTokens fuel
    else modS fun s => { s with tokenAvailable := true }

/-- deliver the first queued token -/
def popToken : S (Option Token) := do
  let s ← getS
  match s.tokens with
  | [] => err s.mark "did not find expected next token"
  | t :: ts => do
    modS fun s => { s with tokens := ts, tokenAvailable := false, tokensParsed := s.tokensParsed + 1,
                           streamEndProduced := s.streamEndProduced || t.ty == .streamEnd }
    pure (some t)

def nextToken : S (Option Token) := do
  let s ← getS
  if s.streamEndProduced then pure none
  else do
    (if !s.tokenAvailable then fetchMoreTokens (s.inp.remaining + 4) else pure ())
    popToken


inductive Outcome
  | done | error (e : ScanError) | panic (p : Site)
deriving Repr

/-- all tokens delivered by `Scanner::next` up to the first error / end -/
def scanAll : Nat → Sc → List Token → List Token × Outcome × Sc
  | 0, s, acc => (acc.reverse, .panic .fuel, s)
  | fuel + 1, s, acc =>
    match nextToken s with
    | .ok (some t, s') => scanAll fuel s' (t :: acc)
    | .ok (none, s') => (acc.reverse, .done, s')
    | .err e => (acc.reverse, .error e, s)
    | .panic p => (acc.reverse, .panic p, s)

end SaphyrModel.Sc
