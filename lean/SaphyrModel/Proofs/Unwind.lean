import SaphyrModel.Sc.Inv
import SaphyrModel.Sc.Scan1
import SaphyrModel.Sc.KS.Base
/-! C15, scanner half (block state): a document marker, like the end of the stream, closes every open block
level whatever came before: the indentation is back at −1, the indent stack is empty, and one `BlockEnd` was
emitted for each level that needed one — a closed-form description of `unroll_indent(-1)`. -/
set_option linter.unusedSimpArgs false
namespace SaphyrModel.Sc
open SaphyrModel

/-- the `BlockEnd` tokens owed for a stack of indents (top first), all at the position `m` -/
def blockEnds (m : Marker) : List Indent → List Token
  | [] => []
  | i :: is => (if i.needsBlockEnd then [⟨Span.empty m, .blockEnd⟩] else []) ++ blockEnds m is

/-- the state after one level was popped -/
def popS (s : Sc) (i : Indent) (is : List Indent) : Sc :=
  { s with
    indent := i.indent
    indents := is
    tokens := s.tokens ++ (if i.needsBlockEnd then [⟨Span.empty s.mark, .blockEnd⟩] else []) }

/-- one round of the unrolling loop, as an equation between outcomes -/
theorem unrollGo_step (col : Int) (f : Nat) (s : Sc) :
    unrollIndentGo col (f + 1) s =
      if s.indent > col then
        match s.indents with
        | [] => .panic .indentsPopUnwrap
        | i :: is =>
          unrollIndentGo col f (popS s i is)
      else .ok ((), s) := by
  conv => lhs; unfold unrollIndentGo
  simp only [Bind.bind, getS]
  by_cases hc : s.indent > col
  · simp only [hc, ↓reduceIte]
    cases hi : s.indents with
    | nil => rfl
    | cons i is =>
      simp only [modS]
      cases hb : i.needsBlockEnd
      · simp [Pure.pure, List.append_nil, popS, hb]
      · simp [pushTok, modS, getS, Bind.bind, popS, hb]
  · simp only [hc, ↓reduceIte, Pure.pure]

/-- **`unroll_indent(-1)` in closed form.** From any state whose indent stack is well formed (strictly
    decreasing down to −1 — the scanner's structural invariant), with enough fuel for the stack, unrolling to −1
    empties the stack, sets the indentation to −1 and appends the `BlockEnd`s owed; nothing else changes. -/
theorem unrollGo_all : ∀ (is : List Indent) (s : Sc) (fuel : Nat), s.indents = is → WFInd s.indent is → is.length < fuel →
    unrollIndentGo (-1) fuel s = .ok ((), { s with indent := -1, indents := [], tokens := s.tokens ++ blockEnds s.mark is }) := by
  intro is
  induction is with
  | nil =>
    intro s fuel hi hw hf
    obtain ⟨f, rfl⟩ : ∃ f, fuel = f + 1 := ⟨fuel - 1, by simp at hf; omega⟩
    rw [unrollGo_step]
    simp only [WFInd] at hw
    have : ¬ (s.indent > -1) := by omega
    simp only [this, ↓reduceIte, blockEnds, List.append_nil]
    cases s; simp_all
  | cons i is ih =>
    intro s fuel hi hw hf
    obtain ⟨f, rfl⟩ : ∃ f, fuel = f + 1 := ⟨fuel - 1, by simp at hf; omega⟩
    rw [unrollGo_step]
    simp only [WFInd] at hw
    have hge := WFInd_ge is i.indent hw.2
    have : s.indent > -1 := by omega
    simp only [this, ↓reduceIte, hi]
    rw [ih (popS s i is) f rfl hw.2 (by simp at hf ⊢; omega)]
    simp [blockEnds, List.append_assoc, popS]

theorem unrollIndent_all (s : Sc) (hw : WFInd s.indent s.indents) (hfl : s.flowLevel = 0) :
    unrollIndent (-1) s =
      .ok ((), { s with indent := -1, indents := [], tokens := s.tokens ++ blockEnds s.mark s.indents }) := by
  have h0 : ¬ (s.flowLevel > 0) := by omega
  unfold unrollIndent
  simp only [Bind.bind, getS, h0, ↓reduceIte]
  exact unrollGo_all s.indents s (s.indents.length + 2) rfl hw (by omega)

/-- **A document marker closes every open block level.** Whatever block structure is open when `---` or `...`
    is met in the first column (any well-formed indent stack, outside flow collections), after the marker has
    been fetched the indentation is −1, the indent stack is empty, a simple key may not start, and the tokens
    appended are exactly one `BlockEnd` per level that owed one, followed by the marker token. -/
theorem fetchDocumentIndicator_unwinds (t : TokenType) (s : Sc) (hw : WFInd s.indent s.indents) (hfl : s.flowLevel = 0) :
    match fetchDocumentIndicator t s with
    | .ok (_, s') => s'.indent = -1 ∧ s'.indents = [] ∧ s'.simpleKeyAllowed = false ∧ s'.flowLevel = 0 ∧
        ∃ sp, s'.tokens = s.tokens ++ blockEnds s.mark s.indents ++ [⟨sp, t⟩]
    | _ => True := by
  unfold fetchDocumentIndicator
  rw [bind_ok (unrollIndent_all s hw hfl)]
  unfold removeSimpleKey disallowSimpleKey skipNNonBlank
  simp only [Bind.bind, getS, getMark, modS, pushTok, advance, liftI]
  cases hk : s.simpleKeys with
  | nil => simp [panicAt]
  | cons k ks =>
    simp only
    by_cases hkr : (k.possible && k.required) = true
    · simp [hkr, err, throwE]
    · simp only [hkr, Bool.false_eq_true, ↓reduceIte]
      cases hsk : In.skipN 3 s.inp with
      | ok r => obtain ⟨_, i'⟩ := r; simp [hfl, modS, hsk]
      | err e => simp [modS, hsk]
      | panic p => simp [modS, hsk]

/-- **The end of the stream closes every open block level** too: after `fetch_stream_end` the indentation is −1,
    the indent stack is empty, and the tokens appended are one `BlockEnd` per level that owed one, then `StreamEnd`. -/
theorem fetchStreamEnd_unwinds (s : Sc) (hw : WFInd s.indent s.indents) (hfl : s.flowLevel = 0) :
    match fetchStreamEnd s with
    | .ok (_, s') => s'.indent = -1 ∧ s'.indents = [] ∧
        ∃ m, s'.tokens = s.tokens ++ blockEnds m s.indents ++ [⟨Span.empty m, .streamEnd⟩]
    | _ => True := by
  unfold fetchStreamEnd
  simp only [Bind.bind, modS, getS]
  generalize hs1 : (if (s.mark.col != 0) = true then ({ s with mark := ⟨s.mark.index, s.mark.line + 1, 0⟩ } : Sc) else s) = s1
  have h1 : s1.indent = s.indent ∧ s1.indents = s.indents ∧ s1.flowLevel = s.flowLevel ∧ s1.tokens = s.tokens := by
    rw [← hs1]; split <;> exact ⟨rfl, rfl, rfl, rfl⟩
  by_cases hany : (s1.simpleKeys.any fun sk => sk.required && sk.possible) = true
  · simp [hany, err, throwE]
  · simp only [hany, Bool.false_eq_true, ↓reduceIte, Pure.pure]
    have hw2 : WFInd (clearPossibleKeys s1).indent (clearPossibleKeys s1).indents := by
      show WFInd s1.indent s1.indents
      rw [h1.1, h1.2.1]; exact hw
    have hfl2 : (clearPossibleKeys s1).flowLevel = 0 := by
      show s1.flowLevel = 0
      rw [h1.2.2.1]; exact hfl
    rw [unrollIndent_all _ hw2 hfl2]
    simp only
    unfold removeSimpleKey disallowSimpleKey
    simp only [Bind.bind, getS, getMark, modS, pushTok]
    cases hk : (clearPossibleKeys s1).simpleKeys with
    | nil => simp [panicAt, hk]
    | cons k ks =>
      simp only [hk]
      by_cases hkr : (k.possible && k.required) = true
      · simp [hkr, err, throwE]
      · simp only [hkr, Bool.false_eq_true, ↓reduceIte, modS]
        refine ⟨trivial, trivial, (clearPossibleKeys s1).mark, ?_⟩
        show (clearPossibleKeys s1).tokens ++ blockEnds (clearPossibleKeys s1).mark (clearPossibleKeys s1).indents ++ _ = _
        have e1 : (clearPossibleKeys s1).tokens = s.tokens := h1.2.2.2
        have e2 : (clearPossibleKeys s1).indents = s.indents := h1.2.1
        rw [e1, e2]

end SaphyrModel.Sc
