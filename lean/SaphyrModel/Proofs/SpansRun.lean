import SaphyrModel.Proofs.Spans
import SaphyrModel.Proofs.Run
/-! Lifting `parseStep_spans` to whole runs of the iterator. -/
namespace SaphyrModel.Sp
open SaphyrModel

variable {T : List Token} {se : Option ScanError} {eof : Marker}

theorem iterSpec_spans (fuel : Nat) : ∀ (a : Api) (g : G), IterInv a g → SInv T se eof a.p →
    (∀ v ∈ (iterSpec fuel a).1, SpanOf T v.2) ∧ (∀ e, (iterSpec fuel a).2 = some (.err e) → ErrOf T se eof e) := by
  induction fuel with
  | zero => intro a g _ _; simp [iterSpec]
  | succ n ih =>
    intro a g h hs
    cases hl : a.endEmitted with
    | true => simp [iterSpec, Api.next, hl]
    | false =>
      have h1 := next_step h hl
      have h2 := parseStep_spans hs (h.live hl)
      simp only [iterSpec]
      unfold Api.next at h1 ⊢
      simp only [hl, Bool.false_eq_true, ↓reduceIte] at h1 ⊢
      unfold nextImpl at h1 ⊢
      simp only [h.cur] at h1 ⊢
      cases hp : parseStep a.p with
      | err e =>
        simp only [hp, StepOk] at h2 ⊢
        exact ⟨by simp, fun e' he => by simp at he; exact he ▸ h2⟩
      | panic x => simp [hp]
      | ok o =>
        obtain ⟨ev, sp, p'⟩ := o
        simp only [hp, StepOk] at h1 h2 ⊢
        obtain ⟨g', _, hI⟩ := h1
        have := ih _ g' hI (by simpa using h2.2)
        refine ⟨?_, this.2⟩
        intro v hv
        simp only [List.mem_cons] at hv
        rcases hv with rfl | hv
        · exact h2.1
        · exact this.1 v hv

/-- **The iterator invents no position.** For every token list, scanner error, end mark and
    `keep_tags` setting: every span delivered by plain iteration is the span of one of the tokens or
    the empty span at the end of one of them, and an error — if any — points at the start of one of
    the tokens or is the scanner's own. -/
theorem iterate_spans (toks : List Token) (scanErr : Option ScanError) (eofm : Marker) (keep : Bool) (fuel : Nat) :
    let r := iterate fuel (Api.init (PState.init toks scanErr eofm keep)) []
    (∀ v ∈ r.1, SpanOf toks v.2) ∧ (∀ e, r.2 = some (.err e) → ErrOf toks scanErr eofm e) := by
  intro r
  have hI : IterInv (Api.init (PState.init toks scanErr eofm keep)) ⟨0, []⟩ :=
    ⟨by simp [Api.init, PState.init, R, R'], rfl, by simp [Api.init, PState.init], by simp [Api.init]⟩
  have hS : SInv toks scanErr eofm (Api.init (PState.init toks scanErr eofm keep)).p :=
    ⟨fun t ht => ht, trivial, by simp [Api.init, PState.init], rfl, rfl⟩
  have := iterSpec_spans (T := toks) (se := scanErr) (eof := eofm) fuel _ _ hI hS
  simp only [r]
  rw [iterate_eq]
  simpa using this

end SaphyrModel.Sp
