import SaphyrModel.Parser2
/-! The parser invents no positions (C12, parser half): every span it attaches to an event is the
span of one of the tokens it was given, or the empty span at the end of one of them; every error it
raises itself points at the start of one of those tokens (the only other error it can return is
the scanner's latched one). For every token list and every parser state. -/
namespace SaphyrModel.Sp
open SaphyrModel

/-- `sp` was read off the tokens `T` -/
def SpanOf (T : List Token) (sp : Span) : Prop :=
  (∃ t ∈ T, sp = t.span) ∨ (∃ t ∈ T, sp = Span.empty t.span.stop)

/-- a state that remembers a position remembers the end of a token of `T` -/
def StOk (T : List Token) : State → Prop
  | .flowSequenceEntryMappingEnd m => ∃ t ∈ T, m = t.span.stop
  | _ => True

/-- the parser state only knows tokens of `T` (and the scanner's latched error `se`, end mark `eof`) -/
structure SInv (T : List Token) (se : Option ScanError) (eof : Marker) (p : PState) : Prop where
  toks : ∀ t ∈ p.toks, t ∈ T
  st : StOk T p.state
  sts : ∀ s ∈ p.states, StOk T s
  serr : p.scanErr = se
  eofm : p.eofMark = eof

/-- an error the parser may return: at the start of a token of `T`, or the scanner's own -/
def ErrOf (T : List Token) (se : Option ScanError) (eof : Marker) (e : ScanError) : Prop :=
  (∃ t ∈ T, e.mark = t.span.start) ∨ e = se.getD ⟨eof, "unexpected eof"⟩

def StepOk (T : List Token) (se : Option ScanError) (eof : Marker) : Res Out → Prop
  | .ok (_, sp, p') => SpanOf T sp ∧ SInv T se eof p'
  | .err e => ErrOf T se eof e
  | .panic _ => True

variable {T : List Token} {se : Option ScanError} {eof : Marker}

theorem SInv.setState {p : PState} (h : SInv T se eof p) (s : State) (hs : StOk T s) :
    SInv T se eof { p with state := s } := ⟨h.toks, hs, h.sts, h.serr, h.eofm⟩
theorem SInv.skipTok {p : PState} (h : SInv T se eof p) : SInv T se eof (skipTok p) :=
  ⟨fun t ht => h.toks t (List.mem_of_mem_tail ht), h.st, h.sts, h.serr, h.eofm⟩
theorem SInv.push {p : PState} (h : SInv T se eof p) (s : State) (hs : StOk T s) : SInv T se eof (pushState p s) :=
  ⟨h.toks, h.st, fun x hx => by
    simp only [pushState, List.mem_cons] at hx
    rcases hx with rfl | hx
    · exact hs
    · exact h.sts x hx, h.serr, h.eofm⟩
theorem SInv.reg {p : PState} (h : SInv T se eof p) (n : Str) : SInv T se eof (registerAnchor p n).2 :=
  ⟨h.toks, h.st, h.sts, h.serr, h.eofm⟩
theorem SInv.clearTags {p : PState} (h : SInv T se eof p) : SInv T se eof (clearTags p) := by
  unfold SaphyrModel.clearTags; split
  · exact h
  · exact ⟨h.toks, h.st, h.sts, h.serr, h.eofm⟩
theorem SInv.clearAnchors {p : PState} (h : SInv T se eof p) : SInv T se eof (clearAnchors p) :=
  ⟨h.toks, h.st, h.sts, h.serr, h.eofm⟩
theorem SInv.setTags {p : PState} (h : SInv T se eof p) (tg : List (Str × Str)) : SInv T se eof { p with tags := tg } :=
  ⟨h.toks, h.st, h.sts, h.serr, h.eofm⟩

theorem peek_mem {p : PState} {t : Token} (h : peekTok p = .ok t) : t ∈ p.toks := by
  unfold peekTok at h
  cases hp : p.toks with
  | nil => simp [hp] at h
  | cons a r => simp [hp] at h; subst h; simp

theorem peek_err {p : PState} {e : ScanError} (hinv : SInv T se eof p) (h : peekTok p = .err e) : ErrOf T se eof e := by
  unfold peekTok at h
  cases hp : p.toks with
  | nil => simp [hp] at h; right; rw [← h, hinv.serr, hinv.eofm]
  | cons a r => simp [hp] at h

theorem StepOk.bindPeek {p : PState} {f : Token → Res Out} (hinv : SInv T se eof p)
    (h : ∀ t, t ∈ T → StepOk T se eof (f t)) : StepOk T se eof (peekTok p >>= f) := by
  cases hp : peekTok p with
  | ok t => simpa [Bind.bind] using h t (hinv.toks t (peek_mem hp))
  | err e => simpa [Bind.bind, StepOk] using peek_err hinv hp
  | panic x => simp [Bind.bind, StepOk]

theorem StepOk.bind {α : Type} {m : Res α} {f : α → Res Out} (Q : α → Prop)
    (hok : ∀ a, m = .ok a → Q a) (herr : ∀ e, m = .err e → ErrOf T se eof e)
    (h : ∀ a, Q a → StepOk T se eof (f a)) : StepOk T se eof (m >>= f) := by
  cases hm : m with
  | ok a => simpa [Bind.bind] using h a (hok a hm)
  | err e => simpa [Bind.bind, StepOk] using herr e hm
  | panic x => simp [Bind.bind, StepOk]

theorem popState_inv {p p' : PState} (hinv : SInv T se eof p) (h : popState p = .ok p') : SInv T se eof p' := by
  unfold popState at h
  cases hs : p.states with
  | nil => simp [hs] at h
  | cons s ss =>
    simp [hs] at h; subst h
    exact ⟨hinv.toks, hinv.sts s (by simp [hs]), fun x hx => hinv.sts x (by simp [hs, hx]), hinv.serr, hinv.eofm⟩
theorem popState_noerr {p : PState} {e : ScanError} (h : popState p = .err e) : False := by
  unfold popState at h; split at h <;> simp at h

theorem StepOk.bindPop {p : PState} {f : PState → Res Out} (hinv : SInv T se eof p)
    (h : ∀ p', SInv T se eof p' → StepOk T se eof (f p')) : StepOk T se eof (popState p >>= f) :=
  StepOk.bind (fun p' => SInv T se eof p') (fun _ hp => popState_inv hinv hp) (fun _ he => (popState_noerr he).elim) h

theorem spanTok {t : Token} (ht : t ∈ T) : SpanOf T t.span := Or.inl ⟨t, ht, rfl⟩
theorem errTok {t : Token} (ht : t ∈ T) (msg : String) : ErrOf T se eof ⟨t.span.start, msg⟩ := Or.inl ⟨t, ht, rfl⟩

-- node ------------------------------------------------------------------------------------------------

theorem resolveTag_err {p : PState} {sp : Span} {h sfx : Str} {e : ScanError} (hr : resolveTag p sp h sfx = .err e) :
    e.mark = sp.start := by
  unfold resolveTag at hr
  (repeat' split at hr) <;> simp at hr
  rw [← hr]

macro "sp_leaf" : tactic => `(tactic| first
  | exact ⟨spanTok ‹_›, by first
      | assumption
      | exact SInv.setState ‹_› _ trivial
      | exact SInv.skipTok ‹_›
      | exact SInv.skipTok (SInv.setState ‹_› _ trivial)
      | exact SInv.setState (SInv.skipTok ‹_›) _ trivial⟩
  | exact errTok ‹_› _)

theorem parseNodeContent_sp {p : PState} (hinv : SInv T se eof p) (b i : Bool) (aid : Nat) (tag : Option Tag) :
    StepOk T se eof (parseNodeContent p b i aid tag) := by
  unfold parseNodeContent
  cases hp : peekTok p with
  | err e => exact peek_err hinv hp
  | panic x => trivial
  | ok t =>
    have ht : t ∈ T := hinv.toks t (peek_mem hp)
    simp only
    have hpop : ∀ (ev : Event) (f : PState → PState), (∀ q, SInv T se eof q → SInv T se eof (f q)) →
        StepOk T se eof (match popState p with
          | .ok p => .ok (ev, t.span, f p) | .err e => .err e | .panic x => .panic x) := by
      intro ev f hf
      cases hq : popState p with
      | ok q => exact ⟨spanTok ht, hf q (popState_inv hinv hq)⟩
      | err e => exact (popState_noerr hq).elim
      | panic x => trivial
    repeat' (first
      | exact hpop _ id (fun _ h => h)
      | exact hpop _ skipTok (fun _ h => h.skipTok)
      | sp_leaf
      | split)

theorem parseNode_sp {p : PState} (hinv : SInv T se eof p) (b i : Bool) : StepOk T se eof (parseNode p b i) := by
  unfold parseNode
  cases hp : peekTok p with
  | err e => exact peek_err hinv hp
  | panic x => trivial
  | ok t =>
    have ht : t ∈ T := hinv.toks t (peek_mem hp)
    simp only
    split
    · -- alias
      cases hq : popState p with
      | err e => exact (popState_noerr hq).elim
      | panic x => trivial
      | ok q =>
        simp only
        split
        · exact errTok ht _
        · exact ⟨spanTok ht, (popState_inv hinv hq).skipTok⟩
    · -- anchor
      rename_i nm _
      have h1 : SInv T se eof (registerAnchor (skipTok p) nm).2 := hinv.skipTok.reg nm
      split
      · rename_i e he; exact peek_err h1 he
      · trivial
      · split
        · split
          · rename_i e he; exact Or.inl ⟨t, ht, resolveTag_err he⟩
          · trivial
          · exact parseNodeContent_sp h1.skipTok _ _ _ _
        · exact parseNodeContent_sp h1 _ _ _ _
    · -- tag
      split
      · rename_i e he; exact Or.inl ⟨t, ht, resolveTag_err he⟩
      · trivial
      · split
        · rename_i e he; exact peek_err hinv.skipTok he
        · trivial
        · split
          · exact parseNodeContent_sp (hinv.skipTok.skipTok.reg _) _ _ _ _
          · exact parseNodeContent_sp hinv.skipTok _ _ _ _
    · exact parseNodeContent_sp hinv _ _ _ _

-- helpers of the state functions ------------------------------------------------------------------------

/-- a computation that returns a parser state keeps the invariant and raises only admissible errors -/
def KeepsInv (T : List Token) (se : Option ScanError) (eof : Marker) (m : Res PState) : Prop :=
  (∀ q, m = .ok q → SInv T se eof q) ∧ (∀ e, m = .err e → ErrOf T se eof e)

theorem StepOk.bindK {m : Res PState} {f : PState → Res Out} (hm : KeepsInv T se eof m)
    (h : ∀ q, SInv T se eof q → StepOk T se eof (f q)) : StepOk T se eof (m >>= f) :=
  StepOk.bind (fun q => SInv T se eof q) hm.1 hm.2 h

theorem skipFirst_keeps {p : PState} (hinv : SInv T se eof p) (first : Bool) : KeepsInv T se eof (skipFirst first p) := by
  unfold skipFirst
  cases first
  · exact ⟨fun q h => by simp [Pure.pure] at h; exact h ▸ hinv, fun e h => by simp [Pure.pure] at h⟩
  · simp only [if_true]
    cases hp : peekTok p with
    | ok t => exact ⟨fun q h => by simp [Bind.bind, Pure.pure] at h; exact h ▸ hinv.skipTok, fun e h => by simp [Bind.bind, Pure.pure] at h⟩
    | err e0 => exact ⟨fun q h => by simp [Bind.bind] at h, fun e h => by simp [Bind.bind] at h; exact h ▸ peek_err hinv hp⟩
    | panic x => exact ⟨fun q h => by simp [Bind.bind] at h, fun e h => by simp [Bind.bind] at h⟩

theorem requireFlowEntry_keeps {p : PState} (hinv : SInv T se eof p) (first : Bool) {t : Token} (ht : t ∈ T) (msg : String) :
    KeepsInv T se eof (requireFlowEntry first t msg p) := by
  unfold requireFlowEntry
  cases first
  · simp only [Bool.false_eq_true, if_false]
    split
    · exact ⟨fun q h => by simp [Pure.pure] at h; exact h ▸ hinv.skipTok, fun e h => by simp [Pure.pure] at h⟩
    · exact ⟨fun q h => by simp at h, fun e h => by simp at h; exact h ▸ errTok ht msg⟩
  · exact ⟨fun q h => by simp [Pure.pure] at h; exact h ▸ hinv, fun e h => by simp [Pure.pure] at h⟩

theorem directivesLoop_keeps (fuel : Nat) : ∀ (p : PState) (v : Bool) (acc : List (Str × Str)), SInv T se eof p →
    (∀ q a, directivesLoop fuel p v acc = .ok (q, a) → SInv T se eof q) ∧
    (∀ e, directivesLoop fuel p v acc = .err e → ErrOf T se eof e) := by
  induction fuel with
  | zero => intro p v acc hinv; exact ⟨fun q a h => by simp [directivesLoop] at h; exact h.1 ▸ hinv, fun e h => by simp [directivesLoop] at h⟩
  | succ n ih =>
    intro p v acc hinv
    unfold directivesLoop
    cases hp : peekTok p with
    | err e0 => exact ⟨fun q a h => by simp [Bind.bind] at h, fun e h => by simp [Bind.bind] at h; exact h ▸ peek_err hinv hp⟩
    | panic x => exact ⟨fun q a h => by simp [Bind.bind] at h, fun e h => by simp [Bind.bind] at h⟩
    | ok t =>
      have ht : t ∈ T := hinv.toks t (peek_mem hp)
      simp only [Bind.bind]
      split
      · split
        · exact ⟨fun q a h => by simp at h, fun e h => by simp at h; exact h ▸ errTok ht _⟩
        · exact ih _ _ _ hinv.skipTok
      · split
        · exact ih _ _ _ hinv.skipTok
        · split
          · exact ⟨fun q a h => by simp at h, fun e h => by simp at h; exact h ▸ errTok ht _⟩
          · exact ih _ _ _ hinv.skipTok
      · exact ⟨fun q a h => by simp at h; exact h.1 ▸ hinv, fun e h => by simp at h⟩

theorem processDirectives_keeps {p : PState} (hinv : SInv T se eof p) (fuel : Nat) (v : Bool) :
    KeepsInv T se eof (processDirectives fuel p v) := by
  unfold processDirectives
  have := directivesLoop_keeps (T := T) (se := se) (eof := eof) fuel p v [] hinv
  cases hd : directivesLoop fuel p v [] with
  | ok r =>
    obtain ⟨q, a⟩ := r
    exact ⟨fun q' h => by simp [Bind.bind] at h; exact h ▸ (this.1 q a hd).setTags _, fun e h => by simp [Bind.bind] at h⟩
  | err e0 => exact ⟨fun q h => by simp [Bind.bind] at h, fun e h => by simp [Bind.bind] at h; exact h ▸ this.2 e0 hd⟩
  | panic x => exact ⟨fun q h => by simp [Bind.bind] at h, fun e h => by simp [Bind.bind] at h⟩

theorem skipDocEnds_keeps (n : Nat) : ∀ (p : PState), SInv T se eof p → KeepsInv T se eof (skipDocEnds n p) := by
  induction n with
  | zero => intro p hinv; exact ⟨fun q h => by simp [skipDocEnds] at h; exact h ▸ hinv, fun e h => by simp [skipDocEnds] at h⟩
  | succ n ih =>
    intro p hinv
    unfold skipDocEnds
    cases hp : peekTok p with
    | err e0 => exact ⟨fun q h => by simp [Bind.bind] at h, fun e h => by simp [Bind.bind] at h; exact h ▸ peek_err hinv hp⟩
    | panic x => exact ⟨fun q h => by simp [Bind.bind] at h, fun e h => by simp [Bind.bind] at h⟩
    | ok t =>
      simp only [Bind.bind]
      split
      · exact ih _ hinv.skipTok
      · exact ⟨fun q h => by simp at h; exact h ▸ hinv, fun e h => by simp at h⟩

-- the state functions --------------------------------------------------------------------------------------

macro "sinv" : tactic => `(tactic| (repeat' (first
  | assumption | exact trivial | exact ⟨_, ‹_›, rfl⟩
  | apply SInv.skipTok | apply SInv.setState | apply SInv.push | apply SInv.reg
  | apply SInv.clearTags | apply SInv.clearAnchors | apply SInv.setTags)))

macro "sp_go" : tactic => `(tactic| (repeat' (first
  | (apply StepOk.bindPeek (by sinv); intro _ _)
  | (apply StepOk.bindPop (by sinv); intro _ _)
  | (apply StepOk.bindK (skipFirst_keeps (by sinv) _); intro _ _)
  | (apply StepOk.bindK (requireFlowEntry_keeps (by sinv) _ ‹_› _); intro _ _)
  | (apply StepOk.bindK (processDirectives_keeps (by sinv) _ _); intro _ _)
  | (apply StepOk.bindK (skipDocEnds_keeps _ _ (by sinv)); intro _ _)
  | split
  | exact parseNode_sp (by sinv) _ _
  | exact errTok ‹_› _
  | exact ⟨spanTok ‹_›, by sinv⟩)))

theorem streamStart_sp {p : PState} (hinv : SInv T se eof p) : StepOk T se eof (streamStart p) := by
  unfold streamStart; sp_go
theorem explicitDocumentStart_sp {p : PState} (hinv : SInv T se eof p) : StepOk T se eof (explicitDocumentStart p) := by
  unfold explicitDocumentStart; sp_go
theorem documentStart_sp {p : PState} (hinv : SInv T se eof p) (i : Bool) : StepOk T se eof (documentStart p i) := by
  unfold documentStart
  apply StepOk.bindK (skipDocEnds_keeps _ _ hinv); intro q hq
  apply StepOk.bindPeek hq; intro t ht
  split
  · exact ⟨spanTok ht, by sinv⟩
  · exact explicitDocumentStart_sp hq
  · exact explicitDocumentStart_sp hq
  · exact explicitDocumentStart_sp hq
  · split
    · apply StepOk.bindK (processDirectives_keeps hq _ _); intro q2 hq2
      exact ⟨spanTok ht, by sinv⟩
    · exact explicitDocumentStart_sp hq
theorem documentContent_sp {p : PState} (hinv : SInv T se eof p) : StepOk T se eof (documentContent p) := by
  unfold documentContent; sp_go
theorem documentEnd_sp {p : PState} (hinv : SInv T se eof p) : StepOk T se eof (documentEnd p) := by
  unfold documentEnd
  apply StepOk.bindPeek hinv; intro t ht
  split
  · exact ⟨spanTok ht, (hinv.skipTok.clearTags.clearAnchors).setState _ trivial⟩
  · have h2 : SInv T se eof (clearAnchors (clearTags p)) := hinv.clearTags.clearAnchors
    apply StepOk.bindPeek h2; intro t2 ht2
    split
    · exact errTok ht2 _
    · exact errTok ht2 _
    · exact ⟨spanTok ht, h2.setState _ trivial⟩
theorem blockMappingKey_sp {p : PState} (hinv : SInv T se eof p) (f : Bool) : StepOk T se eof (blockMappingKey p f) := by
  unfold blockMappingKey; sp_go
theorem blockMappingValue_sp {p : PState} (hinv : SInv T se eof p) : StepOk T se eof (blockMappingValue p) := by
  unfold blockMappingValue; sp_go
theorem flowMappingKey_sp {p : PState} (hinv : SInv T se eof p) (f : Bool) : StepOk T se eof (flowMappingKey p f) := by
  unfold flowMappingKey; sp_go
theorem flowMappingValue_sp {p : PState} (hinv : SInv T se eof p) (e : Bool) : StepOk T se eof (flowMappingValue p e) := by
  unfold flowMappingValue; sp_go
theorem flowSequenceEntry_sp {p : PState} (hinv : SInv T se eof p) (f : Bool) : StepOk T se eof (flowSequenceEntry p f) := by
  unfold flowSequenceEntry; sp_go
theorem indentlessSequenceEntry_sp {p : PState} (hinv : SInv T se eof p) : StepOk T se eof (indentlessSequenceEntry p) := by
  unfold indentlessSequenceEntry; sp_go
theorem blockSequenceEntry_sp {p : PState} (hinv : SInv T se eof p) (f : Bool) : StepOk T se eof (blockSequenceEntry p f) := by
  unfold blockSequenceEntry; sp_go
theorem flowSequenceEntryMappingKey_sp {p : PState} (hinv : SInv T se eof p) :
    StepOk T se eof (flowSequenceEntryMappingKey p) := by
  unfold flowSequenceEntryMappingKey; sp_go
theorem flowSequenceEntryMappingValue_sp {p : PState} (hinv : SInv T se eof p) :
    StepOk T se eof (flowSequenceEntryMappingValue p) := by
  unfold flowSequenceEntryMappingValue; sp_go

/-- **One step of the parser invents no position.** -/
theorem parseStep_spans {p : PState} (hinv : SInv T se eof p) (hne : p.state ≠ .end) : StepOk T se eof (parseStep p) := by
  unfold parseStep
  split
  · exact absurd ‹_› hne
  · exact streamStart_sp hinv
  · exact documentStart_sp hinv _
  · exact documentStart_sp hinv _
  · exact documentContent_sp hinv
  · exact documentEnd_sp hinv
  · exact parseNode_sp hinv _ _
  · exact blockMappingKey_sp hinv _
  · exact blockMappingKey_sp hinv _
  · exact blockMappingValue_sp hinv
  · exact blockSequenceEntry_sp hinv _
  · exact blockSequenceEntry_sp hinv _
  · exact flowSequenceEntry_sp hinv _
  · exact flowSequenceEntry_sp hinv _
  · exact flowMappingKey_sp hinv _
  · exact flowMappingKey_sp hinv _
  · exact flowMappingValue_sp hinv _
  · exact indentlessSequenceEntry_sp hinv
  · exact flowSequenceEntryMappingKey_sp hinv
  · exact flowSequenceEntryMappingValue_sp hinv
  · rename_i m hm
    have : StOk T (.flowSequenceEntryMappingEnd m) := hm ▸ hinv.st
    obtain ⟨t, ht, rfl⟩ := this
    exact ⟨Or.inr ⟨t, ht, rfl⟩, hinv.setState _ trivial⟩
  · exact flowMappingValue_sp hinv _

end SaphyrModel.Sp
