import SaphyrModel.Proofs.BlockLitToken
/-! C05 / C04, folded block scalars: adjacent content lines that do not start with a blank are joined by one
space — for every list of lines and every spelling of the breaks; token level as for the literal style. -/
set_option linter.unusedSimpArgs false
namespace SaphyrModel.C05F
open SaphyrModel SaphyrModel.Sc SaphyrModel.C10 SaphyrModel.C05 SaphyrModel.C14L SaphyrModel.C05T

/-- the text in front of the next content line of a folded scalar (`tbk`: that line starts with a blank) -/
def foldStr (a : BlkAcc) (tbk : Bool) : Str :=
  if !false && !a.leadingBreak.isEmpty && !a.leadingBlank && !tbk then
    if a.trailingBreaks.isEmpty then a.str ++ a.trailingBreaks ++ [' '] else a.str ++ a.trailingBreaks
  else a.str ++ a.leadingBreak ++ a.trailingBreaks

/-- one round of the content loop of a folded block scalar with content indentation `ind ≥ 1`, as an
    equation between outcomes -/
theorem bslf_step (ind f : Nat) (hind : ind ≠ 0) (a : BlkAcc) (s : Sc) :
    blockScalarLines false ind (f + 1) a s =
      if (s.mark.col != ind) = true then .ok (a, s)
      else match Sc.liftI In.nextIsZ s with
        | .ok (z, s1) =>
          if z = true then .ok (a, s1)
          else match Sc.liftI In.nextIsBlank s1 with
            | .ok (tbk, s2) => (match Sc.liftI In.nextIsBlank s2 with
              | .ok (lbk, s3) => (match scanBlockScalarContentLine (foldStr a tbk) s3 with
                | .ok (str, s4) => (match Sc.lookahead 2 s4 with
                  | .ok (_, s5) => (match Sc.liftI In.nextIsZ s5 with
                    | .ok (z2, s6) =>
                      if z2 = true then .ok (⟨str, [], [], lbk⟩, s6)
                      else (match readBreak [] s6 with
                        | .ok (lb, s7) => (match skipBlockScalarIndent ind (s7.inp.remaining + 2) [] s7 with
                          | .ok (tb, s8) => blockScalarLines false ind f ⟨str, lb, tb, lbk⟩ s8
                          | .err e => .err e | .panic p => .panic p)
                        | .err e => .err e | .panic p => .panic p)
                    | .err e => .err e | .panic p => .panic p)
                  | .err e => .err e | .panic p => .panic p)
                | .err e => .err e | .panic p => .panic p)
              | .err e => .err e | .panic p => .panic p)
            | .err e => .err e | .panic p => .panic p
        | .err e => .err e | .panic p => .panic p := by
  conv => lhs; unfold blockScalarLines
  have hi : (ind == 0) = false := by simpa using hind
  simp only [Bind.bind, getS, hi, Bool.false_eq_true, ↓reduceIte, Pure.pure, Bool.not_true, Bool.false_and]
  cases hc : (s.mark.col != ind) <;> simp only [Bool.false_eq_true, ↓reduceIte]
  · rcases Sc.liftI In.nextIsZ s with ⟨⟨z, s1⟩⟩ | _ | _
    · simp only
      cases z <;> simp only [Bool.false_eq_true, ↓reduceIte]
      · rcases Sc.liftI In.nextIsBlank s1 with ⟨⟨tbk, s2⟩⟩ | _ | _
        · simp only
          rcases Sc.liftI In.nextIsBlank s2 with ⟨⟨lbk, s3⟩⟩ | _ | _
          · simp only
            simp only [foldStr]
            generalize scanBlockScalarContentLine _ s3 = X
            rcases X with ⟨⟨str, s4⟩⟩ | _ | _
            · simp only
              rcases Sc.lookahead 2 s4 with ⟨⟨_, s5⟩⟩ | _ | _
              · simp only
                rcases Sc.liftI In.nextIsZ s5 with ⟨⟨z2, s6⟩⟩ | _ | _
                · simp only
                  cases z2 <;> simp only [Bool.false_eq_true, ↓reduceIte]
                  · rcases readBreak [] s6 with ⟨⟨lb, s7⟩⟩ | _ | _
                    · simp only
                      rcases skipBlockScalarIndent ind (s7.inp.remaining + 2) [] s7 with ⟨⟨tb, s8⟩⟩ | _ | _ <;> rfl
                    · rfl
                    · rfl
                · rfl
                · rfl
              · rfl
              · rfl
            · rfl
            · rfl
          · rfl
          · rfl
        · rfl
        · rfl
    · rfl
    · rfl


/-- lines joined by single spaces -/
def joinSp : Str → List Str → Str
  | l, [] => l
  | l, l' :: ls => l ++ ' ' :: joinSp l' ls

/-- a content line that takes part in folding: non-empty, free of breaks and NUL, not starting with a blank -/
def FoldLine (l : Str) : Prop := GoodLine l ∧ isBlank (l.headD '\x00') = false

/-- **Folding.** The content lines of a *folded* block scalar that do not start with a blank are joined by single
    spaces — for every list of lines, every indentation ≥ 1, every spelling of every line break (string input).
    The content loop returns `foldStr a false` (what was accumulated) followed by the lines joined by spaces,
    with one pending line feed, and stops in column 0 in front of the continuation. -/
theorem folded_lines_any_break (ind : Nat) (hind : ind ≠ 0) (tail : Str) (ht1 : tail.headD '\x00' ≠ ' ')
    (ht2 : isBreak (tail.headD '\x00') = false) :
    ∀ (ls : List (Str × Brk)) (l : Str) (b : Brk) (a : BlkAcc) (s : Sc) (fuel : Nat), FoldLine l → (∀ p ∈ ls, FoldLine p.1) →
      s.inp.kind = .str → s.mark.col = ind → s.inp.iter = l ++ (b.txt ++ restLinesB ind ls tail) →
      (∃ p, blockScalarLines false ind fuel a s = .panic p) ∨
      ∃ s' bl, blockScalarLines false ind fuel a s =
          .ok (⟨foldStr a false ++ joinSp l (ls.map Prod.fst), ['\n'], [], bl⟩, s') ∧
        s'.inp.kind = .str ∧ s'.inp.iter = tail ∧ s'.mark.col = 0 ∧ s'.mark.line = s.mark.line + ls.length + 1 ∧
        s'.mark.index + tail.length = s.mark.index + s.inp.iter.length := by
  intro ls
  induction ls with
  | nil =>
    intro l b a s fuel hl _ hk hcol hi
    generalize hT : s.mark.index + s.inp.iter.length = T
    cases fuel with
    | zero => left; exact ⟨_, rfl⟩
    | succ f =>
      obtain ⟨c0, l0, rfl⟩ : ∃ c0 l0, l = c0 :: l0 := by
        cases l with
        | nil => exact absurd rfl hl.1.1
        | cons c t => exact ⟨c, t, rfl⟩
      have hc0 := nb_not_break (hl.1.2 c0 (by simp))
      rw [bslf_step ind f hind]
      have h1 : (s.mark.col != ind) = false := by simp [hcol]
      simp only [h1, Bool.false_eq_true, ↓reduceIte]
      rw [show In.nextIsZ = In.nextIs isZ true from rfl, nextIs_str_eval _ _ s hk, hi]
      simp only [List.cons_append, hc0.2, Bool.false_eq_true, ↓reduceIte]
      rw [show In.nextIsBlank = In.nextIs isBlank false from rfl, nextIs_str_eval _ _ s hk, hi]
      simp only [List.cons_append, nextIs_str_eval _ _ s hk, hi]
      have hb0 : isBlank c0 = false := by simpa using hl.2
      simp only [hb0]
      obtain ⟨htw, hdw⟩ := takeWhile_goodB (c0 :: l0) b (restLinesB ind [] tail) hl.1.2
      rcases line_str (foldStr a false) s hk with ⟨p, hp⟩ | hline
      · left; rw [hp]; exact ⟨p, rfl⟩
      · rw [hi, htw, hdw] at hline
        rw [hline]
        simp only
        have hk4 : (advS s (c0 :: l0).length { s.inp with iter := b.txt ++ restLinesB ind [] tail }).inp.kind = .str := hk
        rw [lookahead_str_eval _ _ hk4]
        simp only
        generalize hs5 : ({ (advS s (c0 :: l0).length { s.inp with iter := b.txt ++ restLinesB ind [] tail }) with
          inp := { (advS s (c0 :: l0).length { s.inp with iter := b.txt ++ restLinesB ind [] tail }).inp with
            la := max (advS s (c0 :: l0).length { s.inp with iter := b.txt ++ restLinesB ind [] tail }).inp.la 2 } } : Sc) = s5
        have hk5 : s5.inp.kind = .str := by rw [← hs5]; exact hk
        have hi5 : s5.inp.iter = b.txt ++ restLinesB ind [] tail := by rw [← hs5]; rfl
        have hl5 : s5.mark.line = s.mark.line := by rw [← hs5]; rfl
        have hx5 : s5.mark.index = s.mark.index + (c0 :: l0).length := by rw [← hs5]; rfl
        obtain ⟨cb, rb, hbr, hcb1, hcb2⟩ := brk_head b (restLinesB ind [] tail)
        rw [nextIs_str_eval _ _ s5 hk5, hi5, hbr]
        simp only [hcb2, Bool.false_eq_true, ↓reduceIte]
        rw [readBreak_brk [] s5 hk5 b _ hi5 (rest_head ind hind tail ht2 [])]
        simp only [List.nil_append]
        have hk7 : (nlB s5 b (restLinesB ind [] tail)).inp.kind = .str := hk5
        have hc7 : (nlB s5 b (restLinesB ind [] tail)).mark.col = 0 := rfl
        have hi7 : (nlB s5 b (restLinesB ind [] tail)).inp.iter = List.replicate 0 ' ' ++ tail := rfl
        rw [show (nlB s5 b (restLinesB ind [] tail)).inp.remaining + 2 = ((nlB s5 b (restLinesB ind [] tail)).inp.remaining + 1) + 1 by omega]
        rcases indent_str_eval ind _ 0 (nlB s5 b (restLinesB ind [] tail)) tail hk7 hc7 hi7 (by omega) (Or.inr ht1) ht2 with
          ⟨p, hp⟩ | ⟨la', hind2⟩
        · left; rw [hp]; exact ⟨p, rfl⟩
        · rw [hind2]
          simp only
          cases f with
          | zero => left; exact ⟨_, rfl⟩
          | succ f' =>
            right
            rw [bslf_step ind f' hind]
            have h2 : ((advS (nlB s5 b (restLinesB ind [] tail)) 0 { (nlB s5 b (restLinesB ind [] tail)).inp with iter := tail, la := la' }).mark.col != ind) = true := by
              show ((0 + 0 : Nat) != ind) = true
              simp; omega
            simp only [h2, ↓reduceIte]
            refine ⟨_, _, rfl, hk5, rfl, rfl, ?_, ?_⟩
            · show s5.mark.line + 1 = s.mark.line + 0 + 1
              rw [hl5]
            · show s5.mark.index + b.txt.length + 0 + tail.length = _
              rw [hx5, ← hT, hi]
              simp only [List.length_append, restLinesB]
              omega
  | cons p' ls' ih =>
    obtain ⟨l', b'⟩ := p'
    intro l b a s fuel hl hls hk hcol hi
    generalize hT : s.mark.index + s.inp.iter.length = T
    cases fuel with
    | zero => left; exact ⟨_, rfl⟩
    | succ f =>
      obtain ⟨c0, l0, rfl⟩ : ∃ c0 l0, l = c0 :: l0 := by
        cases l with
        | nil => exact absurd rfl hl.1.1
        | cons c t => exact ⟨c, t, rfl⟩
      have hc0 := nb_not_break (hl.1.2 c0 (by simp))
      have hl' : FoldLine l' := hls (l', b') (by simp)
      obtain ⟨c1, l1, rfl⟩ : ∃ c1 l1, l' = c1 :: l1 := by
        cases l' with
        | nil => exact absurd rfl hl'.1.1
        | cons c t => exact ⟨c, t, rfl⟩
      have hc1 := nb_not_break (hl'.1.2 c1 (by simp))
      rw [bslf_step ind f hind]
      have h1 : (s.mark.col != ind) = false := by simp [hcol]
      simp only [h1, Bool.false_eq_true, ↓reduceIte]
      rw [show In.nextIsZ = In.nextIs isZ true from rfl, nextIs_str_eval _ _ s hk, hi]
      simp only [List.cons_append, hc0.2, Bool.false_eq_true, ↓reduceIte]
      rw [show In.nextIsBlank = In.nextIs isBlank false from rfl, nextIs_str_eval _ _ s hk, hi]
      simp only [List.cons_append, nextIs_str_eval _ _ s hk, hi]
      have hb0 : isBlank c0 = false := by simpa using hl.2
      simp only [hb0]
      obtain ⟨htw, hdw⟩ := takeWhile_goodB (c0 :: l0) b (restLinesB ind ((c1 :: l1, b') :: ls') tail) hl.1.2
      rcases line_str (foldStr a false) s hk with ⟨p, hp⟩ | hline
      · left; rw [hp]; exact ⟨p, rfl⟩
      · rw [hi, htw, hdw] at hline
        rw [hline]
        simp only
        generalize hR : restLinesB ind ((c1 :: l1, b') :: ls') tail = R at *
        have hk4 : (advS s (c0 :: l0).length { s.inp with iter := b.txt ++ R }).inp.kind = .str := hk
        rw [lookahead_str_eval _ _ hk4]
        simp only
        generalize hs5 : ({ (advS s (c0 :: l0).length { s.inp with iter := b.txt ++ R }) with
          inp := { (advS s (c0 :: l0).length { s.inp with iter := b.txt ++ R }).inp with
            la := max (advS s (c0 :: l0).length { s.inp with iter := b.txt ++ R }).inp.la 2 } } : Sc) = s5
        have hk5 : s5.inp.kind = .str := by rw [← hs5]; exact hk
        have hi5 : s5.inp.iter = b.txt ++ R := by rw [← hs5]; rfl
        have hl5 : s5.mark.line = s.mark.line := by rw [← hs5]; rfl
        have hx5 : s5.mark.index = s.mark.index + (c0 :: l0).length := by rw [← hs5]; rfl
        obtain ⟨cb, rb, hbr, hcb1, hcb2⟩ := brk_head b R
        rw [nextIs_str_eval _ _ s5 hk5, hi5, hbr]
        simp only [hcb2, Bool.false_eq_true, ↓reduceIte]
        have hRh : R.headD '\x00' ≠ '\n' := by rw [← hR]; exact rest_head ind hind tail ht2 _
        rw [readBreak_brk [] s5 hk5 b _ hi5 hRh]
        simp only [List.nil_append]
        have hk7 : (nlB s5 b R).inp.kind = .str := hk5
        have hc7 : (nlB s5 b R).mark.col = 0 := rfl
        have hi7 : (nlB s5 b R).inp.iter
            = List.replicate ind ' ' ++ ((c1 :: l1) ++ (b'.txt ++ restLinesB ind ls' tail)) := by
          show R = _
          rw [← hR]; rfl
        rw [show (nlB s5 b R).inp.remaining + 2 = ((nlB s5 b R).inp.remaining + 1) + 1 by omega]
        rcases indent_str_eval ind _ ind (nlB s5 b R) _ hk7 hc7 hi7 (Nat.le_refl _)
            (Or.inl rfl) (by simpa using hc1.1) with ⟨p, hp⟩ | ⟨la', hind2⟩
        · left; rw [hp]; exact ⟨p, rfl⟩
        · rw [hind2]
          simp only
          have hk8 : (advS (nlB s5 b R) ind
              { (nlB s5 b R).inp with iter := (c1 :: l1) ++ (b'.txt ++ restLinesB ind ls' tail), la := la' }).inp.kind = .str := hk5
          have hc8 : (advS (nlB s5 b R) ind
              { (nlB s5 b R).inp with iter := (c1 :: l1) ++ (b'.txt ++ restLinesB ind ls' tail), la := la' }).mark.col = ind := by
            show 0 + ind = ind; omega
          rcases ih (c1 :: l1) b' ⟨foldStr a false ++ (c0 :: l0), ['\n'], [], false⟩ _ f hl'
              (fun x hx => hls x (by simp [hx])) hk8 hc8 rfl with ⟨p, hp⟩ | ⟨s', bl, hok, hks, his, hcs, hls', hxs'⟩
          · left; exact ⟨p, hp⟩
          · right
            refine ⟨s', bl, ?_, hks, his, hcs, ?_, ?_⟩
            · rw [hok]
              simp [joinSp, foldStr, List.append_assoc]
            · rw [hls']
              show s5.mark.line + 1 + ls'.length + 1 = s.mark.line + (ls'.length + 1) + 1
              rw [hl5]; omega
            · rw [hxs']
              show s5.mark.index + b.txt.length + ind + ((c1 :: l1) ++ (b'.txt ++ restLinesB ind ls' tail)).length = _
              have hRl : R.length = ind + ((c1 :: l1) ++ (b'.txt ++ restLinesB ind ls' tail)).length := by
                have := congrArg List.length hi7
                simpa [List.length_append, List.length_replicate, nlB] using this
              rw [hx5, ← hT, hi]
              simp only [List.length_append] at hRl ⊢
              omega


/-- from the first content line on: the token of a folded block scalar -/
theorem ev_blockContentF (ch : Chomping) (ind : Nat) (hind : ind ≠ 0) (tail : Str) (ht1 : tail.headD '\x00' ≠ ' ')
    (ht2 : isBreak (tail.headD '\x00') = false) (ls : List (Str × Brk)) (l : Str) (b : Brk)
    (hl : FoldLine l) (hls : ∀ p ∈ ls, FoldLine p.1) (u : Sc) (L : Nat) (I : Int) (N : Nat)
    (h : At u (l ++ (b.txt ++ restLinesB ind ls tail)) L ind I N) :
    EvR (blockContent false ch ind [] u) u (fun tok u' =>
      tok = ⟨⟨u.mark, u'.mark⟩, .scalar (if false then ScalarStyle.literal else ScalarStyle.folded)
        (chomped ch (joinSp l (ls.map Prod.fst)))⟩ ∧ Pos u' tail (L + ls.length + 1) 0 N) := by
  unfold blockContent
  have hm : blockMarkerCheck ind u = (Pure.pure true : S Bool) := by
    unfold blockMarkerCheck
    simp [h.col]
  rw [hm]
  apply EvR.bindEv (Ev.pure true u (P := fun u' => At u' (l ++ (b.txt ++ restLinesB ind ls tail)) L ind I N) h)
  intro u1 h1
  simp only [Bool.not_true, Bool.false_eq_true, ↓reduceIte]
  rcases folded_lines_any_break ind hind tail ht1 ht2 ls l b ⟨[], [], [], false⟩ u1 (u.inp.remaining + 2) hl hls
      h1.kind h1.col h1.iter with ⟨p, hp⟩ | ⟨u2, bl, hok, hk2, hi2, hc2, hl2, hx2⟩
  · left; exact ⟨p, bind_panic' hp⟩
  · right
    refine ⟨_, u2, ?_, rfl, hk2, hi2, ?_, hc2, ?_⟩
    · rw [bind_ok' hok]
      show (getS >>= fun s2 => blockFinish ch ind _ s2 >>= fun str => Pure.pure _) u2 = _
      rw [bind_ok' (show (getS : S Sc) u2 = .ok (u2, u2) from rfl)]
      have hf : foldStr ⟨[], [], [], false⟩ false = [] := by simp [foldStr]
      simp only [hf, List.nil_append]
      rw [bind_ok' (literal_chomping ch ind (joinSp l (ls.map Prod.fst)) bl u2 hk2 hc2)]
      cases ch <;> rfl
    · rw [hl2, h1.line]
    · rw [hx2, h1.iter]; exact h1.off

theorem fold_head {l : Str} (h : FoldLine l) : l.headD '\x00' ≠ ' ' := by
  intro e
  have := h.2
  rw [e] at this
  exact absurd this (by decide)

/-- **A whole folded block scalar, from just after its `>`** (cf. `C05T.literal_block_token`): header ``/`-`/`+`,
    any spelling of the break ending the header line, indentation detected from the first content line, any
    number of content lines none of which starts with a blank, each ended by its own spelling of a break. The
    token is a folded scalar whose text is the lines joined by *single spaces*, chomped as the header says. -/
theorem folded_block_token (sm : Marker) (hd : Hdr) (b0 : Brk) (ind : Nat) (hind : ind ≠ 0) (tail : Str)
    (ht1 : tail.headD '\x00' ≠ ' ') (ht2 : isBreak (tail.headD '\x00') = false) (ls : List (Str × Brk)) (l : Str) (b : Brk)
    (hl : FoldLine l) (hls : ∀ p ∈ ls, FoldLine p.1) (u : Sc) (L C : Nat) (I : Int) (N : Nat)
    (hI : (I + 1).toNat ≤ ind)
    (h : At u (hd.txt ++ (b0.txt ++ (List.replicate ind ' ' ++ (l ++ (b.txt ++ restLinesB ind ls tail))))) L C I N) :
    EvR (scanBlockScalarBody false sm) u (fun tok u' =>
      IsTok false tok (chomped hd.chomp (joinSp l (ls.map Prod.fst))) (L + 1) ind (L + 1 + ls.length + 1)
        (l ++ (b.txt ++ restLinesB ind ls tail)).length tail.length N ∧
      Pos u' tail (L + 1 + ls.length + 1) 0 N) :=
  block_token false _ sm hd b0 ind hind tail ls l b hl.1 (fold_head hl) u L C I N hI
    (fun u4 L' I' h4 => ev_blockContentF hd.chomp ind hind tail ht1 ht2 ls l b hl hls u4 L' I' N h4) h

end SaphyrModel.C05F
