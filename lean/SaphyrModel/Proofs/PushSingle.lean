import SaphyrModel.Proofs.PushPull
import SaphyrModel.Proofs.Run
/-! Single-document mode of the push interface: `load(recv, false)` delivers one document per call,
and a consumer that keeps calling it until StreamEnd receives exactly what `load(recv, true)`
delivers, i.e. exactly the events of plain iteration. -/
namespace SaphyrModel

/-- what one call of the document loop in single-document mode does, in terms of pulls: it forwards
    StreamEnd, or exactly one document (DocumentStart … DocumentEnd), after which the parser is
    between documents again and strictly closer to the end -/
def Doc1Spec (n : Nat) (s : Push) (r : Res Push) : Prop :=
  match r with
  | .ok s' =>
    (∃ vEnd, nextImpl s.api = .ok (vEnd, s'.api) ∧ vEnd.1 = .streamEnd ∧ s'.out = vEnd :: s.out) ∨
    (∃ evs vLast, Steps s.api (evs ++ [vLast]) s'.api ∧ NoEnd (evs ++ [vLast]) ∧
      s'.out = vLast :: (evs.reverse ++ s.out) ∧ PInv s'.api ⟨1, []⟩ ∧ phi s'.api.p < phi s.api.p ∧
      (∃ v0 rest, evs = v0 :: rest ∧ isDocumentStart v0.1 = true) ∧ vLast.1 = .documentEnd)
  | .err e => ∃ evs a', Steps s.api evs a' ∧ NoEnd evs ∧ nextImpl a' = .err e
  | .panic x => x = .fuel ∧ n ≤ phi s.api.p

theorem doc1_spec (n : Nat) (s : Push) (h : PInv s.api ⟨1, []⟩) : Doc1Spec n s (loadLoop false n s) := by
  cases n with
  | zero => simp [loadLoop, Doc1Spec]
  | succ n =>
    have hstep := pull_step h
    unfold loadLoop
    cases hn : nextImpl s.api with
    | err e =>
      simp only [Push.pull, hn]
      exact ⟨[], s.api, Steps.nil _, by intro x hx; simp at hx, hn⟩
    | panic x => simp [hn] at hstep
    | ok o =>
      obtain ⟨v, a1⟩ := o
      simp only [hn] at hstep
      obtain ⟨g', hs, hR, hc, hJ, hdoc, hend, _⟩ := hstep
      have hphi : phi a1.p < phi s.api.p := pull_phi h.cur h.live hn
      simp only [Push.pull, hn]
      rcases gStep_between hs with ⟨hv, _⟩ | ⟨hv, hg'⟩
      · simp only [hv, beq_self_eq_true, ↓reduceIte]
        exact Or.inl ⟨v, hn, hv, by simp [Push.recv]⟩
      · have hne : (v.1 == Event.streamEnd) = false := by
          cases hv1 : v.1 <;> simp [hv1, isDocumentStart] at hv ⊢
        have hvne : v.1 ≠ .streamEnd := by intro h0; rw [h0] at hne; simp at hne
        simp only [hne, Bool.false_eq_true, ↓reduceIte]
        have hcl := clear_noop a1 (hdoc hv)
        have hs0 : ({ api := { a1 with p := { a1.p with anchors := [] } }, out := s.out } : Push) = ⟨a1, s.out⟩ := by
          rw [hcl]
        simp only [hs0]
        unfold loadDocument
        simp only [hv, Bool.not_true, Bool.false_eq_true, ↓reduceIte]
        have hI1 : PInv a1 ⟨1, [.doc false]⟩ := ⟨hg' ▸ hR, hc, fun he => hvne (hend he), hJ⟩
        have hnode := nodeLoop_spec n 0 ((⟨a1, s.out⟩ : Push).recv v) ⟨1, [.doc false]⟩ hI1 rfl (Or.inl ⟨rfl, rfl⟩)
        cases hl : loadNodeLoop n 0 ((⟨a1, s.out⟩ : Push).recv v) with
        | err e =>
          simp only [hl, NodeSpec] at hnode ⊢
          obtain ⟨evs, a', hst, hne', herr⟩ := hnode
          exact ⟨v :: evs, a', Steps.cons hn hst, by
            intro x hx; simp at hx; rcases hx with rfl | hx; exact hvne; exact hne' x hx, herr⟩
        | panic x =>
          simp only [hl, NodeSpec] at hnode ⊢
          exact ⟨hnode.1, by have := hnode.2; simp [Push.recv] at this; omega⟩
        | ok s2 =>
          simp only [hl, NodeSpec] at hnode ⊢
          obtain ⟨evs, hst, hout, hI2, hne2, hph2⟩ := hnode
          simp only [Push.recv] at hph2 hout
          have hstep2 := pull_step hI2
          cases hn2 : nextImpl s2.api with
          | err e =>
            simp only [Push.pull, hn2]
            exact ⟨v :: evs, s2.api, Steps.cons hn hst, by
              intro x hx; simp at hx; rcases hx with rfl | hx; exact hvne; exact hne2 x hx, hn2⟩
          | panic x => simp [hn2] at hstep2
          | ok o2 =>
            obtain ⟨v2, a3⟩ := o2
            simp only [hn2] at hstep2
            obtain ⟨g3, hs3, hR3, hc3, hJ3, _, hend3, _⟩ := hstep2
            obtain ⟨hv2, hg3⟩ := gStep_afterNode hs3
            have hphi3 : phi a3.p < phi s2.api.p := pull_phi hI2.cur hI2.live hn2
            simp only [Push.pull, hn2, hv2, beq_self_eq_true, ↓reduceIte]
            have hv2ne : v2.1 ≠ .streamEnd := by rw [hv2]; simp
            have hI3 : PInv a3 ⟨1, []⟩ := ⟨hg3 ▸ hR3, hc3, fun he => hv2ne (hend3 he), hJ3⟩
            have hsteps : Steps s.api ((v :: evs) ++ [v2]) a3 :=
              Steps.cons hn (Steps.trans hst (Steps.one hn2))
            have hne3 : NoEnd ((v :: evs) ++ [v2]) := by
              intro x hx; simp at hx
              rcases hx with rfl | hx | rfl
              · exact hvne
              · exact hne2 x hx
              · exact hv2ne
            refine Or.inr ⟨v :: evs, v2, hsteps, hne3, ?_, hI3, by simp only [Push.recv]; omega, ⟨v, evs, rfl, hv⟩, hv2⟩
            simp [Push.recv, hout]

/-- what the consumer of the single-document mode has received when it stops -/
def RepSpec (c n : Nat) (s : Push) (r : Res Push) : Prop :=
  match r with
  | .ok s' => ∃ evs vEnd a1, Steps s.api evs a1 ∧ NoEnd evs ∧ nextImpl a1 = .ok (vEnd, s'.api) ∧
      vEnd.1 = .streamEnd ∧ s'.out = vEnd :: (evs.reverse ++ s.out)
  | .err e => ∃ evs a', Steps s.api evs a' ∧ NoEnd evs ∧ nextImpl a' = .err e
  | .panic x => x = .fuel ∧ (n ≤ phi s.api.p ∨ c ≤ phi s.api.p)

theorem load_started (multi : Bool) (n : Nat) (s : Push) (h : PInv s.api ⟨1, []⟩) :
    load multi n s = loadLoop multi n s := by
  obtain ⟨hst, _⟩ := R_empty h.rel
  unfold load
  rcases hst with hst | hst <;> simp [hst]

theorem sawEnd_of_head {s : Push} {v : Ev} {r : List Ev} (h : s.out = v :: r) : sawEnd s = (v.1 == .streamEnd) := by
  simp [sawEnd, h]

theorem repeat_spec (n : Nat) : ∀ (c : Nat) (s : Push), PInv s.api ⟨1, []⟩ → RepSpec c n s (loadRepeat c n s) := by
  intro c
  induction c with
  | zero => intro s _; simp [loadRepeat, RepSpec]
  | succ c ih =>
    intro s h
    unfold loadRepeat
    rw [load_started false n s h]
    have hd := doc1_spec n s h
    cases hl : loadLoop false n s with
    | err e => simp only [hl, Doc1Spec] at hd ⊢; exact hd
    | panic x => simp only [hl, Doc1Spec] at hd ⊢; exact ⟨hd.1, Or.inl hd.2⟩
    | ok s1 =>
      simp only [hl, Doc1Spec] at hd ⊢
      rcases hd with ⟨vEnd, hn, hv, hout⟩ | ⟨evs, vLast, hst, hne, hout, hI, hphi, _, hvl⟩
      · have : sawEnd s1 = true := by rw [sawEnd_of_head hout, hv]; rfl
        simp only [this, ↓reduceIte]
        exact ⟨[], vEnd, s.api, Steps.nil _, by intro x hx; simp at hx, hn, hv, by simp [hout]⟩
      · have : sawEnd s1 = false := by rw [sawEnd_of_head hout, hvl]; rfl
        simp only [this, Bool.false_eq_true, ↓reduceIte]
        have hrec := ih s1 hI
        cases hr : loadRepeat c n s1 with
        | ok s2 =>
          simp only [hr, RepSpec] at hrec ⊢
          obtain ⟨evs2, vEnd, a1, hst2, hne2, hn2, hvend, hout2⟩ := hrec
          refine ⟨(evs ++ [vLast]) ++ evs2, vEnd, a1, Steps.trans hst hst2, ?_, hn2, hvend, ?_⟩
          · intro x hx; rw [List.mem_append] at hx
            rcases hx with hx | hx; exact hne x hx; exact hne2 x hx
          · simp [hout2, hout]
        | err e =>
          simp only [hr, RepSpec] at hrec ⊢
          obtain ⟨evs2, a', hst2, hne2, herr⟩ := hrec
          refine ⟨(evs ++ [vLast]) ++ evs2, a', Steps.trans hst hst2, ?_, herr⟩
          intro x hx; rw [List.mem_append] at hx
          rcases hx with hx | hx; exact hne x hx; exact hne2 x hx
        | panic x =>
          simp only [hr, RepSpec] at hrec ⊢
          refine ⟨hrec.1, ?_⟩
          rcases hrec.2 with h2 | h2
          · left; omega
          · right; omega

/-- the consumer of the single-document mode, started on a fresh parser: the first call also forwards
    StreamStart -/
theorem repeat_fresh_spec (c n : Nat) (p0 : PState) (hst : p0.state = .streamStart) (hss : p0.states = [])
    (ha : p0.anchors = []) :
    RepSpec (c + 1) n ⟨Api.init p0, []⟩ (loadRepeat (c + 1) n ⟨Api.init p0, []⟩) := by
  have hI : PInv (Api.init p0) ⟨0, []⟩ :=
    ⟨by simp [Api.init, R, R', hst, hss], rfl, by simp [Api.init, hst], fun _ => ha⟩
  unfold loadRepeat load
  simp only [Api.init, hst, bne_self_eq_false, Option.isSome_none, Bool.or_self, Bool.not_false, ↓reduceIte]
  have hstep := pull_step hI
  cases hn : nextImpl (Api.init p0) with
  | err e =>
    simp only [Api.init] at hn
    simp only [Push.pull, hn]
    exact ⟨[], _, Steps.nil _, by intro x hx; simp at hx, hn⟩
  | panic x => simp [hn] at hstep
  | ok o =>
    obtain ⟨v, a1⟩ := o
    simp only [hn] at hstep
    obtain ⟨g', hs, hR, hc, hJ, _, hend, _⟩ := hstep
    obtain ⟨hv, hg'⟩ := gStep_first hs
    have hphi : phi a1.p < phi (Api.init p0).p := pull_phi hI.cur hI.live hn
    simp only [Api.init] at hn hphi
    simp only [Push.pull, hn, hv, bne_self_eq_false, Bool.false_eq_true, ↓reduceIte]
    have hvne : v.1 ≠ .streamEnd := by rw [hv]; simp
    have hI1 : PInv a1 ⟨1, []⟩ := ⟨hg' ▸ hR, hc, fun he => hvne (hend he), hJ⟩
    have hd := doc1_spec n ((⟨a1, []⟩ : Push).recv v) hI1
    cases hl : loadLoop false n ((⟨a1, []⟩ : Push).recv v) with
    | err e =>
      simp only [hl, Doc1Spec] at hd ⊢
      obtain ⟨evs, a', hst', hne', herr⟩ := hd
      exact ⟨v :: evs, a', Steps.cons hn hst', by
        intro x hx; simp at hx; rcases hx with rfl | hx; exact hvne; exact hne' x hx, herr⟩
    | panic x =>
      simp only [hl, Doc1Spec] at hd ⊢
      exact ⟨hd.1, Or.inl (by have := hd.2; simp only [Push.recv] at this; show n ≤ phi p0; omega)⟩
    | ok s1 =>
      simp only [hl, Doc1Spec] at hd ⊢
      simp only [Push.recv] at hd
      rcases hd with ⟨vEnd, hn1, hv1, hout⟩ | ⟨evs, vLast, hst1, hne1, hout, hI2, hphi1, _, hvl⟩
      · have : sawEnd s1 = true := by rw [sawEnd_of_head hout, hv1]; rfl
        simp only [this, ↓reduceIte]
        exact ⟨[v], vEnd, a1, Steps.one hn, by intro x hx; simp at hx; rw [hx]; exact hvne, hn1, hv1, by simp [hout]⟩
      · have : sawEnd s1 = false := by rw [sawEnd_of_head hout, hvl]; rfl
        simp only [this, Bool.false_eq_true, ↓reduceIte]
        have hrec := repeat_spec n c s1 hI2
        have hall : Steps (Api.init p0) (v :: (evs ++ [vLast])) s1.api := Steps.cons hn hst1
        have hneall : NoEnd (v :: (evs ++ [vLast])) := by
          intro x hx; simp only [List.mem_cons] at hx
          rcases hx with rfl | hx; exact hvne; exact hne1 x hx
        cases hr : loadRepeat c n s1 with
        | ok s2 =>
          simp only [hr, RepSpec] at hrec ⊢
          obtain ⟨evs2, vEnd, a2, hst2, hne2, hn2, hvend, hout2⟩ := hrec
          refine ⟨(v :: (evs ++ [vLast])) ++ evs2, vEnd, a2, Steps.trans hall hst2, ?_, hn2, hvend, ?_⟩
          · intro x hx; rw [List.mem_append] at hx
            rcases hx with hx | hx; exact hneall x hx; exact hne2 x hx
          · simp [hout2, hout]
        | err e =>
          simp only [hr, RepSpec] at hrec ⊢
          obtain ⟨evs2, a', hst2, hne2, herr⟩ := hrec
          refine ⟨(v :: (evs ++ [vLast])) ++ evs2, a', Steps.trans hall hst2, ?_, herr⟩
          intro x hx; rw [List.mem_append] at hx
          rcases hx with hx | hx; exact hneall x hx; exact hne2 x hx
        | panic x =>
          simp only [hr, RepSpec] at hrec ⊢
          refine ⟨hrec.1, ?_⟩
          rcases hrec.2 with h2 | h2
          · left; show n ≤ phi p0; omega
          · right; show c + 1 ≤ phi p0; omega

/-- pulls up to and including StreamEnd are exactly what plain iteration returns before it ends -/
theorem iterate_of_steps_end {a0 a1 sapi : Api} {evs : List Ev} {vEnd : Ev} (hst : Steps a0 evs a1) (hne : NoEnd evs)
    (hn1 : nextImpl a1 = .ok (vEnd, sapi)) (hvend : vEnd.1 = .streamEnd) (he : a0.endEmitted = false) (m : Nat) :
    iterate (evs.length + 2 + m) a0 [] = (evs ++ [vEnd], none) := by
  rw [iterate_eq]
  obtain ⟨_, he1⟩ := iterSpec_of_steps hst hne he (1 + m)
  have hnext : a1.next = (some (.ok vEnd), { sapi with endEmitted := true }) := by
    simp [Api.next, he1, hn1, hvend]
  have hlast : ∀ k, iterSpec (k + 1) ({ sapi with endEmitted := true } : Api) = ([], none) := by
    intro k; simp [iterSpec, Api.next]
  have h2 : iterSpec (1 + m + 1) a1 = ([vEnd], none) := by
    rw [show 1 + m + 1 = (m + 1) + 1 by omega]
    unfold iterSpec
    simp only [hnext]
    rw [hlast m]
  have h3 := (iterSpec_of_steps hst hne he (1 + m + 1)).1
  rw [h2] at h3
  rw [show evs.length + 2 + m = evs.length + (1 + m + 1) by omega, h3]
  simp

/-- pulls followed by an error are what plain iteration returns before it reports that error -/
theorem iterate_of_steps_err {a0 a' : Api} {evs : List Ev} {e : ScanError} (hst : Steps a0 evs a') (hne : NoEnd evs)
    (herr : nextImpl a' = .err e) (he : a0.endEmitted = false) (m : Nat) :
    iterate (evs.length + 1 + m) a0 [] = (evs, some (.err e)) := by
  rw [iterate_eq]
  obtain ⟨h1, he1⟩ := iterSpec_of_steps hst hne he (1 + m)
  have hnext : a'.next = (some (.err e), a') := by simp [Api.next, he1, herr]
  have h2 : iterSpec (1 + m) a' = ([], some (.err e)) := by
    rw [show 1 + m = m + 1 by omega]; simp only [iterSpec, hnext]
  rw [show evs.length + 1 + m = evs.length + (1 + m) by omega, h1, h2]
  simp

end SaphyrModel
