import SaphyrModel.Parser2
/-! Anchor discipline of the parser (the third clause of C02): ids are handed out as 1, 2, 3, … in
order of occurrence, and an alias always carries an id handed out earlier. -/
namespace SaphyrModel

/-- invariant of the anchor table: every recorded id is positive and below the next id -/
def AInv (p : PState) : Prop := 1 ≤ p.anchorId ∧ ∀ x ∈ p.anchors, 1 ≤ x.2 ∧ x.2 < p.anchorId

/-- what an event may do with anchor ids when `n` is the next id to hand out: an alias refers to an
    earlier id; an anchored node takes exactly `n` (and the next id becomes `n + 1`); everything
    else leaves the counter alone -/
def EvSpec (n : Nat) (ev : Event) (n' : Nat) : Prop :=
  match ev with
  | .alias id => 1 ≤ id ∧ id < n ∧ n' = n
  | .scalar _ _ a _ | .sequenceStart a _ | .mappingStart a _ => (a = 0 ∧ n' = n) ∨ (a = n ∧ n' = n + 1)
  | _ => n' = n

/-- the step touched neither the counter nor (except for clearing it) the table -/
def Keeps (p q : PState) : Prop := q.anchorId = p.anchorId ∧ (q.anchors = p.anchors ∨ q.anchors = [])

theorem Keeps.refl (p : PState) : Keeps p p := ⟨rfl, Or.inl rfl⟩
theorem Keeps.trans {a b c : PState} (h1 : Keeps a b) (h2 : Keeps b c) : Keeps a c := by
  refine ⟨h2.1.trans h1.1, ?_⟩
  rcases h2.2 with h | h
  · rcases h1.2 with g | g
    · exact Or.inl (h.trans g)
    · exact Or.inr (h.trans g)
  · exact Or.inr h

theorem Keeps.ainv {p q : PState} (h : Keeps p q) (hp : AInv p) : AInv q := by
  refine ⟨by rw [h.1]; exact hp.1, ?_⟩
  rcases h.2 with g | g
  · rw [g, h.1]; exact hp.2
  · rw [g]; intro x hx; cases hx

/-- an event that carries no anchor id and is not an alias -/
def NoAid : Event → Prop
  | .alias _ => False
  | .scalar _ _ a _ | .sequenceStart a _ | .mappingStart a _ => a = 0
  | _ => True

theorem NoAid.spec {ev : Event} (h : NoAid ev) (n : Nat) : EvSpec n ev n := by
  cases ev <;> simp_all [NoAid, EvSpec]

theorem popState_keeps {p q : PState} (h : popState p = .ok q) : Keeps p q := by
  unfold popState at h; split at h <;> simp at h; subst h; exact ⟨rfl, Or.inl rfl⟩

theorem lookup_mem {α} (k : Str) (l : List (Str × α)) (v : α) (h : lookup k l = some v) : (k, v) ∈ l := by
  induction l with
  | nil => simp [lookup] at h
  | cons x r ih =>
    obtain ⟨k', v'⟩ := x
    simp only [lookup] at h
    split at h
    · rename_i hk; simp at h; subst h; subst hk; simp
    · exact List.mem_cons_of_mem _ (ih h)

/-- `register_anchor` keeps the invariant and hands out exactly the next id -/
theorem registerAnchor_ainv (p : PState) (name : Str) (hp : AInv p) :
    AInv (registerAnchor p name).2 ∧ (registerAnchor p name).1 = p.anchorId ∧
    (registerAnchor p name).2.anchorId = p.anchorId + 1 := by
  refine ⟨⟨by simp [registerAnchor], ?_⟩, rfl, rfl⟩
  intro x hx
  simp only [registerAnchor, List.mem_cons] at hx
  rcases hx with h | h
  · subst h; simp [registerAnchor]; exact hp.1
  · have := hp.2 x h; simp [registerAnchor]; omega

/-- second half of `parse_node`: the anchor id `aid` was decided before; only events with that id -/
theorem parseNodeContent_anch (p : PState) (b i : Bool) (aid : Nat) (tag : Option Tag) (ev : Event) (sp : Span)
    (p' : PState) (h : parseNodeContent p b i aid tag = .ok (ev, sp, p')) :
    Keeps p p' ∧ (match ev with
      | .scalar _ _ a _ | .sequenceStart a _ | .mappingStart a _ => a = aid
      | _ => False) := by
  unfold parseNodeContent at h
  cases hp : peekTok p with
  | err e => simp [hp] at h
  | panic x => simp [hp] at h
  | ok t =>
    simp only [hp] at h
    repeat' (first
      | (simp at h; done)
      | (simp only [Res.ok.injEq, Prod.mk.injEq] at h; obtain ⟨h1, h2, h3⟩ := h; subst h1; subst h3;
         first
          | exact ⟨⟨rfl, Or.inl rfl⟩, rfl⟩
          | (rename_i hpop; have hk := popState_keeps hpop
             exact ⟨⟨hk.1, by simpa [skipTok] using hk.2⟩, rfl⟩))
      | split at h)

/-- events of `parse_node_content` with a given id obey the id discipline -/
theorem content_spec {p p' : PState} {b i : Bool} {aid : Nat} {tag : Option Tag} {ev : Event} {sp : Span}
    (h : parseNodeContent p b i aid tag = .ok (ev, sp, p')) (n : Nat)
    (ha : (aid = 0 ∧ p.anchorId = n) ∨ (aid = n ∧ p.anchorId = n + 1)) (hp : AInv p) :
    AInv p' ∧ EvSpec n ev p'.anchorId := by
  obtain ⟨hk, hev⟩ := parseNodeContent_anch p b i aid tag ev sp p' h
  refine ⟨hk.ainv hp, ?_⟩
  rw [hk.1]
  cases ev <;> simp_all [EvSpec]

theorem resolveTag_ok {p : PState} {span : Span} {h s : Str} : ∀ x, resolveTag p span h s ≠ .panic x := by
  intro x hx; unfold resolveTag at hx; (repeat' split at hx) <;> simp at hx

/-- **`parse_node` obeys the anchor-id discipline.** -/
theorem parseNode_anch (p : PState) (b i : Bool) (ev : Event) (sp : Span) (p' : PState) (hp : AInv p)
    (h : parseNode p b i = .ok (ev, sp, p')) : AInv p' ∧ EvSpec p.anchorId ev p'.anchorId := by
  unfold parseNode at h
  cases hpk : peekTok p with
  | err e => simp [hpk] at h
  | panic x => simp [hpk] at h
  | ok t =>
    simp only [hpk] at h
    split at h
    · -- alias
      rename_i name _
      cases hpop : popState p with
      | err e => simp [hpop] at h
      | panic x => simp [hpop] at h
      | ok q =>
        simp only [hpop] at h
        have hk := popState_keeps hpop
        split at h
        · simp at h
        · rename_i id hl
          simp only [Res.ok.injEq, Prod.mk.injEq] at h
          obtain ⟨h1, _, h3⟩ := h
          subst h1; subst h3
          have hq : AInv (skipTok q) := (show Keeps p (skipTok q) from ⟨hk.1, by simpa [skipTok] using hk.2⟩).ainv hp
          refine ⟨hq, ?_⟩
          have hm := lookup_mem _ _ _ hl
          have := hq.2 _ hm
          simp only [EvSpec, skipTok] at this ⊢
          have e1 : q.anchorId = p.anchorId := hk.1
          omega
    · -- anchor first
      rename_i name _
      have hr := registerAnchor_ainv (skipTok p) name (by simpa [AInv, skipTok] using hp)
      cases hpk2 : peekTok (registerAnchor (skipTok p) name).2 with
      | err e => simp [hpk2] at h
      | panic x => simp [hpk2] at h
      | ok t2 =>
        simp only [hpk2] at h
        split at h
        · -- followed by a tag
          split at h
          · simp at h
          · simp at h
          · exact content_spec h p.anchorId (Or.inr ⟨by simpa [skipTok] using hr.2.1, by simpa [skipTok] using hr.2.2⟩)
              (by simpa [AInv, skipTok] using hr.1)
        · exact content_spec h p.anchorId (Or.inr ⟨by simpa [skipTok] using hr.2.1, by simpa [skipTok] using hr.2.2⟩) hr.1
    · -- tag first
      split at h
      · simp at h
      · simp at h
      · cases hpk2 : peekTok (skipTok p) with
        | err e => simp [hpk2] at h
        | panic x => simp [hpk2] at h
        | ok t2 =>
          simp only [hpk2] at h
          split at h
          · rename_i name _
            have hr := registerAnchor_ainv (skipTok (skipTok p)) name (by simpa [AInv, skipTok] using hp)
            exact content_spec h p.anchorId (Or.inr ⟨by simpa [skipTok] using hr.2.1, by simpa [skipTok] using hr.2.2⟩) hr.1
          · exact content_spec h p.anchorId (Or.inl ⟨rfl, by simp [skipTok]⟩) (by simpa [AInv, skipTok] using hp)
    · exact content_spec h p.anchorId (Or.inl ⟨rfl, rfl⟩) hp

end SaphyrModel
