import SaphyrModel.Sim
import SaphyrModel.Api
import SaphyrModel.Proofs.AnchorsStep
/-! Lifting the one-step simulation `parseStep_good` to whole runs of the iterator. -/
namespace SaphyrModel

/-- invariant of the iterator between calls of `next` -/
structure IterInv (a : Api) (g : G) : Prop where
  rel : R a.p g
  cur : a.current = none
  live : a.endEmitted = false → a.p.state ≠ .end
  done : a.endEmitted = true → g = ⟨2, []⟩

theorem gStep_phase2 {g g' : G} {ev : Event} (h : gStep g ev = some g') (h2 : g'.phase = 2) :
    ev = .streamEnd := by
  cases ev <;> simp only [gStep] at h
  case streamEnd => rfl
  all_goals
    split at h
    · first
      | (simp at h; subst h; simp at h2)
      | (cases hn : nodeAdv g.stack <;> simp [hn] at h; subst h; simp at h2)
      | (split at h <;> simp at h; subst h; simp at h2)
    · simp at h

theorem R_end_phase {p : PState} {g : G} (h : R p g) (he : p.state = .end) : g = ⟨2, []⟩ := by
  unfold R at h; rw [he] at h; simpa [R'] using h

/-- one `next` call from a live iterator: the event is a grammar step and the invariant is kept -/
theorem next_step {a : Api} {g : G} (h : IterInv a g) (hl : a.endEmitted = false) :
    match a.next with
    | (some (.ok v), a') => ∃ g', gStep g v.1 = some g' ∧ IterInv a' g'
    | (some (.err _), _) => True
    | (some (.panic _), _) => False
    | (none, _) => False := by
  unfold Api.next
  simp only [hl, Bool.false_eq_true, ↓reduceIte]
  unfold nextImpl
  simp only [h.cur]
  have hg := parseStep_good h.rel (h.live hl)
  cases hp : parseStep a.p with
  | err e => simp
  | panic x => simp [hp, Good] at hg
  | ok o =>
    obtain ⟨ev, sp, p'⟩ := o
    simp only [hp, Good] at hg
    obtain ⟨g', hs, hR⟩ := hg
    refine ⟨g', hs, ?_⟩
    constructor
    · exact hR
    · simp
    · intro hne hend
      have := R_end_phase hR hend
      have hev := gStep_phase2 hs (by rw [this])
      simp [hev] at hne
    · intro he
      simp only [beq_iff_eq] at he
      subst he
      simp only [gStep] at hs
      split at hs <;> simp at hs
      exact hs.symm

/-- accumulator-free form of `iterate`, for proofs -/
def iterSpec : Nat → Api → List Ev × Option (Res Unit)
  | 0, _ => ([], some (.panic .fuel))
  | fuel + 1, a =>
    match a.next with
    | (none, _) => ([], none)
    | (some (.ok v), a') => (v :: (iterSpec fuel a').1, (iterSpec fuel a').2)
    | (some (.err e), _) => ([], some (.err e))
    | (some (.panic x), _) => ([], some (.panic x))

theorem iterate_eq (fuel : Nat) (a : Api) (acc : List Ev) :
    iterate fuel a acc = (acc.reverse ++ (iterSpec fuel a).1, (iterSpec fuel a).2) := by
  induction fuel generalizing a acc with
  | zero => simp [iterate, iterSpec]
  | succ n ih =>
    simp only [iterate, iterSpec]
    rcases hnx : a.next with ⟨r, a'⟩
    cases r with
    | none => simp
    | some r =>
      cases r with
      | ok v => simp [ih]
      | err e => simp
      | panic x => simp

/-- Events delivered by plain iteration are accepted by the grammar automaton; iteration never
    panics (fuel aside); a run that ends without error ends in the accepting configuration. -/
theorem iterSpec_sound (fuel : Nat) (a : Api) (g : G) (h : IterInv a g) :
    ∃ g', gRun g ((iterSpec fuel a).1.map (·.1)) = some g' ∧
      (∀ x, (iterSpec fuel a).2 = some (.panic x) → x = .fuel) ∧
      ((iterSpec fuel a).2 = none → g' = ⟨2, []⟩) := by
  induction fuel generalizing a g with
  | zero => simp [iterSpec, gRun]
  | succ n ih =>
    simp only [iterSpec]
    cases hl : a.endEmitted with
    | true =>
      have : a.next = (none, a) := by simp [Api.next, hl]
      simp only [this]
      exact ⟨g, by simp [gRun], by simp, fun _ => h.done hl⟩
    | false =>
      have hn := next_step h hl
      rcases hnx : a.next with ⟨r, a'⟩
      rw [hnx] at hn
      cases r with
      | none => simp at hn
      | some r =>
        cases r with
        | err e => exact ⟨g, by simp [gRun], by simp, by simp⟩
        | panic x => simp at hn
        | ok v =>
          simp only at hn ⊢
          obtain ⟨g1, hs, hI⟩ := hn
          obtain ⟨g', hrun, hpan, hdone⟩ := ih a' g1 hI
          exact ⟨g', by simp [gRun, hs, hrun], hpan, hdone⟩

theorem iterate_sound (fuel : Nat) (a : Api) (g : G) (h : IterInv a g) :
    ∃ g', gRun g ((iterate fuel a []).1.map (·.1)) = some g' ∧
      (∀ x, (iterate fuel a []).2 = some (.panic x) → x = .fuel) ∧
      ((iterate fuel a []).2 = none → g' = ⟨2, []⟩) := by
  rw [iterate_eq]; simpa using iterSpec_sound fuel a g h

end SaphyrModel

namespace SaphyrModel

/-- specification of the anchor-id discipline over a whole event stream: `n` is the next id to be
    handed out; an anchored node must take exactly `n`, an alias must refer to an id below `n` -/
def aStep (n : Nat) (ev : Event) : Option Nat :=
  match ev with
  | .alias id => if 1 ≤ id ∧ id < n then some n else none
  | .scalar _ _ a _ | .sequenceStart a _ | .mappingStart a _ =>
    if a = 0 then some n else if a = n then some (n + 1) else none
  | _ => some n

def aRun (n : Nat) : List Event → Option Nat
  | [] => some n
  | e :: es => (aStep n e).bind (aRun · es)

theorem EvSpec.aStep {n n' : Nat} {ev : Event} (h : EvSpec n ev n') (hn : 1 ≤ n) : aStep n ev = some n' := by
  cases ev <;> simp_all [EvSpec, SaphyrModel.aStep]
  all_goals (first | omega | (rcases h with ⟨h1, h2⟩ | ⟨h1, h2⟩ <;> simp_all <;> omega))

theorem iterSpec_anchors (fuel : Nat) (a : Api) (hc : a.current = none) (hp : AInv a.p) :
    ∃ n', aRun a.p.anchorId ((iterSpec fuel a).1.map (·.1)) = some n' := by
  induction fuel generalizing a with
  | zero => exact ⟨a.p.anchorId, by simp [iterSpec, aRun]⟩
  | succ k ih =>
    simp only [iterSpec]
    cases hl : a.endEmitted with
    | true =>
      have : a.next = (none, a) := by simp [Api.next, hl]
      simp only [this]
      exact ⟨a.p.anchorId, by simp [aRun]⟩
    | false =>
      cases hs : parseStep a.p with
      | err e =>
        have : a.next = (some (.err e), a) := by simp [Api.next, hl, nextImpl, hc, hs]
        simp only [this]
        exact ⟨a.p.anchorId, by simp [aRun]⟩
      | panic x =>
        have : a.next = (some (.panic x), a) := by simp [Api.next, hl, nextImpl, hc, hs]
        simp only [this]
        exact ⟨a.p.anchorId, by simp [aRun]⟩
      | ok o =>
        obtain ⟨ev, sp, p'⟩ := o
        have : a.next = (some (.ok (ev, sp)), { p := p', current := none, endEmitted := (ev == .streamEnd) }) := by
          simp [Api.next, hl, nextImpl, hc, hs]
        simp only [this]
        have hstep := parseStep_anch a.p ev sp p' hs hp
        obtain ⟨n', hn'⟩ := ih { p := p', current := none, endEmitted := (ev == .streamEnd) } rfl hstep.1
        refine ⟨n', ?_⟩
        simp only [List.map_cons, aRun, hstep.2.aStep hp.1, Option.bind_some]
        exact hn'

theorem iterate_anchors (fuel : Nat) (a : Api) (hc : a.current = none) (hp : AInv a.p) :
    ∃ n', aRun a.p.anchorId ((iterate fuel a []).1.map (·.1)) = some n' := by
  rw [iterate_eq]; simpa using iterSpec_anchors fuel a hc hp

end SaphyrModel
