import SaphyrModel.Proofs.TokTree
import SaphyrModel.Proofs.PushPull
import SaphyrModel.Props.C07
/-! From tokens to loaded documents: the parser theorem for token trees (`TokTree.stream_parses`)
composed with the loader theorem (`C07.fold_document`). -/
namespace SaphyrModel.TokTree
open SaphyrModel

mutual
/-- the abstract event tree a token tree presents (no anchors, no tags) -/
def TT.toE : TT → C07.ETree
  | .scalar sp st v => .scalar v st 0 none sp
  | .flowSeq s e is => .seq 0 none s e is.toEList
  | .flowMap s e ps => .map 0 none s e ps.toEPairs
  | .blockSeq s e is => .seq 0 none s e is.toEList
  | .blockMap s e ps => .map 0 none s e ps.toEPairs
def Items.toEList : Items → List C07.ETree
  | .nil => []
  | .cons _ t r => t.toE :: r.toEList
def Pairs.toEPairs : Pairs → List (C07.ETree × C07.ETree)
  | .nil => []
  | .cons _ _ k _ v r => (k.toE, v.toE) :: r.toEPairs
end

mutual
theorem TT.flatten_toE (t : TT) : C07.flatten t.toE = t.events := by
  cases t with
  | scalar sp st v => rfl
  | flowSeq s e is => simp only [TT.toE, C07.flatten, TT.events, Items.flatten_toE]
  | flowMap s e ps => simp only [TT.toE, C07.flatten, TT.events, Pairs.flatten_toE]
  | blockSeq s e is => simp only [TT.toE, C07.flatten, TT.events, Items.flatten_toE]
  | blockMap s e ps => simp only [TT.toE, C07.flatten, TT.events, Pairs.flatten_toE]
theorem Items.flatten_toE (is : Items) : C07.flattenList is.toEList = is.events := by
  cases is with
  | nil => rfl
  | cons sep t r => simp only [Items.toEList, C07.flattenList, Items.events, TT.flatten_toE, Items.flatten_toE]
theorem Pairs.flatten_toE (ps : Pairs) : C07.flattenPairs ps.toEPairs = ps.events := by
  cases ps with
  | nil => rfl
  | cons se sk k sv v r =>
    simp only [Pairs.toEPairs, C07.flattenPairs, Pairs.events, TT.flatten_toE, Pairs.flatten_toE, List.append_assoc]
end

mutual
theorem TT.events_noEnd (t : TT) : NoEnd t.events := by
  cases t with
  | scalar sp st v => intro x hx; simp [TT.events] at hx; subst hx; simp
  | flowSeq s e is =>
    intro x hx; simp only [TT.events, List.mem_cons, List.mem_append, List.mem_singleton, List.not_mem_nil, or_false] at hx
    rcases hx with rfl | hx | rfl; simp; exact Items.events_noEnd is x hx; simp
  | flowMap s e ps =>
    intro x hx; simp only [TT.events, List.mem_cons, List.mem_append, List.mem_singleton, List.not_mem_nil, or_false] at hx
    rcases hx with rfl | hx | rfl; simp; exact Pairs.events_noEnd ps x hx; simp
  | blockSeq s e is =>
    intro x hx; simp only [TT.events, List.mem_cons, List.mem_append, List.mem_singleton, List.not_mem_nil, or_false] at hx
    rcases hx with rfl | hx | rfl; simp; exact Items.events_noEnd is x hx; simp
  | blockMap s e ps =>
    intro x hx; simp only [TT.events, List.mem_cons, List.mem_append, List.mem_singleton, List.not_mem_nil, or_false] at hx
    rcases hx with rfl | hx | rfl; simp; exact Pairs.events_noEnd ps x hx; simp
theorem Items.events_noEnd (is : Items) : NoEnd is.events := by
  cases is with
  | nil => intro x hx; simp [Items.events] at hx
  | cons sep t r =>
    intro x hx; simp only [Items.events, List.mem_append] at hx
    rcases hx with hx | hx; exact TT.events_noEnd t x hx; exact Items.events_noEnd r x hx
theorem Pairs.events_noEnd (ps : Pairs) : NoEnd ps.events := by
  cases ps with
  | nil => intro x hx; simp [Pairs.events] at hx
  | cons se sk k sv v r =>
    intro x hx; simp only [Pairs.events, List.mem_append] at hx
    rcases hx with (hx | hx) | hx
    · exact TT.events_noEnd k x hx
    · exact TT.events_noEnd v x hx
    · exact Pairs.events_noEnd r x hx
end

/-- `steps` of the state machine are pulls of the driver -/
theorem Steps_of_steps (n : Nat) (p p' : PState) (evs : List Ev) (e : Bool) (h : steps n p = .ok (evs, p')) :
    Steps ⟨p, none, e⟩ evs ⟨p', none, e⟩ := by
  induction n generalizing p evs with
  | zero => simp only [steps, Res.ok.injEq, Prod.mk.injEq] at h; obtain ⟨rfl, rfl⟩ := h; exact Steps.nil _
  | succ n ih =>
    simp only [steps] at h
    cases hp : parseStep p with
    | err x => simp [hp] at h
    | panic x => simp [hp] at h
    | ok o =>
      obtain ⟨ev, sp, p1⟩ := o
      simp only [hp] at h
      cases hs : steps n p1 with
      | err x => simp [hs] at h
      | panic x => simp [hs] at h
      | ok r =>
        obtain ⟨es, p2⟩ := r
        simp only [hs, Res.ok.injEq, Prod.mk.injEq] at h
        obtain ⟨rfl, rfl⟩ := h
        exact Steps.cons (by simp [nextImpl, hp]) (ih p1 es hs)

/-- **From tokens to loaded documents.** For every well-formed token tree `t`, every loader
    configuration (marked/bare, eager/deferred) and `keep_tags` setting: plain iteration over the
    one-document stream presenting `t` ends normally, and folding its events into the loader yields
    exactly one document — the denotation of `t` (children in order, pairs inserted with the map's
    insert semantics) — with nothing left on the loader's stacks. -/
theorem tokens_load (t : TT) (hw : t.wf = true) (c : LCfg) (ss se : Span) (eof : Marker) (keep : Bool) (m : Nat) :
    let r := iterate (t.events.length + 5 + m) (Api.init (PState.init (streamToks ss se t) none eof keep)) []
    r.2 = none ∧
    ∃ s, foldEvents c {} r.1 = .ok s ∧ s.docs = [(C07.denote c [] t.toE).1] ∧ s.docStack = [] := by
  intro r
  obtain ⟨sp, pf, hsteps, hend, _⟩ := stream_parses t hw ss se eof keep
  -- all events but the last as pulls
  have hlen : t.events.length + 4 = (t.events.length + 3) + 1 := by omega
  -- split off the final StreamEnd step
  let p0 := PState.init (streamToks ss se t) none eof keep
  let evs0 : List Ev := (.streamStart, ss) :: (.documentStart false, sp) :: (t.events ++ [(.documentEnd, se)])
  have hall : (.streamStart, ss) :: (.documentStart false, sp) :: (t.events ++ [(.documentEnd, se), (.streamEnd, se)]) =
      evs0 ++ [(.streamEnd, se)] := by simp [evs0]
  rw [hall] at hsteps
  have hS := Steps_of_steps _ _ _ _ false hsteps
  -- generic fact: a run of pulls ending with StreamEnd is what iteration returns
  have hne0 : NoEnd evs0 := by
    intro x hx
    simp only [evs0, List.mem_cons, List.mem_append, List.mem_singleton, List.not_mem_nil, or_false] at hx
    rcases hx with rfl | rfl | hx | rfl
    · simp
    · simp
    · exact TT.events_noEnd t x hx
    · simp
  -- decompose the Steps at the last event
  have hsplit : ∀ {a b : Api} {es : List Ev} {v : Ev}, Steps a (es ++ [v]) b →
      ∃ a1, Steps a es a1 ∧ nextImpl a1 = .ok (v, b) := by
    intro a b es v h
    induction es generalizing a with
    | nil =>
      cases h with
      | cons hn hrest => cases hrest; exact ⟨a, Steps.nil _, hn⟩
    | cons e es ih =>
      cases h with
      | cons hn hrest =>
        obtain ⟨a1, h1, h2⟩ := ih hrest
        exact ⟨a1, Steps.cons hn h1, h2⟩
  obtain ⟨a1, hS0, hlast⟩ := hsplit hS
  have hiter : r = (evs0 ++ [(.streamEnd, se)], none) := by
    show iterate (t.events.length + 5 + m) (Api.init p0) [] = _
    rw [iterate_eq]
    obtain ⟨h1, he1⟩ := iterSpec_of_steps hS0 hne0 rfl (1 + m + 1)
    have hnext : a1.next = (some (.ok (.streamEnd, se)), { (⟨pf, none, false⟩ : Api) with endEmitted := true }) := by
      simp [Api.next, he1, hlast]
    have hl : ∀ k, iterSpec (k + 1) ({ (⟨pf, none, false⟩ : Api) with endEmitted := true } : Api) = ([], none) := by
      intro k; simp [iterSpec, Api.next]
    have h2 : iterSpec (1 + m + 1) a1 = ([(.streamEnd, se)], none) := by
      rw [show 1 + m + 1 = (m + 1) + 1 by omega]
      unfold iterSpec
      simp only [hnext]
      rw [hl m]
    have hlen2 : t.events.length + 5 + m = evs0.length + (1 + m + 1) := by simp [evs0]; omega
    show (([] : List Ev).reverse ++ (iterSpec (t.events.length + 5 + m) (Api.init p0)).1, _) = _
    rw [hlen2]
    have : Api.init p0 = ⟨p0, none, false⟩ := rfl
    rw [this, h1, h2]; simp
  refine ⟨by rw [hiter], ?_⟩
  rw [hiter]
  -- the loader side
  have hfold := C07.fold_document c t.toE {} false sp se rfl
  rw [TT.flatten_toE] at hfold
  have hall2 : foldEvents c {} (evs0 ++ [(.streamEnd, se)]) =
      .ok { docs := [(C07.denote c [] t.toE).1], docStack := [], keyStack := [],
            anchors := (C07.denote c [] t.toE).2 } := by
    have e1 : ∀ (s0 : LSt) (rest : List Ev), foldEvents c s0 ((.streamStart, ss) :: rest) = foldEvents c s0 rest := by
      intro s0 rest; simp [foldEvents, onEvent]
    rw [show evs0 ++ [(Event.streamEnd, se)] = (.streamStart, ss) ::
        (((.documentStart false, sp) :: (t.events ++ [(.documentEnd, se)])) ++ [(.streamEnd, se)]) by simp [evs0]]
    rw [e1, C07.fold_append, hfold]
    simp [foldEvents, onEvent]
  exact ⟨_, hall2, rfl, rfl⟩

end SaphyrModel.TokTree
