import SaphyrModel.Proofs.Rel.Indent
/-! C05, function level: the lines of a literal block scalar are read verbatim. On a string input, in front
of `n` content lines (each indented by exactly the content indentation and ended by a line feed) followed
by a less indented line, `blockScalarLines` returns the lines joined by line feeds. -/
set_option linter.unusedSimpArgs false
namespace SaphyrModel.C05
open SaphyrModel SaphyrModel.Sc SaphyrModel.C10

/-- one round of the content loop of a literal block scalar with content indentation `ind ≥ 1`, as an
    equation between outcomes -/
theorem bsl_step (ind f : Nat) (hind : ind ≠ 0) (a : BlkAcc) (s : Sc) :
    blockScalarLines true ind (f + 1) a s =
      if (s.mark.col != ind) = true then .ok (a, s)
      else match Sc.liftI In.nextIsZ s with
        | .ok (z, s1) =>
          if z = true then .ok (a, s1)
          else match Sc.liftI In.nextIsBlank s1 with
            | .ok (_, s2) => (match Sc.liftI In.nextIsBlank s2 with
              | .ok (lbk, s3) => (match scanBlockScalarContentLine (a.str ++ a.leadingBreak ++ a.trailingBreaks) s3 with
                | .ok (str, s4) => (match Sc.lookahead 2 s4 with
                  | .ok (_, s5) => (match Sc.liftI In.nextIsZ s5 with
                    | .ok (z2, s6) =>
                      if z2 = true then .ok (⟨str, [], [], lbk⟩, s6)
                      else (match readBreak [] s6 with
                        | .ok (lb, s7) => (match skipBlockScalarIndent ind (s7.inp.remaining + 2) [] s7 with
                          | .ok (tb, s8) => blockScalarLines true ind f ⟨str, lb, tb, lbk⟩ s8
                          | .err e => .err e | .panic p => .panic p)
                        | .err e => .err e | .panic p => .panic p)
                    | .err e => .err e | .panic p => .panic p)
                  | .err e => .err e | .panic p => .panic p)
                | .err e => .err e | .panic p => .panic p)
              | .err e => .err e | .panic p => .panic p)
            | .err e => .err e | .panic p => .panic p
        | .err e => .err e | .panic p => .panic p := by
  conv => lhs; unfold blockScalarLines
  have hi : (ind == 0) = false := by simpa using hind
  simp only [Bind.bind, getS, hi, Bool.false_eq_true, ↓reduceIte, Pure.pure, Bool.not_true, Bool.false_and]
  cases hc : (s.mark.col != ind) <;> simp only [Bool.false_eq_true, ↓reduceIte]
  · rcases Sc.liftI In.nextIsZ s with ⟨⟨z, s1⟩⟩ | _ | _
    · simp only
      cases z <;> simp only [Bool.false_eq_true, ↓reduceIte]
      · rcases Sc.liftI In.nextIsBlank s1 with ⟨⟨_, s2⟩⟩ | _ | _
        · simp only
          rcases Sc.liftI In.nextIsBlank s2 with ⟨⟨lbk, s3⟩⟩ | _ | _
          · simp only
            rcases scanBlockScalarContentLine (a.str ++ a.leadingBreak ++ a.trailingBreaks) s3 with ⟨⟨str, s4⟩⟩ | _ | _
            · simp only
              rcases Sc.lookahead 2 s4 with ⟨⟨_, s5⟩⟩ | _ | _
              · simp only
                rcases Sc.liftI In.nextIsZ s5 with ⟨⟨z2, s6⟩⟩ | _ | _
                · simp only
                  cases z2 <;> simp only [Bool.false_eq_true, ↓reduceIte]
                  · rcases readBreak [] s6 with ⟨⟨lb, s7⟩⟩ | _ | _
                    · simp only
                      rcases skipBlockScalarIndent ind (s7.inp.remaining + 2) [] s7 with ⟨⟨tb, s8⟩⟩ | _ | _ <;> rfl
                    · rfl
                    · rfl
                · rfl
                · rfl
              · rfl
              · rfl
            · rfl
            · rfl
          · rfl
          · rfl
        · rfl
        · rfl
    · rfl
    · rfl

-- evaluation on a string input ---------------------------------------------------------------------------

theorem nextIs_str_eval (q : Char → Bool) (e : Bool) (s : Sc) (hk : s.inp.kind = .str) :
    Sc.liftI (In.nextIs q e) s = .ok ((match s.inp.iter with | [] => e | c :: _ => q c), s) := by
  simp only [Sc.liftI, In.nextIs, hk]
  cases s.inp.iter <;> rfl

/-- the state after a line feed was consumed: next line, column 0 -/
def nlS (s : Sc) (r : Str) : Sc :=
  { s with
    inp := { s.inp with iter := r }
    mark := ⟨s.mark.index + 1, s.mark.line + 1, 0⟩
    leadingWhitespace := true }

/-- `read_break` on a line feed: one `'\n'`, next line, column 0 -/
theorem readBreak_lf (acc : Str) (s : Sc) (hk : s.inp.kind = .str) (r : Str) (hi : s.inp.iter = '\n' :: r) :
    readBreak acc s = .ok (acc ++ ['\n'], nlS s r) := by
  simp [readBreak, skipBreak, Bind.bind, peek_str_eval s hk, Sc.peekNth, Sc.liftI, In.peekNth, hk, hi, skipNl, In.skip,
    modS, Pure.pure, nlS]

theorem spc_replicate : ∀ (n k : Nat) (rest : Str), k ≤ n → (k = n ∨ rest.headD '\x00' ≠ ' ') →
    spc n (List.replicate k ' ' ++ rest) = k := by
  intro n
  induction n with
  | zero => intro k rest hk _; have : k = 0 := by omega
            subst this; simp [spc]
  | succ n ih =>
    intro k rest hk h
    cases k with
    | zero =>
      simp only [List.replicate_zero, List.nil_append]
      rcases h with h | h
      · omega
      · cases rest with
        | nil => simp [spc]
        | cons c r =>
          simp at h
          have : (c == ' ') = false := by simpa using h
          simp [spc, this]
    | succ k =>
      simp only [List.replicate_succ, List.cons_append, spc, beq_self_eq_true, ↓reduceIte]
      have h' : k = n ∨ rest.headD '\x00' ≠ ' ' := by
        rcases h with h | h
        · left; omega
        · right; exact h
      rw [ih k rest (by omega) h']

theorem bind_ok' {α β : Type} {m : S α} {f : α → S β} {s s' : Sc} {a : α} (h : m s = .ok (a, s')) :
    (m >>= f) s = f a s' := by simp only [Bind.bind, h]
theorem bind_panic' {α β : Type} {m : S α} {f : α → S β} {s : Sc} {p : Site} (h : m s = .panic p) :
    (m >>= f) s = .panic p := by simp only [Bind.bind, h]

/-- `skip_block_scalar_indent` at the start of a line that begins with `k ≤ ind` spaces and is not blank:
    the spaces are skipped, no break is collected -/
theorem indent_str_eval (ind f k : Nat) (u : Sc) (rest : Str) (hk : u.inp.kind = .str) (hcol : u.mark.col = 0)
    (hi : u.inp.iter = List.replicate k ' ' ++ rest) (hle : k ≤ ind) (hstop : k = ind ∨ rest.headD '\x00' ≠ ' ')
    (hnb : isBreak (rest.headD '\x00') = false) :
    (∃ p, skipBlockScalarIndent ind (f + 1) [] u = .panic p) ∨
    ∃ la', skipBlockScalarIndent ind (f + 1) [] u = .ok ([], advS u k { u.inp with iter := rest, la := la' }) := by
  rw [indent_unfold]
  rcases part_str ind u hk with ⟨p, hp⟩ | ⟨la', hok⟩
  · left; exact ⟨p, bind_panic' hp⟩
  · right
    have hk' : spc (ind - u.mark.col) u.inp.iter = k := by
      rw [hcol, hi, Nat.sub_zero]; exact spc_replicate ind k rest hle hstop
    have hdrop : u.inp.iter.drop k = rest := by rw [hi]; simp
    rw [hk', hdrop] at hok
    refine ⟨la', ?_⟩
    rw [bind_ok' hok]
    have hks : (advS u k { u.inp with iter := rest, la := la' }).inp.kind = .str := hk
    have hnext : Sc.liftI In.nextIsBreak (advS u k { u.inp with iter := rest, la := la' })
        = .ok (false, advS u k { u.inp with iter := rest, la := la' }) := by
      rw [show In.nextIsBreak = In.nextIs isBreak false from rfl, nextIs_str_eval _ _ _ hks]
      simp only [advS_inp]
      cases rest with
      | nil => rfl
      | cons c r => simp at hnb; simp [hnb]
    rw [bind_ok' hnext]
    simp [Pure.pure]

-- the lines of a literal block scalar ------------------------------------------------------------------------

/-- the text of the remaining lines, each indented by `ind` spaces and ended by a line feed, then `tail` -/
def restLines (ind : Nat) : List Str → Str → Str
  | [], tail => tail
  | l :: ls, tail => List.replicate ind ' ' ++ (l ++ '\n' :: restLines ind ls tail)

/-- lines joined by line feeds -/
def joinLines : Str → List Str → Str
  | l, [] => l
  | l, l' :: ls => l ++ '\n' :: joinLines l' ls

/-- a content line: not empty, no break or NUL in it -/
def GoodLine (l : Str) : Prop := l ≠ [] ∧ ∀ c ∈ l, nb c = true

theorem takeWhile_good : ∀ (l R : Str), (∀ c ∈ l, nb c = true) →
    (l ++ '\n' :: R).takeWhile nb = l ∧ (l ++ '\n' :: R).dropWhile nb = '\n' :: R := by
  intro l
  induction l with
  | nil => intro R _; simp [nb, isBreakz, isBreak]
  | cons c t ih =>
    intro R h
    have hc : nb c = true := h c (by simp)
    obtain ⟨h1, h2⟩ := ih R (fun x hx => h x (by simp [hx]))
    simp [List.takeWhile_cons, List.dropWhile_cons, hc, h1, h2]

theorem nb_not_break {c : Char} (h : nb c = true) : isBreak c = false ∧ isZ c = false := by
  simp [nb, isBreakz] at h; exact ⟨h.1, h.2⟩

/-- **The content lines of a literal block scalar are read verbatim.** On a string input at the start of a
    content line (column = content indentation `ind ≥ 1`), in front of that line and any number of further
    lines — each indented by `ind` spaces and ended by a line feed — followed by text that does not start with
    a space or a break (a less indented line, or the end of the input), the content loop returns the lines joined
    by line feeds (appended to what was accumulated), with one pending line feed and no trailing breaks, and
    stops in column 0 in front of that text. -/
theorem literal_lines (ind : Nat) (hind : ind ≠ 0) (tail : Str) (ht1 : tail.headD '\x00' ≠ ' ')
    (ht2 : isBreak (tail.headD '\x00') = false) :
    ∀ (ls : List Str) (l : Str) (a : BlkAcc) (s : Sc) (fuel : Nat), GoodLine l → (∀ l' ∈ ls, GoodLine l') →
      s.inp.kind = .str → s.mark.col = ind → s.inp.iter = l ++ '\n' :: restLines ind ls tail →
      (∃ p, blockScalarLines true ind fuel a s = .panic p) ∨
      ∃ s' b, blockScalarLines true ind fuel a s =
          .ok (⟨a.str ++ a.leadingBreak ++ a.trailingBreaks ++ joinLines l ls, ['\n'], [], b⟩, s') ∧
        s'.inp.kind = .str ∧ s'.inp.iter = tail ∧ s'.mark.col = 0 := by
  intro ls
  induction ls with
  | nil =>
    intro l a s fuel hl _ hk hcol hi
    cases fuel with
    | zero => left; exact ⟨_, rfl⟩
    | succ f =>
      obtain ⟨c0, l0, rfl⟩ : ∃ c0 l0, l = c0 :: l0 := by
        cases l with
        | nil => exact absurd rfl hl.1
        | cons c t => exact ⟨c, t, rfl⟩
      have hc0 := nb_not_break (hl.2 c0 (by simp))
      rw [bsl_step ind f hind]
      have h1 : (s.mark.col != ind) = false := by simp [hcol]
      simp only [h1, Bool.false_eq_true, ↓reduceIte]
      rw [show In.nextIsZ = In.nextIs isZ true from rfl, nextIs_str_eval _ _ s hk, hi]
      simp only [List.cons_append, hc0.2, Bool.false_eq_true, ↓reduceIte]
      rw [show In.nextIsBlank = In.nextIs isBlank false from rfl, nextIs_str_eval _ _ s hk, hi]
      simp only [List.cons_append, nextIs_str_eval _ _ s hk, hi]
      obtain ⟨htw, hdw⟩ := takeWhile_good (c0 :: l0) (restLines ind [] tail) hl.2
      rcases line_str (a.str ++ a.leadingBreak ++ a.trailingBreaks) s hk with ⟨p, hp⟩ | hline
      · left; rw [hp]; exact ⟨p, rfl⟩
      · rw [hi, htw, hdw] at hline
        rw [hline]
        simp only
        -- after the line: look-ahead, not the end, the break, the indentation of the next line
        have hk4 : (advS s (c0 :: l0).length { s.inp with iter := '\n' :: restLines ind [] tail }).inp.kind = .str := hk
        rw [lookahead_str_eval _ _ hk4]
        simp only
        generalize hs5 : ({ (advS s (c0 :: l0).length { s.inp with iter := '\n' :: restLines ind [] tail }) with
          inp := { (advS s (c0 :: l0).length { s.inp with iter := '\n' :: restLines ind [] tail }).inp with
            la := max (advS s (c0 :: l0).length { s.inp with iter := '\n' :: restLines ind [] tail }).inp.la 2 } } : Sc) = s5
        have hk5 : s5.inp.kind = .str := by rw [← hs5]; exact hk
        have hi5 : s5.inp.iter = '\n' :: restLines ind [] tail := by rw [← hs5]; rfl
        rw [nextIs_str_eval _ _ s5 hk5, hi5]
        simp only [show isZ '\n' = false by decide, Bool.false_eq_true, ↓reduceIte]
        rw [readBreak_lf [] s5 hk5 _ hi5]
        simp only [List.nil_append]
        have hk7 : (nlS s5 (restLines ind [] tail)).inp.kind = .str := hk5
        have hc7 : (nlS s5 (restLines ind [] tail)).mark.col = 0 := rfl
        have hi7 : (nlS s5 (restLines ind [] tail)).inp.iter = List.replicate 0 ' ' ++ tail := rfl
        rw [show (nlS s5 (restLines ind [] tail)).inp.remaining + 2 = ((nlS s5 (restLines ind [] tail)).inp.remaining + 1) + 1 by omega]
        rcases indent_str_eval ind _ 0 (nlS s5 (restLines ind [] tail)) tail hk7 hc7 hi7 (by omega) (Or.inr ht1) ht2 with
          ⟨p, hp⟩ | ⟨la', hind2⟩
        · left; rw [hp]; exact ⟨p, rfl⟩
        · rw [hind2]
          simp only
          -- back in the loop: column 0 is not the content indentation
          cases f with
          | zero => left; exact ⟨_, rfl⟩
          | succ f' =>
            right
            rw [bsl_step ind f' hind]
            have h2 : ((advS (nlS s5 (restLines ind [] tail)) 0 { (nlS s5 (restLines ind [] tail)).inp with iter := tail, la := la' }).mark.col != ind) = true := by
              show ((0 + 0 : Nat) != ind) = true
              simp; omega
            simp only [h2, ↓reduceIte]
            exact ⟨_, _, rfl, hk5, rfl, rfl⟩
  | cons l' ls' ih =>
    intro l a s fuel hl hls hk hcol hi
    cases fuel with
    | zero => left; exact ⟨_, rfl⟩
    | succ f =>
      obtain ⟨c0, l0, rfl⟩ : ∃ c0 l0, l = c0 :: l0 := by
        cases l with
        | nil => exact absurd rfl hl.1
        | cons c t => exact ⟨c, t, rfl⟩
      have hc0 := nb_not_break (hl.2 c0 (by simp))
      have hl' : GoodLine l' := hls l' (by simp)
      obtain ⟨c1, l1, rfl⟩ : ∃ c1 l1, l' = c1 :: l1 := by
        cases l' with
        | nil => exact absurd rfl hl'.1
        | cons c t => exact ⟨c, t, rfl⟩
      have hc1 := nb_not_break (hl'.2 c1 (by simp))
      rw [bsl_step ind f hind]
      have h1 : (s.mark.col != ind) = false := by simp [hcol]
      simp only [h1, Bool.false_eq_true, ↓reduceIte]
      rw [show In.nextIsZ = In.nextIs isZ true from rfl, nextIs_str_eval _ _ s hk, hi]
      simp only [List.cons_append, hc0.2, Bool.false_eq_true, ↓reduceIte]
      rw [show In.nextIsBlank = In.nextIs isBlank false from rfl, nextIs_str_eval _ _ s hk, hi]
      simp only [List.cons_append, nextIs_str_eval _ _ s hk, hi]
      obtain ⟨htw, hdw⟩ := takeWhile_good (c0 :: l0) (restLines ind ((c1 :: l1) :: ls') tail) hl.2
      rcases line_str (a.str ++ a.leadingBreak ++ a.trailingBreaks) s hk with ⟨p, hp⟩ | hline
      · left; rw [hp]; exact ⟨p, rfl⟩
      · rw [hi, htw, hdw] at hline
        rw [hline]
        simp only
        have hk4 : (advS s (c0 :: l0).length { s.inp with iter := '\n' :: restLines ind ((c1 :: l1) :: ls') tail }).inp.kind = .str := hk
        rw [lookahead_str_eval _ _ hk4]
        simp only
        generalize hs5 : ({ (advS s (c0 :: l0).length { s.inp with iter := '\n' :: restLines ind ((c1 :: l1) :: ls') tail }) with
          inp := { (advS s (c0 :: l0).length { s.inp with iter := '\n' :: restLines ind ((c1 :: l1) :: ls') tail }).inp with
            la := max (advS s (c0 :: l0).length { s.inp with iter := '\n' :: restLines ind ((c1 :: l1) :: ls') tail }).inp.la 2 } } : Sc) = s5
        have hk5 : s5.inp.kind = .str := by rw [← hs5]; exact hk
        have hi5 : s5.inp.iter = '\n' :: restLines ind ((c1 :: l1) :: ls') tail := by rw [← hs5]; rfl
        rw [nextIs_str_eval _ _ s5 hk5, hi5]
        simp only [show isZ '\n' = false by decide, Bool.false_eq_true, ↓reduceIte]
        rw [readBreak_lf [] s5 hk5 _ hi5]
        simp only [List.nil_append]
        have hk7 : (nlS s5 (restLines ind ((c1 :: l1) :: ls') tail)).inp.kind = .str := hk5
        have hc7 : (nlS s5 (restLines ind ((c1 :: l1) :: ls') tail)).mark.col = 0 := rfl
        have hi7 : (nlS s5 (restLines ind ((c1 :: l1) :: ls') tail)).inp.iter
            = List.replicate ind ' ' ++ ((c1 :: l1) ++ '\n' :: restLines ind ls' tail) := rfl
        rw [show (nlS s5 (restLines ind ((c1 :: l1) :: ls') tail)).inp.remaining + 2
              = ((nlS s5 (restLines ind ((c1 :: l1) :: ls') tail)).inp.remaining + 1) + 1 by omega]
        rcases indent_str_eval ind _ ind (nlS s5 (restLines ind ((c1 :: l1) :: ls') tail)) _ hk7 hc7 hi7 (Nat.le_refl _)
            (Or.inl rfl) (by simpa using hc1.1) with ⟨p, hp⟩ | ⟨la', hind2⟩
        · left; rw [hp]; exact ⟨p, rfl⟩
        · rw [hind2]
          simp only
          have hk8 : (advS (nlS s5 (restLines ind ((c1 :: l1) :: ls') tail)) ind
              { (nlS s5 (restLines ind ((c1 :: l1) :: ls') tail)).inp with iter := (c1 :: l1) ++ '\n' :: restLines ind ls' tail, la := la' }).inp.kind = .str := hk5
          have hc8 : (advS (nlS s5 (restLines ind ((c1 :: l1) :: ls') tail)) ind
              { (nlS s5 (restLines ind ((c1 :: l1) :: ls') tail)).inp with iter := (c1 :: l1) ++ '\n' :: restLines ind ls' tail, la := la' }).mark.col = ind := by
            show 0 + ind = ind; omega
          rcases ih (c1 :: l1) ⟨a.str ++ a.leadingBreak ++ a.trailingBreaks ++ (c0 :: l0), ['\n'], [], isBlank c0⟩ _ f hl'
              (fun x hx => hls x (by simp [hx])) hk8 hc8 rfl with ⟨p, hp⟩ | ⟨s', b, hok, hks, his, hcs⟩
          · left; exact ⟨p, hp⟩
          · right
            refine ⟨s', b, ?_, hks, his, hcs⟩
            rw [hok]
            simp [joinLines, List.append_assoc]

/-- chomping after the content lines (no trailing blank lines, the loop stopped in column 0): strip drops the
    final break, clip and keep keep exactly one -/
theorem literal_chomping (chomping : Chomping) (ind : Nat) (content : Str) (b : Bool) (s : Sc) (hk : s.inp.kind = .str)
    (hcol : s.mark.col = 0) :
    blockFinish chomping ind ⟨content, ['\n'], [], b⟩ s s =
      .ok ((match chomping with | .strip => content | _ => content ++ ['\n']), s) := by
  have hcol' : decide (s.mark.col ≥ max ind 1) = false := by
    simp [hcol]
  cases chomping <;>
    simp [blockFinish, Bind.bind, Pure.pure, show In.nextIsZ = In.nextIs isZ true from rfl, nextIs_str_eval _ _ s hk, hcol']

end SaphyrModel.C05
