import SaphyrModel.Sc.KS.Base
import SaphyrModel.Sc.Scan3
/-! C06, "a quoted scalar still open at end of input": on a string input `scan_flow_scalar` returns a token only
if the closing quote character occurs in the text after the opening one — for every text, both quote styles,
any number of lines. (`SF m`: started on a string input, `m` leaves a string input whose remaining text is a
suffix of what it started with.) -/
set_option linter.unusedSimpArgs false
namespace SaphyrModel.Sc
open SaphyrModel

structure SI (m : M In α) : Prop where
  out : ∀ i, i.kind = .str → ∀ a i', m i = .ok (a, i') → i'.kind = .str ∧ i'.iter <:+ i.iter

structure SF (m : S α) : Prop where
  out : ∀ s, s.inp.kind = .str → ∀ a s', m s = .ok (a, s') → s'.inp.kind = .str ∧ s'.inp.iter <:+ s.inp.iter

theorem SF.pure (a : α) : SF (Pure.pure a : S α) :=
  ⟨fun s hk b s' h => by cases h; exact ⟨hk, List.suffix_refl _⟩⟩

theorem SF.bind {m : S α} {f : α → S β} (h1 : SF m) (h2 : ∀ a, SF (f a)) : SF (m >>= f) := by
  constructor
  intro s hk b s' h
  simp only [Bind.bind] at h
  cases hm : m s with
  | ok r =>
    obtain ⟨a, s1⟩ := r
    simp only [hm] at h
    obtain ⟨hk1, hs1⟩ := h1.out s hk a s1 hm
    obtain ⟨hk2, hs2⟩ := (h2 a).out s1 hk1 b s' h
    exact ⟨hk2, hs2.trans hs1⟩
  | err e => simp [hm] at h
  | panic p => simp [hm] at h

theorem SF.ite {c : Prop} [Decidable c] {a b : S α} (ha : SF a) (hb : SF b) : SF (if c then a else b) := by
  split <;> assumption
theorem SF.getS : SF (getS : S Sc) := ⟨fun s hk b s' h => by cases h; exact ⟨hk, List.suffix_refl _⟩⟩
theorem SF.getMark : SF getMark := ⟨fun s hk b s' h => by cases h; exact ⟨hk, List.suffix_refl _⟩⟩
theorem SF.err (m : Marker) (msg : String) : SF (err m msg : S α) := ⟨fun s _ b s' h => by cases h⟩
theorem SF.panicAt (p : Site) : SF (panicAt p : S α) := ⟨fun s _ b s' h => by cases h⟩
theorem SF.modS (f : Sc → Sc) (h : ∀ s, (f s).inp = s.inp) : SF (modS f) :=
  ⟨fun s hk b s' hh => by
    cases hh
    show (f s).inp.kind = .str ∧ (f s).inp.iter <:+ s.inp.iter
    rw [h s]; exact ⟨hk, List.suffix_refl _⟩⟩

theorem SF.liftI {m : M In α} (h : SI m) : SF (liftI m) := by
  constructor
  intro s hk b s' hh
  simp only [Sc.liftI] at hh
  cases hm : m s.inp with
  | ok r =>
    obtain ⟨a, i'⟩ := r
    simp only [hm, Res.ok.injEq, Prod.mk.injEq] at hh
    obtain ⟨_, rfl⟩ := hh
    exact h.out s.inp hk a i' hm
  | err e => simp [hm] at hh
  | panic p => simp [hm] at hh

theorem SI.bind {m : M In α} {f : α → M In β} (h1 : SI m) (h2 : ∀ a, SI (f a)) : SI (m >>= f) := by
  constructor
  intro i hk b i' h
  simp only [Bind.bind] at h
  cases hm : m i with
  | ok r =>
    obtain ⟨a, i1⟩ := r
    simp only [hm] at h
    obtain ⟨hk1, hs1⟩ := h1.out i hk a i1 hm
    obtain ⟨hk2, hs2⟩ := (h2 a).out i1 hk1 b i' h
    exact ⟨hk2, hs2.trans hs1⟩
  | err e => simp [hm] at h
  | panic p => simp [hm] at h

theorem SI.pure (a : α) : SI (Pure.pure a : M In α) :=
  ⟨fun i hk b i' h => by cases h; exact ⟨hk, List.suffix_refl _⟩⟩

macro "si_prim" f:ident : tactic =>
  `(tactic| (constructor
             intro i hk a i' h
             unfold $f at h
             simp only [hk] at h
             (repeat' split at h) <;>
               (first
                 | (simp at h; done)
                 | (cases h; first
                     | exact ⟨hk, List.suffix_refl _⟩
                     | exact ⟨rfl, List.suffix_refl _⟩
                     | exact ⟨rfl, List.tail_suffix _⟩
                     | exact ⟨rfl, List.drop_suffix _ _⟩))))

theorem SI.lookahead (n) : SI (In.lookahead n) := by si_prim In.lookahead
theorem SI.skip : SI In.skip := by si_prim In.skip
theorem SI.skipN (n) : SI (In.skipN n) := by si_prim In.skipN
theorem SI.peek : SI In.peek := by si_prim In.peek
theorem SI.peekNth (n) : SI (In.peekNth n) := by si_prim In.peekNth
theorem SI.lookCh : SI In.lookCh := SI.bind (SI.lookahead 1) (fun _ => SI.peek)
theorem SI.next2Are (a b) : SI (In.next2Are a b) := by si_prim In.next2Are
theorem SI.docInd : SI In.nextIsDocumentIndicator := by si_prim In.nextIsDocumentIndicator
theorem SI.nextIs (q : Char → Bool) (e : Bool) : SI (In.nextIs q e) := by si_prim In.nextIs

syntax "sf_close" : tactic
macro_rules | `(tactic| sf_close) => `(tactic| first
    | exact SF.pure _ | exact SF.getS | exact SF.getMark | exact SF.err _ _ | exact SF.panicAt _
    | assumption | apply_assumption)
macro_rules | `(tactic| sf_close) => `(tactic| (apply SF.liftI; first
        | exact SI.lookahead _ | exact SI.skip | exact SI.skipN _ | exact SI.peek
        | exact SI.peekNth _ | exact SI.lookCh | exact SI.next2Are _ _
        | exact SI.nextIs _ _ | exact SI.docInd))
macro_rules | `(tactic| sf_close) => `(tactic| (apply SF.modS; intro s; first | rfl | (split <;> rfl)))

macro "sf" : tactic => `(tactic|
  repeat' (first
    | sf_close
    | apply SF.bind
    | apply SF.ite
    | intro _
    | split))

theorem SF.lookahead (n) : SF (lookahead n) := by unfold Sc.lookahead; sf
theorem SF.peek : SF peek := by unfold Sc.peek; sf
theorem SF.peekNth (n) : SF (peekNth n) := by unfold Sc.peekNth; sf
theorem SF.lookCh : SF lookCh := by unfold Sc.lookCh; sf
theorem SF.advance (n) : SF (advance n) := by unfold Sc.advance; sf
macro_rules | `(tactic| sf_close) => `(tactic| first
    | exact SF.lookahead _ | exact SF.peek | exact SF.peekNth _ | exact SF.lookCh | exact SF.advance _)
theorem SF.skipBlank : SF skipBlank := by unfold Sc.skipBlank; sf
theorem SF.skipNonBlank : SF skipNonBlank := by unfold Sc.skipNonBlank; sf
theorem SF.skipNNonBlank (n) : SF (skipNNonBlank n) := by unfold Sc.skipNNonBlank; sf
theorem SF.skipNl : SF skipNl := by unfold Sc.skipNl; sf
macro_rules | `(tactic| sf_close) => `(tactic| first
    | exact SF.skipBlank | exact SF.skipNonBlank | exact SF.skipNNonBlank _ | exact SF.skipNl)
theorem SF.skipLinebreak : SF skipLinebreak := by unfold Sc.skipLinebreak In.nextIsBreak; sf
theorem SF.skipBreak : SF skipBreak := by unfold Sc.skipBreak; sf
macro_rules | `(tactic| sf_close) => `(tactic| first | exact SF.skipLinebreak | exact SF.skipBreak)
theorem SF.readBreak (acc : Str) : SF (readBreak acc) := by unfold Sc.readBreak; sf
macro_rules | `(tactic| sf_close) => `(tactic| exact SF.readBreak _)

theorem SF.hexLoop (sm : Marker) (n : Nat) : ∀ k v, SF (hexLoop sm n k v) := by
  intro k
  induction k with
  | zero => intro v; unfold Sc.hexLoop; sf
  | succ k ih => intro v; unfold Sc.hexLoop; sf
macro_rules | `(tactic| sf_close) => `(tactic| exact SF.hexLoop _ _ _ _)
theorem SF.resolveEscape (sm : Marker) : SF (resolveEscape sm) := by unfold Sc.resolveEscape; sf
macro_rules | `(tactic| sf_close) => `(tactic| exact SF.resolveEscape _)

theorem SF.consumeNonWs (single : Bool) (sm : Marker) : ∀ fuel str lb, SF (consumeNonWs single sm fuel str lb) := by
  intro fuel
  induction fuel with
  | zero => intro str lb; unfold Sc.consumeNonWs; sf
  | succ n ih => intro str lb; unfold Sc.consumeNonWs; sf
macro_rules | `(tactic| sf_close) => `(tactic| exact SF.consumeNonWs _ _ _ _ _)

theorem SF.consumeBlanks : ∀ fuel a lb, SF (consumeBlanks fuel a lb) := by
  intro fuel
  induction fuel with
  | zero => intro a lb; unfold Sc.consumeBlanks; sf
  | succ n ih => intro a lb; unfold Sc.consumeBlanks In.nextIsBlank In.nextIsBreak; sf
macro_rules | `(tactic| sf_close) => `(tactic| exact SF.consumeBlanks _ _ _)

/-- the closing quote of each style -/
def quoteOf (single : Bool) : Char := if single then '\'' else '"'

/-- `PQ q m`: whenever `m`, started on a string input, returns normally, it has stopped in front of the
    character `q`, somewhere in the text it started with -/
structure PQ (q : Char) (m : S α) : Prop where
  out : ∀ s, s.inp.kind = .str → ∀ a s', m s = .ok (a, s') →
    s'.inp.kind = .str ∧ s'.inp.iter <:+ s.inp.iter ∧ s'.inp.iter.headD '\x00' = q

theorem PQ.bindSF {q : Char} {m : S α} {f : α → S β} (h1 : SF m) (h2 : ∀ a, PQ q (f a)) : PQ q (m >>= f) := by
  constructor
  intro s hk b s' h
  simp only [Bind.bind] at h
  cases hm : m s with
  | ok r =>
    obtain ⟨a, s1⟩ := r
    simp only [hm] at h
    obtain ⟨hk1, hs1⟩ := h1.out s hk a s1 hm
    obtain ⟨hk2, hs2, hq⟩ := (h2 a).out s1 hk1 b s' h
    exact ⟨hk2, hs2.trans hs1, hq⟩
  | err e => simp [hm] at h
  | panic p => simp [hm] at h

theorem PQ.ite {q : Char} {c : Prop} [Decidable c] {a b : S α} (ha : PQ q a) (hb : PQ q b) : PQ q (if c then a else b) := by
  split <;> assumption
theorem PQ.err {q : Char} (m : Marker) (msg : String) : PQ q (err m msg : S α) := ⟨fun s _ b s' h => by cases h⟩
theorem PQ.panicAt {q : Char} (p : Site) : PQ q (panicAt p : S α) := ⟨fun s _ b s' h => by cases h⟩

/-- the only normal exit of the loop: the character just looked at is the closing quote -/
theorem PQ.exit (single : Bool) (str : Str) {X : Char → S Str} (hX : ∀ c, PQ (quoteOf single) (X c)) :
    PQ (quoteOf single) (lookCh >>= fun c =>
      if ((c == '\'' && single) || (c == '"' && !single)) = true then (Pure.pure str : S Str) else X c) := by
  constructor
  intro s hk b s' h
  have hl : lookCh s = .ok (s.inp.iter.headD '\x00', { s with inp := { s.inp with la := max s.inp.la 1 } }) := by
    simp [Sc.lookCh, Sc.liftI, In.lookCh, In.lookahead, In.peek, hk, Bind.bind]
  rw [bind_ok hl] at h
  by_cases hc : ((s.inp.iter.headD '\x00' == '\'' && single) || (s.inp.iter.headD '\x00' == '"' && !single)) = true
  · rw [if_pos hc] at h
    cases h
    refine ⟨hk, List.suffix_refl _, ?_⟩
    show s.inp.iter.headD '\x00' = quoteOf single
    cases single <;> simp_all [quoteOf]
  · rw [if_neg hc] at h
    obtain ⟨h1, h2, h3⟩ := (hX _).out { s with inp := { s.inp with la := max s.inp.la 1 } } hk b s' h
    exact ⟨h1, h2, h3⟩

theorem flowScalarLoop_exit (single : Bool) (sm : Marker) : ∀ fuel str a, PQ (quoteOf single) (flowScalarLoop single sm fuel str a) := by
  intro fuel
  induction fuel with
  | zero => intro str a; unfold Sc.flowScalarLoop; exact PQ.panicAt _
  | succ n ih =>
    intro str a
    unfold Sc.flowScalarLoop
    unfold In.nextIsZ
    repeat' (first
      | exact PQ.err _ _
      | exact ih _ _
      | sf_close
      | apply PQ.exit
      | apply PQ.bindSF
      | apply PQ.ite
      | apply SF.bind
      | apply SF.ite
      | intro _
      | split)

/-- the state after the opening quote has been skipped -/
def afterQuote (u : Sc) : Sc :=
  { u with
    inp := { u.inp with iter := u.inp.iter.tail }
    mark := ⟨u.mark.index + 1, u.mark.line, u.mark.col + 1⟩
    leadingWhitespace := false }

/-- **A quoted scalar that is never closed yields no token.** On a string input, whenever `scan_flow_scalar`
    returns a token, the closing quote character of its style occurs in the text after the opening quote. -/
theorem scanFlowScalar_ok_has_quote (single : Bool) (u : Sc) (hk : u.inp.kind = .str) (tok : Token) (u' : Sc)
    (h : scanFlowScalar single u = .ok (tok, u')) : quoteOf single ∈ u.inp.iter.tail := by
  unfold scanFlowScalar at h
  simp only [Bind.bind, getMark] at h
  -- the opening quote is skipped
  have hsk : skipNonBlank u = .ok ((), afterQuote u) := by
    simp [skipNonBlank, Sc.liftI, In.skip, hk, Bind.bind, advance, modS, afterQuote]
  rw [hsk] at h
  simp only [getS] at h
  generalize hu1 : afterQuote u = u1 at h
  have hk1 : u1.inp.kind = .str := by rw [← hu1]; exact hk
  have hi1 : u1.inp.iter = u.inp.iter.tail := by rw [← hu1]; rfl
  cases hl : flowScalarLoop single u.mark (u1.inp.remaining + 2) [] ⟨[], [], []⟩ u1 with
  | ok r =>
    obtain ⟨str, u2⟩ := r
    obtain ⟨_, hsuf, hq⟩ := (flowScalarLoop_exit single u.mark _ [] ⟨[], [], []⟩).out u1 hk1 str u2 hl
    rw [hi1] at hsuf
    cases hit : u2.inp.iter with
    | nil =>
      rw [hit] at hq
      cases single <;> simp [quoteOf] at hq
    | cons c t =>
      rw [hit] at hq hsuf
      simp only [List.headD_cons] at hq
      subst hq
      exact hsuf.subset (by simp)
  | err e => rw [hl] at h; simp at h
  | panic p => rw [hl] at h; simp at h

-- escapes ----------------------------------------------------------------------------------------------------------

/-- **A hexadecimal escape with a character that is not a hexadecimal digit among its digits is rejected**
    (string input; `n` digits expected, `k` still to read, the offending character at position `n - k + j`) -/
theorem hexLoop_rejects (sm : Marker) (n : Nat) : ∀ (k v : Nat) (s : Sc), s.inp.kind = .str → k ≤ n →
    (∃ j, j < k ∧ isHex (s.inp.iter.getD (n - k + j) '\x00') = false) →
    ∃ e, hexLoop sm n k v s = .err e := by
  intro k
  induction k with
  | zero => intro v s _ _ ⟨j, hj, _⟩; omega
  | succ k ih =>
    intro v s hk hkn ⟨j, hj, hbad⟩
    unfold Sc.hexLoop
    have hp : peekNth (n - (k + 1)) s = .ok (s.inp.iter.getD (n - (k + 1)) '\x00', s) := by
      simp [Sc.peekNth, Sc.liftI, In.peekNth, hk]
    rw [bind_ok hp]
    cases j with
    | zero =>
      simp only [Nat.add_zero] at hbad
      simp only [hbad, Bool.not_false, ↓reduceIte]
      exact ⟨_, rfl⟩
    | succ j =>
      by_cases hh : isHex (s.inp.iter.getD (n - (k + 1)) '\x00') = true
      · simp only [hh, Bool.not_true, Bool.false_eq_true, ↓reduceIte]
        apply ih _ s hk (by omega)
        refine ⟨j, by omega, ?_⟩
        rw [show n - k + j = n - (k + 1) + (j + 1) by omega]
        exact hbad
      · have : isHex (s.inp.iter.getD (n - (k + 1)) '\x00') = false := by simpa using hh
        simp only [this, Bool.not_false, ↓reduceIte]
        exact ⟨_, rfl⟩

/-- **An unknown escape character is rejected**: a backslash followed by a character that is neither one of the
    18 named escapes nor `x`, `u`, `U` (string input) -/
theorem resolveEscape_unknown (sm : Marker) (s : Sc) (hk : s.inp.kind = .str) (e : Char)
    (he : s.inp.iter.getD 1 '\x00' = e) (hn : namedEscape e = none) (hx : e ≠ 'x') (hu : e ≠ 'u') (hU : e ≠ 'U') :
    ∃ err, resolveEscape sm s = .err err := by
  unfold Sc.resolveEscape
  have hp : peekNth 1 s = .ok (e, s) := by
    rw [← he]; simp [Sc.peekNth, Sc.liftI, In.peekNth, hk]
  rw [bind_ok hp]
  simp only [hn]
  have h1 : (e == 'x') = false := by simpa using hx
  have h2 : (e == 'u') = false := by simpa using hu
  have h3 : (e == 'U') = false := by simpa using hU
  simp only [h1, h2, h3, Bool.false_eq_true, ↓reduceIte, beq_self_eq_true]
  exact ⟨_, rfl⟩

end SaphyrModel.Sc
