import SaphyrModel.Resolve
import SaphyrModel.Spec.CoreSchema
/-! Integer parsing: the model of `i64::from_str_radix` against the core-schema recognisers
(used by Props/C08). -/
namespace SaphyrModel.IntParse
open ProtoR SaphyrModel.Spec

theorem char_le_iff (a b : Char) : a ≤ b ↔ a.toNat ≤ b.toNat := by
  rw [Char.le_def, UInt32.le_iff_toNat_le]; rfl

/-- the three digit classes as ranges of code points -/
theorem isDec_iff (c : Char) : isDec c = true ↔ 48 ≤ c.toNat ∧ c.toNat ≤ 57 := by
  simp only [isDec, Bool.and_eq_true, decide_eq_true_eq, char_le_iff]
  have h0 : ('0' : Char).toNat = 48 := by decide
  have h9 : ('9' : Char).toNat = 57 := by decide
  rw [h0, h9]
theorem isOct_iff (c : Char) : isOct c = true ↔ 48 ≤ c.toNat ∧ c.toNat ≤ 55 := by
  simp only [isOct, Bool.and_eq_true, decide_eq_true_eq, char_le_iff]
  have h0 : ('0' : Char).toNat = 48 := by decide
  have h7 : ('7' : Char).toNat = 55 := by decide
  rw [h0, h7]
theorem isHexD_iff (c : Char) : isHexD c = true ↔
    (48 ≤ c.toNat ∧ c.toNat ≤ 57) ∨ (97 ≤ c.toNat ∧ c.toNat ≤ 102) ∨ (65 ≤ c.toNat ∧ c.toNat ≤ 70) := by
  simp only [isHexD, Bool.or_eq_true, Bool.and_eq_true, decide_eq_true_eq, isDec_iff, char_le_iff]
  have ha : ('a' : Char).toNat = 97 := by decide
  have hf : ('f' : Char).toNat = 102 := by decide
  have hA : ('A' : Char).toNat = 65 := by decide
  have hF : ('F' : Char).toNat = 70 := by decide
  rw [ha, hf, hA, hF]; exact or_assoc

/-- value of a digit character as the resolver computes it, in terms of the code point -/
theorem digitVal_spec (c : Char) (radix : Nat) (hr : radix ≤ 16) :
    digitVal c radix =
      if 48 ≤ c.toNat ∧ c.toNat ≤ 57 then (if c.toNat - 48 < radix then some (c.toNat - 48) else none)
      else if 97 ≤ c.toNat ∧ c.toNat ≤ 122 then (if c.toNat - 97 + 10 < radix then some (c.toNat - 97 + 10) else none)
      else if 65 ≤ c.toNat ∧ c.toNat ≤ 90 then (if c.toNat - 65 + 10 < radix then some (c.toNat - 65 + 10) else none)
      else none := by
  unfold digitVal
  simp only [char_le_iff]
  have h0 : ('0' : Char).toNat = 48 := by decide
  have h9 : ('9' : Char).toNat = 57 := by decide
  have ha : ('a' : Char).toNat = 97 := by decide
  have hz : ('z' : Char).toNat = 122 := by decide
  have hA : ('A' : Char).toNat = 65 := by decide
  have hZ : ('Z' : Char).toNat = 90 := by decide
  rw [h0, h9, ha, hz, hA, hZ]
  split
  · simp [Option.bind]
  · split
    · simp [Option.bind]
    · split <;> simp [Option.bind]

theorem hexDigVal_spec (c : Char) :
    hexDigVal c = if 48 ≤ c.toNat ∧ c.toNat ≤ 57 then c.toNat - 48
      else if 97 ≤ c.toNat ∧ c.toNat ≤ 102 then c.toNat - 97 + 10 else c.toNat - 65 + 10 := by
  unfold hexDigVal
  have hd := isDec_iff c
  have h0 : ('0' : Char).toNat = 48 := by decide
  have ha : ('a' : Char).toNat = 97 := by decide
  have hf : ('f' : Char).toNat = 102 := by decide
  have hA : ('A' : Char).toNat = 65 := by decide
  by_cases h1 : 48 ≤ c.toNat ∧ c.toNat ≤ 57
  · rw [if_pos (hd.2 h1), if_pos h1, h0]
  · have : ¬ isDec c = true := fun h => h1 (hd.1 h)
    rw [if_neg this, if_neg h1]
    simp only [Bool.and_eq_true, decide_eq_true_eq, char_le_iff, ha, hf, hA]

/-- a digit of radix 10 / 8 / 16 is exactly a character of the schema's digit class, with the schema's value -/
theorem digitVal10 (c : Char) : digitVal c 10 = if isDec c then some (hexDigVal c) else none := by
  rw [digitVal_spec c 10 (by omega), hexDigVal_spec]
  by_cases h : isDec c = true
  · have := (isDec_iff c).1 h
    simp only [h, ↓reduceIte, this, and_self]
    rw [if_pos (by omega)]
  · have hn : ¬ (48 ≤ c.toNat ∧ c.toNat ≤ 57) := fun hh => h ((isDec_iff c).2 hh)
    simp only [h, Bool.false_eq_true, ↓reduceIte, hn]
    split
    · rw [if_neg (by omega)]
    · split
      · rw [if_neg (by omega)]
      · rfl
theorem digitVal8 (c : Char) : digitVal c 8 = if isOct c then some (hexDigVal c) else none := by
  rw [digitVal_spec c 8 (by omega), hexDigVal_spec]
  by_cases h : isOct c = true
  · have := (isOct_iff c).1 h
    have h2 : 48 ≤ c.toNat ∧ c.toNat ≤ 57 := ⟨this.1, by omega⟩
    simp only [h, ↓reduceIte, h2, and_self]
    rw [if_pos (by omega)]
  · have hn : ¬ (48 ≤ c.toNat ∧ c.toNat ≤ 55) := fun hh => h ((isOct_iff c).2 hh)
    simp only [h, Bool.false_eq_true, ↓reduceIte]
    split
    · rw [if_neg (by omega)]
    · split
      · rw [if_neg (by omega)]
      · split
        · rw [if_neg (by omega)]
        · rfl
theorem digitVal16 (c : Char) : digitVal c 16 = if isHexD c then some (hexDigVal c) else none := by
  rw [digitVal_spec c 16 (by omega), hexDigVal_spec]
  by_cases h : isHexD c = true
  · have := (isHexD_iff c).1 h
    simp only [h, ↓reduceIte]
    rcases this with h1 | h1 | h1
    · rw [if_pos h1, if_pos (by omega), if_pos h1]
    · rw [if_neg (by omega), if_pos (by omega), if_pos (by omega), if_neg (by omega), if_pos h1]
    · rw [if_neg (by omega), if_neg (by omega), if_pos (by omega), if_pos (by omega), if_neg (by omega), if_neg (by omega)]
  · have hn := fun hh => h ((isHexD_iff c).2 hh)
    simp only [h, Bool.false_eq_true, ↓reduceIte]
    split
    · exact absurd (Or.inl ‹_›) hn
    · split
      · rw [if_neg]; intro hlt; exact hn (Or.inr (Or.inl ⟨by omega, by omega⟩))
      · split
        · rw [if_neg]; intro hlt; exact hn (Or.inr (Or.inr ⟨by omega, by omega⟩))
        · rfl

/-- the digit fold of `from_str_radix`, for a radix whose digits are the class `ok` with values `hexDigVal` -/
theorem fold_digits (radix : Nat) (ok : Char → Bool)
    (hd : ∀ c, digitVal c radix = if ok c then some (hexDigVal c) else none) (ds : Str) (acc : Nat) :
    ds.foldl (fun a c => a.bind fun v => (digitVal c radix).map fun d => v * radix + d) (some acc) =
      if ds.all ok then some (ds.foldl (fun v c => v * radix + hexDigVal c) acc) else none := by
  induction ds generalizing acc with
  | nil => simp
  | cons c r ih =>
    simp only [List.foldl_cons, List.all_cons, Option.bind, hd c]
    by_cases hc : ok c = true
    · simp only [hc, ↓reduceIte, Option.map_some, Bool.true_and]
      exact ih _
    · simp only [hc, Bool.false_eq_true, ↓reduceIte, Option.map_none, Bool.false_and]
      clear ih
      induction r with
      | nil => rfl
      | cons d r ih2 => simpa [List.foldl_cons, Option.bind] using ih2

theorem digitsVal_spec (radix : Nat) (ok : Char → Bool)
    (hd : ∀ c, digitVal c radix = if ok c then some (hexDigVal c) else none) (ds : Str) :
    digitsVal radix ds = if !ds.isEmpty && ds.all ok then some (valBase radix ds) else none := by
  cases ds with
  | nil => simp [digitsVal]
  | cons c r =>
    simp only [digitsVal, List.isEmpty_cons, Bool.not_false, Bool.true_and]
    exact fold_digits radix ok hd (c :: r) 0

theorem digitsVal10 (ds : Str) : digitsVal 10 ds = if !ds.isEmpty && ds.all isDec then some (valBase 10 ds) else none :=
  digitsVal_spec 10 isDec digitVal10 ds
theorem digitsVal8 (ds : Str) : digitsVal 8 ds = if !ds.isEmpty && ds.all isOct then some (valBase 8 ds) else none :=
  digitsVal_spec 8 isOct digitVal8 ds
theorem digitsVal16 (ds : Str) : digitsVal 16 ds = if !ds.isEmpty && ds.all isHexD then some (valBase 16 ds) else none :=
  digitsVal_spec 16 isHexD digitVal16 ds

/-- digits only: what `from_str_radix` does with a text that carries no sign -/
theorem fromStrRadix_unsigned (radix : Nat) (ds : Str) (h : unsignedDigits ds = true) :
    fromStrRadix ds radix = (digitsVal radix ds).bind fun v => if v ≤ 9223372036854775807 then some (v : Int) else none := by
  unfold unsignedDigits at h
  cases ds with
  | nil => simp [fromStrRadix, digitsVal]
  | cons c r =>
    have hp : c ≠ '+' := by intro hc; subst hc; simp at h
    have hm : c ≠ '-' := by intro hc; subst hc; simp at h
    unfold fromStrRadix
    split
    · rename_i heq; cases heq
    · rename_i heq; simp only [List.cons.injEq] at heq; exact absurd heq.1 hp
    · rename_i heq; simp only [List.cons.injEq] at heq; exact absurd heq.1 hm
    · rename_i heq; simp only [List.cons.injEq] at heq; exact absurd heq.1 hp
    · rename_i heq; simp only [List.cons.injEq] at heq; exact absurd heq.1 hm
    · rfl

theorem stripPrefix_some {p s n : Str} (h : stripPrefix p s = some n) : s = p ++ n := by
  unfold stripPrefix at h
  split at h
  · rename_i hp
    simp only [Option.some.injEq] at h; subst h
    exact (List.prefix_iff_eq_append.mp (List.isPrefixOf_iff_prefix.mp hp)).symm
  · simp at h
theorem stripPrefix_none {p s : Str} (h : stripPrefix p s = none) : ¬ p <+: s := by
  unfold stripPrefix at h
  split at h
  · simp at h
  · rename_i hp; intro hh; exact hp (List.isPrefixOf_iff_prefix.mpr hh)

theorem fromStrRadix10_second_bad (b : Char) (n : Str) (hb : isDec b = false) :
    fromStrRadix ('0' :: b :: n) 10 = none := by
  rw [fromStrRadix_unsigned 10 _ (by simp [unsignedDigits]), digitsVal10]
  simp [hb]

/-- the four ways in which the resolver reads an integer -/
theorem int_shape (v : Str) (i : Int) (h : parseFromCow v = .int i) :
    (∃ n, v = '0' :: 'x' :: n ∧ unsignedDigits n = true ∧ fromStrRadix n 16 = some i) ∨
    (∃ n, v = '0' :: 'o' :: n ∧ unsignedDigits n = true ∧ fromStrRadix n 8 = some i) ∨
    (∃ n, v = '+' :: n ∧ unsignedDigits n = true ∧ fromStrRadix n 10 = some i) ∨
    (¬ ['0', 'x'] <+: v ∧ ¬ ['0', 'o'] <+: v ∧ fromStrRadix v 10 = some i) := by
  unfold parseFromCow at h
  simp only at h
  cases hx : stripPrefix ['0', 'x'] v with
  | some n =>
    have hv := stripPrefix_some hx
    simp only [hx] at h
    by_cases hu : unsignedDigits n = true
    · simp only [hu, ↓reduceIte] at h
      cases hf : fromStrRadix n 16 with
      | some j =>
        simp only [hf, Option.map_some] at h
        exact Or.inl ⟨n, hv, hu, by rw [hf]; simpa using h⟩
      | none =>
        -- no early result: the generic part sees the 'x'
        simp only [hf, Option.map_none] at h
        exfalso
        have hv10 : fromStrRadix v 10 = none := by
          rw [hv]; exact fromStrRadix10_second_bad 'x' n (by decide)
        repeat' (first | (simp_all; done) | split at h)
    · simp only [hu, Bool.false_eq_true, ↓reduceIte] at h
      exfalso
      have hv10 : fromStrRadix v 10 = none := by
        rw [hv]; exact fromStrRadix10_second_bad 'x' n (by decide)
      repeat' (first | (simp_all; done) | split at h)
  | none =>
    have hnx := stripPrefix_none hx
    simp only [hx] at h
    cases ho : stripPrefix ['0', 'o'] v with
    | some n =>
      have hv := stripPrefix_some ho
      simp only [ho] at h
      have hv10 : fromStrRadix v 10 = none := by
        rw [hv]; exact fromStrRadix10_second_bad 'o' n (by decide)
      by_cases hu : unsignedDigits n = true
      · simp only [hu, ↓reduceIte] at h
        cases hf : fromStrRadix n 8 with
        | some j =>
          simp only [hf, Option.map_some] at h
          exact Or.inr (Or.inl ⟨n, hv, hu, by rw [hf]; simpa using h⟩)
        | none =>
          simp only [hf, Option.map_none] at h
          exfalso
          repeat' (first | (simp_all; done) | split at h)
      · simp only [hu, Bool.false_eq_true, ↓reduceIte] at h
        exfalso
        repeat' (first | (simp_all; done) | split at h)
    | none =>
      have hno := stripPrefix_none ho
      simp only [ho] at h
      cases hp : stripPrefix ['+'] v with
      | some n =>
        have hv := stripPrefix_some hp
        simp only [hp] at h
        by_cases hu : unsignedDigits n = true
        · simp only [hu, ↓reduceIte] at h
          cases hf : fromStrRadix n 10 with
          | some j =>
            simp only [hf, Option.map_some] at h
            exact Or.inr (Or.inr (Or.inl ⟨n, hv, hu, by rw [hf]; simpa using h⟩))
          | none =>
            simp only [hf, Option.map_none] at h
            refine Or.inr (Or.inr (Or.inr ⟨hnx, hno, ?_⟩))
            repeat' (first | (simp_all; done) | split at h)
        · simp only [hu, Bool.false_eq_true, ↓reduceIte] at h
          refine Or.inr (Or.inr (Or.inr ⟨hnx, hno, ?_⟩))
          repeat' (first | (simp_all; done) | split at h)
      | none =>
        simp only [hp] at h
        refine Or.inr (Or.inr (Or.inr ⟨hnx, hno, ?_⟩))
        repeat' (first | (simp_all; done) | split at h)

theorem bind_le_some {o : Option Nat} {m : Nat} {i : Int}
    (h : (o.bind fun v => if v ≤ m then some (v : Int) else none) = some i) : ∃ v, o = some v ∧ v ≤ m ∧ i = v := by
  cases o with
  | none => simp at h
  | some v =>
    simp only [Option.bind] at h
    split at h
    · exact ⟨v, rfl, ‹_›, by simpa using h.symm⟩
    · simp at h

theorem bind_neg_some {o : Option Nat} {m : Nat} {i : Int}
    (h : (o.bind fun v => if v ≤ m then some (-(v : Int)) else none) = some i) : ∃ v, o = some v ∧ v ≤ m ∧ i = -(v : Int) := by
  cases o with
  | none => simp at h
  | some v =>
    simp only [Option.bind] at h
    split at h
    · exact ⟨v, rfl, ‹_›, by simpa using h.symm⟩
    · simp at h

theorem digits_some {radix : Nat} {ok : Char → Bool} {ds : Str} {v : Nat}
    (h : (if !ds.isEmpty && ds.all ok then some (valBase radix ds) else none) = some v) :
    (!ds.isEmpty && ds.all ok) = true ∧ v = valBase radix ds := by
  split at h
  · exact ⟨‹_›, by simpa using h.symm⟩
  · simp at h

/-- **Integer soundness.** Whenever the resolver reads an untagged plain scalar as an integer, the text
    is an integer literal of the YAML 1.2 core schema (`[-+]?[0-9]+`, `0o[0-7]+`, `0x[0-9a-fA-F]+`) and
    the value is the one the literal denotes. -/
theorem int_sound (v : Str) (i : Int) (h : parseFromCow v = .int i) : coreInt v = some i := by
  rcases int_shape v i h with ⟨n, rfl, hu, hf⟩ | ⟨n, rfl, hu, hf⟩ | ⟨n, rfl, hu, hf⟩ | ⟨hnx, hno, hf⟩
  · rw [fromStrRadix_unsigned 16 n hu, digitsVal16] at hf
    obtain ⟨w, hw, _, rfl⟩ := bind_le_some hf
    obtain ⟨hok, rfl⟩ := digits_some hw
    unfold coreInt; simp only [hok, ↓reduceIte]
  · rw [fromStrRadix_unsigned 8 n hu, digitsVal8] at hf
    obtain ⟨w, hw, _, rfl⟩ := bind_le_some hf
    obtain ⟨hok, rfl⟩ := digits_some hw
    unfold coreInt; simp only [hok, ↓reduceIte]
  · rw [fromStrRadix_unsigned 10 n hu, digitsVal10] at hf
    obtain ⟨w, hw, _, rfl⟩ := bind_le_some hf
    obtain ⟨hok, rfl⟩ := digits_some hw
    unfold coreInt; simp only [hok, ↓reduceIte]
  · -- plain decimal, possibly signed
    cases v with
    | nil => simp [fromStrRadix] at hf
    | cons c r =>
      by_cases hp : c = '+'
      · subst hp
        cases r with
        | nil => simp [fromStrRadix] at hf
        | cons d r' =>
          simp only [fromStrRadix] at hf
          rw [digitsVal10] at hf
          obtain ⟨w, hw, _, rfl⟩ := bind_le_some hf
          obtain ⟨hok, rfl⟩ := digits_some hw
          unfold coreInt; simp only [hok, ↓reduceIte]
      · by_cases hm : c = '-'
        · subst hm
          cases r with
          | nil => simp [fromStrRadix] at hf
          | cons d r' =>
            simp only [fromStrRadix] at hf
            rw [digitsVal10] at hf
            obtain ⟨w, hw, _, rfl⟩ := bind_neg_some hf
            obtain ⟨hok, rfl⟩ := digits_some hw
            unfold coreInt; simp only [hok, ↓reduceIte]
        · have hu : unsignedDigits (c :: r) = true := by simp [unsignedDigits, hp, hm]
          rw [fromStrRadix_unsigned 10 _ hu, digitsVal10] at hf
          obtain ⟨w, hw, _, rfl⟩ := bind_le_some hf
          obtain ⟨hok, rfl⟩ := digits_some hw
          -- the schema's first two patterns (0o…, 0x…) do not apply
          have h1 : ∀ ds, c :: r ≠ '0' :: 'o' :: ds := by
            intro ds he; apply hno; rw [he]; exact ⟨ds, rfl⟩
          have h2 : ∀ ds, c :: r ≠ '0' :: 'x' :: ds := by
            intro ds he; apply hnx; rw [he]; exact ⟨ds, rfl⟩
          unfold coreInt
          split
          · rename_i ds heq; exact absurd heq (h1 ds)
          · rename_i ds heq; exact absurd heq (h2 ds)
          · rename_i ds heq; simp only [List.cons.injEq] at heq; exact absurd heq.1 hm
          · rename_i ds heq; simp only [List.cons.injEq] at heq; exact absurd heq.1 hp
          · simp only [hok, ↓reduceIte]

theorem ofList_eq_iff (v : Str) (s : String) : String.ofList v = s ↔ v = s.toList := by
  constructor
  · intro h; rw [← h]; simp
  · intro h; rw [h]; simp

/-- a text that starts with a decimal digit or a sign is none of the schema's words -/
theorem not_word (c : Char) (r : Str) (hc : isDec c = true ∨ c = '-' ∨ c = '+') :
    ¬ (String.ofList (c :: r) = "~" ∨ String.ofList (c :: r) = "null" ∨ String.ofList (c :: r) = "NULL") ∧
    String.ofList (c :: r) ≠ "true" ∧ String.ofList (c :: r) ≠ "false" := by
  have key : ∀ (s : String) (a : Char) (t : Str), s.toList = a :: t →
      (isDec a = false ∧ a ≠ '-' ∧ a ≠ '+') → String.ofList (c :: r) ≠ s := by
    intro s a t hs ha he
    rw [ofList_eq_iff, hs] at he
    simp only [List.cons.injEq] at he
    obtain ⟨rfl, _⟩ := he
    rcases hc with h | h | h
    · rw [ha.1] at h; cases h
    · exact ha.2.1 h
    · exact ha.2.2 h
  refine ⟨?_, key "true" 't' _ rfl (by decide), key "false" 'f' _ rfl (by decide)⟩
  rintro (h | h | h)
  · exact key "~" '~' _ rfl (by decide) h
  · exact key "null" 'n' _ rfl (by decide) h
  · exact key "NULL" 'N' _ rfl (by decide) h

theorem head_dec_unsigned (ds : Str) (hne : ds.isEmpty = false) (hall : ds.all isDec = true ∨ ds.all isOct = true ∨ ds.all isHexD = true) :
    unsignedDigits ds = true := by
  cases ds with
  | nil => simp at hne
  | cons c r =>
    have hc : c ≠ '+' ∧ c ≠ '-' := by
      constructor <;> intro he <;> subst he <;> rcases hall with h | h | h <;> simp at h <;> (have := h.1; revert this; decide)
    simp [unsignedDigits, hc.1, hc.2]

/-- **Integer completeness.** Every integer literal of the core schema whose value fits in 64 bits
    (signed) is read by the resolver as that integer. -/
theorem int_complete (v : Str) (i : Int) (h : coreInt v = some i)
    (hlo : -9223372036854775808 ≤ i) (hhi : i ≤ 9223372036854775807) : parseFromCow v = .int i := by
  unfold coreInt at h
  split at h
  · -- 0o…
    rename_i ds
    split at h
    · rename_i hok
      simp only [Option.some.injEq] at h; subst h
      have hne : ds.isEmpty = false := by cases ds <;> simp at hok ⊢
      have hall : ds.all isOct = true := by simp only [Bool.and_eq_true] at hok; exact hok.2
      have hu := head_dec_unsigned ds hne (Or.inr (Or.inl hall))
      have hf : fromStrRadix ds 8 = some ((valBase 8 ds : Nat) : Int) := by
        rw [fromStrRadix_unsigned 8 ds hu, digitsVal8]
        simp only [hok, ↓reduceIte, Option.bind]
        rw [if_pos (by omega)]
      simp [parseFromCow, stripPrefix, List.isPrefixOf, hu, hf]
    · simp at h
  · -- 0x…
    rename_i ds
    split at h
    · rename_i hok
      simp only [Option.some.injEq] at h; subst h
      have hne : ds.isEmpty = false := by cases ds <;> simp at hok ⊢
      have hall : ds.all isHexD = true := by simp only [Bool.and_eq_true] at hok; exact hok.2
      have hu := head_dec_unsigned ds hne (Or.inr (Or.inr hall))
      have hf : fromStrRadix ds 16 = some ((valBase 16 ds : Nat) : Int) := by
        rw [fromStrRadix_unsigned 16 ds hu, digitsVal16]
        simp only [hok, ↓reduceIte, Option.bind]
        rw [if_pos (by omega)]
      simp [parseFromCow, stripPrefix, List.isPrefixOf, hu, hf]
    · simp at h
  · -- -digits
    rename_i ds
    split at h
    · rename_i hok
      simp only [Option.some.injEq] at h; subst h
      have hne : ds.isEmpty = false := by cases ds <;> simp at hok ⊢
      have hw := not_word '-' ds (Or.inr (Or.inl rfl))
      have hf : fromStrRadix ('-' :: ds) 10 = some (-((valBase 10 ds : Nat) : Int)) := by
        cases ds with
        | nil => simp at hne
        | cons d r =>
          simp only [fromStrRadix]
          rw [digitsVal10]
          simp only [hok, ↓reduceIte, Option.bind]
          rw [if_pos (by omega)]
      have hnone : ∀ p : Str, p.head? ≠ some '-' → p ≠ [] → stripPrefix p ('-' :: ds) = none := by
        intro p hp hpne
        cases hsp : stripPrefix p ('-' :: ds) with
        | none => rfl
        | some n =>
          have := stripPrefix_some hsp
          cases p with
          | nil => exact absurd rfl hpne
          | cons a t => simp only [List.cons_append, List.cons.injEq] at this; exact absurd (by rw [← this.1]; rfl) hp
      unfold parseFromCow
      simp only [hnone ['0', 'x'] (by decide) (by simp), hnone ['0', 'o'] (by decide) (by simp),
        hnone ['+'] (by decide) (by simp), hw.1, hw.2.1, hw.2.2, ↓reduceIte, hf]
    · simp at h
  · -- +digits
    rename_i ds
    split at h
    · rename_i hok
      simp only [Option.some.injEq] at h; subst h
      have hne : ds.isEmpty = false := by cases ds <;> simp at hok ⊢
      have hall : ds.all isDec = true := by simp only [Bool.and_eq_true] at hok; exact hok.2
      have hu := head_dec_unsigned ds hne (Or.inl hall)
      have hf : fromStrRadix ds 10 = some ((valBase 10 ds : Nat) : Int) := by
        rw [fromStrRadix_unsigned 10 ds hu, digitsVal10]
        simp only [hok, ↓reduceIte, Option.bind]
        rw [if_pos (by omega)]
      simp [parseFromCow, stripPrefix, List.isPrefixOf, hu, hf]
    · simp at h
  · -- digits
    rename_i ds h1 h2 h3 h4
    split at h
    · rename_i hok
      simp only [Option.some.injEq] at h; subst h
      have hne : v.isEmpty = false := by cases v <;> simp at hok ⊢
      have hall : v.all isDec = true := by simp only [Bool.and_eq_true] at hok; exact hok.2
      have hu := head_dec_unsigned v hne (Or.inl hall)
      have hf : fromStrRadix v 10 = some ((valBase 10 v : Nat) : Int) := by
        rw [fromStrRadix_unsigned 10 v hu, digitsVal10]
        simp only [hok, ↓reduceIte, Option.bind]
        rw [if_pos (by omega)]
      cases v with
      | nil => simp at hne
      | cons c r =>
        have hcd : isDec c = true := by simp at hall; exact hall.1
        have hw := not_word c r (Or.inl hcd)
        have hx : stripPrefix ['0', 'x'] (c :: r) = none := by
          cases hsp : stripPrefix ['0', 'x'] (c :: r) with
          | none => rfl
          | some n => exact absurd (stripPrefix_some hsp) (by intro he; exact h2 n he)
        have ho : stripPrefix ['0', 'o'] (c :: r) = none := by
          cases hsp : stripPrefix ['0', 'o'] (c :: r) with
          | none => rfl
          | some n => exact absurd (stripPrefix_some hsp) (by intro he; exact h1 n he)
        have hp : stripPrefix ['+'] (c :: r) = none := by
          cases hsp : stripPrefix ['+'] (c :: r) with
          | none => rfl
          | some n => exact absurd (stripPrefix_some hsp) (by intro he; exact h4 n he)
        unfold parseFromCow
        simp only [hx, ho, hp, hw.1, hw.2.1, hw.2.2, ↓reduceIte, hf]
    · simp at h

end SaphyrModel.IntParse
